(* StoreAlloc.v — the store layer Store.v satisfies the byte-vector contract of
   spec/VecSpec.v in the cases that ALLOCATE (properties C06 / C08):
   1. a small stream growing past the mini sectors it has; the new mini
      sectors come (a) from the mini free list and/or (b) are appended within
      the retained capacity of the MiniFAT chain and of the mini-stream
      container (resize_small_alloc, write_data_small_alloc); (c) the branch
      of allocate_mini_sector that extends the container by a regular sector,
      at the allocation level (allocate_mini_extends_container);
   2. the first write / resize of an empty stream: to a small stream (case 1a:
      resize_empty_small, write_data_empty_small) or directly to a large one
      (case 1b: resize_empty_big, write_data_empty_big);
   3. migration 2b, small -> large (write_data_small_to_big,
      resize_small_to_big): the mini chain is released, the MiniFAT trimmed;
   4. migration 3b, large -> small (resize_big_to_small);
   5. the clauses of the contract restricted to these cases
      (read_data_contract_here, write_data_contract_alloc,
      resize_contract_alloc);
   6. examples on states produced by the model itself.
   Regular sectors are taken from the FAT free stack (the file does not grow).
   Gained bytes read as zero whatever the reused (mini) sectors held; every
   other small, large or empty stream keeps its content (others_kept); the
   well-formedness SWf (decidable: swf_b) is preserved.
   Stdlib only; no axioms, no admits. *)
From Coq Require Import List NArith Lia Bool ZifyN ZifyBool.
From Cfb.model Require Import Base Names DirEnt State Alloc Dir Mini Store.
From Cfb.gen Require Import Consts.
From Cfb.proofs Require Import ChainProofs MiniChainProofs ReuseProofs StoreMiniProofs.
From Cfb.proofs Require CodecProofs WalkProofs StoreProofs.
Import ListNotations.
Open Scope N_scope.

Ltac Zify.zify_post_hook ::= Z.div_mod_to_equations.

Notation path := WalkProofs.path.

Lemma FREE_val : FREE_SECTOR = 4294967295. Proof. reflexivity. Qed.
Lemma EOC_val : END_OF_CHAIN = 4294967294. Proof. reflexivity. Qed.
Lemma MAXREG_val : MAX_REGULAR_SECTOR = 4294967290. Proof. reflexivity. Qed.
Lemma ROOT_val : ROOT_STREAM_ID = 0. Proof. reflexivity. Qed.

(* ------------------------------------------------------------------ *)
(* small facts                                                         *)
(* ------------------------------------------------------------------ *)

Lemma set_start_len_id : forall r, set_start_len r (d_start r) (d_len r) = r.
Proof. intros []. reflexivity. Qed.

Lemma path_hd : forall mf c l, path mf c l -> c = hd END_OF_CHAIN l.
Proof. intros mf c l H. destruct H; reflexivity. Qed.

(* a cell is fresh when it is FREE or beyond the end of the table *)
Definition fresh (mf : list N) (x : N) : Prop :=
  forall w, nthN mf x = Some w -> w = FREE_SECTOR.

Lemma path_not_fresh : forall mf c l x, path mf c l -> In x l -> fresh mf x -> False.
Proof.
  intros mf c l x Hp. induction Hp as [|cur nx l Hc Hn Hp IH]; intros Hin Hf.
  - destruct Hin.
  - destruct Hin as [<-|Hin]; [|exact (IH Hin Hf)].
    apply WalkProofs.next_of_Ok in Hn. destruct Hn as [Hn Hr].
    specialize (Hf _ Hn). rewrite FREE_val, EOC_val, MAXREG_val in *. lia.
Qed.

Lemma path_In_lt : forall mf c l x, path mf c l -> In x l -> x < lenN mf.
Proof.
  intros mf c l x Hp Hin. pose proof (WalkProofs.path_lt _ _ _ Hp) as HF.
  rewrite Forall_forall in HF. exact (HF x Hin).
Qed.

Lemma path_ext_le_out : forall mf mf' c l,
  path mf c l -> lenN mf <= lenN mf' ->
  (forall x, In x l -> nthN mf' x = nthN mf x) -> path mf' c l.
Proof. exact StoreProofs.path_ext_le. Qed.

Lemma chain_of_path : forall mf c l, path mf c l -> chain_ids_of mf c = Ok l.
Proof.
  intros mf c l H. apply WalkProofs.chain_ids_of_path; [exact H|].
  eapply ReuseProofs.path_nodup. exact H.
Qed.

Lemma lastN_nil_inv : forall A (l : list A), lastN l = None -> l = [].
Proof. exact ReuseProofs.lastN_None_nil. Qed.

Lemma lenN_pop_last : forall A (l : list A), l <> [] -> lenN (pop_last l) + 1 = lenN l.
Proof.
  intros A l H. destruct (exists_last H) as (l' & a & ->).
  rewrite pop_last_snoc, lenN_app. reflexivity.
Qed.

Lemma lenN_nil_iff : forall A (l : list A), lenN l = 0 <-> l = [].
Proof.
  intros A l. split; [|intros ->; reflexivity].
  destruct l; [reflexivity|]. cbn [lenN]. lia.
Qed.

(* ------------------------------------------------------------------ *)
(* well-formedness of the mini-stream machinery                        *)
(* ------------------------------------------------------------------ *)

(* [r] is the root entry, [rids] the FAT chain of the mini-stream container,
   [mfids] the FAT chain of the MiniFAT, [dids] the directory chain *)
Record MWf_at (s : cstate) (r : dirent) (rids mfids dids : list N) : Prop := mkMWf {
  mw_root  : nthN (dirs s) ROOT_STREAM_ID = Some r;
  mw_rtype : d_type r <> TStream;
  mw_rch   : chain_ids_of (fat s) (d_start r) = Ok rids;
  mw_rgood : good_chain s rids;
  (* root length = 64 x MiniFAT length, inside the container *)
  mw_rlen  : d_len r = 64 * lenN (minifat s);
  mw_rcap  : 64 * lenN (minifat s) <= slen s * lenN rids;
  mw_mch   : chain_ids_of (fat s) (minifat_start s) = Ok mfids;
  mw_mgood : good_chain s mfids;
  mw_mcap  : 4 * lenN (minifat s) <= slen s * lenN mfids;
  (* mini sector numbers are regular sector numbers *)
  mw_bound : lenN (minifat s) <= MAX_REGULAR_SECTOR + 1;
  mw_dch   : chain_ids_of (fat s) (dir_start s) = Ok dids;
  mw_dgood : good_chain s dids;
  mw_dcap  : DIR_ENTRY_LEN * lenN (dirs s) <= slen s * lenN dids;
  mw_names : forall id e, nthN (dirs s) id = Some e ->
             lenN (utf16 (d_name e)) <= MAX_NAME_LEN;
  (* the container shares no sector with the MiniFAT chain or the directory *)
  mw_rm    : forall x, In x rids -> ~ In x mfids;
  mw_rd    : forall x, In x rids -> ~ In x dids;
  (* the mini free list names only FREE cells, once each *)
  mw_fnd   : NoDup (mfree s);
  mw_ffree : forall x, In x (mfree s) -> nthN (minifat s) x = Some FREE_SECTOR
}.

(* room for [k] more mini sectors without touching the FAT: from the free
   list first, then appended within the retained capacity; an appended mini
   sector lengthens the mini stream, and the root entry must be able to record
   that length (append_mini_sector refuses otherwise: a version 3 entry keeps 32
   bits; the other half of that test, MAX_REGULAR_SECTOR sectors, follows from
   the third conjunct, see [mroom_append_bound]) *)
Definition mroom (s : cstate) (rids mfids : list N) (k : N) : Prop :=
  k <= lenN (mfree s) \/
  (4 * (lenN (minifat s) + (k - lenN (mfree s))) <= slen s * lenN mfids /\
   64 * (lenN (minifat s) + (k - lenN (mfree s))) <= slen s * lenN rids /\
   lenN (minifat s) + (k - lenN (mfree s)) <= MAX_REGULAR_SECTOR + 1 /\
   64 * (lenN (minifat s) + (k - lenN (mfree s))) <= stream_len_mask (ver s)).

Lemma mroom_le : forall s rids mfids k k', k' <= k ->
  mroom s rids mfids k -> mroom s rids mfids k'.
Proof. intros s rids mfids k k' H [H1|(H1 & H2 & H3 & H4)]; [left; lia | right; repeat split; lia]. Qed.

(* the test of append_mini_sector passes *)
Lemma mroom_append_bound : forall s n,
  n <= MAX_REGULAR_SECTOR + 1 -> 64 * n <= stream_len_mask (ver s) ->
  64 * n <= N.min (MAX_REGULAR_SECTOR * slen s) (stream_len_mask (ver s)).
Proof.
  intros s n H1 H2. apply N.min_glb; [|exact H2].
  rewrite MAXREG_val in *. destruct (slen_cases s) as [E|E]; rewrite E; lia.
Qed.

Lemma slen_ver : forall s s', slen s' = slen s -> ver s' = ver s.
Proof.
  intros s s'. unfold slen. destruct (ver s), (ver s'); try reflexivity; vm_compute; discriminate.
Qed.

Lemma mroom_0 : forall s r rids mfids dids,
  MWf_at s r rids mfids dids -> mroom s rids mfids 0.
Proof. intros. left. lia. Qed.

Lemma root_ids_of_wf : forall s r rids mfids dids,
  MWf_at s r rids mfids dids -> root_ids s rids.
Proof. intros s r rids mfids dids W. exists r. split; [apply W | apply W]. Qed.

(* a path in the MiniFAT is a good mini chain *)
Lemma good_mchain_of_path : forall s r rids mfids dids c l,
  MWf_at s r rids mfids dids -> path (minifat s) c l -> good_mchain s rids l.
Proof.
  intros s r rids mfids dids c l W Hp.
  split; [eapply root_ids_of_wf; exact W|]. split; [apply W|].
  split; [eapply ReuseProofs.path_nodup; exact Hp|].
  rewrite Forall_forall. intros x Hx. pose proof (path_In_lt _ _ _ _ Hp Hx) as Hlt.
  pose proof (mw_rcap _ _ _ _ _ W). lia.
Qed.

(* ------------------------------------------------------------------ *)
(* the frame of a mini-level operation                                 *)
(* ------------------------------------------------------------------ *)

(* what an operation on stream [id] whose mini chain ends up as [mall]
   leaves alone *)
Definition mframe (s s' : cstate) (id : N) (rids mfids dids mall : list N) : Prop :=
  same_shape s s' /\ lenN (dirs s') = lenN (dirs s) /\
  (forall j, j <> ROOT_STREAM_ID -> j <> id -> nthN (dirs s') j = nthN (dirs s) j) /\
  (forall y, ~ In y rids -> ~ In y mfids -> ~ In y dids ->
     sector_bytes s' y = sector_bytes s y) /\
  (forall ms, ~ In ms mall -> mini_bytes s' rids ms = mini_bytes s rids ms) /\
  lenN (minifat s) <= lenN (minifat s') /\
  (forall y, ~ In y mall -> y < lenN (minifat s) ->
     nthN (minifat s') y = nthN (minifat s) y).

Lemma mframe_refl : forall s id rids mfids dids mall, mframe s s id rids mfids dids mall.
Proof.
  intros. unfold mframe. split; [apply same_shape_refl|].
  repeat split; intros; reflexivity.
Qed.

Lemma mframe_trans : forall s s1 s2 id rids mfids dids m1 m2 m,
  mframe s s1 id rids mfids dids m1 -> mframe s1 s2 id rids mfids dids m2 ->
  (forall x, In x m1 -> In x m) -> (forall x, In x m2 -> In x m) ->
  mframe s s2 id rids mfids dids m.
Proof.
  intros s s1 s2 id rids mfids dids m1 m2 m
         (A1 & A2 & A3 & A4 & A5 & A6 & A7) (B1 & B2 & B3 & B4 & B5 & B6 & B7) H1 H2.
  unfold mframe. split; [eapply same_shape_trans; eassumption|].
  split; [congruence|]. split; [|split; [|split; [|split]]].
  - intros j Hj1 Hj2. rewrite B3, A3 by assumption. reflexivity.
  - intros y Y1 Y2 Y3. rewrite B4, A4 by assumption. reflexivity.
  - intros ms Hms. rewrite B5, A5; [reflexivity| |]; intro Hin; apply Hms; auto.
  - lia.
  - intros y Hy Hlt. rewrite B7, A7; [reflexivity| | | |]; try lia;
      intro Hin; apply Hy; auto.
Qed.

Lemma mini_stream_ext : forall s s' rids,
  (forall x, In x rids -> sector_bytes s' x = sector_bytes s x) ->
  mini_stream s' rids = mini_stream s rids.
Proof. intros. unfold mini_stream. apply StoreProofs.chain_content_ext. assumption. Qed.

Lemma mini_bytes_ext : forall s s' rids,
  (forall x, In x rids -> sector_bytes s' x = sector_bytes s x) ->
  forall ms, mini_bytes s' rids ms = mini_bytes s rids ms.
Proof. intros s s' rids H ms. unfold mini_bytes. rewrite (mini_stream_ext s s' rids H). reflexivity. Qed.

(* ------------------------------------------------------------------ *)
(* with_dir_entry_mut and set_minifat, with their frames               *)
(* ------------------------------------------------------------------ *)

Lemma with_mut_spec : forall s id e f dids,
  nthN (dirs s) id = Some e ->
  lenN (utf16 (d_name (f e))) <= MAX_NAME_LEN ->
  chain_ids_of (fat s) (dir_start s) = Ok dids -> good_chain s dids ->
  DIR_ENTRY_LEN * (id + 1) <= slen s * lenN dids ->
  exists s',
    with_dir_entry_mut id f s = (s', Ok tt) /\
    s' = w_img (w_dirs s (updN (dirs s) id (f e))) (img s') /\
    lenN (img s') = lenN (img s) /\
    (forall x, ~ In x dids -> sector_bytes s' x = sector_bytes s x) /\
    (forall x, lenN (sector_bytes s' x) = lenN (sector_bytes s x)).
Proof.
  intros s id e f dids Hn Hname Hch Hgood Hslot.
  pose proof (nthN_Some_lt _ _ _ _ Hn) as Hlt.
  set (s0 := w_dirs s (updN (dirs s) id (f e))).
  destruct (write_dir_entry_spec s0 id (f e) dids)
    as (s' & Hw & Hmeta & Himg & Hfr & Hlen & _); try assumption.
  - unfold s0. cbn [dirs w_dirs]. apply nthN_updN_same. exact Hlt.
  - exists s'. split; [|repeat split; assumption].
    unfold with_dir_entry_mut, with_dir_entry_mut_inner, dir_entry, set_dir_entry. sred.
    rewrite Hn. sred. rewrite Hn. fold s0. rewrite Hw. reflexivity.
Qed.

Lemma same_shape_of_meta : forall s s',
  ver s' = ver s -> nsect s' = nsect s -> lenN (img s') = lenN (img s) ->
  (forall x, lenN (sector_bytes s' x) = lenN (sector_bytes s x)) ->
  fat s' = fat s -> free s' = free s -> difat s' = difat s ->
  dir_start s' = dir_start s -> minifat_start s' = minifat_start s ->
  same_shape s s'.
Proof. intros. unfold same_shape. repeat split; assumption. Qed.

Lemma set_minifat_fr : forall s idx v ids,
  idx <= lenN (minifat s) ->
  chain_ids_of (fat s) (minifat_start s) = Ok ids -> good_chain s ids ->
  4 * idx + 4 <= slen s * lenN ids ->
  exists s',
    set_minifat idx v s = (s', Ok tt) /\ same_shape s s' /\
    minifat s' = fat_set (minifat s) idx v /\ mfree s' = mfree s /\ dirs s' = dirs s /\
    (forall x, ~ In x ids -> sector_bytes s' x = sector_bytes s x).
Proof.
  intros s idx v ids Hidx Hc Hg Hcap. unfold set_minifat. rewrite bind_get.
  destruct (lenN (minifat s) <? idx) eqn:E1; [lia|].
  rewrite (bind_exec _ _ _ _ _ (chain_new_exec s _ IFat ids Hc)).
  unfold chain_len at 1. cbn [c_ids].
  destruct (slen s * lenN ids <? idx * 4 + 4) eqn:E2; [lia|].
  destruct (chain_seek_spec s (mkChain IFat ids 0) (idx * 4)) as [Hseek _].
  rewrite (bind_exec _ _ _ _ _ (Hseek ltac:(unfold chain_len; cbn [c_ids]; lia))).
  cbn [c_init c_ids].
  destruct (chain_write_spec s (mkChain IFat ids (idx * 4)) (le_bytes 4 v))
    as (s' & E & _ & _ & _ & Hfr & Hl & Hi & Hm).
  - exact Hg.
  - rewrite CodecProofs.lenN_le_bytes4. unfold chain_len. cbn [c_off c_ids]. lia.
  - rewrite (bind_exec _ _ _ _ _ E).
    destruct (same_meta_fields s s' Hm)
      as (A1 & A2 & A3 & A4 & A5 & A6 & A7 & A8 & A9 & A10 & A11 & A12).
    eexists. split; [reflexivity|].
    split.
    { unfold same_shape. cbn [nsect ver img fat free difat dir_start minifat_start w_minifat].
      repeat split; assumption. }
    cbn [minifat mfree dirs w_minifat]. rewrite A9. unfold fat_set.
    split; [reflexivity|]. split; [assumption|]. split; [assumption|].
    cbn [c_ids] in Hfr. intros x Hx. rewrite <- (Hfr x Hx). reflexivity.
Qed.

(* ------------------------------------------------------------------ *)
(* MWf_at only depends on the shape, the directory, the MiniFAT        *)
(* ------------------------------------------------------------------ *)

Lemma MWf_transfer : forall s s' r r' rids mfids dids,
  MWf_at s r rids mfids dids -> same_shape s s' ->
  lenN (dirs s') = lenN (dirs s) ->
  (forall id e, nthN (dirs s') id = Some e -> lenN (utf16 (d_name e)) <= MAX_NAME_LEN) ->
  nthN (dirs s') ROOT_STREAM_ID = Some r' -> d_type r' <> TStream ->
  d_start r' = d_start r ->
  d_len r' = 64 * lenN (minifat s') ->
  64 * lenN (minifat s') <= slen s * lenN rids ->
  4 * lenN (minifat s') <= slen s * lenN mfids ->
  lenN (minifat s') <= MAX_REGULAR_SECTOR + 1 ->
  NoDup (mfree s') ->
  (forall x, In x (mfree s') -> nthN (minifat s') x = Some FREE_SECTOR) ->
  MWf_at s' r' rids mfids dids.
Proof.
  intros s s' r r' rids mfids dids W Hsh Hld Hnm Hr' Ht' Hst' Hlen' Hrc Hmc Hbd Hnd Hff.
  pose proof (same_shape_slen _ _ Hsh) as Hsl.
  pose proof Hsh as (Hn & Hv & Hi & Hl & Hfat & Hfree & Hdifat & Hds & Hms).
  constructor; try assumption.
  - rewrite Hfat, Hst'. apply W.
  - eapply good_chain_shape; [apply W | exact Hsh].
  - rewrite Hsl. exact Hrc.
  - rewrite Hfat, Hms. apply W.
  - eapply good_chain_shape; [apply W | exact Hsh].
  - rewrite Hsl. exact Hmc.
  - rewrite Hfat, Hds. apply W.
  - eapply good_chain_shape; [apply W | exact Hsh].
  - rewrite Hld, Hsl. apply W.
  - apply W.
  - apply W.
Qed.

(* ------------------------------------------------------------------ *)
(* one allocation of a mini sector, without touching the FAT           *)
(* ------------------------------------------------------------------ *)

Lemma slen_div4 : forall s a n, 4 * (a + 1) <= slen s * n -> a < n * (slen s / 4).
Proof.
  intros s a n H. destruct (slen_cases s) as [E|E]; rewrite E in *.
  - change (512 / 4) with 128. lia.
  - change (4096 / 4) with 1024. lia.
Qed.

Lemma alloc_mini_step : forall s v r rids mfids dids,
  MWf_at s r rids mfids dids -> mroom s rids mfids 1 ->
  exists s' idx,
    allocate_mini_sector v s = (s', Ok idx) /\
    fresh (minifat s) idx /\ idx <= lenN (minifat s) /\
    minifat s' = fat_set (minifat s) idx v /\
    mfree s' = pop_last (mfree s) /\ ~ In idx (mfree s') /\
    MWf_at s' (set_start_len r (d_start r) (64 * lenN (minifat s'))) rids mfids dids /\
    same_shape s s' /\ lenN (dirs s') = lenN (dirs s) /\
    (forall j, j <> ROOT_STREAM_ID -> nthN (dirs s') j = nthN (dirs s) j) /\
    (forall x, ~ In x mfids -> ~ In x dids -> sector_bytes s' x = sector_bytes s x) /\
    (forall k, mroom s rids mfids (k + 1) -> mroom s' rids mfids k).
Proof.
  intros s v r rids mfids dids W Hroom.
  destruct (lastN (mfree s)) as [idx|] eqn:Elast.
  - (* reuse the top of the free list *)
    pose proof (lastN_Some_snoc _ _ _ Elast) as Emf.
    set (l1 := pop_last (mfree s)) in *.
    assert (Hin : In idx (mfree s)) by (rewrite Emf; apply in_or_app; right; left; reflexivity).
    pose proof (mw_ffree _ _ _ _ _ W idx Hin) as Hcell.
    pose proof (nthN_Some_lt _ _ _ _ Hcell) as Hlt.
    pose proof (mw_fnd _ _ _ _ _ W) as Hnd. rewrite Emf in Hnd.
    pose proof (NoDup_remove_1 _ _ _ Hnd) as Hnd1. rewrite app_nil_r in Hnd1.
    pose proof (NoDup_remove_2 _ _ _ Hnd) as Hni. rewrite app_nil_r in Hni.
    set (s1 := w_mfree s l1).
    destruct (set_minifat_fr s1 idx v mfids) as (s' & E & Hsh & Hmf & Hmfr & Hd & Hfr).
    { cbn [s1 minifat w_mfree]. lia. }
    { exact (mw_mch _ _ _ _ _ W). }
    { exact (mw_mgood _ _ _ _ _ W). }
    { change (slen s1) with (slen s). pose proof (mw_mcap _ _ _ _ _ W). lia. }
    assert (Hsh0 : same_shape s s').
    { eapply same_shape_trans; [|exact Hsh]. unfold same_shape. repeat split. }
    cbn [s1 minifat mfree dirs w_mfree] in Hmf, Hmfr, Hd.
    assert (Hmf' : minifat s' = updN (minifat s) idx v).
    { rewrite Hmf. unfold fat_set. destruct (idx =? lenN (minifat s)) eqn:Ei; [lia|reflexivity]. }
    assert (Hlen' : lenN (minifat s') = lenN (minifat s)) by (rewrite Hmf'; apply lenN_updN).
    exists s', idx.
    split.
    { unfold allocate_mini_sector. rewrite bind_get.
      rewrite (bind_exec _ _ _ _ _
                 (pop_free_mini_found [] (S (length (mfree s))) s l1 idx Emf Hcell (Forall_nil _)
                    ltac:(cbn [length]; lia))).
      fold s1. rewrite (bind_exec _ _ _ _ _ E). reflexivity. }
    split; [intros w Hw; rewrite Hcell in Hw; injection Hw as <-; reflexivity|].
    split; [lia|]. split; [exact Hmf|]. split; [exact Hmfr|].
    split; [rewrite Hmfr; exact Hni|].
    split.
    { rewrite Hlen', <- (mw_rlen _ _ _ _ _ W), set_start_len_id.
      apply (MWf_transfer s s' r r rids mfids dids W Hsh0).
      - rewrite Hd. reflexivity.
      - intros id e He. rewrite Hd in He. eapply mw_names; eassumption.
      - rewrite Hd. apply W.
      - apply W.
      - reflexivity.
      - rewrite Hlen'. apply W.
      - rewrite Hlen'. apply W.
      - rewrite Hlen'. apply W.
      - rewrite Hlen'. apply W.
      - rewrite Hmfr. exact Hnd1.
      - intros x Hx. rewrite Hmfr in Hx. rewrite Hmf'.
        rewrite nthN_updN_other by (intro Eq; subst x; contradiction).
        apply (mw_ffree _ _ _ _ _ W). rewrite Emf. apply in_or_app. left. exact Hx. }
    split; [exact Hsh0|]. split; [rewrite Hd; reflexivity|].
    split; [intros j _; rewrite Hd; reflexivity|].
    split; [intros x Hx _; rewrite (Hfr x Hx); reflexivity|].
    intros k Hk. unfold mroom in Hk |- *. rewrite Emf, lenN_app in Hk. cbn [lenN] in Hk.
    rewrite Hmfr, Hlen'.
    pose proof (same_shape_slen _ _ Hsh0) as Hsl. rewrite Hsl.
    destruct Hk as [Hk|(Hk1 & Hk2 & Hk3 & Hk4)]; [left; lia|].
    destruct (N.le_gt_cases k (lenN l1)) as [Hle|Hgt]; [left; exact Hle|].
    right. replace (k - lenN l1) with (k + 1 - (lenN l1 + N.succ 0)) by lia.
    destruct Hsh0 as (_ & Hv0 & _). rewrite Hv0.
    repeat split; assumption.
  - (* nothing free: append within the retained capacity *)
    apply lastN_nil_inv in Elast.
    assert (Hcap : 4 * (lenN (minifat s) + 1) <= slen s * lenN mfids /\
                   64 * (lenN (minifat s) + 1) <= slen s * lenN rids /\
                   lenN (minifat s) + 1 <= MAX_REGULAR_SECTOR + 1 /\
                   64 * (lenN (minifat s) + 1) <= stream_len_mask (ver s)).
    { unfold mroom in Hroom. rewrite Elast in Hroom. cbn [lenN] in Hroom.
      destruct Hroom as [H|H]; [lia|]. replace (1 - 0) with 1 in H by lia. exact H. }
    destruct Hcap as (Hmcap & Hrcap & Hbcap & Hfit).
    pose proof (slen_pos s) as Hslp.
    assert (Hmne : mfids <> []) by (intros ->; cbn [lenN] in Hmcap; lia).
    assert (Hrne : rids <> []) by (intros ->; cbn [lenN] in Hrcap; lia).
    destruct (StoreProofs.chain_ids_head _ _ _ (mw_mch _ _ _ _ _ W) Hmne) as [Hms _].
    destruct (StoreProofs.chain_ids_head _ _ _ (mw_rch _ _ _ _ _ W) Hrne) as [Hrs _].
    set (f := fun e : dirent => set_start_len e (d_start r) (d_len e + MINI_SECTOR_LEN)).
    pose proof (nthN_Some_lt _ _ _ _ (mw_root _ _ _ _ _ W)) as Hrlt.
    (* the mini stream grows first: the root entry *)
    destruct (with_mut_spec s ROOT_STREAM_ID r f dids (mw_root _ _ _ _ _ W))
      as (s1 & E1 & Hs1 & Himg1 & Hfr1 & Hlen1).
    { cbn [f set_start_len d_name]. eapply mw_names; [exact W|apply W]. }
    { apply W. }
    { apply W. }
    { pose proof (mw_dcap _ _ _ _ _ W) as Hdc. rewrite ROOT_val in *.
      unfold DIR_ENTRY_LEN in *. lia. }
    assert (Hsh1 : same_shape s s1).
    { rewrite Hs1. unfold same_shape. cbn [nsect ver img fat free difat dir_start minifat_start w_img w_dirs].
      repeat split; assumption. }
    pose proof (same_shape_slen _ _ Hsh1) as Hsl1.
    pose proof Hsh1 as (A1 & A2 & A3 & A4 & A5 & A6 & A7 & A8 & A9).
    assert (Hmf1 : minifat s1 = minifat s) by (rewrite Hs1; reflexivity).
    assert (Hmfr1 : mfree s1 = mfree s) by (rewrite Hs1; reflexivity).
    assert (Hd1 : dirs s1 = updN (dirs s) ROOT_STREAM_ID (f r)) by (rewrite Hs1; reflexivity).
    (* then the MiniFAT entry *)
    destruct (set_minifat_fr s1 (lenN (minifat s)) v mfids) as (s2 & E2 & Hsh12 & Hmf2s & Hmfr2s & Hd2s & Hfr2).
    { rewrite Hmf1. lia. }
    { rewrite A5, A9. apply W. }
    { eapply good_chain_shape; [apply W | exact Hsh1]. }
    { rewrite Hsl1. lia. }
    assert (Hsh02 : same_shape s s2) by (eapply same_shape_trans; eassumption).
    assert (Hmf2 : minifat s2 = minifat s ++ [v]).
    { rewrite Hmf2s, Hmf1. unfold fat_set. rewrite N.eqb_refl. reflexivity. }
    assert (Hmfr2 : mfree s2 = []) by (rewrite Hmfr2s, Hmfr1; exact Elast).
    assert (Hd2 : dirs s2 = updN (dirs s) ROOT_STREAM_ID (f r)) by (rewrite Hd2s; exact Hd1).
    assert (Hlen2' : lenN (minifat s2) = lenN (minifat s) + 1) by (rewrite Hmf2, lenN_app; reflexivity).
    assert (Hfr' : f r = set_start_len r (d_start r) (64 * lenN (minifat s2))).
    { unfold f. rewrite (mw_rlen _ _ _ _ _ W), Hlen2'. unfold MINI_SECTOR_LEN.
      f_equal. lia. }
    exists s2, (lenN (minifat s)).
    split.
    { unfold allocate_mini_sector. rewrite bind_get.
      assert (Hpop : pop_free_mini (S (length (mfree s))) s = (s, Ok None)).
      { cbn [pop_free_mini]. rewrite bind_get, Elast. reflexivity. }
      rewrite (bind_exec _ _ _ _ _ Hpop). rewrite bind_get.
      destruct (minifat_start s =? END_OF_CHAIN) eqn:Es; [apply N.eqb_eq in Es; contradiction|].
      assert (Hgrow : (do c <- chain_new (minifat_start s) IFat;
                       if lenN (c_ids c) * (slen s / 4) <=? lenN (minifat s)
                       then do _ <- extend_chain (minifat_start s) IFat;
                            do c2 <- chain_new (minifat_start s) IFat;
                            header_write HDR_OFF_NUM_MINIFAT (le_bytes 4 (lenN (c_ids c2)))
                       else ret tt) s = (s, Ok tt)).
      { rewrite (bind_exec _ _ _ _ _ (chain_new_exec s _ IFat mfids (mw_mch _ _ _ _ _ W))). cbn [c_ids].
        pose proof (slen_div4 s _ _ Hmcap).
        destruct (lenN mfids * (slen s / 4) <=? lenN (minifat s)) eqn:E; [lia | reflexivity]. }
      rewrite (bind_exec _ _ _ _ _ Hgrow). rewrite bind_get. cbv zeta.
      assert (Happ : append_mini_sector s = (s1, Ok tt)).
      { unfold append_mini_sector, root_entry.
        rewrite (bind_exec _ _ _ _ _ (dir_entry_exec s _ r (mw_root _ _ _ _ _ W))).
        assert (Emod : d_len r mod MINI_SECTOR_LEN = 0).
        { rewrite (mw_rlen _ _ _ _ _ W). unfold MINI_SECTOR_LEN. lia. }
        rewrite Emod. cbn [N.eqb negb]. rewrite bind_ret.
        rewrite bind_get.
        pose proof (mroom_append_bound s _ Hbcap Hfit) as Hbd.
        destruct (N.min (MAX_REGULAR_SECTOR * slen s) (stream_len_mask (ver s)) <? d_len r + MINI_SECTOR_LEN) eqn:Eb;
          [apply N.ltb_lt in Eb; rewrite (mw_rlen _ _ _ _ _ W) in Eb; unfold MINI_SECTOR_LEN in Eb; lia|].
        rewrite bind_ret.
        destruct (d_start r =? END_OF_CHAIN) eqn:Er; [apply N.eqb_eq in Er; contradiction|].
        assert (Hns : (do c <- chain_new (d_start r) IZero;
                       do s0 <- get;
                       (if chain_len (slen s0) c <=? d_len r
                        then do _ <- extend_chain (d_start r) IZero; ret tt else ret tt);;
                       ret (d_start r)) s = (s, Ok (d_start r))).
        { rewrite (bind_exec _ _ _ _ _ (chain_new_exec s _ IZero rids (mw_rch _ _ _ _ _ W))).
          rewrite bind_get. unfold chain_len. cbn [c_ids]. rewrite (mw_rlen _ _ _ _ _ W).
          destruct (slen s * lenN rids <=? 64 * lenN (minifat s)) eqn:E; [lia | reflexivity]. }
        rewrite (bind_exec _ _ _ _ _ Hns). exact E1. }
      rewrite (bind_exec _ _ _ _ _ (dir_entry_exec s _ r (mw_root _ _ _ _ _ W) : root_entry s = (s, Ok r))).
      replace (d_len r <? (lenN (minifat s) + 1) * MINI_SECTOR_LEN) with true
        by (symmetry; apply N.ltb_lt; rewrite (mw_rlen _ _ _ _ _ W); unfold MINI_SECTOR_LEN; lia).
      rewrite (bind_exec _ _ _ _ _ Happ).
      rewrite (bind_exec _ _ _ _ _ E2). reflexivity. }
    split.
    { intros w Hw. apply nthN_Some_lt in Hw. lia. }
    split; [lia|]. split; [rewrite Hmf2; unfold fat_set; rewrite N.eqb_refl; reflexivity|].
    split; [rewrite Hmfr2, Elast; reflexivity|]. split; [rewrite Hmfr2; intros []|].
    split.
    { rewrite <- Hfr'.
      apply (MWf_transfer s s2 r (f r) rids mfids dids W Hsh02).
      - rewrite Hd2. apply lenN_updN.
      - intros id e He. rewrite Hd2 in He.
        destruct (N.eq_dec id ROOT_STREAM_ID) as [->|Hne].
        + rewrite nthN_updN_same in He by exact Hrlt. injection He as <-.
          cbn [f set_start_len d_name]. eapply mw_names; [exact W|apply W].
        + rewrite nthN_updN_other in He by congruence. eapply mw_names; eassumption.
      - rewrite Hd2. apply nthN_updN_same. exact Hrlt.
      - cbn [f set_start_len d_type]. apply W.
      - reflexivity.
      - rewrite Hfr'. reflexivity.
      - rewrite Hlen2'. lia.
      - rewrite Hlen2'. lia.
      - rewrite Hlen2'. lia.
      - rewrite Hmfr2. constructor.
      - rewrite Hmfr2. intros x []. }
    split; [exact Hsh02|]. split; [rewrite Hd2; apply lenN_updN|].
    split; [intros j Hj; rewrite Hd2; apply nthN_updN_other; congruence|].
    split.
    { intros x Hx1 Hx2. rewrite (Hfr2 x Hx1). apply Hfr1. exact Hx2. }
    intros k Hk. unfold mroom in Hk |- *. rewrite Elast in Hk. cbn [lenN] in Hk.
    rewrite Hmfr2, Hlen2'. cbn [lenN].
    pose proof (same_shape_slen _ _ Hsh02) as Hsl. rewrite Hsl.
    destruct Hk as [Hk|(Hk1 & Hk2 & Hk3 & Hk4)]; [lia|].
    right. replace (lenN (minifat s) + 1 + (k - 0)) with (lenN (minifat s) + (k + 1 - 0)) by lia.
    destruct Hsh02 as (_ & Hv02 & _). rewrite Hv02.
    repeat split; assumption.
Qed.

(* the refusal at the bound.  allocate_mini_sector may extend the MiniFAT chain
   BEFORE append_mini_sector runs its test; in a well-formed state that never
   precedes a refusal: the test fails only when the MiniFAT has 2^26 - 1 entries
   (version 3; never in version 4), which does not fill whole MiniFAT sectors,
   so the chain is not extended and the state is returned as it was *)
Lemma alloc_mini_refused_unchanged : forall s v r rids mfids dids,
  MWf_at s r rids mfids dids -> mfree s = [] ->
  d_len r <= stream_len_mask (ver s) ->
  N.min (MAX_REGULAR_SECTOR * slen s) (stream_len_mask (ver s)) < d_len r + MINI_SECTOR_LEN ->
  allocate_mini_sector v s = (s, Err EInvalidInput).
Proof.
  intros s v r rids mfids dids W Hmfree Hfits Hover.
  pose proof (mw_rlen _ _ _ _ _ W) as Hrlen.
  pose proof (mw_mcap _ _ _ _ _ W) as Hmcap.
  pose proof (mw_bound _ _ _ _ _ W) as Hbd.
  rewrite Hrlen in Hfits, Hover. unfold MINI_SECTOR_LEN in Hover. rewrite MAXREG_val in *.
  (* version 3, 2^26 - 1 entries, and the MiniFAT chain has room for one more *)
  assert (Hn : lenN (minifat s) = 67108863 /\ slen s = 512 /\ lenN (minifat s) < lenN mfids * (slen s / 4)).
  { unfold slen, stream_len_mask in *. destruct (ver s).
    - change V3_STREAM_LEN_MASK with 4294967295 in *. change (sector_len V3) with 512 in *.
      change (512 / 4) with 128.
      assert (lenN (minifat s) = 67108863) by lia. repeat split; try assumption; lia.
    - change V4_STREAM_LEN_MASK with 18446744073709551615 in *. change (sector_len V4) with 4096 in *. lia. }
  destruct Hn as (Hn & Hsl & Hroom).
  assert (Hmne : mfids <> []) by (intros ->; cbn [lenN] in Hroom; lia).
  destruct (StoreProofs.chain_ids_head _ _ _ (mw_mch _ _ _ _ _ W) Hmne) as [Hms _].
  unfold allocate_mini_sector. rewrite bind_get.
  assert (Hpop : pop_free_mini (S (length (mfree s))) s = (s, Ok None)).
  { cbn [pop_free_mini]. rewrite bind_get, Hmfree. reflexivity. }
  rewrite (bind_exec _ _ _ _ _ Hpop). rewrite bind_get.
  destruct (minifat_start s =? END_OF_CHAIN) eqn:Es; [apply N.eqb_eq in Es; contradiction|].
  assert (Hgrow : (do c <- chain_new (minifat_start s) IFat;
                   if lenN (c_ids c) * (slen s / 4) <=? lenN (minifat s)
                   then do _ <- extend_chain (minifat_start s) IFat;
                        do c2 <- chain_new (minifat_start s) IFat;
                        header_write HDR_OFF_NUM_MINIFAT (le_bytes 4 (lenN (c_ids c2)))
                   else ret tt) s = (s, Ok tt)).
  { rewrite (bind_exec _ _ _ _ _ (chain_new_exec s _ IFat mfids (mw_mch _ _ _ _ _ W))). cbn [c_ids].
    destruct (lenN mfids * (slen s / 4) <=? lenN (minifat s)) eqn:E; [lia | reflexivity]. }
  rewrite (bind_exec _ _ _ _ _ Hgrow). rewrite bind_get. cbv zeta.
  rewrite (bind_exec _ _ _ _ _ (dir_entry_exec s _ r (mw_root _ _ _ _ _ W) : root_entry s = (s, Ok r))).
  replace (d_len r <? (lenN (minifat s) + 1) * MINI_SECTOR_LEN) with true
    by (symmetry; apply N.ltb_lt; rewrite Hrlen; unfold MINI_SECTOR_LEN; lia).
  assert (Happ : append_mini_sector s = (s, Err EInvalidInput)).
  { unfold append_mini_sector, root_entry.
    rewrite (bind_exec _ _ _ _ _ (dir_entry_exec s _ r (mw_root _ _ _ _ _ W))).
    assert (Emod : d_len r mod MINI_SECTOR_LEN = 0).
    { rewrite Hrlen. unfold MINI_SECTOR_LEN. lia. }
    rewrite Emod. cbn [N.eqb negb]. rewrite bind_ret. rewrite bind_get.
    replace (N.min (MAX_REGULAR_SECTOR * slen s) (stream_len_mask (ver s)) <? d_len r + MINI_SECTOR_LEN) with true
      by (symmetry; apply N.ltb_lt; rewrite Hrlen, MAXREG_val; unfold MINI_SECTOR_LEN; exact Hover).
    reflexivity. }
  unfold bind at 1. rewrite Happ. reflexivity.
Qed.

(* ------------------------------------------------------------------ *)
(* one more mini sector at the end of a mini chain                     *)
(* ------------------------------------------------------------------ *)

Definition extend_or_begin (mids : list N) : M N :=
  match lastN mids with
  | Some last => extend_mini_chain last
  | None => begin_mini_chain
  end.

Lemma mroom_same : forall s s' rids mfids k,
  lenN (minifat s') = lenN (minifat s) -> mfree s' = mfree s -> slen s' = slen s ->
  mroom s rids mfids k -> mroom s' rids mfids k.
Proof. intros s s' rids mfids k H1 H2 H3 H. unfold mroom in *. rewrite H1, H2, H3, (slen_ver _ _ H3). exact H. Qed.

Lemma mini_extend_step : forall s mids r rids mfids dids id,
  MWf_at s r rids mfids dids ->
  path (minifat s) (hd END_OF_CHAIN mids) mids ->
  mroom s rids mfids 1 ->
  exists s' x r',
    extend_or_begin mids s = (s', Ok x) /\
    MWf_at s' r' rids mfids dids /\
    path (minifat s') (hd END_OF_CHAIN (mids ++ [x])) (mids ++ [x]) /\
    fresh (minifat s) x /\ ~ In x mids /\
    mframe s s' id rids mfids dids (mids ++ [x]) /\
    (forall y, In y rids -> sector_bytes s' y = sector_bytes s y) /\
    (forall k, mroom s rids mfids (k + 1) -> mroom s' rids mfids k).
Proof.
  intros s mids r rids mfids dids id W Hp Hroom.
  destruct (alloc_mini_step s END_OF_CHAIN r rids mfids dids W Hroom)
    as (s1 & x & Ea & Hfresh & Hxle & Hmf1 & Hmfr1 & Hxni & W1 & Hsh1 & Hld1 & Hdj1 & Hfr1 & Hroom1).
  set (r1 := set_start_len r (d_start r) (64 * lenN (minifat s1))) in *.
  assert (Hxmids : ~ In x mids) by (intro Hin; exact (path_not_fresh _ _ _ _ Hp Hin Hfresh)).
  assert (Hlen1 : lenN (minifat s) <= lenN (minifat s1)).
  { rewrite Hmf1. unfold fat_set. destruct (x =? lenN (minifat s)); [rewrite lenN_app|rewrite lenN_updN]; lia. }
  assert (Hxlt1 : x < lenN (minifat s1)).
  { rewrite Hmf1. unfold fat_set. destruct (x =? lenN (minifat s)) eqn:Ex;
      [rewrite lenN_app; cbn [lenN]|rewrite lenN_updN]; lia. }
  assert (Hxreg : x <= MAX_REGULAR_SECTOR /\ x <> END_OF_CHAIN).
  { pose proof (mw_bound _ _ _ _ _ W1). rewrite EOC_val, MAXREG_val in *. lia. }
  destruct Hxreg as [Hxreg Hxeoc].
  assert (Hcell1 : nthN (minifat s1) x = Some END_OF_CHAIN)
    by (rewrite Hmf1; apply nthN_fat_set_same; exact Hxle).
  assert (Hoth1 : forall y, y <> x -> nthN (minifat s1) y = nthN (minifat s) y)
    by (intros y Hy; rewrite Hmf1; apply nthN_fat_set_other; [exact Hy | exact Hxle]).
  assert (Hp1 : path (minifat s1) (hd END_OF_CHAIN mids) mids).
  { apply (path_ext_le_out _ _ _ _ Hp Hlen1). intros y Hy. apply Hoth1.
    intro E. subst y. contradiction. }
  assert (Hrids1 : forall y, In y rids -> sector_bytes s1 y = sector_bytes s y).
  { intros y Hy. apply Hfr1; [exact (mw_rm _ _ _ _ _ W y Hy) | exact (mw_rd _ _ _ _ _ W y Hy)]. }
  unfold extend_or_begin.
  destruct (lastN mids) as [last|] eqn:Elast.
  - (* extend_mini_chain last *)
    pose proof (lastN_Some_snoc _ _ _ Elast) as Emids.
    set (l := pop_last mids) in *.
    pose proof Hp as Hp0. rewrite Emids in Hp0.
    pose proof (StoreProofs.path_last_EOC _ _ _ _ Hp0) as Hnx.
    pose proof (WalkProofs.next_of_lt _ _ _ Hnx) as Hlast_lt.
    pose proof (ReuseProofs.path_nodup _ _ _ Hp0) as Hnodup.
    assert (Hlast_l : ~ In last l).
    { apply NoDup_remove_2 in Hnodup. rewrite app_nil_r in Hnodup. exact Hnodup. }
    assert (Hlast_ne : last <> END_OF_CHAIN).
    { apply StoreProofs.path_mid in Hp0. inversion Hp0 as [|cur nx l' Hc Hn' Hp']. exact Hc. }
    assert (Hlast_in : In last mids) by (rewrite Emids; apply in_or_app; right; left; reflexivity).
    assert (Hlx : last <> x) by (intro E; subst x; contradiction).
    destruct (set_minifat_fr s1 last x mfids) as (s2 & E2 & Hsh2 & Hmf2 & Hmfr2 & Hd2 & Hfr2).
    { lia. } { apply W1. } { apply W1. }
    { pose proof (mw_mcap _ _ _ _ _ W1). lia. }
    assert (Hmf2' : minifat s2 = updN (minifat s1) last x).
    { rewrite Hmf2. unfold fat_set. destruct (last =? lenN (minifat s1)) eqn:Ei; [lia|reflexivity]. }
    assert (Hlen2 : lenN (minifat s2) = lenN (minifat s1)) by (rewrite Hmf2'; apply lenN_updN).
    pose proof (same_shape_slen _ _ Hsh2) as Hsl2.
    assert (Hsh02 : same_shape s s2) by (eapply same_shape_trans; eassumption).
    exists s2, x, r1.
    split.
    { unfold extend_mini_chain.
      destruct (last =? END_OF_CHAIN) eqn:E; [apply N.eqb_eq in E; contradiction|].
      rewrite bind_get. rewrite (StoreProofs.find_last_at_end _ _ Hnx). rewrite bind_lift_ok.
      unfold begin_mini_chain in Ea.
      rewrite (bind_exec _ _ _ _ _ Ea). rewrite (bind_exec _ _ _ _ _ E2). reflexivity. }
    split.
    { apply (MWf_transfer s1 s2 r1 r1 rids mfids dids W1 Hsh2).
      - rewrite Hd2. reflexivity.
      - intros j e He. rewrite Hd2 in He. eapply mw_names; eassumption.
      - rewrite Hd2. apply W1.
      - apply W1.
      - reflexivity.
      - rewrite Hlen2. apply W1.
      - rewrite Hlen2. apply W1.
      - rewrite Hlen2. apply W1.
      - rewrite Hlen2. apply W1.
      - rewrite Hmfr2. apply W1.
      - intros y Hy. rewrite Hmfr2 in Hy. rewrite Hmf2'.
        pose proof (mw_ffree _ _ _ _ _ W1 y Hy) as Hcy.
        rewrite nthN_updN_other; [exact Hcy|].
        intro Eq. subst y. rewrite (Hoth1 last Hlx) in Hcy.
        apply WalkProofs.next_of_Ok in Hnx. destruct Hnx as [Hnx _].
        rewrite Hnx in Hcy. discriminate. }
    split.
    { rewrite Hmf2', Emids. rewrite <- app_assoc. cbn [app].
      replace (hd END_OF_CHAIN (l ++ [last; x])) with (hd END_OF_CHAIN (l ++ [last]))
        by (destruct l; reflexivity).
      apply StoreProofs.path_extend; try assumption.
      - rewrite <- Emids. exact Hp1.
      - intro Hin. apply Hxmids. rewrite Emids. apply in_or_app. left. exact Hin. }
    split; [exact Hfresh|]. split; [exact Hxmids|].
    split.
    { unfold mframe. split; [exact Hsh02|]. split; [rewrite Hd2; exact Hld1|].
      split; [intros j Hj _; rewrite Hd2; apply Hdj1; exact Hj|].
      split; [intros y Y1 Y2 Y3; rewrite (Hfr2 y Y2); apply Hfr1; assumption|].
      split.
      { intros ms _. apply mini_bytes_ext. intros y Hy.
        rewrite (Hfr2 y (mw_rm _ _ _ _ _ W y Hy)). apply Hrids1. exact Hy. }
      split; [lia|].
      intros y Hy Hlt. rewrite Hmf2'.
      rewrite nthN_updN_other by (intro Eq; subst y; apply Hy; apply in_or_app; left; exact Hlast_in).
      apply Hoth1. intro Eq. subst y. apply Hy. apply in_or_app. right. left. reflexivity. }
    split.
    { intros y Hy. rewrite (Hfr2 y (mw_rm _ _ _ _ _ W y Hy)). apply Hrids1. exact Hy. }
    intros k Hk. apply (mroom_same s1 s2); [exact Hlen2 | exact Hmfr2 | exact Hsl2 |].
    apply Hroom1. exact Hk.
  - (* begin_mini_chain *)
    apply lastN_nil_inv in Elast. subst mids. cbn [app hd].
    exists s1, x, r1.
    split; [exact Ea|]. split; [exact W1|].
    split.
    { econstructor; [exact Hxeoc| |constructor].
      apply WalkProofs.next_of_Ok. split; [exact Hcell1 | left; reflexivity]. }
    split; [exact Hfresh|]. split; [intros []|].
    split.
    { unfold mframe. split; [exact Hsh1|]. split; [exact Hld1|].
      split; [intros j Hj _; apply Hdj1; exact Hj|].
      split; [intros y Y1 Y2 Y3; apply Hfr1; assumption|].
      split; [intros ms _; apply mini_bytes_ext; exact Hrids1|].
      split; [exact Hlen1|].
      intros y Hy Hlt. apply Hoth1. intro Eq. subst y. apply Hy. left. reflexivity. }
    split; [exact Hrids1 | exact Hroom1].
Qed.

Lemma fresh_back : forall s s1 id rids mfids dids m c y,
  mframe s s1 id rids mfids dids m -> path (minifat s1) c m ->
  fresh (minifat s1) y -> fresh (minifat s) y.
Proof.
  intros s s1 id rids mfids dids m c y (_ & _ & _ & _ & _ & Hlen & Hcells) Hp Hf w Hw.
  pose proof (nthN_Some_lt _ _ _ _ Hw) as Hlt.
  destruct (in_dec N.eq_dec y m) as [Hin|Hni].
  - exfalso. exact (path_not_fresh _ _ _ _ Hp Hin Hf).
  - apply Hf. rewrite (Hcells y Hni Hlt). exact Hw.
Qed.

(* ------------------------------------------------------------------ *)
(* MiniChain::set_len growing by k mini sectors                        *)
(* ------------------------------------------------------------------ *)

Lemma mchain_grow_spec : forall k s mids o r rids mfids dids id,
  MWf_at s r rids mfids dids ->
  path (minifat s) (hd END_OF_CHAIN mids) mids ->
  mroom s rids mfids (N.of_nat k) ->
  exists s' news r',
    mchain_grow k (mkMChain mids o) s = (s', Ok (mkMChain (mids ++ news) o)) /\
    lenN news = N.of_nat k /\
    MWf_at s' r' rids mfids dids /\
    path (minifat s') (hd END_OF_CHAIN (mids ++ news)) (mids ++ news) /\
    (forall x, In x news -> fresh (minifat s) x) /\
    mframe s s' id rids mfids dids (mids ++ news) /\
    (forall y, In y rids -> sector_bytes s' y = sector_bytes s y).
Proof.
  induction k as [|k IH]; intros s mids o r rids mfids dids id W Hp Hroom.
  - exists s, [], r. cbn [mchain_grow]. rewrite app_nil_r.
    split; [reflexivity|]. split; [reflexivity|]. split; [exact W|]. split; [exact Hp|].
    split; [intros x []|]. split; [apply mframe_refl|]. intros; reflexivity.
  - assert (Hr1 : mroom s rids mfids 1) by (eapply mroom_le; [|exact Hroom]; lia).
    destruct (mini_extend_step s mids r rids mfids dids id W Hp Hr1)
      as (s1 & x & r1 & E1 & W1 & P1 & F1 & N1 & M1 & B1 & R1).
    assert (Hrk : mroom s1 rids mfids (N.of_nat k)).
    { apply R1. replace (N.of_nat k + 1) with (N.of_nat (S k)) by lia. exact Hroom. }
    destruct (IH s1 (mids ++ [x]) o r1 rids mfids dids id W1 P1 Hrk)
      as (s' & news & r' & E' & L' & W' & P' & F' & M' & B').
    rewrite <- app_assoc in E', P', M'. cbn [app] in E', P', M'.
    exists s', (x :: news), r'.
    split.
    { cbn [mchain_grow mc_ids mc_off]. unfold extend_or_begin in E1.
      rewrite (bind_exec _ _ _ _ _ E1). exact E'. }
    split; [cbn [lenN]; rewrite L'; lia|]. split; [exact W'|]. split; [exact P'|].
    split.
    { intros y [<-|Hy]; [exact F1|]. eapply fresh_back; [exact M1 | exact P1 | exact (F' y Hy)]. }
    split.
    { eapply mframe_trans; [exact M1 | exact M' | | intros y Hy; exact Hy].
      intros y Hy. apply in_app_or in Hy. apply in_or_app.
      destruct Hy as [Hy|[<-|[]]]; [left; exact Hy | right; left; reflexivity]. }
    intros y Hy. rewrite (B' y Hy). apply B1. exact Hy.
Qed.

(* ------------------------------------------------------------------ *)
(* writing inside a mini chain, and writing the entry back             *)
(* ------------------------------------------------------------------ *)

Lemma mchain_content_app : forall s rids a b,
  mchain_content s rids (a ++ b) = mchain_content s rids a ++ mchain_content s rids b.
Proof. intros. unfold mchain_content. rewrite map_app, concat_app. reflexivity. Qed.

Lemma mchain_content_ext : forall s s' rids l,
  (forall ms, In ms l -> mini_bytes s' rids ms = mini_bytes s rids ms) ->
  mchain_content s' rids l = mchain_content s rids l.
Proof. intros. unfold mchain_content. f_equal. apply map_ext_in. assumption. Qed.

Lemma same_shape_of_same_meta : forall s s',
  same_meta s s' -> lenN (img s') = lenN (img s) ->
  (forall x, lenN (sector_bytes s' x) = lenN (sector_bytes s x)) ->
  same_shape s s'.
Proof.
  intros s s' Hm Hi Hl.
  destruct (same_meta_fields s s' Hm)
    as (A1 & A2 & A3 & A4 & A5 & A6 & A7 & A8 & A9 & A10 & A11 & A12).
  unfold same_shape. repeat split; assumption.
Qed.

Lemma mwrite_within : forall s r rids mfids dids id mall off bs,
  MWf_at s r rids mfids dids -> path (minifat s) (hd END_OF_CHAIN mall) mall ->
  off + lenN bs <= 64 * lenN mall ->
  exists s',
    mchain_write_all (mkMChain mall off) bs s = (s', Ok (mkMChain mall (off + lenN bs))) /\
    MWf_at s' r rids mfids dids /\
    minifat s' = minifat s /\ dirs s' = dirs s /\
    mchain_content s' rids mall = spliceN (mchain_content s rids mall) off bs /\
    mframe s s' id rids mfids dids mall.
Proof.
  intros s r rids mfids dids id mall off bs W Hp Hfit.
  pose proof (good_mchain_of_path _ _ _ _ _ _ _ W Hp) as Hgm.
  destruct (mchain_write_spec s rids (mkMChain mall off) bs Hgm)
    as (s' & Hw & Hc & _ & Hgm' & Hfrm & Hfr & Hlen & Himg & Hmeta).
  { unfold mchain_len. cbn [mc_ids mc_off]. rewrite MSL_64. exact Hfit. }
  cbn [mc_ids mc_off] in *.
  pose proof (same_shape_of_same_meta s s' Hmeta Himg Hlen) as Hsh.
  destruct (same_meta_fields s s' Hmeta)
    as (A1 & A2 & A3 & A4 & A5 & A6 & A7 & A8 & A9 & A10 & A11 & A12).
  exists s'. split; [exact Hw|].
  split.
  { apply (MWf_transfer s s' r r rids mfids dids W Hsh).
    - rewrite A7. reflexivity.
    - intros j e He. rewrite A7 in He. eapply mw_names; eassumption.
    - rewrite A7. apply W.
    - apply W.
    - reflexivity.
    - rewrite A9. apply W.
    - rewrite A9. apply W.
    - rewrite A9. apply W.
    - rewrite A9. apply W.
    - rewrite A11. apply W.
    - rewrite A9, A11. apply W. }
  split; [exact A9|]. split; [exact A7|]. split; [exact Hc|].
  unfold mframe. split; [exact Hsh|]. split; [rewrite A7; reflexivity|].
  split; [intros; rewrite A7; reflexivity|].
  split; [intros y Y1 _ _; apply Hfr; exact Y1|].
  split; [exact Hfrm|]. split; [rewrite A9; lia|].
  intros; rewrite A9; reflexivity.
Qed.

Lemma finish_small : forall s1 id e r rids mfids dids mall ln,
  MWf_at s1 r rids mfids dids ->
  nthN (dirs s1) id = Some e -> d_type e = TStream ->
  path (minifat s1) (hd END_OF_CHAIN mall) mall ->
  0 < ln -> ln < MINI_STREAM_CUTOFF -> ln <= 64 * lenN mall ->
  exists s',
    update_entry id (hd END_OF_CHAIN mall) ln s1 = (s', Ok tt) /\
    small_at s' id (set_start_len e (hd END_OF_CHAIN mall) ln) rids mall
             (takeN ln (mchain_content s1 rids mall)) /\
    MWf_at s' r rids mfids dids /\
    mframe s1 s' id rids mfids dids mall.
Proof.
  intros s1 id e r rids mfids dids mall ln W Hn Ht Hp Hln0 Hlncut Hlnle.
  pose proof (nthN_Some_lt _ _ _ _ Hn) as Hlt.
  assert (Hne : id <> ROOT_STREAM_ID).
  { intro E. subst id. rewrite (mw_root _ _ _ _ _ W) in Hn. injection Hn as <-.
    exact (mw_rtype _ _ _ _ _ W Ht). }
  destruct (update_entry_spec s1 id e dids (hd END_OF_CHAIN mall) ln)
    as (s' & Hu & Hs' & Himg' & Hfr' & Hlen' & _).
  { exact Hn. } { eapply mw_names; eassumption. } { apply W. } { apply W. }
  { pose proof (mw_dcap _ _ _ _ _ W). unfold DIR_ENTRY_LEN in *. lia. }
  set (e' := set_start_len e (hd END_OF_CHAIN mall) ln) in *.
  assert (Hsh : same_shape s1 s').
  { rewrite Hs'. unfold same_shape.
    cbn [nsect ver img fat free difat dir_start minifat_start w_img w_dirs].
    repeat split; assumption. }
  assert (Hdirs' : dirs s' = updN (dirs s1) id e') by (rewrite Hs'; reflexivity).
  assert (Hmf' : minifat s' = minifat s1) by (rewrite Hs'; reflexivity).
  assert (Hmfr' : mfree s' = mfree s1) by (rewrite Hs'; reflexivity).
  assert (Hnid : nthN (dirs s') id = Some e')
    by (rewrite Hdirs'; apply nthN_updN_same; exact Hlt).
  assert (Hoth : forall j, j <> id -> nthN (dirs s') j = nthN (dirs s1) j)
    by (intros j Hj; rewrite Hdirs'; apply nthN_updN_other; congruence).
  assert (W' : MWf_at s' r rids mfids dids).
  { apply (MWf_transfer s1 s' r r rids mfids dids W Hsh).
    - rewrite Hdirs'. apply lenN_updN.
    - intros j e0 He0. destruct (N.eq_dec j id) as [->|Hj].
      + rewrite Hnid in He0. injection He0 as <-. cbn [e' set_start_len d_name].
        eapply mw_names; eassumption.
      + rewrite (Hoth j Hj) in He0. eapply mw_names; eassumption.
    - rewrite Hoth by congruence. apply W.
    - apply W.
    - reflexivity.
    - rewrite Hmf'. apply W.
    - rewrite Hmf'. apply W.
    - rewrite Hmf'. apply W.
    - rewrite Hmf'. apply W.
    - rewrite Hmfr'. apply W.
    - rewrite Hmf', Hmfr'. apply W. }
  assert (Hmb : forall ms, mini_bytes s' rids ms = mini_bytes s1 rids ms).
  { apply mini_bytes_ext. intros y Hy. apply Hfr'. exact (mw_rd _ _ _ _ _ W y Hy). }
  assert (Hp' : path (minifat s') (hd END_OF_CHAIN mall) mall) by (rewrite Hmf'; exact Hp).
  exists s'. split; [exact Hu|]. split; [|split; [exact W'|]].
  - unfold small_at. splits.
    + exact Hnid.
    + exact Ht.
    + exact Hlncut.
    + exact Hln0.
    + cbn [e' set_start_len d_start]. apply chain_of_path. exact Hp'.
    + exact (good_mchain_of_path _ _ _ _ _ _ _ W' Hp').
    + exact Hlnle.
    + cbn [e' set_start_len d_len]. f_equal. symmetry. apply mchain_content_ext.
      intros ms _. apply Hmb.
  - unfold mframe. split; [exact Hsh|]. split; [rewrite Hdirs'; apply lenN_updN|].
    split; [intros j _ Hj; apply Hoth; exact Hj|].
    split; [intros y _ _ Y3; apply Hfr'; exact Y3|].
    split; [intros ms _; apply Hmb|]. split; [rewrite Hmf'; lia|].
    intros; rewrite Hmf'; reflexivity.
Qed.

Lemma mframe_weaken_id : forall s s' id rids mfids dids m,
  mframe s s' ROOT_STREAM_ID rids mfids dids m -> mframe s s' id rids mfids dids m.
Proof.
  intros s s' id rids mfids dids m (A1 & A2 & A3 & A4). unfold mframe.
  split; [exact A1|]. split; [exact A2|]. split; [|exact A4].
  intros j Hj _. apply A3; exact Hj.
Qed.

Lemma mframe_entry : forall s s' rids mfids dids m id,
  mframe s s' ROOT_STREAM_ID rids mfids dids m -> id <> ROOT_STREAM_ID ->
  nthN (dirs s') id = nthN (dirs s) id.
Proof. intros s s' rids mfids dids m id (_ & _ & A3 & _) H. apply A3; exact H. Qed.

Lemma small_not_root : forall s r rids mfids dids id e,
  MWf_at s r rids mfids dids -> nthN (dirs s) id = Some e -> d_type e = TStream ->
  id <> ROOT_STREAM_ID.
Proof.
  intros s r rids mfids dids id e W Hn Ht E. subst id.
  rewrite (mw_root _ _ _ _ _ W) in Hn. injection Hn as <-. exact (mw_rtype _ _ _ _ _ W Ht).
Qed.

Lemma mchain_set_len_grow : forall s c new_len,
  new_len < MINI_STREAM_CUTOFF -> 0 < new_len ->
  lenN (mc_ids c) <= (64 + new_len - 1) / 64 ->
  mchain_set_len c new_len s
  = mchain_grow (N.to_nat ((64 + new_len - 1) / 64 - lenN (mc_ids c))) c s.
Proof.
  intros s c new_len Hcut Hpos Hge. unfold mchain_set_len.
  assert (E1 : (MINI_STREAM_CUTOFF <=? new_len) = false) by lia. rewrite E1.
  rewrite MSL_64. cbv zeta.
  destruct ((64 + new_len - 1) / 64 =? 0) eqn:E2; [lia|].
  destruct ((64 + new_len - 1) / 64 <=? lenN (mc_ids c)) eqn:E3.
  - assert (E : (64 + new_len - 1) / 64 = lenN (mc_ids c)) by lia.
    rewrite E, N.ltb_irrefl, N.sub_diag. reflexivity.
  - reflexivity.
Qed.

Lemma hd_app_ne : forall (a b : list N) d, a <> [] -> hd d (a ++ b) = hd d a.
Proof. intros [|x a] b d H; [contradiction|reflexivity]. Qed.

Lemma mchain_start_hd : forall l o, mchain_start (mkMChain l o) = hd END_OF_CHAIN l.
Proof. intros [|x l] o; reflexivity. Qed.

(* zero_fill inside the mini chain *)
Lemma zero_fill_small : forall s r rids mfids dids id mall from to o,
  MWf_at s r rids mfids dids -> path (minifat s) (hd END_OF_CHAIN mall) mall ->
  from <= 64 * lenN mall -> to <= 64 * lenN mall ->
  exists s' o',
    zero_fill_mchain (mkMChain mall o) from to s = (s', Ok (mkMChain mall o')) /\
    MWf_at s' r rids mfids dids /\
    minifat s' = minifat s /\ dirs s' = dirs s /\
    mchain_content s' rids mall
      = spliceN (mchain_content s rids mall) (N.min from to) (repeatN 0 (to - from)) /\
    mframe s s' id rids mfids dids mall.
Proof.
  intros s r rids mfids dids id mall from to o W Hp Hfrom Hto.
  unfold zero_fill_mchain. destruct (from <? to) eqn:E.
  - set (zs := repeatN 0 (to - from) : list byte).
    assert (Hzs : lenN zs = to - from) by (unfold zs; apply lenN_repeatN).
    destruct (mwrite_within s r rids mfids dids id mall from zs W Hp)
      as (s' & Ew & W' & Hmf & Hd & Hc & M); [rewrite Hzs; lia|].
    exists s', (from + lenN zs). sred.
    rewrite (mchain_seek_ok s mall o from) by lia. rewrite Ew.
    replace (N.min from to) with from by lia.
    split; [reflexivity|]. split; [exact W'|]. split; [exact Hmf|]. split; [exact Hd|].
    split; [exact Hc | exact M].
  - exists s, o.
    pose proof (good_mchain_len _ _ _ (good_mchain_of_path _ _ _ _ _ _ _ W Hp)) as HL.
    split; [reflexivity|]. split; [exact W|]. split; [reflexivity|]. split; [reflexivity|].
    split; [|apply mframe_refl].
    replace (to - from) with 0 by lia. change (repeatN 0 0) with (@nil byte).
    symmetry. apply spliceN_nil. blia.
Qed.

(* ------------------------------------------------------------------ *)
(* Part 1, resize: a small stream keeps or increases its number of     *)
(* mini sectors                                                        *)
(* ------------------------------------------------------------------ *)

Theorem resize_small_alloc_full : forall s id e r rids mfids dids mids V new_len,
  MWf_at s r rids mfids dids ->
  small_at s id e rids mids V ->
  0 < new_len -> lenN mids <= (64 + new_len - 1) / 64 -> new_len < MINI_STREAM_CUTOFF ->
  mroom s rids mfids ((64 + new_len - 1) / 64 - lenN mids) ->
  exists s' news r',
    resize id new_len s = (s', Ok tt) /\
    small_at s' id (set_start_len e (d_start e) new_len) rids (mids ++ news)
             (takeN new_len V ++ repeatN 0 (new_len - lenN V)) /\
    lenN (mids ++ news) = (64 + new_len - 1) / 64 /\
    MWf_at s' r' rids mfids dids /\
    (forall x, In x news -> fresh (minifat s) x) /\
    mframe s s' id rids mfids dids (mids ++ news).
Proof.
  intros s id e r rids mfids dids mids V new_len W Hsm Hpos' Hmore Hcut' Hroom.
  pose proof (small_at_lenV _ _ _ _ _ _ Hsm) as HlenV. rewrite HlenV in *.
  destruct (small_at_start _ _ _ _ _ _ Hsm) as (Hne & Hst & Hk).
  pose proof Hsm as (Hnth & Ht & Hcut & Hpos & Hch & Hgm & Hle & HV).
  pose proof (small_not_root _ _ _ _ _ _ _ W Hnth Ht) as Hidr.
  assert (Hmne : mids <> []) by (intros ->; cbn [lenN] in Hk; lia).
  assert (Hpath0 : path (minifat s) (d_start e) mids) by (apply WalkProofs.chain_ids_path; exact Hch).
  pose proof (path_hd _ _ _ Hpath0) as Hhd.
  assert (Hpath : path (minifat s) (hd END_OF_CHAIN mids) mids) by (rewrite <- Hhd; exact Hpath0).
  set (num := (64 + new_len - 1) / 64) in *.
  assert (Hnum : new_len <= 64 * num /\ 64 * num < new_len + 64) by (unfold num; lia).
  destruct (mchain_grow_spec (N.to_nat (num - lenN mids)) s mids 0 r rids mfids dids ROOT_STREAM_ID W Hpath)
    as (s1 & news & r1 & Eg & Ln & W1 & P1 & F1 & M1 & B1).
  { rewrite N2Nat.id. exact Hroom. }
  rewrite N2Nat.id in Ln.
  set (mall := mids ++ news) in *.
  assert (Lmall : lenN mall = num) by (unfold mall; rewrite lenN_app, Ln; lia).
  assert (Hhd' : hd END_OF_CHAIN mall = d_start e)
    by (unfold mall; rewrite hd_app_ne by exact Hmne; symmetry; exact Hhd).
  destruct (zero_fill_small s1 r1 rids mfids dids id mall (d_len e) new_len 0 W1 P1)
    as (s2 & o2 & Ez & W2 & Hmf2 & Hd2 & Hc2 & M2); [unfold mall; rewrite lenN_app; lia | lia |].
  assert (Hn2 : nthN (dirs s2) id = Some e).
  { rewrite Hd2, (mframe_entry _ _ _ _ _ _ id M1 Hidr). exact Hnth. }
  assert (P2 : path (minifat s2) (hd END_OF_CHAIN mall) mall) by (rewrite Hmf2; exact P1).
  destruct (finish_small s2 id e r1 rids mfids dids mall new_len W2 Hn2 Ht P2)
    as (s' & Eu & Hsm' & W' & M3); [lia | lia | lia |].
  rewrite Hhd' in Eu, Hsm'.
  exists s', news, r1.
  split.
  { unfold resize. sred.
    rewrite (stream_entry_ok s id e Hnth Ht). sred.
    assert (E0 : (MAX_REGULAR_SECTOR * slen s <? new_len) = false).
    { pose proof (ChainProofs.slen_pos s). apply N.ltb_ge.
      rewrite MAXREG_val. rewrite CUTOFF_4096 in Hcut'. nia. }
    rewrite E0. sred.
    rewrite (mask_check_false s new_len) by (apply small_fits_mask; lia). sred.
    assert (E2 : (d_start e =? END_OF_CHAIN) = false) by lia. rewrite E2.
    assert (E3 : (d_len e <? MINI_STREAM_CUTOFF) = true) by lia. rewrite E3.
    assert (E4 : (new_len =? 0) = false) by lia. rewrite E4.
    assert (E5 : (new_len <? MINI_STREAM_CUTOFF) = true) by lia. rewrite E5.
    rewrite (mchain_new_ok s _ mids Hch).
    rewrite (mchain_set_len_grow s (mkMChain mids 0) new_len Hcut' Hpos' Hmore).
    cbn [mc_ids]. fold num. rewrite Eg. fold mall. rewrite Ez.
    assert (E7 : negb (mchain_start (mkMChain mall o2) =? d_start e) = false).
    { rewrite mchain_start_hd, Hhd', N.eqb_refl. reflexivity. }
    rewrite E7. exact Eu. }
  split.
  { apply (small_at_V_eq _ _ _ _ _ _ _ Hsm').
    rewrite Hc2.
    assert (Hc1 : mchain_content s1 rids mall = mchain_content s rids mall).
    { apply mchain_content_ext. intros ms _. apply mini_bytes_ext. exact B1. }
    pose proof (good_mchain_len _ _ _ (good_mchain_of_path _ _ _ _ _ _ _ W1 P1)) as HL1.
    pose proof (good_mchain_len _ _ _ Hgm) as HL0.
    assert (HVm : takeN (d_len e) (mchain_content s1 rids mall) = V).
    { rewrite Hc1. unfold mall. rewrite mchain_content_app.
      rewrite takeN_app_le by blia. symmetry. exact HV. }
    assert (Hdl : d_len e <= lenN (mchain_content s1 rids mall)).
    { rewrite HL1. unfold mall. rewrite lenN_app. lia. }
    set (zs := repeatN 0 (new_len - d_len e) : list byte).
    assert (Hzs : lenN zs = new_len - d_len e) by (unfold zs; apply lenN_repeatN).
    destruct (N.lt_ge_cases (d_len e) new_len) as [Hgrow|Hshr].
    - replace (N.min (d_len e) new_len) with (d_len e) by lia.
      replace new_len with (N.max (d_len e) (d_len e + lenN zs)) at 1 by blia.
      rewrite takeN_spliceN_gen by blia.
      rewrite HVm. rewrite (takeN_all _ V) by blia.
      rewrite <- HlenV at 1. apply spliceN_at_end.
    - replace (N.min (d_len e) new_len) with new_len by lia.
      unfold zs. replace (new_len - d_len e) with 0 by lia.
      change (repeatN 0 0) with (@nil byte).
      rewrite spliceN_nil by blia. rewrite app_nil_r.
      rewrite <- HVm. symmetry. apply takeN_takeN. exact Hshr. }
  split; [exact Lmall|]. split; [exact W'|]. split; [exact F1|].
  eapply mframe_trans; [apply mframe_weaken_id; exact M1 | | intros x Hx; exact Hx | intros x Hx; exact Hx].
  eapply mframe_trans; [exact M2 | exact M3 | intros x Hx; exact Hx | intros x Hx; exact Hx].
Qed.

(* ------------------------------------------------------------------ *)
(* MiniChain::write with extension of the chain                        *)
(* ------------------------------------------------------------------ *)

Lemma MWf_same_meta : forall s s' r rids mfids dids,
  MWf_at s r rids mfids dids -> same_meta s s' ->
  lenN (img s') = lenN (img s) ->
  (forall x, lenN (sector_bytes s' x) = lenN (sector_bytes s x)) ->
  MWf_at s' r rids mfids dids.
Proof.
  intros s s' r rids mfids dids W Hmeta Himg Hlen.
  pose proof (same_shape_of_same_meta s s' Hmeta Himg Hlen) as Hsh.
  destruct (same_meta_fields s s' Hmeta)
    as (A1 & A2 & A3 & A4 & A5 & A6 & A7 & A8 & A9 & A10 & A11 & A12).
  apply (MWf_transfer s s' r r rids mfids dids W Hsh).
  - rewrite A7. reflexivity.
  - intros j e He. rewrite A7 in He. eapply mw_names; eassumption.
  - rewrite A7. apply W.
  - apply W.
  - reflexivity.
  - rewrite A9. apply W.
  - rewrite A9. apply W.
  - rewrite A9. apply W.
  - rewrite A9. apply W.
  - rewrite A11. apply W.
  - rewrite A9, A11. apply W.
Qed.

Lemma pre_extend : forall s mids off L r rids mfids dids,
  MWf_at s r rids mfids dids ->
  path (minifat s) (hd END_OF_CHAIN mids) mids ->
  off <= 64 * lenN mids -> 0 < L ->
  mroom s rids mfids ((off + L + 63) / 64 - lenN mids) ->
  exists s1 news1 r1,
    (if off =? 64 * lenN mids
     then do ms <- extend_or_begin mids; ret (mkMChain (mids ++ [ms]) off)
     else ret (mkMChain mids off)) s = (s1, Ok (mkMChain (mids ++ news1) off)) /\
    MWf_at s1 r1 rids mfids dids /\
    path (minifat s1) (hd END_OF_CHAIN (mids ++ news1)) (mids ++ news1) /\
    off < 64 * lenN (mids ++ news1) /\
    mroom s1 rids mfids ((off + L + 63) / 64 - lenN (mids ++ news1)) /\
    lenN news1 = (if off =? 64 * lenN mids then 1 else 0) /\
    (forall x, In x news1 -> fresh (minifat s) x) /\
    mframe s s1 ROOT_STREAM_ID rids mfids dids (mids ++ news1) /\
    (forall y, In y rids -> sector_bytes s1 y = sector_bytes s y).
Proof.
  intros s mids off L r rids mfids dids W Hp Hoff HL Hroom.
  destruct (off =? 64 * lenN mids) eqn:E.
  - apply N.eqb_eq in E.
    set (nd := (off + L + 63) / 64 - lenN mids) in *.
    assert (Hnd : 1 <= nd) by (unfold nd; lia).
    assert (Hr1 : mroom s rids mfids 1) by (eapply mroom_le; [|exact Hroom]; exact Hnd).
    destruct (mini_extend_step s mids r rids mfids dids ROOT_STREAM_ID W Hp Hr1)
      as (s1 & x & r1 & E1 & W1 & P1 & F1 & N1 & M1 & B1 & R1).
    exists s1, [x], r1.
    split; [rewrite (bind_exec _ _ _ _ _ E1); reflexivity|].
    split; [exact W1|]. split; [exact P1|].
    split; [rewrite lenN_app; cbn [lenN]; lia|].
    split.
    { apply R1. rewrite lenN_app. cbn [lenN].
      replace ((off + L + 63) / 64 - (lenN mids + N.succ 0) + 1) with nd by (unfold nd; lia).
      exact Hroom. }
    split; [reflexivity|].
    split; [intros y [<-|[]]; exact F1|].
    split; [exact M1 | exact B1].
  - apply N.eqb_neq in E. exists s, [], r. rewrite app_nil_r.
    split; [reflexivity|]. split; [exact W|]. split; [exact Hp|].
    split; [lia|]. split; [exact Hroom|]. split; [reflexivity|].
    split; [intros x []|]. split; [apply mframe_refl|]. intros; reflexivity.
Qed.

Lemma mchain_write_go_alloc : forall fuel s mids off bs r rids mfids dids,
  MWf_at s r rids mfids dids ->
  path (minifat s) (hd END_OF_CHAIN mids) mids ->
  off <= 64 * lenN mids ->
  mroom s rids mfids ((off + lenN bs + 63) / 64 - lenN mids) ->
  (1 <= fuel)%nat ->
  (0 < lenN bs -> off + lenN bs <= 64 * (off / 64 + N.of_nat fuel - 1)) ->
  exists s' news r',
    mchain_write_go fuel (mkMChain mids off) bs s
      = (s', Ok (mkMChain (mids ++ news) (off + lenN bs))) /\
    MWf_at s' r' rids mfids dids /\
    path (minifat s') (hd END_OF_CHAIN (mids ++ news)) (mids ++ news) /\
    lenN news = (off + lenN bs + 63) / 64 - lenN mids /\
    off + lenN bs <= 64 * lenN (mids ++ news) /\
    (forall x, In x news -> fresh (minifat s) x) /\
    mchain_content s' rids (mids ++ news)
      = spliceN (mchain_content s rids (mids ++ news)) off bs /\
    mframe s s' ROOT_STREAM_ID rids mfids dids (mids ++ news).
Proof.
  induction fuel as [|f IH]; intros s mids off bs r rids mfids dids W Hp Hoff Hroom Hf1 Hfuel; [lia|].
  assert (Hpos : 0 < 64) by lia.
  cbn [mchain_write_go].
  destruct bs as [|b0 bt] eqn:Ebs.
  - pose proof (good_mchain_len _ _ _ (good_mchain_of_path _ _ _ _ _ _ _ W Hp)) as HCL.
    exists s, [], r. rewrite app_nil_r. cbn [lenN]. rewrite N.add_0_r.
    split; [reflexivity|]. split; [exact W|]. split; [exact Hp|].
    split; [cbn [lenN]; lia|]. split; [exact Hoff|]. split; [intros x []|].
    split; [symmetry; apply spliceN_nil; blia|]. apply mframe_refl.
  - assert (Hbs : 0 < lenN (b0 :: bt)) by (cbn [lenN]; lia).
    rewrite <- Ebs in *. clear Ebs b0 bt. specialize (Hfuel Hbs).
    destruct (pre_extend s mids off (lenN bs) r rids mfids dids W Hp Hoff Hbs Hroom)
      as (s1 & news1 & r1 & Epre & W1 & P1 & Hoff1 & Hroom1 & Ln1 & F1 & M1 & B1).
    set (mids1 := mids ++ news1) in *.
    cbn [mc_ids mc_off]. unfold mchain_len. cbn [mc_ids]. change MINI_SECTOR_LEN with 64.
    erewrite bind_exec; [|exact Epre].
    cbn [mc_ids mc_off].
    destruct (divmod_split 64 off Hpos) as [Eoff Hr].
    assert (Hq : off / 64 < lenN mids1) by (apply div_lt_len; lia).
    destruct (nthN mids1 (off / 64)) as [ms|] eqn:Hn;
      [| apply nthN_None_ge in Hn; lia].
    pose proof (nthN_In _ _ _ _ Hn) as Hin.
    pose proof (good_mchain_of_path _ _ _ _ _ _ _ W1 P1) as Hgm1.
    pose proof Hgm1 as (Hroot1 & Hgood1 & Hnd1 & HF1).
    pose proof HF1 as HF1'. rewrite Forall_forall in HF1'.
    pose proof (HF1' _ Hin) as Hrange. cbv beta in Hrange.
    cbv zeta.
    remember (N.min (lenN bs) (64 - off mod 64)) as k eqn:Ek.
    assert (Hlk : lenN (takeN k bs) = k) by (rewrite lenN_takeN; lia).
    destruct (mini_write_step s1 rids ms (off mod 64) (takeN k bs) Hroot1 Hgood1 Hrange Hr)
      as (sid & s2 & Hloc & Hw & Hmeta2 & Himg2 & Hlen2 & Hfr2 & Hgood2 & Hst2); [lia|].
    erewrite bind_exec; [|exact Hloc]. cbv beta iota.
    erewrite bind_exec; [|exact Hw].
    pose proof (MWf_same_meta s1 s2 r1 rids mfids dids W1 Hmeta2 Himg2 Hlen2) as W2.
    destruct (same_meta_fields s1 s2 Hmeta2)
      as (A1 & A2 & A3 & A4 & A5 & A6 & A7 & A8 & A9 & A10 & A11 & A12).
    assert (P2 : path (minifat s2) (hd END_OF_CHAIN mids1) mids1) by (rewrite A9; exact P1).
    destruct (IH s2 mids1 (off + k) (dropN k bs) r1 rids mfids dids W2 P2)
      as (s' & news2 & r' & Ego & W' & P' & Ln' & Hfit' & F' & Hc' & M').
    { nia. }
    { apply (mroom_same s1 s2); [rewrite A9; reflexivity | exact A11 | exact A12 |].
      rewrite lenN_dropN. replace (off + k + (lenN bs - k)) with (off + lenN bs) by lia.
      exact Hroom1. }
    { assert (off + lenN bs > 64 * (off / 64)) by lia. nia. }
    { rewrite lenN_dropN. intro Hrem.
      assert (Hk : k = 64 - off mod 64) by lia.
      rewrite Hk, div_next by exact Hpos.
      replace (off + (64 - off mod 64) + (lenN bs - (64 - off mod 64)))
        with (off + lenN bs) by lia.
      replace (off / 64 + 1 + N.of_nat f - 1)
        with (off / 64 + N.of_nat (S f) - 1) by lia.
      exact Hfuel. }
    rewrite lenN_dropN in Ego, Ln', Hfit'.
    replace (off + k + (lenN bs - k)) with (off + lenN bs) in Ego, Ln', Hfit' by lia.
    unfold mids1 in Ego, P', Ln', Hfit', Hc', M'.
    rewrite <- app_assoc in Ego, P', Hfit', Hc', M'.
    set (mall := mids ++ news1 ++ news2) in *.
    exists s', (news1 ++ news2), r'. fold mall.
    split; [exact Ego|]. split; [exact W'|]. split; [exact P'|].
    split.
    { rewrite lenN_app, Ln', lenN_app, Ln1.
      destruct (off =? 64 * lenN mids) eqn:E; lia. }
    split; [exact Hfit'|].
    split.
    { intros y Hy. apply in_app_or in Hy. destruct Hy as [Hy|Hy]; [exact (F1 y Hy)|].
      apply (fresh_back s s1 ROOT_STREAM_ID rids mfids dids mids1 _ y M1 P1).
      rewrite <- A9. exact (F' y Hy). }
    (* the bytes *)
    pose proof (ReuseProofs.path_nodup _ _ _ P') as Hndall.
    assert (Hsl' : slen s' = slen s1).
    { destruct M' as (Hsh' & _). rewrite (same_shape_slen _ _ Hsh'). exact A12. }
    assert (Hrange_all : forall y, In y mall -> (y + 1) * 64 <= slen s1 * lenN rids).
    { intros y Hy. pose proof (path_In_lt _ _ _ _ P' Hy).
      pose proof (mw_rcap _ _ _ _ _ W'). rewrite Hsl' in *. lia. }
    assert (HL1 : Forall (fun y => lenN (mini_bytes s1 rids y) = 64) mall).
    { rewrite Forall_forall. intros y Hy. apply mini_bytes_len; [exact Hgood1 | exact (Hrange_all y Hy)]. }
    assert (Hn_all : nthN mall (off / 64) = Some ms).
    { unfold mall. rewrite app_assoc. rewrite nthN_app_l by exact Hq. exact Hn. }
    destruct (mini_bytes_splice s1 s2 rids ms (off mod 64) (takeN k bs)) as [Hmb Hmo];
      [unfold mini_stream; rewrite (good_chain_len _ _ Hgood1); lia | lia | exact Hst2 |].
    assert (Hc2 : mchain_content s2 rids mall
                  = spliceN (mchain_content s1 rids mall) off (takeN k bs)).
    { rewrite Eoff at 1. unfold mchain_content.
      apply (concat_update (mini_bytes s1 rids) (mini_bytes s2 rids) 64 mall (off / 64) ms);
        try assumption. lia. }
    assert (Hc1 : mchain_content s1 rids mall = mchain_content s rids mall).
    { apply mchain_content_ext. intros y _. apply mini_bytes_ext. exact B1. }
    split.
    { rewrite Hc', Hc2, Hc1.
      replace (off + k) with (off + lenN (takeN k bs)) by (rewrite Hlk; reflexivity).
      rewrite spliceN_spliceN. rewrite takeN_dropN_id. reflexivity. }
    (* the frame *)
    assert (M2 : mframe s1 s2 ROOT_STREAM_ID rids mfids dids mids1).
    { unfold mframe.
      split; [exact (same_shape_of_same_meta s1 s2 Hmeta2 Himg2 Hlen2)|].
      split; [rewrite A7; reflexivity|].
      split; [intros; rewrite A7; reflexivity|].
      split; [intros y Y1 _ _; apply Hfr2; exact Y1|].
      split; [intros y Hy; apply Hmo; intro Eq; subst y; contradiction|].
      split; [rewrite A9; lia|].
      intros; rewrite A9; reflexivity. }
    assert (Hsub : forall y, In y mids1 -> In y mall).
    { intros y Hy. unfold mall. rewrite app_assoc. apply in_or_app. left. exact Hy. }
    eapply mframe_trans; [exact M1 | | exact Hsub | intros y Hy; exact Hy].
    eapply mframe_trans; [exact M2 | exact M' | exact Hsub | intros y Hy; exact Hy].
Qed.

Lemma mchain_write_all_alloc : forall s mids off bs r rids mfids dids,
  MWf_at s r rids mfids dids ->
  path (minifat s) (hd END_OF_CHAIN mids) mids ->
  off <= 64 * lenN mids ->
  mroom s rids mfids ((off + lenN bs + 63) / 64 - lenN mids) ->
  exists s' news r',
    mchain_write_all (mkMChain mids off) bs s
      = (s', Ok (mkMChain (mids ++ news) (off + lenN bs))) /\
    MWf_at s' r' rids mfids dids /\
    path (minifat s') (hd END_OF_CHAIN (mids ++ news)) (mids ++ news) /\
    lenN news = (off + lenN bs + 63) / 64 - lenN mids /\
    off + lenN bs <= 64 * lenN (mids ++ news) /\
    (forall x, In x news -> fresh (minifat s) x) /\
    mchain_content s' rids (mids ++ news)
      = spliceN (mchain_content s rids (mids ++ news)) off bs /\
    mframe s s' ROOT_STREAM_ID rids mfids dids (mids ++ news).
Proof.
  intros s mids off bs r rids mfids dids W Hp Hoff Hroom.
  unfold mchain_write_all. change MINI_SECTOR_LEN with 64.
  apply (mchain_write_go_alloc _ s mids off bs r rids mfids dids W Hp Hoff Hroom).
  - apply le_n_S, Nat.le_0_l.
  - intro Hn. apply fuel_enough; [lia | exact Hn].
Qed.

(* ------------------------------------------------------------------ *)
(* Part 1, write_data: a small stream grows by a write                 *)
(* ------------------------------------------------------------------ *)

Theorem write_data_small_alloc_full : forall s id e r rids mfids dids mids V off buf,
  MWf_at s r rids mfids dids ->
  small_at s id e rids mids V ->
  off <= lenN V ->
  off + lenN buf < MINI_STREAM_CUTOFF ->
  mroom s rids mfids ((off + lenN buf + 63) / 64 - lenN mids) ->
  exists s' news r',
    write_data id off buf s = (s', Ok tt) /\
    small_at s' id (set_start_len e (d_start e) (N.max (d_len e) (off + lenN buf)))
             rids (mids ++ news) (spliceN V off buf) /\
    lenN news = (off + lenN buf + 63) / 64 - lenN mids /\
    MWf_at s' r' rids mfids dids /\
    (forall x, In x news -> fresh (minifat s) x) /\
    mframe s s' id rids mfids dids (mids ++ news).
Proof.
  intros s id e r rids mfids dids mids V off buf W Hsm Hoff Hcut2 Hroom.
  pose proof (small_at_lenV _ _ _ _ _ _ Hsm) as HlenV. rewrite HlenV in *.
  destruct (small_at_start _ _ _ _ _ _ Hsm) as (Hne & Hst & Hk).
  pose proof Hsm as (Hnth & Ht & Hcut & Hpos & Hch & Hgm & Hle & HV).
  pose proof (small_not_root _ _ _ _ _ _ _ W Hnth Ht) as Hidr.
  assert (Hmne : mids <> []) by (intros ->; cbn [lenN] in Hk; lia).
  assert (Hpath0 : path (minifat s) (d_start e) mids) by (apply WalkProofs.chain_ids_path; exact Hch).
  pose proof (path_hd _ _ _ Hpath0) as Hhd.
  assert (Hpath : path (minifat s) (hd END_OF_CHAIN mids) mids) by (rewrite <- Hhd; exact Hpath0).
  set (ln := N.max (d_len e) (off + lenN buf)).
  destruct (mchain_write_all_alloc s mids off buf r rids mfids dids W Hpath)
    as (s1 & news & r1 & Ew & W1 & P1 & Ln & Hfit & F1 & Hc1 & M1); [lia | exact Hroom |].
  set (mall := mids ++ news) in *.
  assert (Hhd' : hd END_OF_CHAIN mall = d_start e)
    by (unfold mall; rewrite hd_app_ne by exact Hmne; symmetry; exact Hhd).
  assert (Hn1 : nthN (dirs s1) id = Some e).
  { rewrite (mframe_entry _ _ _ _ _ _ id M1 Hidr). exact Hnth. }
  assert (HLall : lenN mids <= lenN mall) by (unfold mall; rewrite lenN_app; lia).
  destruct (finish_small s1 id e r1 rids mfids dids mall ln W1 Hn1 Ht P1)
    as (s' & Eu & Hsm' & W' & M3); [unfold ln; lia | unfold ln; lia | unfold ln; lia |].
  rewrite Hhd' in Eu, Hsm'.
  exists s', news, r1.
  split.
  { unfold write_data. sred.
    rewrite (stream_entry_ok s id e Hnth Ht). sred.
    assert (E1 : (d_len e <? off) = false) by lia. rewrite E1.
    rewrite (both_check_false_small s (N.max (d_len e) (off + lenN buf))) by lia.
    assert (E2 : (d_start e =? END_OF_CHAIN) = false) by lia. rewrite E2.
    assert (E3 : (d_len e <? MINI_STREAM_CUTOFF) = true) by lia. rewrite E3.
    fold ln.
    assert (E4 : (ln <? MINI_STREAM_CUTOFF) = true) by (unfold ln; lia). rewrite E4.
    rewrite (mchain_new_ok s _ mids Hch).
    rewrite (mchain_seek_ok s mids 0 off) by lia.
    rewrite Ew.
    assert (E5 : negb (mchain_start (mkMChain mall (off + lenN buf)) =? d_start e) = false).
    { unfold mchain_start. cbn [mc_ids].
      replace (match mall with [] => END_OF_CHAIN | x :: _ => x end) with (hd END_OF_CHAIN mall)
        by (destruct mall; reflexivity).
      rewrite Hhd', N.eqb_refl. reflexivity. }
    rewrite E5. exact Eu. }
  split.
  { apply (small_at_V_eq _ _ _ _ _ _ _ Hsm').
    rewrite Hc1.
    pose proof (good_mchain_len _ _ _ Hgm) as HL0.
    set (C := mchain_content s rids mall).
    assert (HC : takeN (d_len e) C = V).
    { unfold C, mall. rewrite mchain_content_app. rewrite takeN_app_le by blia.
      symmetry. exact HV. }
    assert (HLC : d_len e <= lenN C).
    { unfold C, mall. rewrite mchain_content_app, lenN_app. blia. }
    unfold ln. rewrite takeN_spliceN_gen by blia. rewrite HC. reflexivity. }
  split; [exact Ln|]. split; [exact W'|]. split; [exact F1|].
  eapply mframe_trans; [apply mframe_weaken_id; exact M1 | exact M3
                       | intros x Hx; exact Hx | intros x Hx; exact Hx].
Qed.

(* ------------------------------------------------------------------ *)
(* Part 2 (case 1a): the first write / resize of an empty stream       *)
(* ------------------------------------------------------------------ *)

Definition empty_at (s : cstate) (id : N) (e : dirent) : Prop :=
  nthN (dirs s) id = Some e /\ d_type e = TStream /\
  d_start e = END_OF_CHAIN /\ d_len e = 0.

Definition empty_stream (s : cstate) (id : N) : Prop := exists e, empty_at s id e.

Lemma mchain_new_eoc : forall s, mchain_new END_OF_CHAIN s = (s, Ok (mkMChain [] 0)).
Proof.
  intro s. apply mchain_new_ok. apply chain_of_path. constructor.
Qed.

Lemma takeN_splice0 : forall (C b : list byte),
  takeN (lenN b) (spliceN C 0 b) = b.
Proof.
  intros C b.
  replace (lenN b) with (N.max 0 (0 + lenN b)) at 1 by lia.
  rewrite takeN_spliceN_gen by blia. rewrite takeN_0.
  exact (spliceN_at_end [] b).
Qed.

Theorem resize_empty_small_full : forall s id e r rids mfids dids new_len,
  MWf_at s r rids mfids dids ->
  empty_at s id e ->
  0 < new_len -> new_len < MINI_STREAM_CUTOFF ->
  mroom s rids mfids ((64 + new_len - 1) / 64) ->
  exists s' news r',
    resize id new_len s = (s', Ok tt) /\
    small_at s' id (set_start_len e (hd END_OF_CHAIN news) new_len) rids news
             (repeatN 0 new_len) /\
    lenN news = (64 + new_len - 1) / 64 /\
    MWf_at s' r' rids mfids dids /\
    (forall x, In x news -> fresh (minifat s) x) /\
    mframe s s' id rids mfids dids news.
Proof.
  intros s id e r rids mfids dids new_len W (Hnth & Ht & Hst & Hlen) Hpos Hcut Hroom.
  pose proof (small_not_root _ _ _ _ _ _ _ W Hnth Ht) as Hidr.
  set (num := (64 + new_len - 1) / 64) in *.
  assert (Hnum : new_len <= 64 * num /\ 64 * num < new_len + 64 /\ 0 < num) by (unfold num; lia).
  assert (Hp0 : path (minifat s) (hd END_OF_CHAIN []) []) by constructor.
  destruct (mchain_grow_spec (N.to_nat num) s [] 0 r rids mfids dids ROOT_STREAM_ID W Hp0)
    as (s1 & news & r1 & Eg & Ln & W1 & P1 & F1 & M1 & B1).
  { rewrite N2Nat.id. exact Hroom. }
  rewrite N2Nat.id in Ln. cbn [app] in *.
  set (zs := repeatN 0 new_len : list byte).
  assert (Hzs : lenN zs = new_len) by (unfold zs; apply lenN_repeatN).
  destruct (mwrite_within s1 r1 rids mfids dids id news 0 zs W1 P1)
    as (s2 & Ew & W2 & Hmf2 & Hd2 & Hc2 & M2); [rewrite Hzs, Ln; lia|].
  assert (Hn2 : nthN (dirs s2) id = Some e).
  { rewrite Hd2, (mframe_entry _ _ _ _ _ _ id M1 Hidr). exact Hnth. }
  assert (P2 : path (minifat s2) (hd END_OF_CHAIN news) news) by (rewrite Hmf2; exact P1).
  destruct (finish_small s2 id e r1 rids mfids dids news new_len W2 Hn2 Ht P2)
    as (s' & Eu & Hsm' & W' & M3); [lia | lia | lia |].
  exists s', news, r1.
  split.
  { unfold resize. sred.
    rewrite (stream_entry_ok s id e Hnth Ht). sred. rewrite Hst, Hlen.
    assert (E0 : (MAX_REGULAR_SECTOR * slen s <? new_len) = false).
    { pose proof (ChainProofs.slen_pos s). apply N.ltb_ge.
      rewrite MAXREG_val. rewrite CUTOFF_4096 in Hcut. nia. }
    rewrite E0. sred.
    rewrite (mask_check_false s new_len) by (apply small_fits_mask; lia). sred.
    rewrite N.eqb_refl. cbn [N.eqb negb].
    assert (E5 : (new_len <? MINI_STREAM_CUTOFF) = true) by lia. rewrite E5.
    rewrite (mchain_new_eoc s).
    rewrite (mchain_set_len_grow s (mkMChain [] 0) new_len Hcut Hpos) by (cbn [mc_ids lenN]; lia).
    cbn [mc_ids lenN]. rewrite N.sub_0_r. fold num. rewrite Eg.
    unfold zero_fill_mchain.
    assert (E6 : (0 <? new_len) = true) by lia. rewrite E6. sred.
    rewrite (mchain_seek_ok s1 news 0 0) by lia.
    rewrite N.sub_0_r. fold zs. rewrite Ew.
    rewrite mchain_start_hd. exact Eu. }
  split.
  { apply (small_at_V_eq _ _ _ _ _ _ _ Hsm').
    rewrite Hc2.
    rewrite <- Hzs at 1. apply takeN_splice0. }
  split; [exact Ln|]. split; [exact W'|]. split; [exact F1|].
  eapply mframe_trans; [apply mframe_weaken_id; exact M1 | | intros x Hx; exact Hx | intros x Hx; exact Hx].
  eapply mframe_trans; [exact M2 | exact M3 | intros x Hx; exact Hx | intros x Hx; exact Hx].
Qed.

Theorem write_data_empty_small_full : forall s id e r rids mfids dids buf,
  MWf_at s r rids mfids dids ->
  empty_at s id e ->
  0 < lenN buf -> lenN buf < MINI_STREAM_CUTOFF ->
  mroom s rids mfids ((lenN buf + 63) / 64) ->
  exists s' news r',
    write_data id 0 buf s = (s', Ok tt) /\
    small_at s' id (set_start_len e (hd END_OF_CHAIN news) (lenN buf)) rids news buf /\
    lenN news = (lenN buf + 63) / 64 /\
    MWf_at s' r' rids mfids dids /\
    (forall x, In x news -> fresh (minifat s) x) /\
    mframe s s' id rids mfids dids news.
Proof.
  intros s id e r rids mfids dids buf W (Hnth & Ht & Hst & Hlen) Hpos Hcut Hroom.
  pose proof (small_not_root _ _ _ _ _ _ _ W Hnth Ht) as Hidr.
  assert (Hp0 : path (minifat s) (hd END_OF_CHAIN []) []) by constructor.
  destruct (mchain_write_all_alloc s [] 0 buf r rids mfids dids W Hp0)
    as (s1 & news & r1 & Ew & W1 & P1 & Ln & Hfit & F1 & Hc1 & M1).
  { cbn [lenN]. lia. }
  { cbn [lenN]. rewrite N.add_0_l, N.sub_0_r. exact Hroom. }
  cbn [app lenN] in *. rewrite N.add_0_l in *. rewrite N.sub_0_r in Ln.
  assert (Hn1 : nthN (dirs s1) id = Some e).
  { rewrite (mframe_entry _ _ _ _ _ _ id M1 Hidr). exact Hnth. }
  destruct (finish_small s1 id e r1 rids mfids dids news (lenN buf) W1 Hn1 Ht P1)
    as (s' & Eu & Hsm' & W' & M3); [lia | lia | lia |].
  exists s', news, r1.
  split.
  { unfold write_data. sred.
    rewrite (stream_entry_ok s id e Hnth Ht). sred. rewrite Hst, Hlen.
    change (0 <? 0) with false. sred.
    rewrite (both_check_false_small s (N.max 0 (0 + lenN buf))) by lia.
    cbn [N.ltb N.compare N.eqb negb]. rewrite N.eqb_refl.
    rewrite N.add_0_l.
    replace (N.max 0 (lenN buf)) with (lenN buf) by lia.
    assert (E4 : (lenN buf <? MINI_STREAM_CUTOFF) = true) by lia. rewrite E4.
    rewrite (mchain_new_eoc s). rewrite Ew.
    rewrite mchain_start_hd. exact Eu. }
  split.
  { apply (small_at_V_eq _ _ _ _ _ _ _ Hsm').
    rewrite Hc1. apply takeN_splice0. }
  split; [exact Ln|]. split; [exact W'|]. split; [exact F1|].
  eapply mframe_trans; [apply mframe_weaken_id; exact M1 | exact M3
                       | intros x Hx; exact Hx | intros x Hx; exact Hx].
Qed.

(* ------------------------------------------------------------------ *)
(* what the frame means for the other streams                          *)
(* ------------------------------------------------------------------ *)

Lemma mframe_path_kept : forall s s' id rids mfids dids mall c m,
  mframe s s' id rids mfids dids mall ->
  path (minifat s) c m -> (forall x, In x mall -> ~ In x m) ->
  path (minifat s') c m.
Proof.
  intros s s' id rids mfids dids mall c m (_ & _ & _ & _ & _ & Hlen & Hcells) Hp Hdisj.
  apply (path_ext_le_out _ _ _ _ Hp Hlen). intros x Hx. apply Hcells.
  - intro Hin. exact (Hdisj x Hin Hx).
  - exact (path_In_lt _ _ _ _ Hp Hx).
Qed.

Lemma mframe_small_other : forall s s' id r r' rids mfids dids mall id' e' mids' V',
  mframe s s' id rids mfids dids mall ->
  MWf_at s r rids mfids dids -> MWf_at s' r' rids mfids dids ->
  small_at s id' e' rids mids' V' -> id' <> id ->
  (forall x, In x mall -> ~ In x mids') ->
  small_at s' id' e' rids mids' V'.
Proof.
  intros s s' id r r' rids mfids dids mall id' e' mids' V' M W W'
         (Hn & Ht & Hcut & Hpos & Hch & Hgm & Hle & HV) Hne Hdisj.
  pose proof (small_not_root _ _ _ _ _ _ _ W Hn Ht) as Hidr.
  pose proof (WalkProofs.chain_ids_path _ _ _ Hch) as Hp.
  pose proof (mframe_path_kept _ _ _ _ _ _ _ _ _ M Hp Hdisj) as Hp'.
  pose proof M as (_ & _ & Hdirs & _ & Hmb & _).
  unfold small_at. splits; try assumption.
  - rewrite Hdirs by assumption. exact Hn.
  - apply chain_of_path. exact Hp'.
  - exact (good_mchain_of_path _ _ _ _ _ _ _ W' Hp').
  - rewrite HV. f_equal. symmetry. apply mchain_content_ext.
    intros ms Hms. apply Hmb. intro Hin. exact (Hdisj ms Hin Hms).
Qed.

Lemma mframe_big_other : forall s s' id r rids mfids dids mall id' V',
  mframe s s' id rids mfids dids mall ->
  MWf_at s r rids mfids dids ->
  StoreProofs.big_content s id' V' -> id' <> id ->
  (forall e ids, nthN (dirs s) id' = Some e -> chain_ids_of (fat s) (d_start e) = Ok ids ->
     forall x, In x ids -> ~ In x rids /\ ~ In x mfids /\ ~ In x dids) ->
  StoreProofs.big_content s' id' V'.
Proof.
  intros s s' id r rids mfids dids mall id' V' (Hsh & _ & Hdirs & Hfr & _) W
         (e & ids & He & Ht & Hcut & Hc & Hg & Hle & HV) Hne Hsep.
  pose proof (small_not_root _ _ _ _ _ _ _ W He Ht) as Hidr.
  pose proof (same_shape_slen _ _ Hsh) as Hsl.
  pose proof Hsh as (_ & _ & _ & _ & Hfat & _).
  exists e, ids. splits; try assumption.
  - rewrite Hdirs by assumption. exact He.
  - rewrite Hfat. exact Hc.
  - eapply good_chain_shape; eassumption.
  - rewrite Hsl. exact Hle.
  - rewrite HV. f_equal. symmetry. apply StoreProofs.chain_content_ext.
    intros x Hx. destruct (Hsep e ids He Hc x Hx) as (S1 & S2 & S3). apply Hfr; assumption.
Qed.

Lemma mframe_empty_other : forall s s' id r rids mfids dids mall id',
  mframe s s' id rids mfids dids mall -> MWf_at s r rids mfids dids ->
  empty_stream s id' -> id' <> id -> empty_stream s' id'.
Proof.
  intros s s' id r rids mfids dids mall id' (_ & _ & Hdirs & _) W (e & Hn & Ht & Hst & Hl) Hne.
  pose proof (small_not_root _ _ _ _ _ _ _ W Hn Ht) as Hidr.
  exists e. unfold empty_at. rewrite Hdirs by assumption. splits; assumption.
Qed.

(* ------------------------------------------------------------------ *)
(* the global well-formedness and its preservation                     *)
(* ------------------------------------------------------------------ *)

Definition small_entry (e : dirent) : Prop :=
  d_type e = TStream /\ 0 < d_len e /\ d_len e < MINI_STREAM_CUTOFF.
Definition big_entry (e : dirent) : Prop :=
  d_type e = TStream /\ MINI_STREAM_CUTOFF <= d_len e.

(* [X] is the set of directory slots whose stream is being rebuilt: nothing
   is claimed about them *)
Record SWfX_at (s : cstate) (r : dirent) (rids mfids dids : list N) (X : N -> Prop) : Prop := mkSWf {
  sw_m : MWf_at s r rids mfids dids;
  (* the FAT allocator: image, whole sectors, free stack, backed FAT cells *)
  sw_alloc : AllocWf s;
  sw_nsect : nsect s <= MAX_REGULAR_SECTOR + 1;
  sw_fnd : NoDup (free s);
  (* the container, the MiniFAT chain and the directory chain are neither
     free nor FAT sectors *)
  sw_sys : forall x, In x rids \/ In x mfids \/ In x dids ->
    ~ In x (free s) /\ ~ In x (difat s);
  sw_fdifat : forall x, In x (free s) -> ~ In x (difat s);
  (* every small stream has a mini chain that covers its length *)
  sw_small : forall j e, ~ X j -> nthN (dirs s) j = Some e -> small_entry e ->
    exists m, chain_ids_of (minifat s) (d_start e) = Ok m /\ d_len e <= 64 * lenN m;
  (* the mini chains of different small streams are disjoint *)
  sw_disj : forall j1 j2 e1 e2 m1 m2, ~ X j1 -> ~ X j2 -> j1 <> j2 ->
    nthN (dirs s) j1 = Some e1 -> small_entry e1 ->
    chain_ids_of (minifat s) (d_start e1) = Ok m1 ->
    nthN (dirs s) j2 = Some e2 -> small_entry e2 ->
    chain_ids_of (minifat s) (d_start e2) = Ok m2 ->
    forall x, In x m1 -> ~ In x m2;
  (* every large stream has a FAT chain that covers its length *)
  sw_bigchain : forall j e, ~ X j -> nthN (dirs s) j = Some e -> big_entry e ->
    exists ids, chain_ids_of (fat s) (d_start e) = Ok ids /\ d_len e <= slen s * lenN ids /\
                Forall (fun x => x < nsect s) ids;
  (* large streams share no sector with the mini-stream container, the
     MiniFAT chain, the directory chain, the free stack or the FAT *)
  sw_big : forall j e ids, ~ X j -> nthN (dirs s) j = Some e -> big_entry e ->
    chain_ids_of (fat s) (d_start e) = Ok ids ->
    forall x, In x ids -> ~ In x rids /\ ~ In x mfids /\ ~ In x dids /\
                          ~ In x (free s) /\ ~ In x (difat s);
  (* nor with each other *)
  sw_bigdisj : forall j1 j2 e1 e2 l1 l2, ~ X j1 -> ~ X j2 -> j1 <> j2 ->
    nthN (dirs s) j1 = Some e1 -> big_entry e1 ->
    chain_ids_of (fat s) (d_start e1) = Ok l1 ->
    nthN (dirs s) j2 = Some e2 -> big_entry e2 ->
    chain_ids_of (fat s) (d_start e2) = Ok l2 ->
    forall x, In x l1 -> ~ In x l2
}.

Definition noX : N -> Prop := fun _ => False.
Notation SWf_at s r rids mfids dids := (SWfX_at s r rids mfids dids noX).
Lemma noX_not : forall j, ~ noX j. Proof. intros j H. exact H. Qed.

Definition SWf (s : cstate) : Prop := exists r rids mfids dids, SWf_at s r rids mfids dids.

Definition mini_room (s : cstate) (k : N) : Prop :=
  exists r rids mfids dids, SWf_at s r rids mfids dids /\ mroom s rids mfids k.

Lemma small_at_entry : forall s id e ids mids V,
  small_at s id e ids mids V -> small_entry e.
Proof. intros s id e ids mids V (_ & Ht & Hc & Hp & _). repeat split; assumption. Qed.

Lemma SWf_after : forall s s' r r' rids mfids dids X id e' mall V' mids news,
  SWfX_at s r rids mfids dids X -> (forall j, X j -> j = id) ->
  MWf_at s' r' rids mfids dids ->
  small_at s' id e' rids mall V' -> mall = mids ++ news ->
  (forall x, In x news -> fresh (minifat s) x) ->
  (forall j e m, j <> id -> nthN (dirs s) j = Some e -> small_entry e ->
     chain_ids_of (minifat s) (d_start e) = Ok m -> forall x, In x mids -> ~ In x m) ->
  mframe s s' id rids mfids dids mall ->
  SWf_at s' r' rids mfids dids.
Proof.
  intros s s' r r' rids mfids dids X id e' mall V' mids news
         [W Walloc Wns Wfnd Wsys Wfdifat Hsmall Hdisj Hbigchain Hbig Hbigdisj] HX W' Hsm' Emall
         Hfresh Hmids M.
  assert (HnX : forall j, j <> id -> ~ X j) by (intros j Hj Hx; exact (Hj (HX j Hx))).
  pose proof Hsm' as (Hn' & Ht' & Hcut' & Hpos' & Hch' & Hgm' & Hle' & _).
  pose proof M as (Hsh & _ & Hdirs & _).
  pose proof (same_shape_slen _ _ Hsh) as Hsl.
  pose proof Hsh as (Hns & _ & _ & _ & Hfat & Hfree & Hdifat & _).
  (* a large stream of s' is a large stream of s *)
  assert (Hbigback : forall j e, nthN (dirs s') j = Some e -> big_entry e ->
            nthN (dirs s) j = Some e /\ ~ X j).
  { intros j e He (Tb & Lb).
    assert (Hj : j <> id).
    { intro E. subst j. rewrite Hn' in He. injection He as <-. lia. }
    assert (Hjr : j <> ROOT_STREAM_ID).
    { intro E. subst j. rewrite (mw_root _ _ _ _ _ W') in He. injection He as <-.
      exact (mw_rtype _ _ _ _ _ W' Tb). }
    rewrite Hdirs in He by assumption. split; [exact He | exact (HnX j Hj)]. }
  assert (Hroot' : forall e, nthN (dirs s') ROOT_STREAM_ID = Some e -> d_type e <> TStream).
  { intros e He. rewrite (mw_root _ _ _ _ _ W') in He. injection He as <-. apply W'. }
  (* a small stream other than id keeps its chain *)
  assert (Hkept : forall j e, j <> id -> nthN (dirs s') j = Some e -> small_entry e ->
            exists m, nthN (dirs s) j = Some e /\
                      chain_ids_of (minifat s) (d_start e) = Ok m /\
                      chain_ids_of (minifat s') (d_start e) = Ok m /\
                      d_len e <= 64 * lenN m /\ (forall x, In x mall -> ~ In x m)).
  { intros j e Hj He Hse.
    assert (Hjr : j <> ROOT_STREAM_ID).
    { intro E. subst j. destruct Hse as (T & _). exact (Hroot' e He T). }
    rewrite Hdirs in He by assumption.
    destruct (Hsmall j e (HnX j Hj) He Hse) as (m & Hc & Hl).
    pose proof (WalkProofs.chain_ids_path _ _ _ Hc) as Hp.
    assert (Hd : forall x, In x mall -> ~ In x m).
    { intros x Hx Hxm. rewrite Emall in Hx. apply in_app_or in Hx. destruct Hx as [Hx|Hx].
      - exact (Hmids j e m Hj He Hse Hc x Hx Hxm).
      - exact (path_not_fresh _ _ _ _ Hp Hxm (Hfresh x Hx)). }
    exists m. split; [exact He|]. split; [exact Hc|]. split; [|split; [exact Hl | exact Hd]].
    apply chain_of_path. exact (mframe_path_kept _ _ _ _ _ _ _ _ _ M Hp Hd). }
  constructor.
  - exact W'.
  - eapply StoreProofs.AllocWf_shape; eassumption.
  - rewrite Hns. exact Wns.
  - rewrite Hfree. exact Wfnd.
  - intros x Hx. rewrite Hfree, Hdifat. exact (Wsys x Hx).
  - intros x Hx. rewrite Hfree in Hx. rewrite Hdifat. exact (Wfdifat x Hx).
  - intros j e _ He Hse. destruct (N.eq_dec j id) as [->|Hj].
    + rewrite Hn' in He. injection He as <-. exists mall. split; assumption.
    + destruct (Hkept j e Hj He Hse) as (m & _ & _ & Hc' & Hl & _). exists m. split; assumption.
  - intros j1 j2 e1 e2 m1 m2 _ _ Hne He1 Hs1 Hc1 He2 Hs2 Hc2 x Hx1 Hx2.
    destruct (N.eq_dec j1 id) as [E1|N1]; destruct (N.eq_dec j2 id) as [E2|N2].
    + subst. contradiction.
    + subst j1. rewrite Hn' in He1. injection He1 as <-.
      rewrite Hch' in Hc1. injection Hc1 as <-.
      destruct (Hkept j2 e2 N2 He2 Hs2) as (m & _ & _ & Hc' & _ & Hd).
      rewrite Hc' in Hc2. injection Hc2 as <-. exact (Hd x Hx1 Hx2).
    + subst j2. rewrite Hn' in He2. injection He2 as <-.
      rewrite Hch' in Hc2. injection Hc2 as <-.
      destruct (Hkept j1 e1 N1 He1 Hs1) as (m & _ & _ & Hc' & _ & Hd).
      rewrite Hc' in Hc1. injection Hc1 as <-. exact (Hd x Hx2 Hx1).
    + destruct (Hkept j1 e1 N1 He1 Hs1) as (ma & Ha & Hca & Hca' & _).
      destruct (Hkept j2 e2 N2 He2 Hs2) as (mb & Hb & Hcb & Hcb' & _).
      rewrite Hca' in Hc1. injection Hc1 as <-. rewrite Hcb' in Hc2. injection Hc2 as <-.
      exact (Hdisj j1 j2 e1 e2 ma mb (HnX j1 N1) (HnX j2 N2) Hne Ha Hs1 Hca Hb Hs2 Hcb x Hx1 Hx2).
  - intros j e _ He Hb. rewrite Hfat, Hsl, Hns. destruct (Hbigback j e He Hb) as [He0 Hx0].
    exact (Hbigchain j e Hx0 He0 Hb).
  - intros j e ids _ He Hb Hc. rewrite Hfat in Hc. rewrite Hfree, Hdifat.
    destruct (Hbigback j e He Hb) as [He0 Hx0].
    exact (Hbig j e ids Hx0 He0 Hb Hc).
  - intros j1 j2 e1 e2 l1 l2 _ _ Hne He1 Hb1 Hc1 He2 Hb2 Hc2. rewrite Hfat in Hc1, Hc2.
    destruct (Hbigback j1 e1 He1 Hb1) as [Ha Hxa]. destruct (Hbigback j2 e2 He2 Hb2) as [Hb Hxb].
    exact (Hbigdisj j1 j2 e1 e2 l1 l2 Hxa Hxb Hne Ha Hb1 Hc1 Hb Hb2 Hc2).
Qed.

(* ------------------------------------------------------------------ *)
(* Part 5: the theorems over SWf                                       *)
(* ------------------------------------------------------------------ *)

Notation big_content := StoreProofs.big_content.

(* every other stream keeps its content *)
Definition others_kept (s s' : cstate) (id : N) : Prop :=
  (forall id' V', id' <> id -> small_content s id' V' -> small_content s' id' V') /\
  (forall id' V', id' <> id -> big_content s id' V' -> big_content s' id' V') /\
  (forall id', id' <> id -> empty_stream s id' -> empty_stream s' id').

Lemma small_content_at : forall s r rids mfids dids id V,
  MWf_at s r rids mfids dids -> small_content s id V ->
  exists e mids, small_at s id e rids mids V.
Proof.
  intros s r rids mfids dids id V W (e & ids & mids & Hsm).
  assert (ids = rids).
  { destruct Hsm as (_ & _ & _ & _ & _ & (Hr & _) & _).
    exact (root_ids_fun s ids rids Hr (root_ids_of_wf _ _ _ _ _ W)). }
  subst ids. exists e, mids. exact Hsm.
Qed.

Lemma after_op : forall s s' r r' rids mfids dids id e' mids news V',
  SWf_at s r rids mfids dids -> MWf_at s' r' rids mfids dids ->
  small_at s' id e' rids (mids ++ news) V' ->
  (forall x, In x news -> fresh (minifat s) x) ->
  (forall j e m, j <> id -> nthN (dirs s) j = Some e -> small_entry e ->
     chain_ids_of (minifat s) (d_start e) = Ok m -> forall x, In x mids -> ~ In x m) ->
  mframe s s' id rids mfids dids (mids ++ news) ->
  SWf_at s' r' rids mfids dids /\ others_kept s s' id.
Proof.
  intros s s' r r' rids mfids dids id e' mids news V' SW W' Hsm' Hfresh Hmids M.
  split; [eapply (SWf_after s s' r r' rids mfids dids noX); try eassumption;
          [intros j []|reflexivity]|].
  pose proof (sw_m _ _ _ _ _ _ SW) as W.
  split; [|split].
  - intros id' V1 Hne Hsc.
    destruct (small_content_at _ _ _ _ _ _ _ W Hsc) as (e1 & m1 & Hs1).
    exists e1, rids, m1.
    apply (mframe_small_other s s' id r r' rids mfids dids (mids ++ news) id' e1 m1 V1 M W W' Hs1 Hne).
    pose proof Hs1 as (Hn1 & _ & _ & _ & Hc1 & _).
    intros x Hx Hx1. apply in_app_or in Hx. destruct Hx as [Hx|Hx].
    + exact (Hmids id' e1 m1 Hne Hn1 (small_at_entry _ _ _ _ _ _ Hs1) Hc1 x Hx Hx1).
    + exact (path_not_fresh _ _ _ _ (WalkProofs.chain_ids_path _ _ _ Hc1) Hx1 (Hfresh x Hx)).
  - intros id' V1 Hne Hb.
    apply (mframe_big_other s s' id r rids mfids dids (mids ++ news) id' V1 M W Hb Hne).
    intros e ids He Hc. destruct Hb as (e2 & ids2 & He2 & Ht2 & Hcut2 & _).
    rewrite He in He2. injection He2 as <-. intros x Hx.
    destruct (sw_big _ _ _ _ _ _ SW id' e ids (noX_not _) He (conj Ht2 Hcut2) Hc x Hx) as (B1 & B2 & B3 & _).
    split; [exact B1|]. split; [exact B2 | exact B3].
  - intros id' Hne He. exact (mframe_empty_other s s' id r rids mfids dids _ id' M W He Hne).
Qed.

Lemma small_mids_avoided : forall s r rids mfids dids id e mids V,
  SWf_at s r rids mfids dids -> small_at s id e rids mids V ->
  forall j e' m, j <> id -> nthN (dirs s) j = Some e' -> small_entry e' ->
     chain_ids_of (minifat s) (d_start e') = Ok m -> forall x, In x mids -> ~ In x m.
Proof.
  intros s r rids mfids dids id e mids V SW Hsm j e' m Hj He' Hs' Hc' x Hx.
  pose proof Hsm as (Hn & _ & _ & _ & Hc & _).
  apply (sw_disj _ _ _ _ _ _ SW id j e e' mids m (noX_not _) (noX_not _)); try assumption.
  - congruence.
  - exact (small_at_entry _ _ _ _ _ _ Hsm).
Qed.

(* the number of mini sectors needed for [n] bytes *)
Definition msectors (n : N) : N := (n + 63) / 64.

Lemma msectors_ceil : forall n, (64 + n - 1) / 64 = msectors n.
Proof. intro n. unfold msectors. f_equal. lia. Qed.

(* 1 (resize): a small stream is resized to a length that needs at least as
   many mini sectors as it has; the missing ones are allocated *)
Theorem resize_small_alloc : forall s id V k new_len,
  small_content s id V -> mini_sectors s id k ->
  0 < new_len -> new_len < MINI_STREAM_CUTOFF -> k <= msectors new_len ->
  mini_room s (msectors new_len - k) ->
  exists s',
    resize id new_len s = (s', Ok tt) /\
    small_content s' id (takeN new_len V ++ repeatN 0 (new_len - lenN V)) /\
    mini_sectors s' id (msectors new_len) /\
    SWf s' /\ others_kept s s' id.
Proof.
  intros s id V k new_len Hsc Hk Hpos Hcut Hle (r & rids & mfids & dids & SW & Hroom).
  pose proof (sw_m _ _ _ _ _ _ SW) as W.
  destruct (small_content_at _ _ _ _ _ _ _ W Hsc) as (e & mids & Hsm).
  pose proof (mini_sectors_small_at _ _ _ _ _ _ _ Hsm Hk) as Ek. subst k.
  rewrite <- msectors_ceil in *.
  destruct (resize_small_alloc_full s id e r rids mfids dids mids V new_len W Hsm Hpos Hle Hcut Hroom)
    as (s' & news & r' & Hrun & Hsm' & Hlen & W' & Hfresh & M).
  destruct (after_op s s' r r' rids mfids dids id _ mids news _ SW W' Hsm' Hfresh
              (small_mids_avoided _ _ _ _ _ _ _ _ _ SW Hsm) M) as [SW' Hoth].
  exists s'. split; [exact Hrun|]. split; [eexists _, rids, _; exact Hsm'|].
  split; [rewrite <- Hlen; exact (small_at_mini_sectors _ _ _ _ _ _ Hsm')|].
  split; [exists r', rids, mfids, dids; exact SW' | exact Hoth].
Qed.

(* 1 (write_data): a write into a small stream that stays small; the mini
   sectors it lacks are allocated *)
Theorem write_data_small_alloc : forall s id V k off buf,
  small_content s id V -> mini_sectors s id k ->
  off <= lenN V -> lenN (spliceN V off buf) < MINI_STREAM_CUTOFF ->
  mini_room s (msectors (off + lenN buf) - k) ->
  exists s',
    write_data id off buf s = (s', Ok tt) /\
    small_content s' id (spliceN V off buf) /\
    mini_sectors s' id (N.max k (msectors (off + lenN buf))) /\
    SWf s' /\ others_kept s s' id.
Proof.
  intros s id V k off buf Hsc Hk Hoff Hcut (r & rids & mfids & dids & SW & Hroom).
  pose proof (sw_m _ _ _ _ _ _ SW) as W.
  destruct (small_content_at _ _ _ _ _ _ _ W Hsc) as (e & mids & Hsm).
  pose proof (mini_sectors_small_at _ _ _ _ _ _ _ Hsm Hk) as Ek. subst k.
  rewrite lenN_spliceN in Hcut. unfold msectors in *.
  destruct (write_data_small_alloc_full s id e r rids mfids dids mids V off buf W Hsm Hoff)
    as (s' & news & r' & Hrun & Hsm' & Hlen & W' & Hfresh & M); [blia | exact Hroom |].
  destruct (after_op s s' r r' rids mfids dids id _ mids news _ SW W' Hsm' Hfresh
              (small_mids_avoided _ _ _ _ _ _ _ _ _ SW Hsm) M) as [SW' Hoth].
  exists s'. split; [exact Hrun|]. split; [eexists _, rids, _; exact Hsm'|].
  split.
  { replace (N.max (lenN mids) ((off + lenN buf + 63) / 64)) with (lenN (mids ++ news))
      by (rewrite lenN_app, Hlen; lia).
    exact (small_at_mini_sectors _ _ _ _ _ _ Hsm'). }
  split; [exists r', rids, mfids, dids; exact SW' | exact Hoth].
Qed.

(* 2 (case 1a, resize): an empty stream becomes a small stream of zeros *)
Theorem resize_empty_small : forall s id new_len,
  empty_stream s id -> 0 < new_len -> new_len < MINI_STREAM_CUTOFF ->
  mini_room s (msectors new_len) ->
  exists s',
    resize id new_len s = (s', Ok tt) /\
    small_content s' id (repeatN 0 new_len) /\
    mini_sectors s' id (msectors new_len) /\
    SWf s' /\ others_kept s s' id.
Proof.
  intros s id new_len (e & He) Hpos Hcut (r & rids & mfids & dids & SW & Hroom).
  pose proof (sw_m _ _ _ _ _ _ SW) as W.
  rewrite <- msectors_ceil in *.
  destruct (resize_empty_small_full s id e r rids mfids dids new_len W He Hpos Hcut Hroom)
    as (s' & news & r' & Hrun & Hsm' & Hlen & W' & Hfresh & M).
  destruct (after_op s s' r r' rids mfids dids id _ [] news _ SW W' Hsm' Hfresh
              ltac:(intros j e0 m _ _ _ _ x []) M) as [SW' Hoth].
  exists s'. split; [exact Hrun|]. split; [eexists _, rids, _; exact Hsm'|].
  split; [rewrite <- Hlen; exact (small_at_mini_sectors _ _ _ _ _ _ Hsm')|].
  split; [exists r', rids, mfids, dids; exact SW' | exact Hoth].
Qed.

(* 2 (case 1a, write_data): the first write into an empty stream *)
Theorem write_data_empty_small : forall s id buf,
  empty_stream s id -> 0 < lenN buf -> lenN buf < MINI_STREAM_CUTOFF ->
  mini_room s (msectors (lenN buf)) ->
  exists s',
    write_data id 0 buf s = (s', Ok tt) /\
    small_content s' id buf /\
    mini_sectors s' id (msectors (lenN buf)) /\
    SWf s' /\ others_kept s s' id.
Proof.
  intros s id buf (e & He) Hpos Hcut (r & rids & mfids & dids & SW & Hroom).
  pose proof (sw_m _ _ _ _ _ _ SW) as W. unfold msectors in *.
  destruct (write_data_empty_small_full s id e r rids mfids dids buf W He Hpos Hcut Hroom)
    as (s' & news & r' & Hrun & Hsm' & Hlen & W' & Hfresh & M).
  destruct (after_op s s' r r' rids mfids dids id _ [] news _ SW W' Hsm' Hfresh
              ltac:(intros j e0 m _ _ _ _ x []) M) as [SW' Hoth].
  exists s'. split; [exact Hrun|]. split; [eexists _, rids, _; exact Hsm'|].
  split; [rewrite <- Hlen; exact (small_at_mini_sectors _ _ _ _ _ _ Hsm')|].
  split; [exists r', rids, mfids, dids; exact SW' | exact Hoth].
Qed.

(* ------------------------------------------------------------------ *)
(* where the room comes from: (a) the mini free list, (b) the retained  *)
(* capacity of the MiniFAT chain and of the mini-stream container       *)
(* ------------------------------------------------------------------ *)

Lemma mini_room_reuse : forall s k, SWf s -> k <= lenN (mfree s) -> mini_room s k.
Proof.
  intros s k (r & rids & mfids & dids & SW) Hk.
  exists r, rids, mfids, dids. split; [exact SW | left; exact Hk].
Qed.

Lemma mini_room_capacity : forall s r rids mfids dids k,
  SWf_at s r rids mfids dids ->
  4 * (lenN (minifat s) + k) <= slen s * lenN mfids ->
  64 * (lenN (minifat s) + k) <= slen s * lenN rids ->
  lenN (minifat s) + k <= MAX_REGULAR_SECTOR + 1 ->
  64 * (lenN (minifat s) + k) <= stream_len_mask (ver s) ->
  mini_room s k.
Proof.
  intros s r rids mfids dids k SW H1 H2 H3 H4.
  exists r, rids, mfids, dids. split; [exact SW|]. right. repeat split; lia.
Qed.

(* ------------------------------------------------------------------ *)
(* reading back                                                        *)
(* ------------------------------------------------------------------ *)

Lemma small_content_pos : forall s id V, small_content s id V -> 0 < lenN V /\ lenN V < MINI_STREAM_CUTOFF.
Proof.
  intros s id V (e & ids & mids & H). rewrite (small_at_lenV _ _ _ _ _ _ H).
  destruct H as (_ & _ & Hc & Hp & _). split; assumption.
Qed.

Lemma read_back_all : forall s id V,
  small_content s id V -> read_data id 0 (lenN V) s = (s, Ok V).
Proof.
  intros s id V H. destruct (small_content_pos _ _ _ H) as [Hp _].
  rewrite (read_data_small s id V 0 (lenN V) H Hp Hp).
  rewrite N.sub_0_r, N.min_id, dropN_0, takeN_all by lia. reflexivity.
Qed.

Lemma read_back_range : forall s id (A B C : list byte),
  small_content s id (A ++ B ++ C) -> 0 < lenN B ->
  read_data id (lenN A) (lenN B) s = (s, Ok B).
Proof.
  intros s id A B C H HB.
  assert (HL : lenN (A ++ B ++ C) = lenN A + lenN B + lenN C) by (rewrite !lenN_app; lia).
  rewrite (read_data_small s id _ (lenN A) (lenN B) H) by blia.
  rewrite HL. replace (N.min (lenN B) (lenN A + lenN B + lenN C - lenN A)) with (lenN B) by blia.
  rewrite dropN_app_ge by blia. replace (lenN A - lenN A) with 0 by blia. rewrite dropN_0.
  rewrite takeN_app_le by blia. rewrite takeN_all by blia. reflexivity.
Qed.

(* C08 through read_data: after a growing resize the old bytes are there and
   the gained bytes read as zeros, whatever the new mini sectors held *)
Corollary resize_small_alloc_reads : forall s id V k new_len,
  small_content s id V -> mini_sectors s id k ->
  lenN V < new_len -> new_len < MINI_STREAM_CUTOFF -> k <= msectors new_len ->
  mini_room s (msectors new_len - k) ->
  exists s',
    resize id new_len s = (s', Ok tt) /\
    read_data id 0 (lenN V) s' = (s', Ok V) /\
    read_data id (lenN V) (new_len - lenN V) s' = (s', Ok (repeatN 0 (new_len - lenN V))) /\
    read_data id 0 new_len s' = (s', Ok (V ++ repeatN 0 (new_len - lenN V))).
Proof.
  intros s id V k new_len Hsc Hk Hgrow Hcut Hle Hroom.
  destruct (small_content_pos _ _ _ Hsc) as [HVp _].
  destruct (resize_small_alloc s id V k new_len Hsc Hk ltac:(lia) Hcut Hle Hroom)
    as (s' & Hrun & Hsc' & _).
  rewrite takeN_all in Hsc' by lia.
  set (z := new_len - lenN V) in *.
  assert (Hz : lenN (repeatN 0 z : list byte) = z) by apply lenN_repeatN.
  exists s'. split; [exact Hrun|]. split; [|split].
  - pose proof (read_back_range s' id [] V (repeatN 0 z) Hsc' HVp) as H. exact H.
  - pose proof (read_back_range s' id V (repeatN 0 z) []) as H.
    rewrite app_nil_r in H. rewrite Hz in H. apply H; [exact Hsc' | unfold z; lia].
  - pose proof (read_back_all s' id _ Hsc') as H.
    rewrite lenN_app, Hz in H. replace (lenN V + z) with new_len in H by (unfold z; lia).
    exact H.
Qed.

Corollary write_data_small_alloc_reads : forall s id V k off buf,
  small_content s id V -> mini_sectors s id k ->
  off <= lenN V -> lenN (spliceN V off buf) < MINI_STREAM_CUTOFF ->
  mini_room s (msectors (off + lenN buf) - k) ->
  exists s',
    write_data id off buf s = (s', Ok tt) /\
    read_data id 0 (lenN (spliceN V off buf)) s' = (s', Ok (spliceN V off buf)) /\
    (0 < lenN buf -> read_data id off (lenN buf) s' = (s', Ok buf)).
Proof.
  intros s id V k off buf Hsc Hk Hoff Hcut Hroom.
  destruct (write_data_small_alloc s id V k off buf Hsc Hk Hoff Hcut Hroom)
    as (s' & Hrun & Hsc' & _).
  exists s'. split; [exact Hrun|]. split; [exact (read_back_all s' id _ Hsc')|].
  intro Hb.
  assert (E : spliceN V off buf = takeN off V ++ buf ++ dropN (off + lenN buf) V).
  { unfold spliceN. rewrite lenN_takeN. replace (off - N.min off (lenN V)) with 0 by blia.
    reflexivity. }
  rewrite E in Hsc'.
  pose proof (read_back_range s' id _ buf _ Hsc' Hb) as H.
  rewrite lenN_takeN in H. replace (N.min off (lenN V)) with off in H by blia. exact H.
Qed.

(* ------------------------------------------------------------------ *)
(* the contract clauses of spec/VecSpec.v, restricted to these cases   *)
(* ------------------------------------------------------------------ *)

(* stream [id] holds exactly the bytes V *)
Definition content (s : cstate) (id : N) (V : list byte) : Prop :=
  (V = [] /\ empty_stream s id) \/ small_content s id V \/ big_content s id V.

Lemma big_content_len_ge : forall s id V, big_content s id V -> MINI_STREAM_CUTOFF <= lenN V.
Proof.
  intros s id V H. pose proof H as (e & ids & He & _ & Hc & _).
  rewrite (StoreProofs.big_content_len _ _ _ _ H He). exact Hc.
Qed.

Lemma empty_mini_sectors : forall s id k, empty_stream s id -> mini_sectors s id k -> k = 0.
Proof.
  intros s id k (e & Hn & _ & Hst & _) (e2 & m & Hn2 & Hc & Hk).
  rewrite Hn in Hn2. injection Hn2 as <-. rewrite Hst in Hc.
  rewrite (chain_of_path (minifat s) END_OF_CHAIN [] (WalkProofs.path_nil _)) in Hc.
  injection Hc as <-. symmetry. exact Hk.
Qed.

(* read_data_contract: reads never change the state here *)
Theorem read_data_contract_here : forall s id V off n,
  content s id V -> off < lenN V -> 0 < n ->
  read_data id off n s = (s, Ok (takeN (N.min n (lenN V - off)) (dropN off V))).
Proof.
  intros s id V off n [[-> _]|[H|H]] Hoff Hn.
  - cbn [lenN] in Hoff. lia.
  - apply read_data_small; assumption.
  - apply StoreProofs.read_data_big; assumption.
Qed.

Theorem write_data_contract_small_alloc : forall s id V k off buf,
  content s id V -> mini_sectors s id k -> off <= lenN V ->
  0 < lenN buf -> lenN (spliceN V off buf) < MINI_STREAM_CUTOFF ->
  mini_room s (msectors (off + lenN buf) - k) ->
  exists s',
    write_data id off buf s = (s', Ok tt) /\
    content s' id (spliceN V off buf) /\
    SWf s' /\ others_kept s s' id.
Proof.
  intros s id V k off buf [[-> He]|[H|H]] Hk Hoff Hb Hcut Hroom.
  - cbn [lenN] in Hoff. assert (off = 0) by lia. subst off.
    pose proof (empty_mini_sectors _ _ _ He Hk). subst k.
    assert (Es : spliceN [] 0 buf = buf).
    { unfold spliceN. cbn [takeN dropN lenN app]. rewrite N.sub_diag.
      change (repeatN 0 0) with (@nil byte). cbn [app]. apply app_nil_r. }
    rewrite Es in *. rewrite N.add_0_l, N.sub_0_r in Hroom.
    destruct (write_data_empty_small s id buf He Hb Hcut Hroom) as (s' & Hrun & Hsc' & _ & SW' & Ho).
    exists s'. split; [exact Hrun|]. split; [right; left; exact Hsc'|]. split; assumption.
  - destruct (write_data_small_alloc s id V k off buf H Hk Hoff Hcut Hroom)
      as (s' & Hrun & Hsc' & _ & SW' & Ho).
    exists s'. split; [exact Hrun|]. split; [right; left; exact Hsc'|]. split; assumption.
  - pose proof (big_content_len_ge _ _ _ H). rewrite lenN_spliceN in Hcut. blia.
Qed.

Theorem resize_contract_small_alloc : forall s id V k n,
  content s id V -> mini_sectors s id k -> lenN V < MINI_STREAM_CUTOFF ->
  0 < n -> n < MINI_STREAM_CUTOFF -> k <= msectors n ->
  mini_room s (msectors n - k) ->
  exists s',
    resize id n s = (s', Ok tt) /\
    content s' id (takeN n V ++ repeatN 0 (n - lenN V)) /\
    SWf s' /\ others_kept s s' id.
Proof.
  intros s id V k n [[-> He]|[H|H]] Hk HV Hn Hcut Hle Hroom.
  - pose proof (empty_mini_sectors _ _ _ He Hk). subst k. rewrite N.sub_0_r in Hroom.
    destruct (resize_empty_small s id n He Hn Hcut Hroom) as (s' & Hrun & Hsc' & _ & SW' & Ho).
    exists s'. split; [exact Hrun|]. cbn [takeN lenN app]. rewrite N.sub_0_r.
    split; [right; left; exact Hsc'|]. split; assumption.
  - destruct (resize_small_alloc s id V k n H Hk Hn Hcut Hle Hroom)
      as (s' & Hrun & Hsc' & _ & SW' & Ho).
    exists s'. split; [exact Hrun|]. split; [right; left; exact Hsc'|]. split; assumption.
  - pose proof (big_content_len_ge _ _ _ H). lia.
Qed.

(* ------------------------------------------------------------------ *)
(* SWf is decidable on concrete states                                 *)
(* ------------------------------------------------------------------ *)

Definition good_chain_b (s : cstate) (ids : list N) : bool :=
  StoreProofs.nodup_b ids &&
  forallb (fun sid => (sid <? nsect s) && (lenN (sector_bytes s sid) =? slen s)) ids &&
  (lenN (img s) =? nsect s + 1).

Lemma good_chain_b_sound : forall s ids, good_chain_b s ids = true -> good_chain s ids.
Proof.
  intros s ids H. unfold good_chain_b in H.
  apply andb_true_iff in H. destruct H as [H H3].
  apply andb_true_iff in H. destruct H as [H1 H2].
  split; [apply StoreProofs.nodup_b_sound; exact H1|].
  split; [|split; [apply N.eqb_eq; exact H3 | apply slen_pos]].
  rewrite Forall_forall. rewrite forallb_forall in H2. intros x Hx.
  specialize (H2 x Hx). apply andb_true_iff in H2. destruct H2 as [A B].
  split; [apply N.ltb_lt; exact A | apply N.eqb_eq; exact B].
Qed.

Definition is_small (e : dirent) : bool :=
  objtype_eqb (d_type e) TStream && (0 <? d_len e) && (d_len e <? MINI_STREAM_CUTOFF).

Lemma is_small_true : forall e, small_entry e -> is_small e = true.
Proof.
  intros e (Ht & Hp & Hc). unfold is_small. rewrite Ht. cbn [objtype_eqb andb].
  apply andb_true_iff. split; [apply N.ltb_lt; exact Hp | apply N.ltb_lt; exact Hc].
Qed.

Definition pairs_b (s : cstate) (sel : dirent -> bool) (tbl : list N) : bool :=
  forallb (fun i => forallb (fun j =>
    if i =? j then true else
    match nthN (dirs s) i, nthN (dirs s) j with
    | Some ei, Some ej =>
      if sel ei && sel ej then
        match chain_ids_of tbl (d_start ei), chain_ids_of tbl (d_start ej) with
        | Ok li, Ok lj => StoreProofs.disjoint_b li lj
        | _, _ => true
        end
      else true
    | _, _ => true
    end) (rangeN (lenN (dirs s)))) (rangeN (lenN (dirs s))).

Lemma pairs_b_sound : forall s sel tbl, pairs_b s sel tbl = true ->
  forall j1 j2 e1 e2 l1 l2, j1 <> j2 ->
    nthN (dirs s) j1 = Some e1 -> sel e1 = true -> chain_ids_of tbl (d_start e1) = Ok l1 ->
    nthN (dirs s) j2 = Some e2 -> sel e2 = true -> chain_ids_of tbl (d_start e2) = Ok l2 ->
    forall x, In x l1 -> ~ In x l2.
Proof.
  intros s sel tbl Hpair j1 j2 e1 e2 l1 l2 Hne He1 Hs1 Hc1 He2 Hs2 Hc2.
  unfold pairs_b in Hpair. rewrite forallb_forall in Hpair.
  specialize (Hpair j1 (In_rangeN _ _ (nthN_Some_lt _ _ _ _ He1))).
  rewrite forallb_forall in Hpair.
  specialize (Hpair j2 (In_rangeN _ _ (nthN_Some_lt _ _ _ _ He2))).
  destruct (j1 =? j2) eqn:E; [lia|].
  rewrite He1, He2, Hs1, Hs2, Hc1, Hc2 in Hpair.
  cbn [andb] in Hpair. exact (StoreProofs.disjoint_b_sound _ _ Hpair).
Qed.

Definition swf_b (s : cstate) : bool :=
  match nthN (dirs s) ROOT_STREAM_ID with
  | Some r =>
    match chain_ids_of (fat s) (d_start r), chain_ids_of (fat s) (minifat_start s),
          chain_ids_of (fat s) (dir_start s) with
    | Ok rids, Ok mfids, Ok dids =>
      negb (objtype_eqb (d_type r) TStream) &&
      good_chain_b s rids && (d_len r =? 64 * lenN (minifat s)) &&
      (64 * lenN (minifat s) <=? slen s * lenN rids) &&
      good_chain_b s mfids && (4 * lenN (minifat s) <=? slen s * lenN mfids) &&
      (lenN (minifat s) <=? MAX_REGULAR_SECTOR + 1) &&
      good_chain_b s dids && (DIR_ENTRY_LEN * lenN (dirs s) <=? slen s * lenN dids) &&
      forallb (fun e => lenN (utf16 (d_name e)) <=? MAX_NAME_LEN) (dirs s) &&
      StoreProofs.disjoint_b rids mfids && StoreProofs.disjoint_b rids dids &&
      StoreProofs.nodup_b (mfree s) &&
      forallb (fun x => match nthN (minifat s) x with
                        | Some v => v =? FREE_SECTOR | None => false end) (mfree s) &&
      alloc_wf_b s && (nsect s <=? MAX_REGULAR_SECTOR + 1) &&
      StoreProofs.nodup_b (free s) &&
      StoreProofs.disjoint_b (rids ++ mfids ++ dids) (free s) &&
      StoreProofs.disjoint_b (rids ++ mfids ++ dids) (difat s) &&
      StoreProofs.disjoint_b (free s) (difat s) &&
      forallb (fun e => if is_small e then
                          match chain_ids_of (minifat s) (d_start e) with
                          | Ok m => d_len e <=? 64 * lenN m
                          | _ => false
                          end
                        else true) (dirs s) &&
      pairs_b s is_small (minifat s) &&
      forallb (fun e => if StoreProofs.is_big e then
                          match chain_ids_of (fat s) (d_start e) with
                          | Ok ids => (d_len e <=? slen s * lenN ids) &&
                                      forallb (fun x => x <? nsect s) ids &&
                                      StoreProofs.disjoint_b ids rids &&
                                      StoreProofs.disjoint_b ids mfids &&
                                      StoreProofs.disjoint_b ids dids &&
                                      StoreProofs.disjoint_b ids (free s) &&
                                      StoreProofs.disjoint_b ids (difat s)
                          | _ => false
                          end
                        else true) (dirs s) &&
      pairs_b s StoreProofs.is_big (fat s)
    | _, _, _ => false
    end
  | None => false
  end.

Lemma swf_b_sound : forall s, swf_b s = true -> SWf s.
Proof.
  intros s H. unfold swf_b in H.
  destruct (nthN (dirs s) ROOT_STREAM_ID) as [r|] eqn:Hr; [|discriminate].
  destruct (chain_ids_of (fat s) (d_start r)) as [rids| | |] eqn:Hrc; try discriminate.
  destruct (chain_ids_of (fat s) (minifat_start s)) as [mfids| | |] eqn:Hmc; try discriminate.
  destruct (chain_ids_of (fat s) (dir_start s)) as [dids| | |] eqn:Hdc; try discriminate.
  apply andb_true_iff in H. destruct H as [H Hbigpair].
  apply andb_true_iff in H. destruct H as [H Hbig].
  apply andb_true_iff in H. destruct H as [H Hpair].
  apply andb_true_iff in H. destruct H as [H Hsmall].
  apply andb_true_iff in H. destruct H as [H Hfdifat].
  apply andb_true_iff in H. destruct H as [H Hsysd].
  apply andb_true_iff in H. destruct H as [H Hsysf].
  apply andb_true_iff in H. destruct H as [H Hfreend].
  apply andb_true_iff in H. destruct H as [H Hnsect].
  apply andb_true_iff in H. destruct H as [H Halloc].
  apply andb_true_iff in H. destruct H as [H Hffree].
  apply andb_true_iff in H. destruct H as [H Hfnd].
  apply andb_true_iff in H. destruct H as [H Hrd].
  apply andb_true_iff in H. destruct H as [H Hrm].
  apply andb_true_iff in H. destruct H as [H Hnames].
  apply andb_true_iff in H. destruct H as [H Hdcap].
  apply andb_true_iff in H. destruct H as [H Hdgood].
  apply andb_true_iff in H. destruct H as [H Hbound].
  apply andb_true_iff in H. destruct H as [H Hmcap].
  apply andb_true_iff in H. destruct H as [H Hmgood].
  apply andb_true_iff in H. destruct H as [H Hrcap].
  apply andb_true_iff in H. destruct H as [H Hrlen].
  apply andb_true_iff in H. destruct H as [Hrtype Hrgood].
  rewrite forallb_forall in Hnames, Hffree, Hsmall, Hbig.
  assert (Hsys_in : forall x, In x rids \/ In x mfids \/ In x dids -> In x (rids ++ mfids ++ dids)).
  { intros x [Hx|[Hx|Hx]]; apply in_or_app; [left; exact Hx | right | right];
      apply in_or_app; [left; exact Hx | right; exact Hx]. }
  exists r, rids, mfids, dids. constructor.
  - constructor.
    + exact Hr.
    + intro E. rewrite E in Hrtype. discriminate.
    + exact Hrc.
    + apply good_chain_b_sound. exact Hrgood.
    + apply N.eqb_eq. exact Hrlen.
    + apply N.leb_le. exact Hrcap.
    + exact Hmc.
    + apply good_chain_b_sound. exact Hmgood.
    + apply N.leb_le. exact Hmcap.
    + apply N.leb_le. exact Hbound.
    + exact Hdc.
    + apply good_chain_b_sound. exact Hdgood.
    + apply N.leb_le. exact Hdcap.
    + intros id e He. apply N.leb_le. apply Hnames. eapply nthN_In. exact He.
    + apply StoreProofs.disjoint_b_sound. exact Hrm.
    + apply StoreProofs.disjoint_b_sound. exact Hrd.
    + apply StoreProofs.nodup_b_sound. exact Hfnd.
    + intros x Hx. specialize (Hffree x Hx).
      destruct (nthN (minifat s) x) as [v|]; [|discriminate].
      apply N.eqb_eq in Hffree. subst v. reflexivity.
  - apply alloc_wf_b_sound. exact Halloc.
  - apply N.leb_le. exact Hnsect.
  - apply StoreProofs.nodup_b_sound. exact Hfreend.
  - intros x Hx. apply Hsys_in in Hx.
    split; [exact (StoreProofs.disjoint_b_sound _ _ Hsysf x Hx)
           | exact (StoreProofs.disjoint_b_sound _ _ Hsysd x Hx)].
  - apply StoreProofs.disjoint_b_sound. exact Hfdifat.
  - intros j e _ He Hs. specialize (Hsmall e (nthN_In _ _ _ _ He)).
    rewrite (is_small_true e Hs) in Hsmall.
    destruct (chain_ids_of (minifat s) (d_start e)) as [m| | |]; try discriminate.
    exists m. split; [reflexivity | apply N.leb_le; exact Hsmall].
  - intros j1 j2 e1 e2 m1 m2 _ _ Hne He1 Hs1 Hc1 He2 Hs2 Hc2.
    exact (pairs_b_sound s is_small (minifat s) Hpair j1 j2 e1 e2 m1 m2 Hne
             He1 (is_small_true e1 Hs1) Hc1 He2 (is_small_true e2 Hs2) Hc2).
  - intros j e _ He (Tb & Lb). specialize (Hbig e (nthN_In _ _ _ _ He)).
    rewrite (StoreProofs.is_big_true e Tb Lb) in Hbig.
    destruct (chain_ids_of (fat s) (d_start e)) as [ids| | |]; try discriminate.
    exists ids. split; [reflexivity|].
    do 5 (apply andb_true_iff in Hbig; destruct Hbig as [Hbig _]).
    apply andb_true_iff in Hbig. destruct Hbig as [Hb1 Hb2].
    split; [apply N.leb_le; exact Hb1|].
    rewrite Forall_forall. rewrite forallb_forall in Hb2. intros x Hx. apply N.ltb_lt. exact (Hb2 x Hx).
  - intros j e ids _ He (Tb & Lb) Hc x Hx. specialize (Hbig e (nthN_In _ _ _ _ He)).
    rewrite (StoreProofs.is_big_true e Tb Lb), Hc in Hbig.
    apply andb_true_iff in Hbig. destruct Hbig as [Hbig Hb5].
    apply andb_true_iff in Hbig. destruct Hbig as [Hbig Hb4].
    apply andb_true_iff in Hbig. destruct Hbig as [Hbig Hb3].
    apply andb_true_iff in Hbig. destruct Hbig as [Hbig Hb2].
    apply andb_true_iff in Hbig. destruct Hbig as [Hbig Hb1].
    repeat split; eapply StoreProofs.disjoint_b_sound; eassumption.
  - intros j1 j2 e1 e2 l1 l2 _ _ Hne He1 (T1 & L1) Hc1 He2 (T2 & L2) Hc2.
    exact (pairs_b_sound s StoreProofs.is_big (fat s) Hbigpair j1 j2 e1 e2 l1 l2 Hne
             He1 (StoreProofs.is_big_true e1 T1 L1) Hc1
             He2 (StoreProofs.is_big_true e2 T2 L2) Hc2).
Qed.

(* the room, decided *)
Definition mini_room_b (s : cstate) (k : N) : bool :=
  swf_b s &&
  match nthN (dirs s) ROOT_STREAM_ID with
  | Some r =>
    match chain_ids_of (fat s) (d_start r), chain_ids_of (fat s) (minifat_start s) with
    | Ok rids, Ok mfids =>
      (k <=? lenN (mfree s)) ||
      ((4 * (lenN (minifat s) + (k - lenN (mfree s))) <=? slen s * lenN mfids) &&
       (64 * (lenN (minifat s) + (k - lenN (mfree s))) <=? slen s * lenN rids) &&
       (lenN (minifat s) + (k - lenN (mfree s)) <=? MAX_REGULAR_SECTOR + 1) &&
       (64 * (lenN (minifat s) + (k - lenN (mfree s))) <=? stream_len_mask (ver s)))
    | _, _ => false
    end
  | None => false
  end.

Lemma mini_room_b_sound : forall s k, mini_room_b s k = true -> mini_room s k.
Proof.
  intros s k H. unfold mini_room_b in H. apply andb_true_iff in H. destruct H as [Hw H].
  destruct (swf_b_sound s Hw) as (r & rids & mfids & dids & SW).
  pose proof (sw_m _ _ _ _ _ _ SW) as W.
  rewrite (mw_root _ _ _ _ _ W), (mw_rch _ _ _ _ _ W), (mw_mch _ _ _ _ _ W) in H.
  exists r, rids, mfids, dids. split; [exact SW|].
  apply orb_true_iff in H. destruct H as [H|H]; [left; apply N.leb_le; exact H|].
  apply andb_true_iff in H. destruct H as [H H4].
  apply andb_true_iff in H. destruct H as [H H3].
  apply andb_true_iff in H. destruct H as [H1 H2].
  right. repeat split; apply N.leb_le; assumption.
Qed.

(* the content of a small stream, computed *)
Definition small_bytes (s : cstate) (id : N) : option (list byte) :=
  match nthN (dirs s) id, nthN (dirs s) ROOT_STREAM_ID with
  | Some e, Some r =>
    match chain_ids_of (fat s) (d_start r), chain_ids_of (minifat s) (d_start e) with
    | Ok rids, Ok mids =>
      if is_small e then Some (takeN (d_len e) (mchain_content s rids mids)) else None
    | _, _ => None
    end
  | _, _ => None
  end.

Lemma small_bytes_sound : forall s id V,
  SWf s -> small_bytes s id = Some V -> small_content s id V.
Proof.
  intros s id V (r & rids & mfids & dids & SW) H. unfold small_bytes in H.
  pose proof (sw_m _ _ _ _ _ _ SW) as W.
  destruct (nthN (dirs s) id) as [e|] eqn:He; [|discriminate].
  rewrite (mw_root _ _ _ _ _ W), (mw_rch _ _ _ _ _ W) in H.
  destruct (chain_ids_of (minifat s) (d_start e)) as [mids| | |] eqn:Hc; try discriminate.
  destruct (is_small e) eqn:Es; [|discriminate]. injection H as <-.
  unfold is_small in Es. apply andb_true_iff in Es. destruct Es as [Es E3].
  apply andb_true_iff in Es. destruct Es as [E1 E2].
  assert (Ht : d_type e = TStream) by (destruct (d_type e); try discriminate; reflexivity).
  apply N.ltb_lt in E2, E3.
  destruct (sw_small _ _ _ _ _ _ SW id e (noX_not _) He (conj Ht (conj E2 E3))) as (m & Hc' & Hl).
  rewrite Hc in Hc'. injection Hc' as <-.
  exists e, rids, mids. unfold small_at. splits; try assumption; try reflexivity.
  exact (good_mchain_of_path _ _ _ _ _ _ _ W (WalkProofs.chain_ids_path _ _ _ Hc)).
Qed.

(* ------------------------------------------------------------------ *)
(* FAT-level operations leave the mini-level tables and the directory  *)
(* alone                                                               *)
(* ------------------------------------------------------------------ *)

Definition Q (s : cstate) := (minifat s, mfree s, minifat_start s, dirs s, dir_start s, ver s).

Definition keeps {A} (m : M A) : Prop := forall s s' r, m s = (s', r) -> Q s' = Q s.

Lemma keeps_bind : forall A B (m : M A) (f : A -> M B),
  keeps m -> (forall a, keeps (f a)) -> keeps (bind m f).
Proof.
  intros A B m f Hm Hf s s' r H. unfold bind in H.
  destruct (m s) as [s1 [a|k|n|]] eqn:E.
  - rewrite (Hf a s1 s' r H). exact (Hm s s1 _ E).
  - injection H as <- _. exact (Hm s s1 _ E).
  - injection H as <- _. exact (Hm s s1 _ E).
  - injection H as <- _. exact (Hm s s1 _ E).
Qed.

Lemma keeps_const : forall A (x : res A), keeps (fun s => (s, x)).
Proof. intros A x s s' r H. injection H as <- _. reflexivity. Qed.

Lemma keeps_get : keeps get.
Proof. intros s s' r H. injection H as <- _. reflexivity. Qed.

Lemma keeps_modify : forall g, (forall s, Q (g s) = Q s) -> keeps (modify g).
Proof. intros g Hg s s' r H. injection H as <- _. apply Hg. Qed.

Ltac keeps_step :=
  first
    [ apply keeps_bind; [|intro]
    | apply keeps_get
    | apply keeps_modify; intro; reflexivity
    | match goal with
      | |- keeps (ret _) => apply keeps_const
      | |- keeps (fail _) => apply keeps_const
      | |- keeps (panic _) => apply keeps_const
      | |- keeps out_of_fuel => apply keeps_const
      | |- keeps (lift _) => apply keeps_const
      | |- keeps (if ?b then _ else _) => destruct b
      | |- keeps (match ?x with _ => _ end) => destruct x
      | H : _ |- _ => apply H
      end ].

Lemma keeps_seek_sector : forall sid off, keeps (seek_sector sid off).
Proof. intros. unfold seek_sector. repeat keeps_step. Qed.

Lemma keeps_sector_write : forall sid off bs, keeps (sector_write sid off bs).
Proof. intros. unfold sector_write. pose proof keeps_seek_sector. repeat keeps_step. Qed.

Lemma keeps_init_sector : forall sid i, keeps (init_sector sid i).
Proof. intros. unfold init_sector. pose proof keeps_sector_write. repeat keeps_step. Qed.

Lemma keeps_set_fat : forall i v, keeps (set_fat i v).
Proof. intros. unfold set_fat. pose proof keeps_sector_write. repeat keeps_step. Qed.

Lemma keeps_free_sector : forall sid, keeps (free_sector sid).
Proof. intros. unfold free_sector. pose proof keeps_set_fat. repeat keeps_step. Qed.

Lemma keeps_next : forall sid, keeps (next sid).
Proof. intros. unfold next. repeat keeps_step. Qed.

Lemma keeps_free_chain_go : forall fuel sid, keeps (free_chain_go fuel sid).
Proof.
  induction fuel as [|f IH]; intro sid; cbn [free_chain_go].
  - apply keeps_const.
  - pose proof keeps_next. pose proof keeps_free_sector. repeat keeps_step.
Qed.

Lemma keeps_free_chain : forall start, keeps (free_chain start).
Proof. intros. unfold free_chain. pose proof keeps_free_chain_go. repeat keeps_step. Qed.

Lemma Q_fields : forall s s', Q s' = Q s ->
  minifat s' = minifat s /\ mfree s' = mfree s /\ minifat_start s' = minifat_start s /\
  dirs s' = dirs s /\ dir_start s' = dir_start s /\ ver s' = ver s /\ slen s' = slen s.
Proof.
  intros s s' H. unfold Q in H. injection H as H1 H2 H3 H4 H5 H6.
  unfold slen. rewrite H6. repeat split; assumption.
Qed.

(* MWf_at after a FAT-level operation that leaves the three system chains alone *)
Lemma MWf_fat_transfer : forall s s' r rids mfids dids,
  MWf_at s r rids mfids dids -> Q s' = Q s -> AllocWf s' ->
  nsect s' = nsect s -> lenN (fat s) <= lenN (fat s') ->
  (forall x, In x rids \/ In x mfids \/ In x dids -> nthN (fat s') x = nthN (fat s) x) ->
  MWf_at s' r rids mfids dids.
Proof.
  intros s s' r rids mfids dids W HQ Wa Hns Hfl Hcells.
  destruct (Q_fields s s' HQ) as (Hmf & Hmfr & Hms & Hd & Hds & Hv & Hsl).
  assert (Hgc : forall c l, chain_ids_of (fat s) c = Ok l -> good_chain s l ->
            (forall x, In x l -> nthN (fat s') x = nthN (fat s) x) ->
            chain_ids_of (fat s') c = Ok l /\ good_chain s' l).
  { intros c l Hc (Hnd & HF & _) Hx. split.
    - apply chain_of_path. apply (path_ext_le_out _ _ _ _ (WalkProofs.chain_ids_path _ _ _ Hc) Hfl Hx).
    - apply StoreProofs.good_chain_of_wf; [exact Wa | exact Hnd |].
      eapply Forall_impl; [|exact HF]. cbv beta. intros a [Ha _]. rewrite Hns. exact Ha. }
  destruct (Hgc _ _ (mw_rch _ _ _ _ _ W) (mw_rgood _ _ _ _ _ W)) as [R1 R2];
    [intros x Hx; apply Hcells; left; exact Hx|].
  destruct (Hgc _ _ (mw_mch _ _ _ _ _ W) (mw_mgood _ _ _ _ _ W)) as [M1 M2];
    [intros x Hx; apply Hcells; right; left; exact Hx|].
  destruct (Hgc _ _ (mw_dch _ _ _ _ _ W) (mw_dgood _ _ _ _ _ W)) as [D1 D2];
    [intros x Hx; apply Hcells; right; right; exact Hx|].
  constructor.
  - rewrite Hd. apply W.
  - apply W.
  - exact R1.
  - exact R2.
  - rewrite Hmf. apply W.
  - rewrite Hmf, Hsl. apply W.
  - rewrite Hms. exact M1.
  - exact M2.
  - rewrite Hmf, Hsl. apply W.
  - rewrite Hmf. apply W.
  - rewrite Hds. exact D1.
  - exact D2.
  - rewrite Hd, Hsl. apply W.
  - rewrite Hd. apply W.
  - apply W.
  - apply W.
  - rewrite Hmfr. apply W.
  - rewrite Hmf, Hmfr. apply W.
Qed.

(* ------------------------------------------------------------------ *)
(* composition of "every other stream keeps its content"               *)
(* ------------------------------------------------------------------ *)

Lemma others_kept_trans : forall s s1 s2 id,
  others_kept s s1 id -> others_kept s1 s2 id -> others_kept s s2 id.
Proof.
  intros s s1 s2 id (A1 & A2 & A3) (B1 & B2 & B3). split; [|split].
  - intros id' V' Hne H. apply B1; [exact Hne|]. apply A1; assumption.
  - intros id' V' Hne H. apply B2; [exact Hne|]. apply A2; assumption.
  - intros id' Hne H. apply B3; [exact Hne|]. apply A3; assumption.
Qed.

Lemma after_opX : forall s s' r r' rids mfids dids X id e' mids news V',
  SWfX_at s r rids mfids dids X -> (forall j, X j -> j = id) ->
  MWf_at s' r' rids mfids dids ->
  small_at s' id e' rids (mids ++ news) V' ->
  (forall x, In x news -> fresh (minifat s) x) ->
  (forall j e m, j <> id -> nthN (dirs s) j = Some e -> small_entry e ->
     chain_ids_of (minifat s) (d_start e) = Ok m -> forall x, In x mids -> ~ In x m) ->
  mframe s s' id rids mfids dids (mids ++ news) ->
  SWf_at s' r' rids mfids dids /\ others_kept s s' id.
Proof.
  intros s s' r r' rids mfids dids X id e' mids news V' SW HX W' Hsm' Hfresh Hmids M.
  split; [eapply (SWf_after s s' r r' rids mfids dids X); try eassumption; reflexivity|].
  pose proof (sw_m _ _ _ _ _ _ SW) as W.
  split; [|split].
  - intros id' V1 Hne Hsc.
    destruct (small_content_at _ _ _ _ _ _ _ W Hsc) as (e1 & m1 & Hs1).
    exists e1, rids, m1.
    apply (mframe_small_other s s' id r r' rids mfids dids (mids ++ news) id' e1 m1 V1 M W W' Hs1 Hne).
    pose proof Hs1 as (Hn1 & _ & _ & _ & Hc1 & _).
    intros x Hx Hx1. apply in_app_or in Hx. destruct Hx as [Hx|Hx].
    + exact (Hmids id' e1 m1 Hne Hn1 (small_at_entry _ _ _ _ _ _ Hs1) Hc1 x Hx Hx1).
    + exact (path_not_fresh _ _ _ _ (WalkProofs.chain_ids_path _ _ _ Hc1) Hx1 (Hfresh x Hx)).
  - intros id' V1 Hne Hb.
    apply (mframe_big_other s s' id r rids mfids dids (mids ++ news) id' V1 M W Hb Hne).
    intros e ids He Hc. destruct Hb as (e2 & ids2 & He2 & Ht2 & Hcut2 & _).
    rewrite He in He2. injection He2 as <-. intros x Hx.
    assert (HnX : ~ X id') by (intro Hx'; exact (Hne (HX id' Hx'))).
    destruct (sw_big _ _ _ _ _ _ SW id' e ids HnX He (conj Ht2 Hcut2) Hc x Hx) as (B1 & B2 & B3 & _).
    split; [exact B1|]. split; [exact B2 | exact B3].
  - intros id' Hne He. exact (mframe_empty_other s s' id r rids mfids dids _ id' M W He Hne).
Qed.

(* ------------------------------------------------------------------ *)
(* releasing the FAT chain of a large stream                           *)
(* ------------------------------------------------------------------ *)

Lemma NoDup_app_intro : forall (a b : list N),
  NoDup a -> NoDup b -> (forall x, In x a -> ~ In x b) -> NoDup (a ++ b).
Proof. exact StoreProofs.NoDup_app_intro. Qed.

Lemma chain_fun_path : forall tbl c l l', path tbl c l -> chain_ids_of tbl c = Ok l' -> l' = l.
Proof.
  intros tbl c l l' Hp Hc. rewrite (chain_of_path _ _ _ Hp) in Hc. injection Hc as <-. reflexivity.
Qed.

(* what a FAT-level operation that touches only the cells / sectors [T]
   (none of them belonging to the system chains, the FAT, or a large stream
   outside X) preserves *)
Definition foreign (s : cstate) (rids mfids dids : list N) (X : N -> Prop) (x : N) : Prop :=
  ~ In x rids /\ ~ In x mfids /\ ~ In x dids /\ ~ In x (difat s) /\
  (forall j e l, ~ X j -> nthN (dirs s) j = Some e -> big_entry e ->
     chain_ids_of (fat s) (d_start e) = Ok l -> ~ In x l).

Lemma fat_frame_wf : forall s s' r rids mfids dids X T,
  SWfX_at s r rids mfids dids X ->
  Q s' = Q s -> AllocWf s' -> nsect s' = nsect s -> difat s' = difat s ->
  lenN (fat s) <= lenN (fat s') ->
  (forall x, ~ In x T -> nthN (fat s') x = nthN (fat s) x) ->
  (forall x, In x T -> foreign s rids mfids dids X x) ->
  NoDup (free s') -> (forall x, In x (free s') -> In x (free s) \/ In x T) ->
  SWfX_at s' r rids mfids dids X /\
  (forall j ej l, ~ X j -> nthN (dirs s) j = Some ej -> big_entry ej ->
     chain_ids_of (fat s) (d_start ej) = Ok l -> chain_ids_of (fat s') (d_start ej) = Ok l).
Proof.
  intros s s' r rids mfids dids X T SW HQ W1 Hns Hdifat Hfl T1 HT Hfnd Hfsub.
  pose proof (sw_m _ _ _ _ _ _ SW) as W.
  destruct (Q_fields s s' HQ) as (Hmf & Hmfr & Hms & Hd & Hds & Hv & Hsl).
  assert (Hsys_cells : forall x, In x rids \/ In x mfids \/ In x dids ->
            nthN (fat s') x = nthN (fat s) x).
  { intros x Hx. apply T1. intro Hin. destruct (HT x Hin) as (S1 & S2 & S3 & _).
    destruct Hx as [Hx|[Hx|Hx]]; contradiction. }
  assert (W1m : MWf_at s' r rids mfids dids).
  { apply (MWf_fat_transfer s s' r rids mfids dids W HQ W1 Hns Hfl Hsys_cells). }
  assert (Hkeep : forall j ej l, ~ X j -> nthN (dirs s) j = Some ej -> big_entry ej ->
            chain_ids_of (fat s) (d_start ej) = Ok l ->
            chain_ids_of (fat s') (d_start ej) = Ok l).
  { intros j ej l Hxj Hej Hbj Hcl. apply chain_of_path.
    apply (path_ext_le_out _ _ _ _ (WalkProofs.chain_ids_path _ _ _ Hcl) Hfl).
    intros x Hx. apply T1. intro Hin. destruct (HT x Hin) as (_ & _ & _ & _ & S5).
    exact (S5 j ej l Hxj Hej Hbj Hcl Hx). }
  assert (Hbk : forall j ej, ~ X j -> nthN (dirs s) j = Some ej -> big_entry ej ->
            exists l, chain_ids_of (fat s) (d_start ej) = Ok l /\
                      chain_ids_of (fat s') (d_start ej) = Ok l /\
                      d_len ej <= slen s * lenN l /\ Forall (fun x => x < nsect s) l /\
                      (forall x, In x l -> ~ In x T)).
  { intros j ej Hxj Hej Hbj.
    destruct (sw_bigchain _ _ _ _ _ _ SW j ej Hxj Hej Hbj) as (l & Hcl & Hcovl & HFl).
    exists l. split; [exact Hcl|]. split; [exact (Hkeep j ej l Hxj Hej Hbj Hcl)|].
    split; [exact Hcovl|]. split; [exact HFl|].
    intros x Hx Hin. destruct (HT x Hin) as (_ & _ & _ & _ & S5).
    exact (S5 j ej l Hxj Hej Hbj Hcl Hx). }
  split; [|exact Hkeep].
  constructor.
  - exact W1m.
  - exact W1.
  - rewrite Hns. apply SW.
  - exact Hfnd.
  - intros x Hx. rewrite Hdifat. destruct (sw_sys _ _ _ _ _ _ SW x Hx) as [S1 S2].
    split; [|exact S2]. intro Hin. destruct (Hfsub x Hin) as [Hin'|Hin']; [contradiction|].
    destruct (HT x Hin') as (T1' & T2' & T3' & _).
    destruct Hx as [Hx|[Hx|Hx]]; contradiction.
  - intros x Hx. rewrite Hdifat. destruct (Hfsub x Hx) as [Hx'|Hx'].
    + exact (sw_fdifat _ _ _ _ _ _ SW x Hx').
    + destruct (HT x Hx') as (_ & _ & _ & S4 & _). exact S4.
  - intros j ej Hxj Hej Hsj. rewrite Hd in Hej. rewrite Hmf.
    exact (sw_small _ _ _ _ _ _ SW j ej Hxj Hej Hsj).
  - intros j1 j2 e1 e2 m1 m2 Hx1 Hx2 Hne He1 Hs1 Hc1 He2 Hs2 Hc2.
    rewrite Hd in He1, He2. rewrite Hmf in Hc1, Hc2.
    exact (sw_disj _ _ _ _ _ _ SW j1 j2 e1 e2 m1 m2 Hx1 Hx2 Hne He1 Hs1 Hc1 He2 Hs2 Hc2).
  - intros j ej Hxj Hej Hbj. rewrite Hd in Hej.
    destruct (Hbk j ej Hxj Hej Hbj) as (l & _ & Hcl1 & Hcovl & HFl & _).
    exists l. rewrite Hsl, Hns. split; [exact Hcl1|]. split; assumption.
  - intros j ej l Hxj Hej Hbj Hcl x Hx. rewrite Hd in Hej.
    destruct (Hbk j ej Hxj Hej Hbj) as (l0 & Hcl0 & Hcl1 & _ & _ & Hdj).
    rewrite Hcl in Hcl1. injection Hcl1 as <-.
    destruct (sw_big _ _ _ _ _ _ SW j ej l Hxj Hej Hbj Hcl0 x Hx) as (S1 & S2 & S3 & S4 & S5).
    rewrite Hdifat. repeat split; try assumption.
    intro Hin. destruct (Hfsub x Hin) as [Hin'|Hin']; [contradiction|].
    exact (Hdj x Hx Hin').
  - intros j1 j2 e1 e2 l1 l2 Hx1 Hx2 Hne He1 Hb1 Hc1 He2 Hb2 Hc2. rewrite Hd in He1, He2.
    destruct (Hbk j1 e1 Hx1 He1 Hb1) as (la & Hca & Hca1 & _).
    destruct (Hbk j2 e2 Hx2 He2 Hb2) as (lb & Hcb & Hcb1 & _).
    rewrite Hc1 in Hca1. injection Hca1 as <-. rewrite Hc2 in Hcb1. injection Hcb1 as <-.
    exact (sw_bigdisj _ _ _ _ _ _ SW j1 j2 e1 e2 l1 l2 Hx1 Hx2 Hne He1 Hb1 Hca He2 Hb2 Hcb).
Qed.

Lemma fat_frame_others : forall s s' r rids mfids dids X T id,
  SWfX_at s r rids mfids dids X -> SWfX_at s' r rids mfids dids X ->
  (forall j, X j -> j = id) ->
  Q s' = Q s -> nsect s' = nsect s ->
  (forall j ej l, ~ X j -> nthN (dirs s) j = Some ej -> big_entry ej ->
     chain_ids_of (fat s) (d_start ej) = Ok l -> chain_ids_of (fat s') (d_start ej) = Ok l) ->
  (forall x, In x T -> foreign s rids mfids dids X x) ->
  (forall x, ~ In x T -> ~ In x (difat s) -> sector_bytes s' x = sector_bytes s x) ->
  others_kept s s' id.
Proof.
  intros s s' r rids mfids dids X T id SW SW' HX HQ Hns Hkeep HT B1.
  pose proof (sw_m _ _ _ _ _ _ SW) as W. pose proof (sw_m _ _ _ _ _ _ SW') as W1m.
  destruct (Q_fields s s' HQ) as (Hmf & Hmfr & Hms & Hd & Hds & Hv & Hsl).
  assert (Hrbytes : forall x, In x rids -> sector_bytes s' x = sector_bytes s x).
  { intros x Hx. apply B1.
    - intro Hin. destruct (HT x Hin) as (S1 & _). contradiction.
    - apply (sw_sys _ _ _ _ _ _ SW x). left. exact Hx. }
  split; [|split].
  - intros id' V' Hne Hsc.
    destruct (small_content_at _ _ _ _ _ _ _ W Hsc) as (e1 & m1 & Hs1).
    destruct Hs1 as (Hn1 & Ht1 & Hcut1 & Hpos1 & Hch1 & Hgm1 & Hle1 & HV1).
    exists e1, rids, m1. unfold small_at. splits; try assumption.
    + rewrite Hd. exact Hn1.
    + rewrite Hmf. exact Hch1.
    + apply (good_mchain_of_path s' r rids mfids dids (d_start e1) m1 W1m).
      rewrite Hmf. apply WalkProofs.chain_ids_path. exact Hch1.
    + rewrite HV1. f_equal. symmetry. apply mchain_content_ext. intros ms _.
      apply mini_bytes_ext. exact Hrbytes.
  - intros id' V' Hne (e2 & l2 & He2 & Ht2 & Hcut2 & Hc2 & Hg2 & Hle2 & HV2).
    assert (Hx2 : ~ X id') by (intro Hx'; exact (Hne (HX id' Hx'))).
    destruct (sw_bigchain _ _ _ _ _ _ SW id' e2 Hx2 He2 (conj Ht2 Hcut2)) as (l & Hcl & _ & HFl).
    rewrite Hc2 in Hcl. injection Hcl as <-.
    exists e2, l2. splits; try assumption.
    + rewrite Hd. exact He2.
    + exact (Hkeep id' e2 l2 Hx2 He2 (conj Ht2 Hcut2) Hc2).
    + apply StoreProofs.good_chain_of_wf; [apply SW' | apply Hg2 | rewrite Hns; exact HFl].
    + rewrite Hsl. exact Hle2.
    + rewrite HV2. f_equal. symmetry. apply StoreProofs.chain_content_ext. intros x Hx.
      destruct (sw_big _ _ _ _ _ _ SW id' e2 l2 Hx2 He2 (conj Ht2 Hcut2) Hc2 x Hx)
        as (_ & _ & _ & _ & S5).
      apply B1; [|exact S5]. intro Hin. destruct (HT x Hin) as (_ & _ & _ & _ & S6).
      exact (S6 id' e2 l2 Hx2 He2 (conj Ht2 Hcut2) Hc2 Hx).
  - intros id' Hne (e3 & Hn3 & Ht3 & Hst3 & Hl3). exists e3. unfold empty_at.
    rewrite Hd. splits; assumption.
Qed.

Lemma SWfX_weaken : forall s r rids mfids dids (X Y : N -> Prop),
  SWfX_at s r rids mfids dids X -> (forall j, X j -> Y j) -> SWfX_at s r rids mfids dids Y.
Proof.
  intros s r rids mfids dids X Y [A1 A2 A3 A4 A5 A6 A7 A8 A9 A10 A11] H.
  constructor; try assumption.
  - intros j e Hy. apply A7. intro Hx. exact (Hy (H j Hx)).
  - intros j1 j2 e1 e2 m1 m2 Hy1 Hy2. apply A8; intro Hx; [exact (Hy1 (H _ Hx)) | exact (Hy2 (H _ Hx))].
  - intros j e Hy. apply A9. intro Hx. exact (Hy (H j Hx)).
  - intros j e ids Hy. apply A10. intro Hx. exact (Hy (H j Hx)).
  - intros j1 j2 e1 e2 l1 l2 Hy1 Hy2. apply A11; intro Hx; [exact (Hy1 (H _ Hx)) | exact (Hy2 (H _ Hx))].
Qed.

Definition Xid (id : N) : N -> Prop := fun j => j = id.

Lemma free_big_chain : forall s r rids mfids dids id e ids,
  SWf_at s r rids mfids dids ->
  nthN (dirs s) id = Some e -> big_entry e -> chain_ids_of (fat s) (d_start e) = Ok ids ->
  exists s1,
    free_chain (d_start e) s = (s1, Ok tt) /\
    SWfX_at s1 r rids mfids dids (Xid id) /\
    Q s1 = Q s /\ free s1 = free s ++ ids /\
    others_kept s s1 id.
Proof.
  intros s r rids mfids dids id e ids SW0 He Hbe Hc.
  pose proof (sw_m _ _ _ _ _ _ SW0) as W.
  pose proof (sw_alloc _ _ _ _ _ _ SW0) as Wa.
  pose proof (WalkProofs.chain_ids_path _ _ _ Hc) as Hp.
  pose proof (ReuseProofs.path_nodup _ _ _ Hp) as Hnd.
  pose proof (sw_big _ _ _ _ _ _ SW0 id e ids (noX_not _) He Hbe Hc) as Hsep.
  destruct (sw_bigchain _ _ _ _ _ _ SW0 id e (noX_not _) He Hbe) as (ids0 & Hc0 & Hcov & HF).
  rewrite Hc in Hc0. injection Hc0 as <-.
  assert (SW : SWfX_at s r rids mfids dids (Xid id)) by (eapply SWfX_weaken; [exact SW0 | intros j []]).
  destruct (StoreProofs.free_chain_go_frame ids (S (S (length (fat s)))) (d_start e) s Wa Hp Hnd HF
              (StoreProofs.path_length_fuel _ _ _ Hp))
    as (s1 & E1 & F1 & W1 & M1 & T1 & B1).
  pose proof (keeps_free_chain_go _ _ _ _ _ E1) as HQ.
  destruct M1 as (_ & Hns & Hdifat & _ & _ & Himg & Hfl).
  assert (HT : forall x, In x ids -> foreign s rids mfids dids (Xid id) x).
  { intros x Hx. destruct (Hsep x Hx) as (S1 & S2 & S3 & S4 & S5).
    unfold foreign. repeat split; try assumption.
    intros j ej l Hxj Hej Hbj Hcl Hin.
    exact (sw_bigdisj _ _ _ _ _ _ SW0 id j e ej ids l (noX_not _) (noX_not _)
             ltac:(intro E; apply Hxj; symmetry; exact E) He Hbe Hc Hej Hbj Hcl x Hx Hin). }
  destruct (fat_frame_wf s s1 r rids mfids dids (Xid id) ids SW HQ W1 Hns Hdifat ltac:(lia) T1 HT)
    as [SW1 Hkeep].
  { rewrite F1. apply NoDup_app_intro; [apply SW0 | exact Hnd |].
    intros x Hx Hxi. destruct (Hsep x Hxi) as (_ & _ & _ & S4 & _). contradiction. }
  { intros x Hx. rewrite F1 in Hx. apply in_app_or in Hx. exact Hx. }
  exists s1.
  split; [unfold free_chain; rewrite bind_get; exact E1|].
  split; [exact SW1|]. split; [exact HQ|]. split; [exact F1|].
  apply (fat_frame_others s s1 r rids mfids dids (Xid id) ids id SW SW1
           ltac:(intros j E; exact E) HQ Hns Hkeep HT).
  intros x _ Hx. apply B1. exact Hx.
Qed.

(* ------------------------------------------------------------------ *)
(* Part 4 (case 3b): a large stream shrinks below the cutoff and moves *)
(* into the mini stream                                                *)
(* ------------------------------------------------------------------ *)

Theorem resize_big_to_small : forall s id V new_len,
  big_content s id V -> 0 < new_len -> new_len < MINI_STREAM_CUTOFF ->
  mini_room s (msectors new_len) ->
  exists s',
    resize id new_len s = (s', Ok tt) /\
    small_content s' id (takeN new_len V) /\
    mini_sectors s' id (msectors new_len) /\
    SWf s' /\ others_kept s s' id.
Proof.
  intros s id V new_len HB Hpos Hcut (r & rids & mfids & dids & SW & Hroom).
  pose proof HB as (e & ids & He & Ht & Hbig & Hc & Hg & Hle & HV).
  pose proof (sw_m _ _ _ _ _ _ SW) as W.
  pose proof (small_not_root _ _ _ _ _ _ _ W He Ht) as Hidr.
  assert (Hne : ids <> []) by (eapply StoreProofs.ids_nonempty; eassumption).
  destruct (StoreProofs.chain_ids_head _ _ _ Hc Hne) as (Hst & tl & Eids).
  destruct (free_big_chain s r rids mfids dids id e ids SW He (conj Ht Hbig) Hc)
    as (s1 & Efree & SW1 & HQ & F1 & Ho1).
  destruct (Q_fields s s1 HQ) as (Hmf & Hmfr & Hms & Hd & Hds & Hv & Hsl).
  pose proof (sw_m _ _ _ _ _ _ SW1) as W1.
  set (tmp := takeN new_len (dropN 0 (chain_content s ids))).
  assert (Htmp : tmp = takeN new_len V).
  { unfold tmp. rewrite dropN_0, HV. symmetry. apply takeN_takeN.
    rewrite CUTOFF_4096 in *. lia. }
  assert (Hltmp : lenN tmp = new_len).
  { rewrite Htmp, lenN_takeN, (StoreProofs.big_content_len _ _ _ _ HB He).
    rewrite CUTOFF_4096 in *. lia. }
  assert (Hp0 : path (minifat s1) (hd END_OF_CHAIN []) []) by constructor.
  destruct (mchain_write_all_alloc s1 [] 0 tmp r rids mfids dids W1 Hp0)
    as (s2 & news & r2 & Ew & W2 & P2 & Ln & Hfit & F2 & Hc2 & M2).
  { cbn [lenN]. lia. }
  { cbn [lenN]. rewrite N.add_0_l, N.sub_0_r, Hltmp.
    apply (mroom_same s s1); [rewrite Hmf; reflexivity | exact Hmfr | exact Hsl |].
    unfold msectors in Hroom. exact Hroom. }
  cbn [app lenN] in *. rewrite N.add_0_l in *. rewrite N.sub_0_r in Ln. rewrite Hltmp in *.
  assert (Hn2 : nthN (dirs s2) id = Some e).
  { rewrite (mframe_entry _ _ _ _ _ _ id M2 Hidr), Hd. exact He. }
  destruct (finish_small s2 id e r2 rids mfids dids news new_len W2 Hn2 Ht P2)
    as (s' & Eu & Hsm' & W' & M3); [lia | lia | lia |].
  assert (M13 : mframe s1 s' id rids mfids dids news).
  { eapply mframe_trans; [apply mframe_weaken_id; exact M2 | exact M3
                         | intros x Hx; exact Hx | intros x Hx; exact Hx]. }
  assert (Hsm'' : small_at s' id (set_start_len e (hd END_OF_CHAIN news) new_len) rids news
                    (takeN new_len V)).
  { apply (small_at_V_eq _ _ _ _ _ _ _ Hsm'). rewrite Hc2, <- Htmp.
    rewrite <- Hltmp at 1. apply takeN_splice0. }
  destruct (after_opX s1 s' r r2 rids mfids dids (Xid id) id _ [] news _
              SW1 ltac:(intros j E; exact E) W' Hsm'' F2
              ltac:(intros j e0 m _ _ _ _ x []) M13) as [SW' Ho2].
  exists s'. split.
  { unfold resize. sred.
    rewrite (stream_entry_ok s id e He Ht). sred.
    assert (E0 : (MAX_REGULAR_SECTOR * slen s <? new_len) = false).
    { pose proof (ChainProofs.slen_pos s). apply N.ltb_ge.
      rewrite MAXREG_val. rewrite CUTOFF_4096 in Hcut. nia. }
    rewrite E0. sred.
    rewrite (mask_check_false s new_len) by (apply small_fits_mask; lia). sred.
    assert (E2 : (d_start e =? END_OF_CHAIN) = false) by lia. rewrite E2.
    assert (E3 : (d_len e <? MINI_STREAM_CUTOFF) = false) by lia. rewrite E3.
    assert (E4 : (new_len =? 0) = false) by lia. rewrite E4.
    assert (E5 : (new_len <? MINI_STREAM_CUTOFF) = true) by lia. rewrite E5.
    assert (E6 : (d_len e <=? new_len) = false) by lia. rewrite E6.
    rewrite (chain_new_exec s _ IZero ids Hc).
    rewrite (chain_read_spec s (mkChain IZero ids 0) new_len Hg)
      by (unfold chain_len; cbn [c_ids c_off]; rewrite CUTOFF_4096 in *; lia).
    cbn [c_init c_ids c_off]. fold tmp.
    assert (Ecs : chain_start (mkChain IZero ids (0 + new_len)) = d_start e)
      by (rewrite Eids; reflexivity).
    rewrite Ecs, Efree.
    rewrite (mchain_new_eoc s1). rewrite Ew.
    rewrite mchain_start_hd. exact Eu. }
  split; [eexists _, rids, _; exact Hsm''|].
  split.
  { unfold msectors. rewrite <- Ln. exact (small_at_mini_sectors _ _ _ _ _ _ Hsm''). }
  split; [exists r2, rids, mfids, dids; exact SW'|].
  exact (others_kept_trans s s1 s' id Ho1 Ho2).
Qed.

(* ------------------------------------------------------------------ *)
(* building a FAT chain for the stream under reconstruction: sectors   *)
(* taken from the free stack                                           *)
(* ------------------------------------------------------------------ *)

Lemma keeps_header_write : forall off bs, keeps (header_write off bs).
Proof. intros. unfold header_write. repeat keeps_step. Qed.

Lemma keeps_append_fat_sector : keeps append_fat_sector.
Proof.
  unfold append_fat_sector.
  pose proof keeps_init_sector. pose proof keeps_set_fat. pose proof keeps_header_write.
  pose proof keeps_sector_write.
  repeat keeps_step.
Qed.

Lemma keeps_allocate_sector : forall i, keeps (allocate_sector i).
Proof.
  intros. unfold allocate_sector.
  pose proof keeps_init_sector. pose proof keeps_set_fat. pose proof keeps_append_fat_sector.
  pose proof keeps_header_write. pose proof keeps_sector_write.
  repeat keeps_step.
Qed.

Lemma keeps_extend_chain : forall start i, keeps (extend_chain start i).
Proof.
  intros. unfold extend_chain. pose proof keeps_allocate_sector. pose proof keeps_set_fat.
  pose proof keeps_init_sector. pose proof keeps_header_write. pose proof keeps_sector_write.
  repeat keeps_step.
Qed.

(* [ids] belongs to the stream under reconstruction *)
Definition owned (s : cstate) (rids mfids dids : list N) (id : N) (ids : list N) : Prop :=
  forall x, In x ids -> foreign s rids mfids dids (Xid id) x /\ ~ In x (free s) /\ x < nsect s.

Lemma AllocWf_wr : forall s sid off bs,
  AllocWf s -> sid < nsect s -> off + lenN bs <= slen s -> AllocWf (wr s sid off bs).
Proof.
  intros s sid off bs [H1 H2 H3 H4] Hs Hb. constructor.
  - rewrite lenN_img_wr. exact H1.
  - apply full_wr; assumption.
  - exact H3.
  - exact H4.
Qed.

Lemma foreign_ext : forall s s' rids mfids dids X x,
  foreign s rids mfids dids X x -> difat s' = difat s -> dirs s' = dirs s ->
  (forall j e l, ~ X j -> nthN (dirs s) j = Some e -> big_entry e ->
     chain_ids_of (fat s') (d_start e) = Ok l -> chain_ids_of (fat s) (d_start e) = Ok l) ->
  foreign s' rids mfids dids X x.
Proof.
  intros s s' rids mfids dids X x (A1 & A2 & A3 & A4 & A5) Hdf Hd Hback.
  unfold foreign. rewrite Hdf, Hd. repeat split; try assumption.
  intros j e l Hxj He Hb Hc. exact (A5 j e l Hxj He Hb (Hback j e l Hxj He Hb Hc)).
Qed.

(* a write inside a sector of the stream under reconstruction *)
Lemma owned_write_step : forall s r rids mfids dids id sid off bs,
  SWfX_at s r rids mfids dids (Xid id) ->
  foreign s rids mfids dids (Xid id) sid -> sid < nsect s ->
  off + lenN bs <= slen s ->
  sector_write sid off bs s = (wr s sid off bs, Ok tt) /\
  SWfX_at (wr s sid off bs) r rids mfids dids (Xid id) /\
  others_kept s (wr s sid off bs) id.
Proof.
  intros s r rids mfids dids id sid off bs SW Hfo Hsid Hfit.
  pose proof (sw_alloc _ _ _ _ _ _ SW) as Wa.
  set (s' := wr s sid off bs).
  assert (Wa' : AllocWf s') by (apply AllocWf_wr; assumption).
  assert (HT : forall x, In x [sid] -> foreign s rids mfids dids (Xid id) x)
    by (intros x [<-|[]]; exact Hfo).
  destruct (fat_frame_wf s s' r rids mfids dids (Xid id) [sid] SW eq_refl Wa' eq_refl eq_refl
              (N.le_refl _) ltac:(intros; reflexivity) HT (sw_fnd _ _ _ _ _ _ SW)
              ltac:(intros x Hx; left; exact Hx)) as [SW' Hkeep].
  split; [apply sector_write_exec; [exact Hsid | apply (wf_full s Wa); exact Hsid | exact Hfit]|].
  split; [exact SW'|].
  apply (fat_frame_others s s' r rids mfids dids (Xid id) [sid] id SW SW'
           ltac:(intros j E; exact E) eq_refl eq_refl Hkeep HT).
  intros x Hx _. apply sector_bytes_wr_other. intro E. apply Hx. left. symmetry. exact E.
Qed.

Lemma In_pop_last_nodup : forall (l : list N) x, NoDup l -> lastN l = Some x -> ~ In x (pop_last l).
Proof.
  intros l x Hnd Hl. rewrite (lastN_Some_snoc _ _ _ Hl) in Hnd.
  apply NoDup_remove_2 in Hnd. rewrite app_nil_r in Hnd. exact Hnd.
Qed.

Lemma NoDup_pop_last : forall (l : list N), NoDup l -> NoDup (pop_last l).
Proof.
  intros l Hnd. destruct (lastN l) as [x|] eqn:E.
  - rewrite (lastN_Some_snoc _ _ _ E) in Hnd. apply NoDup_remove_1 in Hnd.
    rewrite app_nil_r in Hnd. exact Hnd.
  - apply lastN_nil_inv in E. subst l. constructor.
Qed.

Lemma fat_extend_step : forall s r rids mfids dids id ids sid,
  SWfX_at s r rids mfids dids (Xid id) ->
  path (fat s) (hd END_OF_CHAIN ids) ids ->
  owned s rids mfids dids id ids ->
  lastN (free s) = Some sid ->
  exists s',
    (match lastN ids with
     | Some last => extend_chain last IZero
     | None => begin_chain IZero
     end) s = (s', Ok sid) /\
    SWfX_at s' r rids mfids dids (Xid id) /\
    path (fat s') (hd END_OF_CHAIN (ids ++ [sid])) (ids ++ [sid]) /\
    owned s' rids mfids dids id (ids ++ [sid]) /\
    free s' = pop_last (free s) /\ Q s' = Q s /\ nsect s' = nsect s /\
    sector_bytes s' sid = repeatN 0 (slen s) /\
    (forall x, x <> sid -> ~ In x (difat s) -> sector_bytes s' x = sector_bytes s x) /\
    others_kept s s' id.
Proof.
  intros s r rids mfids dids id ids sid SW Hp Hown Hfree.
  pose proof (sw_alloc _ _ _ _ _ _ SW) as Wa.
  pose proof (sw_nsect _ _ _ _ _ _ SW) as Hns.
  pose proof (sw_fnd _ _ _ _ _ _ SW) as Hfnd.
  assert (Hsid_free : In sid (free s)).
  { rewrite (lastN_Some_snoc _ _ _ Hfree). apply in_or_app. right. left. reflexivity. }
  destruct (wf_free s Wa sid Hsid_free) as [Hsid_n Hsid_f].
  pose proof (sw_fdifat _ _ _ _ _ _ SW sid Hsid_free) as Hsid_d.
  assert (Hsid_ids : ~ In sid ids).
  { intro Hin. destruct (Hown sid Hin) as (_ & Hnf & _). contradiction. }
  assert (Hsid_fo : foreign s rids mfids dids (Xid id) sid).
  { unfold foreign. splits.
    - intro Hin. destruct (sw_sys _ _ _ _ _ _ SW sid (or_introl Hin)) as [H _]. contradiction.
    - intro Hin. destruct (sw_sys _ _ _ _ _ _ SW sid (or_intror (or_introl Hin))) as [H _]. contradiction.
    - intro Hin. destruct (sw_sys _ _ _ _ _ _ SW sid (or_intror (or_intror Hin))) as [H _]. contradiction.
    - exact Hsid_d.
    - intros j e l Hxj He Hb Hc Hin.
      destruct (sw_big _ _ _ _ _ _ SW j e l Hxj He Hb Hc sid Hin) as (_ & _ & _ & H & _).
      contradiction. }
  (* the common end: from the description of the new state *)
  assert (Hfin : forall s',
    Q s' = Q s -> AllocWf s' -> nsect s' = nsect s -> difat s' = difat s ->
    lenN (fat s') = lenN (fat s) -> free s' = pop_last (free s) ->
    path (fat s') (hd END_OF_CHAIN (ids ++ [sid])) (ids ++ [sid]) ->
    (forall x, ~ In x ids -> x <> sid -> nthN (fat s') x = nthN (fat s) x) ->
    (forall x, x <> sid -> ~ In x (difat s) -> sector_bytes s' x = sector_bytes s x) ->
    SWfX_at s' r rids mfids dids (Xid id) /\
    owned s' rids mfids dids id (ids ++ [sid]) /\ others_kept s s' id).
  { intros s' HQ W' En Ed El Ef P T B.
    destruct (Q_fields s s' HQ) as (Hmf & Hmfr & Hms & Hd & Hds & Hv & Hsl).
    assert (HT : forall x, In x (ids ++ [sid]) -> foreign s rids mfids dids (Xid id) x).
    { intros x Hx. apply in_app_or in Hx. destruct Hx as [Hx|[<-|[]]];
        [exact (proj1 (Hown x Hx)) | exact Hsid_fo]. }
    destruct (fat_frame_wf s s' r rids mfids dids (Xid id) (ids ++ [sid]) SW HQ W' En Ed
                ltac:(lia)) as [SW' Hkeep].
    { intros x Hx. apply T; intro Hin; apply Hx; apply in_or_app;
        [left; exact Hin | right; left; symmetry; exact Hin]. }
    { exact HT. }
    { rewrite Ef. apply NoDup_pop_last. exact Hfnd. }
    { intros x Hx. left. rewrite Ef in Hx. apply In_pop_last in Hx. exact Hx. }
    split; [exact SW'|]. split.
    - intros x Hx. split; [|split].
      + apply (foreign_ext s s'); [exact (HT x Hx) | exact Ed | exact Hd |].
        intros j e l Hxj He Hb Hc.
        destruct (sw_bigchain _ _ _ _ _ _ SW j e Hxj He Hb) as (l0 & Hc0 & _).
        pose proof (Hkeep j e l0 Hxj He Hb Hc0) as Hc0'. rewrite Hc in Hc0'.
        injection Hc0' as ->. exact Hc0.
      + rewrite Ef. apply in_app_or in Hx. destruct Hx as [Hx|[<-|[]]].
        * intro Hin. apply In_pop_last in Hin. destruct (Hown x Hx) as (_ & Hnf & _). contradiction.
        * apply In_pop_last_nodup; assumption.
      + rewrite En. apply in_app_or in Hx. destruct Hx as [Hx|[<-|[]]];
          [exact (proj2 (proj2 (Hown x Hx))) | exact Hsid_n].
    - apply (fat_frame_others s s' r rids mfids dids (Xid id) (ids ++ [sid]) id SW SW'
               ltac:(intros j E; exact E) HQ En Hkeep HT).
      intros x Hx Hxd. apply B; [|exact Hxd]. intro E. apply Hx. apply in_or_app. right. left.
      symmetry. exact E. }
  destruct (lastN ids) as [last|] eqn:Elast.
  - (* extend_chain *)
    destruct (StoreProofs.extend_chain_reuse s (hd END_OF_CHAIN ids) ids last sid Wa Hns Hp Elast
                Hfree Hsid_ids Hsid_d)
      as (s' & E & W' & M & F & P & T & B & Z).
    pose proof (keeps_extend_chain _ _ _ _ _ E) as HQ.
    destruct M as (_ & En & Ed & _ & _ & _ & El).
    assert (Hne : ids <> []) by (intros ->; discriminate).
    rewrite <- (hd_app_ne ids [sid] END_OF_CHAIN Hne) in P.
    destruct (Hfin s' HQ W' En Ed El F P T B) as (SW' & Hown' & Ho).
    exists s'. splits; assumption.
  - (* begin_chain *)
    apply lastN_nil_inv in Elast. subst ids. cbn [app hd] in *.
    destruct (wf_backed s Wa sid Hsid_f) as (f & Hd & Hf).
    pose proof (allocate_reuse_exec IZero s sid f Hfree Hsid_n Hsid_f Hd Hf (wf_full s Wa)) as Ealloc.
    destruct (allocate_reuses IZero s) as (sid' & sr' & Ea' & _ & _ & _ & _ & _ & _ & _ & Wr).
    { intro E. rewrite E in Hfree. discriminate. }
    { exact (wf_free s Wa). } { exact (wf_backed s Wa). } { exact (wf_img s Wa). }
    { exact (wf_full s Wa). }
    rewrite Ealloc in Ea'. injection Ea' as <- <-.
    set (sr := reuse_state IZero s sid f) in *.
    pose proof (reuse_state_fields IZero s sid f Hsid_f)
      as (Rv & Rn & Rdi & Rd & Rfat & Rfr & Rdirs & Rmf & Rmfr & Rsl & Rfps & Rimg).
    fold sr in Rv, Rn, Rdi, Rd, Rfat, Rfr, Rdirs, Rmf, Rmfr, Rsl, Rfps, Rimg.
    pose proof (keeps_allocate_sector _ _ _ _ Ealloc) as HQ. fold sr in HQ.
    assert (Hf_in : In f (difat s)) by (eapply nthN_In; exact Hd).
    assert (B : forall x, x <> sid -> ~ In x (difat s) -> sector_bytes sr x = sector_bytes s x).
    { intros x Hxs Hxd. unfold sr, reuse_state, init_state.
      rewrite sector_bytes_wr_other by exact Hxs.
      rewrite StoreProofs.sector_bytes_set_fat_state by (intro E; subst x; contradiction).
      reflexivity. }
    assert (Z : sector_bytes sr sid = repeatN 0 (slen s)).
    { unfold sr, reuse_state, init_state.
      set (s0 := set_fat_state (w_free s (pop_last (free s))) sid END_OF_CHAIN f).
      assert (Hl0 : lenN (sector_bytes s0 sid) = slen s0).
      { unfold s0. rewrite StoreProofs.sector_bytes_set_fat_state by (intro E; subst f; contradiction).
        change (sector_bytes (w_free s (pop_last (free s))) sid) with (sector_bytes s sid).
        exact (wf_full s Wa sid Hsid_n). }
      rewrite sector_bytes_wr_same by exact Hl0.
      rewrite StoreProofs.spliceN_full by (rewrite lenN_init_bytes, Hl0; reflexivity).
      reflexivity. }
    assert (P : path (fat sr) sid [sid]).
    { rewrite Rfat. econstructor; [|apply StoreProofs.next_of_EOC; exact Hsid_f | constructor].
      rewrite EOC_val. rewrite MAXREG_val in Hns. lia. }
    destruct (Hfin sr HQ Wr Rn Rd ltac:(rewrite Rfat; apply lenN_updN) Rfr P) as (SW' & Hown' & Ho).
    { intros x _ Hx. rewrite Rfat. apply nthN_updN_other. intro E. apply Hx. symmetry. exact E. }
    { exact B. }
    exists sr. unfold begin_chain. splits; assumption.
Qed.

Lemma lastN_of_len : forall (l : list N), 1 <= lenN l -> exists x, lastN l = Some x.
Proof.
  intros l H. destruct (lastN l) as [x|] eqn:E; [eauto|].
  apply lastN_nil_inv in E. subst l. cbn [lenN] in H. lia.
Qed.

Lemma good_chain_owned : forall s r rids mfids dids id ids,
  SWfX_at s r rids mfids dids (Xid id) ->
  path (fat s) (hd END_OF_CHAIN ids) ids -> owned s rids mfids dids id ids ->
  good_chain s ids.
Proof.
  intros s r rids mfids dids id ids SW Hp Hown.
  apply StoreProofs.good_chain_of_wf; [apply SW | eapply ReuseProofs.path_nodup; exact Hp |].
  rewrite Forall_forall. intros x Hx. exact (proj2 (proj2 (Hown x Hx))).
Qed.

Lemma chain_content_app : forall s a b,
  chain_content s (a ++ b) = chain_content s a ++ chain_content s b.
Proof. exact StoreProofs.chain_content_app. Qed.

Lemma fpre_extend : forall s r rids mfids dids id ids off L,
  SWfX_at s r rids mfids dids (Xid id) ->
  path (fat s) (hd END_OF_CHAIN ids) ids -> owned s rids mfids dids id ids ->
  off <= slen s * lenN ids -> 0 < L ->
  (off + L + slen s - 1) / slen s - lenN ids <= lenN (free s) ->
  exists s1 nw1,
    (if off =? slen s * lenN ids
     then do sid <- match lastN ids with
                    | Some last => extend_chain last IZero
                    | None => begin_chain IZero
                    end;
          ret (mkChain IZero (ids ++ [sid]) off)
     else ret (mkChain IZero ids off)) s = (s1, Ok (mkChain IZero (ids ++ nw1) off)) /\
    SWfX_at s1 r rids mfids dids (Xid id) /\
    path (fat s1) (hd END_OF_CHAIN (ids ++ nw1)) (ids ++ nw1) /\
    owned s1 rids mfids dids id (ids ++ nw1) /\
    off < slen s * lenN (ids ++ nw1) /\
    lenN nw1 = (if off =? slen s * lenN ids then 1 else 0) /\
    free s = free s1 ++ rev nw1 /\ Q s1 = Q s /\ nsect s1 = nsect s /\
    chain_content s1 (ids ++ nw1) = chain_content s ids ++ repeatN 0 (slen s * lenN nw1) /\
    others_kept s s1 id.
Proof.
  intros s r rids mfids dids id ids off L SW Hp Hown Hoff HL Hroom.
  pose proof (slen_pos s) as Hsp.
  destruct (off =? slen s * lenN ids) eqn:E.
  - apply N.eqb_eq in E.
    assert (Hnd : 1 <= (off + L + slen s - 1) / slen s - lenN ids).
    { rewrite E. replace (slen s * lenN ids + L + slen s - 1)
        with ((L - 1) + (lenN ids + 1) * slen s) by lia.
      rewrite N.div_add by lia. generalize ((L - 1) / slen s). intro q. lia. }
    destruct (lastN_of_len (free s) ltac:(lia)) as (sid & Hlast).
    destruct (fat_extend_step s r rids mfids dids id ids sid SW Hp Hown Hlast)
      as (s1 & E1 & SW1 & P1 & O1 & F1 & HQ & En & Z & B & Ho).
    exists s1, [sid].
    split; [rewrite (bind_exec _ _ _ _ _ E1); reflexivity|].
    split; [exact SW1|]. split; [exact P1|]. split; [exact O1|].
    split; [rewrite lenN_app; cbn [lenN]; lia|]. split; [reflexivity|].
    split; [cbn [rev app]; rewrite F1; apply lastN_Some_snoc; exact Hlast|].
    split; [exact HQ|]. split; [exact En|]. split; [|exact Ho].
    rewrite chain_content_app. f_equal.
    + apply StoreProofs.chain_content_ext. intros x Hx. apply B.
      * intro Eq. subst x. destruct (Hown sid Hx) as (_ & Hnf & _). apply Hnf.
        rewrite (lastN_Some_snoc _ _ _ Hlast). apply in_or_app. right. left. reflexivity.
      * destruct (Hown x Hx) as ((_ & _ & _ & Hd & _) & _). exact Hd.
    + unfold chain_content. cbn [map concat lenN]. rewrite app_nil_r, Z.
      f_equal. lia.
  - apply N.eqb_neq in E. exists s, []. rewrite app_nil_r. cbn [lenN rev].
    rewrite N.mul_0_r, app_nil_r. change (repeatN 0 0) with (@nil byte). rewrite app_nil_r.
    splits; try reflexivity; try assumption; try lia.
    split; [|split]; intros; assumption.
Qed.

Lemma others_kept_refl : forall s id, others_kept s s id.
Proof. intros s id. split; [|split]; intros; assumption. Qed.

Lemma owned_wr : forall s rids mfids dids id ids sid off bs,
  owned s rids mfids dids id ids -> owned (wr s sid off bs) rids mfids dids id ids.
Proof. intros s rids mfids dids id ids sid off bs H x Hx. exact (H x Hx). Qed.

Lemma chain_write_go_alloc : forall fuel s r rids mfids dids id ids off bs,
  SWfX_at s r rids mfids dids (Xid id) ->
  path (fat s) (hd END_OF_CHAIN ids) ids -> owned s rids mfids dids id ids ->
  off <= slen s * lenN ids ->
  (off + lenN bs + slen s - 1) / slen s - lenN ids <= lenN (free s) ->
  (1 <= fuel)%nat ->
  (0 < lenN bs -> off + lenN bs <= slen s * (off / slen s + N.of_nat fuel - 1)) ->
  exists s' nw,
    chain_write_go fuel (mkChain IZero ids off) bs s
      = (s', Ok (mkChain IZero (ids ++ nw) (off + lenN bs))) /\
    SWfX_at s' r rids mfids dids (Xid id) /\
    path (fat s') (hd END_OF_CHAIN (ids ++ nw)) (ids ++ nw) /\
    owned s' rids mfids dids id (ids ++ nw) /\
    lenN nw = (off + lenN bs + slen s - 1) / slen s - lenN ids /\
    off + lenN bs <= slen s * lenN (ids ++ nw) /\
    free s = free s' ++ rev nw /\ Q s' = Q s /\ nsect s' = nsect s /\
    chain_content s' (ids ++ nw)
      = spliceN (chain_content s ids ++ repeatN 0 (slen s * lenN nw)) off bs /\
    others_kept s s' id.
Proof.
  induction fuel as [|f IH]; intros s r rids mfids dids id ids off bs SW Hp Hown Hoff Hroom Hf1 Hfuel;
    [lia|].
  pose proof (slen_pos s) as Hsp.
  cbn [chain_write_go].
  destruct bs as [|b0 bt] eqn:Ebs.
  - pose proof (good_chain_len _ _ (good_chain_owned _ _ _ _ _ _ _ SW Hp Hown)) as HCL.
    exists s, []. rewrite app_nil_r. cbn [lenN rev]. rewrite N.add_0_r.
    split; [reflexivity|]. split; [exact SW|]. split; [exact Hp|]. split; [exact Hown|].
    split.
    { assert (E : (off + slen s - 1) / slen s < lenN ids + 1).
      { apply N.div_lt_upper_bound; lia. }
      lia. }
    split; [exact Hoff|]. split; [rewrite app_nil_r; reflexivity|].
    split; [reflexivity|]. split; [reflexivity|].
    split; [|apply others_kept_refl].
    rewrite N.mul_0_r. change (repeatN 0 0) with (@nil byte). rewrite app_nil_r.
    symmetry; apply spliceN_nil; blia.
  - assert (Hbs : 0 < lenN (b0 :: bt)) by (cbn [lenN]; lia).
    rewrite <- Ebs in *. clear Ebs b0 bt. specialize (Hfuel Hbs).
    destruct (fpre_extend s r rids mfids dids id ids off (lenN bs) SW Hp Hown Hoff Hbs Hroom)
      as (s1 & nw1 & Epre & SW1 & P1 & O1 & Hoff1 & Ln1 & F1 & HQ1 & En1 & Hc1 & Ho1).
    set (ids1 := ids ++ nw1) in *.
    destruct (Q_fields s s1 HQ1) as (_ & _ & _ & _ & _ & _ & Hsl1).
    rewrite bind_get. cbv zeta. cbn [c_ids c_off c_init]. unfold chain_len. cbn [c_ids].
    erewrite bind_exec; [|exact Epre].
    cbn [c_ids c_off c_init].
    destruct (divmod_split (slen s) off Hsp) as [Eoff Hr].
    assert (Hq : off / slen s < lenN ids1) by (apply div_lt_len; lia).
    destruct (nthN ids1 (off / slen s)) as [sid|] eqn:Hn;
      [| apply nthN_None_ge in Hn; lia].
    pose proof (nthN_In _ _ _ _ Hn) as Hin.
    destruct (O1 sid Hin) as (Hfo & Hnfree & Hsid).
    remember (N.min (lenN bs) (slen s - off mod slen s)) as k eqn:Ek.
    assert (Hlk : lenN (takeN k bs) = k) by (rewrite lenN_takeN; lia).
    destruct (owned_write_step s1 r rids mfids dids id sid (off mod slen s) (takeN k bs) SW1 Hfo Hsid)
      as (Ew & SW2 & Ho2); [rewrite Hsl1; lia|].
    set (s2 := wr s1 sid (off mod slen s) (takeN k bs)) in *.
    erewrite bind_exec; [|exact Ew].
    assert (Hsl2 : slen s2 = slen s) by (rewrite <- Hsl1; reflexivity).
    assert (Hfit1 : off + k <= slen s * lenN ids1) by nia.
    destruct (IH s2 r rids mfids dids id ids1 (off + k) (dropN k bs) SW2 P1
                (owned_wr _ _ _ _ _ _ _ _ _ O1))
      as (s' & nw2 & Ego & SW' & P' & O' & Ln' & Hfit' & F' & HQ' & En' & Hc' & Ho').
    { rewrite Hsl2. exact Hfit1. }
    { rewrite Hsl2, lenN_dropN.
      replace (off + k + (lenN bs - k)) with (off + lenN bs) by lia.
      change (free s2) with (free s1).
      assert (HL : lenN (free s) = lenN (free s1) + lenN nw1).
      { rewrite F1, lenN_app. f_equal. rewrite <- (rev_involutive nw1) at 2.
        generalize (rev nw1). intro l. induction l as [|a l IHl]; [reflexivity|].
        cbn [rev lenN]. rewrite lenN_app. cbn [lenN]. lia. }
      unfold ids1. rewrite lenN_app. lia. }
    { assert (off + lenN bs > slen s * (off / slen s)) by lia.
      destruct f as [|f']; [|lia]. exfalso. cbn in Hfuel. nia. }
    { rewrite Hsl2, lenN_dropN. intro Hrem.
      assert (Hk : k = slen s - off mod slen s) by lia.
      rewrite Hk, div_next by exact Hsp.
      replace (off + (slen s - off mod slen s) + (lenN bs - (slen s - off mod slen s)))
        with (off + lenN bs) by lia.
      replace (off / slen s + 1 + N.of_nat f - 1)
        with (off / slen s + N.of_nat (S f) - 1) by lia.
      exact Hfuel. }
    rewrite Hsl2, lenN_dropN in *.
    replace (off + k + (lenN bs - k)) with (off + lenN bs) in * by lia.
    unfold ids1 in Ego, P', O', Ln', Hfit', Hc'.
    rewrite <- app_assoc in Ego, P', O', Hfit', Hc'.
    exists s', (nw1 ++ nw2).
    split; [exact Ego|]. split; [exact SW'|]. split; [exact P'|]. split; [exact O'|].
    split.
    { rewrite lenN_app, Ln', lenN_app, Ln1.
      destruct (off =? slen s * lenN ids) eqn:E.
      - apply N.eqb_eq in E.
        assert (lenN ids + 1 <= (off + lenN bs + slen s - 1) / slen s)
          by (apply N.div_le_lower_bound; lia).
        lia.
      - lia. }
    split; [exact Hfit'|].
    split.
    { rewrite rev_app_distr, app_assoc. change (free s2) with (free s1) in F'.
      rewrite <- F'. exact F1. }
    split; [rewrite HQ'; exact HQ1|]. split; [rewrite En'; exact En1|].
    split.
    { rewrite Hc'.
      pose proof (good_chain_owned _ _ _ _ _ _ _ SW1 P1 O1) as Hg1.
      pose proof (good_chain_len _ _ Hg1) as HCL1. rewrite Hsl1 in HCL1.
      assert (Hc2 : chain_content s2 ids1
                    = spliceN (chain_content s1 ids1) off (takeN k bs)).
      { rewrite Eoff at 1.
        apply (content_update s1 s2 (slen s) ids1 (off / slen s) sid).
        - apply Hg1.
        - rewrite <- Hsl1. apply good_chain_lens. exact Hg1.
        - exact Hn.
        - lia.
        - apply sector_bytes_wr_same. apply (wf_full s1 (sw_alloc _ _ _ _ _ _ SW1)). exact Hsid.
        - intros x Hx. apply sector_bytes_wr_other. exact Hx. }
      unfold ids1 in Hc2, Hc1, HCL1. rewrite Hc2, Hc1.
      rewrite <- spliceN_app_le by (rewrite <- Hc1, HCL1, Hlk; exact Hfit1).
      replace (off + k) with (off + lenN (takeN k bs)) by (rewrite Hlk; reflexivity).
      rewrite spliceN_spliceN, takeN_dropN_id.
      rewrite <- app_assoc, <- StoreProofs.repeatN_add.
      rewrite lenN_app. do 3 f_equal. lia. }
    eapply others_kept_trans; [exact Ho1|]. eapply others_kept_trans; [exact Ho2 | exact Ho'].
Qed.

Lemma chain_write_all_alloc : forall s r rids mfids dids id ids off bs,
  SWfX_at s r rids mfids dids (Xid id) ->
  path (fat s) (hd END_OF_CHAIN ids) ids -> owned s rids mfids dids id ids ->
  off <= slen s * lenN ids ->
  (off + lenN bs + slen s - 1) / slen s - lenN ids <= lenN (free s) ->
  exists s' nw,
    chain_write_all (mkChain IZero ids off) bs s
      = (s', Ok (mkChain IZero (ids ++ nw) (off + lenN bs))) /\
    SWfX_at s' r rids mfids dids (Xid id) /\
    path (fat s') (hd END_OF_CHAIN (ids ++ nw)) (ids ++ nw) /\
    owned s' rids mfids dids id (ids ++ nw) /\
    lenN nw = (off + lenN bs + slen s - 1) / slen s - lenN ids /\
    off + lenN bs <= slen s * lenN (ids ++ nw) /\
    free s = free s' ++ rev nw /\ Q s' = Q s /\ nsect s' = nsect s /\
    chain_content s' (ids ++ nw)
      = spliceN (chain_content s ids ++ repeatN 0 (slen s * lenN nw)) off bs /\
    others_kept s s' id.
Proof.
  intros s r rids mfids dids id ids off bs SW Hp Hown Hoff Hroom.
  unfold chain_write_all. rewrite bind_get.
  apply (chain_write_go_alloc _ s r rids mfids dids id ids off bs SW Hp Hown Hoff Hroom).
  - apply le_n_S, Nat.le_0_l.
  - intro Hn. apply fuel_enough; [apply slen_pos | exact Hn].
Qed.

Lemma chain_grow_alloc : forall k s r rids mfids dids id ids o,
  SWfX_at s r rids mfids dids (Xid id) ->
  path (fat s) (hd END_OF_CHAIN ids) ids -> owned s rids mfids dids id ids ->
  N.of_nat k <= lenN (free s) ->
  exists s' nw,
    chain_grow k (mkChain IZero ids o) s = (s', Ok (mkChain IZero (ids ++ nw) o)) /\
    SWfX_at s' r rids mfids dids (Xid id) /\
    path (fat s') (hd END_OF_CHAIN (ids ++ nw)) (ids ++ nw) /\
    owned s' rids mfids dids id (ids ++ nw) /\
    lenN nw = N.of_nat k /\
    free s = free s' ++ rev nw /\ Q s' = Q s /\ nsect s' = nsect s /\
    chain_content s' (ids ++ nw) = chain_content s ids ++ repeatN 0 (slen s * lenN nw) /\
    others_kept s s' id.
Proof.
  induction k as [|k IH]; intros s r rids mfids dids id ids o SW Hp Hown Hroom.
  - exists s, []. cbn [chain_grow lenN rev]. rewrite !app_nil_r, N.mul_0_r.
    change (repeatN 0 0) with (@nil byte). rewrite app_nil_r.
    splits; try reflexivity; try assumption. apply others_kept_refl.
  - destruct (lastN_of_len (free s) ltac:(lia)) as (sid & Hlast).
    destruct (fat_extend_step s r rids mfids dids id ids sid SW Hp Hown Hlast)
      as (s1 & E1 & SW1 & P1 & O1 & F1 & HQ1 & En1 & Z & B & Ho1).
    destruct (Q_fields s s1 HQ1) as (_ & _ & _ & _ & _ & _ & Hsl1).
    assert (Hfs : free s = free s1 ++ [sid]) by (rewrite F1; apply lastN_Some_snoc; exact Hlast).
    destruct (IH s1 r rids mfids dids id (ids ++ [sid]) o SW1 P1 O1)
      as (s' & nw & E' & SW' & P' & O' & Ln' & F' & HQ' & En' & Hc' & Ho').
    { rewrite Hfs, lenN_app in Hroom. cbn [lenN] in Hroom. lia. }
    rewrite <- app_assoc in E', P', O', Hc'. cbn [app] in E', P', O', Hc'.
    exists s', (sid :: nw).
    split.
    { cbn [chain_grow c_ids c_init c_off]. rewrite (bind_exec _ _ _ _ _ E1). exact E'. }
    split; [exact SW'|]. split; [exact P'|]. split; [exact O'|].
    split; [cbn [lenN]; rewrite Ln'; lia|].
    split; [cbn [rev]; rewrite app_assoc, <- F'; exact Hfs|].
    split; [rewrite HQ'; exact HQ1|]. split; [rewrite En'; exact En1|].
    split; [|eapply others_kept_trans; eassumption].
    rewrite Hc', Hsl1. rewrite chain_content_app, <- app_assoc. f_equal.
    + apply StoreProofs.chain_content_ext. intros x Hx. apply B.
      * intro Eq. subst x. destruct (Hown sid Hx) as (_ & Hnf & _). apply Hnf.
        rewrite Hfs. apply in_or_app. right. left. reflexivity.
      * destruct (Hown x Hx) as ((_ & _ & _ & Hd & _) & _). exact Hd.
    + unfold chain_content at 1. cbn [map concat lenN]. rewrite app_nil_r, Z.
      rewrite <- StoreProofs.repeatN_add. f_equal. lia.
Qed.

(* writing the entry of the reconstructed large stream back *)
Lemma finish_big : forall s1 r rids mfids dids id e ids1 new_len,
  SWfX_at s1 r rids mfids dids (Xid id) ->
  nthN (dirs s1) id = Some e -> d_type e = TStream ->
  path (fat s1) (hd END_OF_CHAIN ids1) ids1 -> owned s1 rids mfids dids id ids1 ->
  MINI_STREAM_CUTOFF <= new_len -> new_len <= slen s1 * lenN ids1 ->
  exists s',
    update_entry id (hd END_OF_CHAIN ids1) new_len s1 = (s', Ok tt) /\
    big_content s' id (takeN new_len (chain_content s1 ids1)) /\
    SWf_at s' r rids mfids dids /\ others_kept s1 s' id /\
    nsect s' = nsect s1 /\ free s' = free s1.
Proof.
  intros s1 r rids mfids dids id e ids1 new_len SW Hn Ht Hp Hown Hcut Hfit.
  pose proof (sw_m _ _ _ _ _ _ SW) as W.
  pose proof (nthN_Some_lt _ _ _ _ Hn) as Hlt.
  pose proof (small_not_root _ _ _ _ _ _ _ W Hn Ht) as Hidr.
  destruct (update_entry_spec s1 id e dids (hd END_OF_CHAIN ids1) new_len)
    as (s' & Hu & Hs' & Himg' & Hfr' & Hlen' & _).
  { exact Hn. } { eapply mw_names; eassumption. } { apply W. } { apply W. }
  { pose proof (mw_dcap _ _ _ _ _ W). unfold DIR_ENTRY_LEN in *. lia. }
  set (e' := set_start_len e (hd END_OF_CHAIN ids1) new_len) in *.
  assert (Hsh : same_shape s1 s').
  { rewrite Hs'. unfold same_shape.
    cbn [nsect ver img fat free difat dir_start minifat_start w_img w_dirs].
    repeat split; assumption. }
  pose proof (same_shape_slen _ _ Hsh) as Hsl.
  assert (Hdirs' : dirs s' = updN (dirs s1) id e') by (rewrite Hs'; reflexivity).
  assert (Hmf' : minifat s' = minifat s1) by (rewrite Hs'; reflexivity).
  assert (Hmfr' : mfree s' = mfree s1) by (rewrite Hs'; reflexivity).
  assert (Hfat' : fat s' = fat s1) by (rewrite Hs'; reflexivity).
  assert (Hfree' : free s' = free s1) by (rewrite Hs'; reflexivity).
  assert (Hdifat' : difat s' = difat s1) by (rewrite Hs'; reflexivity).
  assert (Hns' : nsect s' = nsect s1) by (rewrite Hs'; reflexivity).
  assert (Hnid : nthN (dirs s') id = Some e')
    by (rewrite Hdirs'; apply nthN_updN_same; exact Hlt).
  assert (Hoth : forall j, j <> id -> nthN (dirs s') j = nthN (dirs s1) j)
    by (intros j Hj; rewrite Hdirs'; apply nthN_updN_other; congruence).
  assert (W' : MWf_at s' r rids mfids dids).
  { apply (MWf_transfer s1 s' r r rids mfids dids W Hsh).
    - rewrite Hdirs'. apply lenN_updN.
    - intros j e0 He0. destruct (N.eq_dec j id) as [->|Hj].
      + rewrite Hnid in He0. injection He0 as <-. cbn [e' set_start_len d_name].
        eapply mw_names; eassumption.
      + rewrite (Hoth j Hj) in He0. eapply mw_names; eassumption.
    - rewrite Hoth by congruence. apply W.
    - apply W.
    - reflexivity.
    - rewrite Hmf'. apply W.
    - rewrite Hmf'. apply W.
    - rewrite Hmf'. apply W.
    - rewrite Hmf'. apply W.
    - rewrite Hmfr'. apply W.
    - rewrite Hmf', Hmfr'. apply W. }
  assert (Hgc1 : good_chain s1 ids1) by (eapply good_chain_owned; eassumption).
  assert (Hids_dids : forall x, In x ids1 -> ~ In x dids).
  { intros x Hx. destruct (Hown x Hx) as ((_ & _ & Hd & _) & _). exact Hd. }
  assert (M : mframe s1 s' id rids mfids dids []).
  { unfold mframe. split; [exact Hsh|]. split; [rewrite Hdirs'; apply lenN_updN|].
    split; [intros j _ Hj; apply Hoth; exact Hj|].
    split; [intros y _ _ Y3; apply Hfr'; exact Y3|].
    split; [intros ms _; apply mini_bytes_ext; intros y Hy; apply Hfr'; exact (mw_rd _ _ _ _ _ W y Hy)|].
    split; [rewrite Hmf'; lia|]. intros; rewrite Hmf'; reflexivity. }
  assert (Hbig' : big_entry e') by (split; [exact Ht | exact Hcut]).
  assert (Hch' : chain_ids_of (fat s') (d_start e') = Ok ids1).
  { rewrite Hfat'. cbn [e' set_start_len d_start]. apply chain_of_path. exact Hp. }
  assert (HnX : forall j, j <> id -> ~ Xid id j) by (intros j Hj E; exact (Hj E)).
  assert (Hnotsmall : forall ej, nthN (dirs s') id = Some ej -> small_entry ej -> False).
  { intros ej He (_ & _ & Hl). rewrite Hnid in He. injection He as <-.
    cbn [e' set_start_len d_len] in Hl. lia. }
  exists s'. split; [exact Hu|]. split; [|split; [|split; [|split; [exact Hns' | exact Hfree']]]].
  - exists e', ids1. splits; try assumption.
    + eapply good_chain_shape; eassumption.
    + cbn [e' set_start_len d_len]. rewrite Hsl. exact Hfit.
    + cbn [e' set_start_len d_len]. f_equal. symmetry. apply StoreProofs.chain_content_ext.
      intros x Hx. apply Hfr'. exact (Hids_dids x Hx).
  - constructor.
    + exact W'.
    + eapply StoreProofs.AllocWf_shape; [apply SW | exact Hsh].
    + rewrite Hns'. apply SW.
    + rewrite Hfree'. apply SW.
    + intros x Hx. rewrite Hfree', Hdifat'. exact (sw_sys _ _ _ _ _ _ SW x Hx).
    + intros x Hx. rewrite Hfree' in Hx. rewrite Hdifat'. exact (sw_fdifat _ _ _ _ _ _ SW x Hx).
    + intros j ej _ Hej Hsj. destruct (N.eq_dec j id) as [->|Hj]; [destruct (Hnotsmall ej Hej Hsj)|].
      rewrite Hoth in Hej by exact Hj. rewrite Hmf'.
      exact (sw_small _ _ _ _ _ _ SW j ej (HnX j Hj) Hej Hsj).
    + intros j1 j2 e1 e2 m1 m2 _ _ Hne He1 Hs1 Hc1 He2 Hs2 Hc2.
      destruct (N.eq_dec j1 id) as [->|Hj1]; [destruct (Hnotsmall e1 He1 Hs1)|].
      destruct (N.eq_dec j2 id) as [->|Hj2]; [destruct (Hnotsmall e2 He2 Hs2)|].
      rewrite Hoth in He1, He2 by assumption. rewrite Hmf' in Hc1, Hc2.
      exact (sw_disj _ _ _ _ _ _ SW j1 j2 e1 e2 m1 m2 (HnX j1 Hj1) (HnX j2 Hj2) Hne
               He1 Hs1 Hc1 He2 Hs2 Hc2).
    + intros j ej _ Hej Hbj. rewrite Hfat', Hsl, Hns'. destruct (N.eq_dec j id) as [->|Hj].
      * rewrite Hnid in Hej. injection Hej as <-. exists ids1.
        rewrite Hfat' in Hch'. split; [exact Hch'|]. split; [exact Hfit|].
        rewrite Forall_forall. intros x Hx. exact (proj2 (proj2 (Hown x Hx))).
      * rewrite Hoth in Hej by exact Hj.
        exact (sw_bigchain _ _ _ _ _ _ SW j ej (HnX j Hj) Hej Hbj).
    + intros j ej l _ Hej Hbj Hcl x Hx. rewrite Hfree', Hdifat'.
      destruct (N.eq_dec j id) as [->|Hj].
      * rewrite Hnid in Hej. injection Hej as <-. rewrite Hch' in Hcl. injection Hcl as <-.
        destruct (Hown x Hx) as ((F1 & F2 & F3 & F4 & _) & F5 & _). repeat split; assumption.
      * rewrite Hoth in Hej by exact Hj. rewrite Hfat' in Hcl.
        exact (sw_big _ _ _ _ _ _ SW j ej l (HnX j Hj) Hej Hbj Hcl x Hx).
    + intros j1 j2 e1 e2 l1 l2 _ _ Hne He1 Hb1 Hc1 He2 Hb2 Hc2 x Hx1 Hx2.
      destruct (N.eq_dec j1 id) as [E1|Hj1]; destruct (N.eq_dec j2 id) as [E2|Hj2].
      * subst. contradiction.
      * subst j1. rewrite Hnid in He1. injection He1 as <-. rewrite Hch' in Hc1. injection Hc1 as <-.
        rewrite Hoth in He2 by exact Hj2. rewrite Hfat' in Hc2.
        destruct (Hown x Hx1) as ((_ & _ & _ & _ & F5) & _).
        exact (F5 j2 e2 l2 (HnX j2 Hj2) He2 Hb2 Hc2 Hx2).
      * subst j2. rewrite Hnid in He2. injection He2 as <-. rewrite Hch' in Hc2. injection Hc2 as <-.
        rewrite Hoth in He1 by exact Hj1. rewrite Hfat' in Hc1.
        destruct (Hown x Hx2) as ((_ & _ & _ & _ & F5) & _).
        exact (F5 j1 e1 l1 (HnX j1 Hj1) He1 Hb1 Hc1 Hx1).
      * rewrite Hoth in He1, He2 by assumption. rewrite Hfat' in Hc1, Hc2.
        exact (sw_bigdisj _ _ _ _ _ _ SW j1 j2 e1 e2 l1 l2 (HnX j1 Hj1) (HnX j2 Hj2) Hne
                 He1 Hb1 Hc1 He2 Hb2 Hc2 x Hx1 Hx2).
  - split; [|split].
    + intros id' V1 Hne Hsc.
      destruct (small_content_at _ _ _ _ _ _ _ W Hsc) as (e1 & m1 & Hs1).
      exists e1, rids, m1.
      apply (mframe_small_other s1 s' id r r rids mfids dids [] id' e1 m1 V1 M W W' Hs1 Hne).
      intros x [].
    + intros id' V1 Hne Hb.
      apply (mframe_big_other s1 s' id r rids mfids dids [] id' V1 M W Hb Hne).
      intros e0 ids0 He0 Hc0. destruct Hb as (e2 & ids2 & He2 & Ht2 & Hcut2 & _).
      rewrite He0 in He2. injection He2 as <-. intros x Hx.
      destruct (sw_big _ _ _ _ _ _ SW id' e0 ids0 (HnX id' Hne) He0 (conj Ht2 Hcut2) Hc0 x Hx)
        as (B1 & B2 & B3 & _).
      split; [exact B1|]. split; [exact B2 | exact B3].
    + intros id' Hne He0. exact (mframe_empty_other s1 s' id r rids mfids dids _ id' M W He0 Hne).
Qed.

(* ------------------------------------------------------------------ *)
(* Part 2 (case 1b): the first write / resize of an empty stream that  *)
(* makes it a large stream at once; the sectors come from the free     *)
(* stack                                                               *)
(* ------------------------------------------------------------------ *)

Lemma owned_nil : forall s rids mfids dids id, owned s rids mfids dids id [].
Proof. intros s rids mfids dids id x []. Qed.

Lemma chain_start_hd : forall i l o, chain_start (mkChain i l o) = hd END_OF_CHAIN l.
Proof. intros i [|x l] o; reflexivity. Qed.

Lemma takeN_zeros_app : forall n m, n <= m -> takeN n (repeatN 0 m : list byte) = repeatN 0 n.
Proof. intros. apply StoreProofs.takeN_repeatN. assumption. Qed.

Theorem resize_empty_big : forall s id new_len,
  SWf s -> empty_stream s id ->
  MINI_STREAM_CUTOFF <= new_len -> new_len <= MAX_REGULAR_SECTOR * slen s ->
  new_len <= stream_len_mask (ver s) ->
  (slen s + new_len - 1) / slen s <= lenN (free s) ->
  exists s',
    resize id new_len s = (s', Ok tt) /\
    big_content s' id (repeatN 0 new_len) /\
    SWf s' /\ others_kept s s' id /\ nsect s' = nsect s.
Proof.
  intros s id new_len (r & rids & mfids & dids & SW0) (e & Hn & Ht & Hst & Hlen) Hcut Hmax Hmask Hroom.
  pose proof (slen_pos s) as Hsp.
  assert (SW : SWfX_at s r rids mfids dids (Xid id)) by (eapply SWfX_weaken; [exact SW0 | intros j []]).
  set (num := (slen s + new_len - 1) / slen s) in *.
  assert (Hpos : 0 < new_len) by (rewrite CUTOFF_4096 in Hcut; lia).
  destruct (StoreProofs.ceil_props (slen s) new_len Hsp Hpos) as [Hc1 Hc2]. fold num in Hc1, Hc2.
  assert (Hp0 : path (fat s) (hd END_OF_CHAIN []) []) by constructor.
  destruct (chain_grow_alloc (N.to_nat num) s r rids mfids dids id [] 0 SW Hp0 (owned_nil _ _ _ _ _))
    as (s1 & nw & Eg & SW1 & P1 & O1 & Ln & F1 & HQ1 & En1 & Hcont & Ho1).
  { rewrite N2Nat.id. exact Hroom. }
  rewrite N2Nat.id in Ln. cbn [app] in *.
  destruct (Q_fields s s1 HQ1) as (_ & _ & _ & Hd1 & _ & _ & Hsl1).
  destruct (finish_big s1 r rids mfids dids id e nw new_len SW1 ltac:(rewrite Hd1; exact Hn) Ht P1 O1 Hcut)
    as (s' & Eu & Hbc & SW' & Ho2 & En' & _).
  { rewrite Hsl1, Ln. exact Hc1. }
  exists s'. split.
  { unfold resize. sred.
    rewrite (stream_entry_ok s id e Hn Ht). sred. rewrite Hst, Hlen.
    assert (E0 : (MAX_REGULAR_SECTOR * slen s <? new_len) = false) by (apply N.ltb_ge; exact Hmax).
    rewrite E0. sred. rewrite (mask_check_false s new_len Hmask). sred.
    rewrite N.eqb_refl. cbn [N.eqb negb].
    assert (E5 : (new_len <? MINI_STREAM_CUTOFF) = false) by lia. rewrite E5.
    rewrite (chain_new_exec s END_OF_CHAIN IZero [] (chain_of_path _ _ _ (WalkProofs.path_nil _))).
    rewrite (StoreProofs.chain_set_len_grow s (mkChain IZero [] 0) new_len).
    - cbn [c_ids lenN]. rewrite N.sub_0_r. fold num. rewrite Eg.
      rewrite chain_start_hd. exact Eu.
    - rewrite StoreProofs.two64_val. rewrite MAXREG_val in Hmax.
      destruct (slen_cases s) as [E|E]; rewrite E in *; lia.
    - exact Hpos.
    - cbn [c_ids lenN]. fold num. lia. }
  split.
  { cbn [chain_content map concat app] in Hcont. rewrite Hcont in Hbc.
    rewrite takeN_zeros_app in Hbc by (rewrite Ln; exact Hc1). exact Hbc. }
  split; [exists r, rids, mfids, dids; exact SW'|].
  split; [exact (others_kept_trans _ _ _ _ Ho1 Ho2) | lia].
Qed.

Theorem write_data_empty_big : forall s id buf,
  SWf s -> empty_stream s id ->
  MINI_STREAM_CUTOFF <= lenN buf ->
  lenN buf <= N.min (MAX_REGULAR_SECTOR * slen s) (stream_len_mask (ver s)) ->
  (lenN buf + slen s - 1) / slen s <= lenN (free s) ->
  exists s',
    write_data id 0 buf s = (s', Ok tt) /\
    big_content s' id buf /\
    SWf s' /\ others_kept s s' id /\ nsect s' = nsect s.
Proof.
  intros s id buf (r & rids & mfids & dids & SW0) (e & Hn & Ht & Hst & Hlen) Hcut Hbounds Hroom.
  pose proof (slen_pos s) as Hsp.
  assert (SW : SWfX_at s r rids mfids dids (Xid id)) by (eapply SWfX_weaken; [exact SW0 | intros j []]).
  assert (Hp0 : path (fat s) (hd END_OF_CHAIN []) []) by constructor.
  destruct (chain_write_all_alloc s r rids mfids dids id [] 0 buf SW Hp0 (owned_nil _ _ _ _ _))
    as (s1 & nw & Ew & SW1 & P1 & O1 & Ln & Hfit & F1 & HQ1 & En1 & Hcont & Ho1).
  { cbn [lenN]. lia. }
  { cbn [lenN]. rewrite N.add_0_l, N.sub_0_r. exact Hroom. }
  cbn [app lenN] in *. rewrite N.add_0_l in *.
  destruct (Q_fields s s1 HQ1) as (_ & _ & _ & Hd1 & _ & _ & Hsl1).
  destruct (finish_big s1 r rids mfids dids id e nw (lenN buf) SW1 ltac:(rewrite Hd1; exact Hn) Ht P1 O1 Hcut)
    as (s' & Eu & Hbc & SW' & Ho2 & En' & _).
  { rewrite Hsl1. exact Hfit. }
  exists s'. split.
  { unfold write_data. sred.
    rewrite (stream_entry_ok s id e Hn Ht). sred. rewrite Hst, Hlen.
    change (0 <? 0) with false. sred.
    replace (N.min (MAX_REGULAR_SECTOR * slen s) (stream_len_mask (ver s)) <? N.max 0 (0 + lenN buf))
      with false by (symmetry; apply N.ltb_ge; lia).
    cbn [N.ltb N.compare N.eqb negb]. rewrite N.eqb_refl. rewrite N.add_0_l.
    replace (N.max 0 (lenN buf)) with (lenN buf) by lia.
    assert (E4 : (lenN buf <? MINI_STREAM_CUTOFF) = false) by lia. rewrite E4.
    rewrite (chain_new_exec s END_OF_CHAIN IZero [] (chain_of_path _ _ _ (WalkProofs.path_nil _))).
    rewrite Ew. rewrite chain_start_hd. exact Eu. }
  split.
  { rewrite Hcont in Hbc. rewrite takeN_splice0 in Hbc. exact Hbc. }
  split; [exists r, rids, mfids, dids; exact SW'|].
  split; [exact (others_kept_trans _ _ _ _ Ho1 Ho2) | lia].
Qed.


(* ------------------------------------------------------------------ *)
(* releasing the mini chain of a small stream (free_mini_sector trims  *)
(* the trailing FREE cells of the MiniFAT)                             *)
(* ------------------------------------------------------------------ *)

Lemma strip_free_spec : forall l n,
  exists t, l = fst (strip_free l n) ++ t /\
            Forall (fun x => x = FREE_SECTOR) t /\ snd (strip_free l n) = n + lenN t.
Proof.
  induction l as [|x l IH]; intro n; cbn [strip_free].
  - exists []. cbn. split; [reflexivity|]. split; [constructor | lia].
  - destruct (IH n) as (t & E & HF & Hk).
    destruct (strip_free l n) as [t' k] eqn:Es. cbn [fst snd] in *.
    destruct t' as [|y t'].
    + destruct (x =? FREE_SECTOR) eqn:Ex.
      * apply N.eqb_eq in Ex. exists (x :: t). cbn [fst snd app]. rewrite E at 1. cbn [app].
        split; [reflexivity|]. split; [constructor; assumption|]. cbn [lenN]. lia.
      * exists t. cbn [fst snd app]. rewrite E at 1. cbn [app].
        split; [reflexivity|]. split; assumption.
    + exists t. cbn [fst snd]. rewrite E at 1. split; [reflexivity|]. split; assumption.
Qed.

(* non-FREE cells survive the trim *)
Lemma strip_free_keeps : forall l y w,
  nthN l y = Some w -> w <> FREE_SECTOR -> nthN (fst (strip_free l 0)) y = Some w.
Proof.
  intros l y w Hn Hw. destruct (strip_free_spec l 0) as (t & E & HF & _).
  set (l' := fst (strip_free l 0)) in *.
  destruct (N.lt_ge_cases y (lenN l')) as [Hlt|Hge].
  - rewrite E in Hn. rewrite nthN_app_l in Hn by exact Hlt. exact Hn.
  - exfalso. rewrite E in Hn. rewrite nthN_app_r in Hn by exact Hge.
    apply nthN_In in Hn. rewrite Forall_forall in HF. exact (Hw (HF w Hn)).
Qed.

Lemma path_keep : forall mf mf' c l,
  path mf c l -> lenN mf' <= lenN mf ->
  (forall y w, In y l -> nthN mf y = Some w -> w <> FREE_SECTOR -> nthN mf' y = Some w) ->
  path mf' c l.
Proof.
  intros mf mf' c l Hp Hlen. induction Hp as [|cur nx l Hc Hn Hp IH]; intro Hk.
  - constructor.
  - pose proof Hn as Hn0. apply WalkProofs.next_of_Ok in Hn. destruct Hn as [Hcell Hr].
    assert (Hnf : nx <> FREE_SECTOR).
    { rewrite FREE_val, EOC_val, MAXREG_val in *. lia. }
    econstructor; [exact Hc | | apply IH; intros y w Hy; apply Hk; right; exact Hy].
    apply WalkProofs.next_of_Ok. split; [exact (Hk cur nx (or_introl eq_refl) Hcell Hnf)|].
    destruct Hr as [Hr|[Hr1 Hr2]]; [left; exact Hr|]. right. split; [exact Hr1|].
    (* nx is the head of the rest of the path, hence a kept cell *)
    inversion Hp as [|c2 n2 l2 Hc2 Hn2 Hp2]; subst.
    + rewrite EOC_val, MAXREG_val in *. lia.
    + apply WalkProofs.next_of_Ok in Hn2. destruct Hn2 as [Hcell2 Hr2'].
      assert (Hnf2 : n2 <> FREE_SECTOR) by (rewrite FREE_val, EOC_val, MAXREG_val in *; lia).
      pose proof (Hk nx n2 (or_intror (or_introl eq_refl)) Hcell2 Hnf2) as H2.
      eapply nthN_Some_lt. exact H2.
Qed.

Lemma NoDup_filter : forall (f : N -> bool) l, NoDup l -> NoDup (filter f l).
Proof.
  intros f l H. induction H as [|x l Hx Hnd IH]; [constructor|]. cbn [filter].
  destruct (f x); [|exact IH]. constructor; [|exact IH].
  intro Hin. apply filter_In in Hin. exact (Hx (proj1 Hin)).
Qed.

Lemma free_mini_sector_step : forall s r rids mfids dids ms v,
  MWf_at s r rids mfids dids -> nthN (minifat s) ms = Some v -> v <> FREE_SECTOR ->
  exists s' r',
    free_mini_sector ms s = (s', Ok tt) /\
    MWf_at s' r' rids mfids dids /\ same_shape s s' /\
    lenN (dirs s') = lenN (dirs s) /\
    (forall j, j <> ROOT_STREAM_ID -> nthN (dirs s') j = nthN (dirs s) j) /\
    (forall x, ~ In x mfids -> ~ In x dids -> sector_bytes s' x = sector_bytes s x) /\
    lenN (minifat s') <= lenN (minifat s) /\
    (forall y w, y <> ms -> nthN (minifat s) y = Some w -> w <> FREE_SECTOR ->
       nthN (minifat s') y = Some w).
Proof.
  intros s r rids mfids dids ms v W Hcell Hv.
  pose proof (nthN_Some_lt _ _ _ _ Hcell) as Hlt.
  assert (Hms_free : ~ In ms (mfree s)).
  { intro Hin. rewrite (mw_ffree _ _ _ _ _ W ms Hin) in Hcell. injection Hcell as <-. exact (Hv eq_refl). }
  destruct (set_minifat_fr s ms FREE_SECTOR mfids) as (s1 & E1 & Hsh1 & Hmf1 & Hmfr1 & Hd1 & Hfr1).
  { lia. } { apply W. } { apply W. } { pose proof (mw_mcap _ _ _ _ _ W). lia. }
  assert (Hmf1' : minifat s1 = updN (minifat s) ms FREE_SECTOR).
  { rewrite Hmf1. unfold fat_set. destruct (ms =? lenN (minifat s)) eqn:Ei; [lia|reflexivity]. }
  set (s2 := w_mfree s1 (mfree s1 ++ [ms])).
  destruct (strip_free_spec (minifat s2) 0) as (t & Est & HFt & Hk).
  destruct (strip_free (minifat s2) 0) as [mf' k] eqn:Estrip. cbn [fst snd] in *.
  rewrite N.add_0_l in Hk.
  change (minifat s2) with (minifat s1) in Est, Estrip. rewrite Hmf1' in Est.
  assert (Hlen_all : lenN (minifat s) = lenN mf' + lenN t).
  { rewrite <- (lenN_updN _ (minifat s) ms FREE_SECTOR), Est, lenN_app. reflexivity. }
  set (newlen := d_len r - k * MINI_SECTOR_LEN).
  assert (Hnewlen : newlen = 64 * lenN mf').
  { unfold newlen. rewrite (mw_rlen _ _ _ _ _ W), Hk. unfold MINI_SECTOR_LEN. lia. }
  set (s3 := w_mfree (w_minifat s2 mf') (filter (fun i => i <? lenN mf') (mfree s2))).
  assert (Hr3 : nthN (dirs s3) ROOT_STREAM_ID = Some r) by (cbn [s3 s2 dirs w_mfree w_minifat]; rewrite Hd1; apply W).
  assert (Hsh3 : same_shape s s3).
  { destruct Hsh1 as (A1 & A2 & A3 & A4 & A5 & A6 & A7 & A8 & A9).
    unfold same_shape. cbn [s3 s2 nsect ver img fat free difat dir_start minifat_start w_mfree w_minifat].
    repeat split; assumption. }
  pose proof (same_shape_slen _ _ Hsh3) as Hsl3.
  pose proof (nthN_Some_lt _ _ _ _ (mw_root _ _ _ _ _ W)) as Hrlt.
  (* the state after the (possible) write-back of the root entry *)
  assert (Hfin : exists s',
    (if negb (newlen =? d_len r)
     then with_dir_entry_mut ROOT_STREAM_ID (fun e => set_start_len e (d_start e) newlen)
     else ret tt) s3 = (s', Ok tt) /\
    same_shape s3 s' /\ minifat s' = mf' /\ mfree s' = mfree s3 /\
    dirs s' = updN (dirs s) ROOT_STREAM_ID (set_start_len r (d_start r) newlen) /\
    (forall x, ~ In x dids -> sector_bytes s' x = sector_bytes s3 x)).
  { destruct (newlen =? d_len r) eqn:En; cbn [negb].
    - apply N.eqb_eq in En. exists s3. split; [reflexivity|]. split; [apply same_shape_refl|].
      split; [reflexivity|]. split; [reflexivity|]. split; [|intros; reflexivity].
      cbn [s3 s2 dirs w_mfree w_minifat]. rewrite Hd1, En, set_start_len_id.
      clear - W. pose proof (mw_root _ _ _ _ _ W) as H. revert H.
      generalize (dirs s) ROOT_STREAM_ID. intros l. induction l as [|a l IH]; intros i H; [discriminate|].
      cbn [nthN updN] in *. destruct (i =? 0); [injection H as ->; reflexivity|].
      f_equal. apply IH. exact H.
    - destruct (with_mut_spec s3 ROOT_STREAM_ID r (fun e => set_start_len e (d_start e) newlen) dids Hr3)
        as (s4 & E4 & Hs4 & Himg4 & Hfr4 & Hlen4).
      { cbn [set_start_len d_name]. eapply mw_names; [exact W | apply W]. }
      { destruct Hsh3 as (_ & _ & _ & _ & A5 & _ & _ & A8 & _). rewrite A5, A8. apply W. }
      { eapply good_chain_shape; [apply W | exact Hsh3]. }
      { rewrite Hsl3. pose proof (mw_dcap _ _ _ _ _ W) as Hdc. rewrite ROOT_val in *.
        unfold DIR_ENTRY_LEN in *. lia. }
      exists s4. split; [exact E4|].
      split.
      { rewrite Hs4. unfold same_shape.
        cbn [nsect ver img fat free difat dir_start minifat_start w_img w_dirs].
        repeat split; assumption. }
      split; [rewrite Hs4; reflexivity|]. split; [rewrite Hs4; reflexivity|].
      split; [rewrite Hs4; cbn [dirs w_img w_dirs s3 s2 w_mfree w_minifat]; rewrite Hd1; reflexivity|].
      exact Hfr4. }
  destruct Hfin as (s' & Efin & Hsh' & Hmf' & Hmfr' & Hd' & Hfr').
  set (r' := set_start_len r (d_start r) newlen) in *.
  assert (Hsh : same_shape s s') by (eapply same_shape_trans; eassumption).
  assert (Hkeep : forall y w, y <> ms -> nthN (minifat s) y = Some w -> w <> FREE_SECTOR ->
            nthN mf' y = Some w).
  { intros y w Hy Hcy Hw.
    assert (H1 : nthN (updN (minifat s) ms FREE_SECTOR) y = Some w)
      by (rewrite nthN_updN_other by congruence; exact Hcy).
    pose proof (strip_free_keeps _ y w H1 Hw) as H2. rewrite <- Hmf1' in H2.
    rewrite Estrip in H2. exact H2. }
  exists s', r'. split.
  { unfold free_mini_sector. rewrite bind_get, Hcell.
    destruct (v =? FREE_SECTOR) eqn:Ev; [apply N.eqb_eq in Ev; contradiction|].
    rewrite (bind_exec _ _ _ _ _ E1). rewrite bind_modify. fold s2.
    unfold root_entry.
    rewrite (bind_exec _ _ _ _ _ (dir_entry_exec s2 _ r ltac:(cbn [s2 dirs w_mfree]; rewrite Hd1; apply W))).
    assert (Emod : d_len r mod MINI_SECTOR_LEN = 0).
    { rewrite (mw_rlen _ _ _ _ _ W). unfold MINI_SECTOR_LEN. lia. }
    rewrite Emod. cbn [N.eqb negb]. rewrite bind_ret, bind_get.
    change (minifat s2) with (minifat s1). rewrite Estrip. cbv zeta.
    rewrite bind_put. fold newlen. exact Efin. }
  split.
  { apply (MWf_transfer s s' r r' rids mfids dids W Hsh).
    - rewrite Hd'. apply lenN_updN.
    - intros j e0 He0. rewrite Hd' in He0.
      destruct (N.eq_dec j ROOT_STREAM_ID) as [->|Hj].
      + rewrite nthN_updN_same in He0 by exact Hrlt. injection He0 as <-.
        cbn [r' set_start_len d_name]. eapply mw_names; [exact W | apply W].
      + rewrite nthN_updN_other in He0 by congruence. eapply mw_names; eassumption.
    - rewrite Hd'. apply nthN_updN_same. exact Hrlt.
    - cbn [r' set_start_len d_type]. apply W.
    - reflexivity.
    - cbn [r' set_start_len d_len]. rewrite Hmf'. exact Hnewlen.
    - rewrite Hmf'. pose proof (mw_rcap _ _ _ _ _ W). lia.
    - rewrite Hmf'. pose proof (mw_mcap _ _ _ _ _ W). lia.
    - rewrite Hmf'. pose proof (mw_bound _ _ _ _ _ W). lia.
    - rewrite Hmfr'. cbn [s3 mfree w_mfree]. apply NoDup_filter.
      cbn [s2 mfree w_mfree]. rewrite Hmfr1.
      apply NoDup_app_intro; [apply W | constructor; [intros []|constructor] |].
      intros x Hx [<-|[]]. contradiction.
    - intros x Hx. rewrite Hmfr' in Hx. cbn [s3 mfree w_mfree] in Hx.
      apply filter_In in Hx. destruct Hx as [Hx Hlx]. apply N.ltb_lt in Hlx.
      cbn [s2 mfree w_mfree] in Hx. rewrite Hmfr1 in Hx. rewrite Hmf'.
      assert (Hc : nthN (updN (minifat s) ms FREE_SECTOR) x = Some FREE_SECTOR).
      { apply in_app_or in Hx. destruct Hx as [Hx|[<-|[]]].
        - rewrite nthN_updN_other by (intro E; subst x; contradiction).
          exact (mw_ffree _ _ _ _ _ W x Hx).
        - apply nthN_updN_same. exact Hlt. }
      rewrite Est in Hc. rewrite nthN_app_l in Hc by exact Hlx. exact Hc. }
  split; [exact Hsh|]. split; [rewrite Hd'; apply lenN_updN|].
  split; [intros j Hj; rewrite Hd'; apply nthN_updN_other; congruence|].
  split.
  { intros x Hx1 Hx2. rewrite (Hfr' x Hx2).
    change (sector_bytes s3 x) with (sector_bytes s1 x). apply Hfr1. exact Hx1. }
  split; [rewrite Hmf'; lia|].
  intros y w Hy Hcy Hw. rewrite Hmf'. exact (Hkeep y w Hy Hcy Hw).
Qed.

Lemma free_mini_chain_go_spec : forall l fuel c s r rids mfids dids,
  MWf_at s r rids mfids dids -> path (minifat s) c l -> (length l < fuel)%nat ->
  exists s' r',
    free_mini_chain_go fuel c s = (s', Ok tt) /\
    MWf_at s' r' rids mfids dids /\ same_shape s s' /\
    lenN (dirs s') = lenN (dirs s) /\
    (forall j, j <> ROOT_STREAM_ID -> nthN (dirs s') j = nthN (dirs s) j) /\
    (forall x, ~ In x mfids -> ~ In x dids -> sector_bytes s' x = sector_bytes s x) /\
    lenN (minifat s') <= lenN (minifat s) /\
    (forall y w, ~ In y l -> nthN (minifat s) y = Some w -> w <> FREE_SECTOR ->
       nthN (minifat s') y = Some w).
Proof.
  induction l as [|cur rest IH]; intros fuel c s r rids mfids dids W Hp Hfuel.
  - inversion Hp; subst. destruct fuel as [|fuel]; [cbn in Hfuel; lia|].
    exists s, r. cbn [free_mini_chain_go]. rewrite N.eqb_refl.
    split; [reflexivity|]. split; [exact W|]. split; [apply same_shape_refl|].
    split; [reflexivity|]. split; [intros; reflexivity|]. split; [intros; reflexivity|].
    split; [lia|]. intros; assumption.
  - inversion Hp as [|c0 nx l0 Hc Hn Hp']; subst.
    destruct fuel as [|fuel]; [cbn in Hfuel; lia|]. cbn [free_mini_chain_go].
    destruct (cur =? END_OF_CHAIN) eqn:Ea; [apply N.eqb_eq in Ea; contradiction|].
    assert (Hnext : next_mini cur s = (s, Ok nx)).
    { unfold next_mini, next_mini_of. rewrite bind_get, Hn. reflexivity. }
    rewrite (bind_exec _ _ _ _ _ Hnext).
    pose proof Hn as Hn0. apply WalkProofs.next_of_Ok in Hn0. destruct Hn0 as [Hcell Hr].
    assert (Hnf : nx <> FREE_SECTOR) by (rewrite FREE_val, EOC_val, MAXREG_val in *; lia).
    destruct (free_mini_sector_step s r rids mfids dids cur nx W Hcell Hnf)
      as (s1 & r1 & E1 & W1 & Sh1 & Ld1 & Dj1 & Fr1 & Le1 & K1).
    pose proof (ReuseProofs.path_nodup _ _ _ Hp) as Hnd. inversion Hnd as [|? ? Hni Hnd']; subst.
    assert (Hp1 : path (minifat s1) nx rest).
    { apply (path_keep _ _ _ _ Hp' Le1). intros y w Hy Hcy Hw. apply K1; [|exact Hcy | exact Hw].
      intro E. subst y. contradiction. }
    destruct (IH fuel nx s1 r1 rids mfids dids W1 Hp1 ltac:(cbn [length] in Hfuel; lia))
      as (s' & r' & E' & W' & Sh' & Ld' & Dj' & Fr' & Le' & K').
    exists s', r'. rewrite (bind_exec _ _ _ _ _ E1).
    split; [exact E'|]. split; [exact W'|]. split; [eapply same_shape_trans; eassumption|].
    split; [congruence|].
    split; [intros j Hj; rewrite Dj', Dj1 by exact Hj; reflexivity|].
    split; [intros x X1 X2; rewrite Fr', Fr1 by assumption; reflexivity|].
    split; [lia|].
    intros y w Hy Hcy Hw. apply K'; [intro Hin; apply Hy; right; exact Hin | | exact Hw].
    apply K1; [intro E; apply Hy; left; symmetry; exact E | exact Hcy | exact Hw].
Qed.

Lemma free_small_chain : forall s r rids mfids dids id e mids,
  SWf_at s r rids mfids dids -> nthN (dirs s) id = Some e -> small_entry e ->
  chain_ids_of (minifat s) (d_start e) = Ok mids ->
  exists s1 r1,
    free_mini_chain (d_start e) s = (s1, Ok tt) /\
    SWfX_at s1 r1 rids mfids dids (Xid id) /\
    same_shape s s1 /\ nthN (dirs s1) id = Some e /\ others_kept s s1 id.
Proof.
  intros s r rids mfids dids id e mids SW He Hse Hc.
  pose proof (sw_m _ _ _ _ _ _ SW) as W.
  pose proof (WalkProofs.chain_ids_path _ _ _ Hc) as Hp.
  destruct Hse as (Ht & Hpos & Hcut).
  pose proof (small_not_root _ _ _ _ _ _ _ W He Ht) as Hidr.
  destruct (free_mini_chain_go_spec mids (S (S (length (minifat s)))) (d_start e) s r rids mfids dids W Hp
              (StoreProofs.path_length_fuel _ _ _ Hp))
    as (s1 & r1 & E1 & W1 & Sh & Ld & Dj & Fr & Le & K).
  pose proof (same_shape_slen _ _ Sh) as Hsl.
  pose proof Sh as (Hns & _ & _ & _ & Hfat & Hfree & Hdifat & _).
  assert (Hrbytes : forall x, In x rids -> sector_bytes s1 x = sector_bytes s x).
  { intros x Hx. apply Fr; [exact (mw_rm _ _ _ _ _ W x Hx) | exact (mw_rd _ _ _ _ _ W x Hx)]. }
  assert (Hstream_dirs : forall j ej, nthN (dirs s1) j = Some ej -> d_type ej = TStream ->
            nthN (dirs s) j = Some ej).
  { intros j ej Hej Tj. rewrite Dj in Hej; [exact Hej|].
    intro E. subst j. rewrite (mw_root _ _ _ _ _ W1) in Hej. injection Hej as <-.
    exact (mw_rtype _ _ _ _ _ W1 Tj). }
  (* the other small streams keep their chains *)
  assert (Hkept : forall j ej, j <> id -> nthN (dirs s) j = Some ej -> small_entry ej ->
            exists m, chain_ids_of (minifat s) (d_start ej) = Ok m /\
                      chain_ids_of (minifat s1) (d_start ej) = Ok m /\ d_len ej <= 64 * lenN m).
  { intros j ej Hj Hej Hsj.
    destruct (sw_small _ _ _ _ _ _ SW j ej (noX_not _) Hej Hsj) as (m & Hcm & Hlm).
    exists m. split; [exact Hcm|]. split; [|exact Hlm].
    apply chain_of_path. apply (path_keep _ _ _ _ (WalkProofs.chain_ids_path _ _ _ Hcm) Le).
    intros y w Hy Hcy Hw. apply K; [|exact Hcy | exact Hw].
    intro Hin.
    exact (sw_disj _ _ _ _ _ _ SW id j e ej mids m (noX_not _) (noX_not _) ltac:(congruence)
             He (conj Ht (conj Hpos Hcut)) Hc Hej Hsj Hcm y Hin Hy). }
  exists s1, r1.
  split; [unfold free_mini_chain; rewrite bind_get; exact E1|].
  split.
  { constructor.
    - exact W1.
    - eapply StoreProofs.AllocWf_shape; [apply SW | exact Sh].
    - rewrite Hns. apply SW.
    - rewrite Hfree. apply SW.
    - intros x Hx. rewrite Hfree, Hdifat. exact (sw_sys _ _ _ _ _ _ SW x Hx).
    - intros x Hx. rewrite Hfree in Hx. rewrite Hdifat. exact (sw_fdifat _ _ _ _ _ _ SW x Hx).
    - intros j ej Hxj Hej Hsj. pose proof (Hstream_dirs j ej Hej (proj1 Hsj)) as Hej0.
      destruct (Hkept j ej ltac:(intro E; exact (Hxj E)) Hej0 Hsj) as (m & _ & Hc1 & Hl).
      exists m. split; assumption.
    - intros j1 j2 e1 e2 m1 m2 Hx1 Hx2 Hne He1 Hs1 Hc1 He2 Hs2 Hc2.
      pose proof (Hstream_dirs j1 e1 He1 (proj1 Hs1)) as He10.
      pose proof (Hstream_dirs j2 e2 He2 (proj1 Hs2)) as He20.
      destruct (Hkept j1 e1 ltac:(intro E; exact (Hx1 E)) He10 Hs1) as (ma & Hca & Hca1 & _).
      destruct (Hkept j2 e2 ltac:(intro E; exact (Hx2 E)) He20 Hs2) as (mb & Hcb & Hcb1 & _).
      rewrite Hc1 in Hca1. injection Hca1 as <-. rewrite Hc2 in Hcb1. injection Hcb1 as <-.
      exact (sw_disj _ _ _ _ _ _ SW j1 j2 e1 e2 m1 m2 (noX_not _) (noX_not _) Hne
               He10 Hs1 Hca He20 Hs2 Hcb).
    - intros j ej _ Hej Hbj. rewrite Hfat, Hsl, Hns.
      exact (sw_bigchain _ _ _ _ _ _ SW j ej (noX_not _) (Hstream_dirs j ej Hej (proj1 Hbj)) Hbj).
    - intros j ej l _ Hej Hbj Hcl. rewrite Hfat in Hcl. rewrite Hfree, Hdifat.
      exact (sw_big _ _ _ _ _ _ SW j ej l (noX_not _) (Hstream_dirs j ej Hej (proj1 Hbj)) Hbj Hcl).
    - intros j1 j2 e1 e2 l1 l2 _ _ Hne He1 Hb1 Hc1 He2 Hb2 Hc2. rewrite Hfat in Hc1, Hc2.
      exact (sw_bigdisj _ _ _ _ _ _ SW j1 j2 e1 e2 l1 l2 (noX_not _) (noX_not _) Hne
               (Hstream_dirs j1 e1 He1 (proj1 Hb1)) Hb1 Hc1
               (Hstream_dirs j2 e2 He2 (proj1 Hb2)) Hb2 Hc2). }
  split; [exact Sh|]. split; [rewrite Dj by exact Hidr; exact He|].
  split; [|split].
  - intros id' V' Hne Hsc.
    destruct (small_content_at _ _ _ _ _ _ _ W Hsc) as (e1 & m1 & Hs1).
    pose proof (small_at_entry _ _ _ _ _ _ Hs1) as Hse1.
    destruct Hs1 as (Hn1 & Ht1 & Hcut1 & Hpos1 & Hch1 & Hgm1 & Hle1 & HV1).
    destruct (Hkept id' e1 Hne Hn1 Hse1) as (m & Hcm & Hcm1 & _).
    rewrite Hch1 in Hcm. injection Hcm as <-.
    exists e1, rids, m1. unfold small_at. splits; try assumption.
    + rewrite Dj by exact (small_not_root _ _ _ _ _ _ _ W Hn1 Ht1). exact Hn1.
    + exact (good_mchain_of_path s1 r1 rids mfids dids (d_start e1) m1 W1
               (WalkProofs.chain_ids_path _ _ _ Hcm1)).
    + rewrite HV1. f_equal. symmetry. apply mchain_content_ext. intros ms _.
      apply mini_bytes_ext. exact Hrbytes.
  - intros id' V' Hne (e2 & l2 & He2 & Ht2 & Hcut2 & Hc2 & Hg2 & Hle2 & HV2).
    exists e2, l2. splits; try assumption.
    + rewrite Dj by exact (small_not_root _ _ _ _ _ _ _ W He2 Ht2). exact He2.
    + rewrite Hfat. exact Hc2.
    + eapply good_chain_shape; eassumption.
    + rewrite Hsl. exact Hle2.
    + rewrite HV2. f_equal. symmetry. apply StoreProofs.chain_content_ext. intros x Hx.
      destruct (sw_big _ _ _ _ _ _ SW id' e2 l2 (noX_not _) He2 (conj Ht2 Hcut2) Hc2 x Hx)
        as (_ & S2 & S3 & _).
      apply Fr; assumption.
  - intros id' Hne (e3 & Hn3 & Ht3 & Hst3 & Hl3). exists e3. unfold empty_at.
    rewrite Dj by exact (small_not_root _ _ _ _ _ _ _ W Hn3 Ht3). splits; assumption.
Qed.

(* ------------------------------------------------------------------ *)
(* Part 3 (case 2b): a small stream reaches the cutoff and moves to a  *)
(* regular chain; its mini sectors are released                        *)
(* ------------------------------------------------------------------ *)

Lemma lenN_rev : forall A (l : list A), lenN (rev l) = lenN l.
Proof.
  intros A l. induction l as [|a l IH]; [reflexivity|].
  cbn [rev lenN]. rewrite lenN_app, IH. cbn [lenN]. lia.
Qed.

Lemma spliceN_tail : forall (V : list byte) off buf,
  off <= lenN V -> lenN V <= off + lenN buf -> spliceN V off buf = takeN off V ++ buf.
Proof.
  intros V off buf H1 H2. unfold spliceN. rewrite lenN_takeN.
  replace (off - N.min off (lenN V)) with 0 by blia. change (repeatN 0 0) with (@nil byte).
  rewrite dropN_all by blia. cbn [app]. rewrite app_nil_r. reflexivity.
Qed.

Lemma div_mono : forall a b c, 0 < c -> a <= b -> a / c <= b / c.
Proof. intros a b c Hc H. apply N.div_le_mono; lia. Qed.

Theorem write_data_small_to_big : forall s id V off buf,
  SWf s -> small_content s id V -> off <= lenN V ->
  MINI_STREAM_CUTOFF <= off + lenN buf ->
  off + lenN buf <= N.min (MAX_REGULAR_SECTOR * slen s) (stream_len_mask (ver s)) ->
  (off + lenN buf + slen s - 1) / slen s <= lenN (free s) ->
  exists s',
    write_data id off buf s = (s', Ok tt) /\
    big_content s' id (spliceN V off buf) /\
    SWf s' /\ others_kept s s' id /\ nsect s' = nsect s.
Proof.
  intros s id V off buf (r & rids & mfids & dids & SW0) Hsc Hoff Hcut2 Hbounds Hroom.
  pose proof (slen_pos s) as Hsp.
  pose proof (sw_m _ _ _ _ _ _ SW0) as W.
  destruct (small_content_at _ _ _ _ _ _ _ W Hsc) as (e & mids & Hsm).
  pose proof (small_at_lenV _ _ _ _ _ _ Hsm) as HlenV. rewrite HlenV in *.
  destruct (small_at_start _ _ _ _ _ _ Hsm) as (Hne & Hst & Hk).
  pose proof (small_at_entry _ _ _ _ _ _ Hsm) as Hse.
  pose proof Hsm as (Hnth & Ht & Hcut & Hpos & Hch & Hgm & Hle & HV).
  pose proof (good_mchain_len _ _ _ Hgm) as HL0.
  destruct (free_small_chain s r rids mfids dids id e mids SW0 Hnth Hse Hch)
    as (s1 & r1 & Efree & SW1 & Sh1 & Hn1 & Ho1).
  pose proof (same_shape_slen _ _ Sh1) as Hsl1.
  pose proof Sh1 as (Hns1 & _ & _ & _ & Hfat1 & Hfree1 & _).
  set (tmp := takeN off (dropN 0 (mchain_content s rids mids))).
  assert (Htmp : tmp = takeN off V).
  { unfold tmp. rewrite dropN_0, HV. symmetry. apply takeN_takeN. exact Hoff. }
  assert (Hltmp : lenN tmp = off) by (unfold tmp; rewrite dropN_0, lenN_takeN; blia).
  assert (Hp0 : path (fat s1) (hd END_OF_CHAIN []) []) by constructor.
  destruct (chain_write_all_alloc s1 r1 rids mfids dids id [] 0 tmp SW1 Hp0 (owned_nil _ _ _ _ _))
    as (s2 & nw1 & Ew1 & SW2 & P2 & O2 & Ln1 & Hfit1 & F1 & HQ2 & En2 & Hc2 & Ho2).
  { cbn [lenN]. lia. }
  { cbn [lenN]. rewrite N.add_0_l, N.sub_0_r, Hltmp, Hsl1, Hfree1.
    etransitivity; [|exact Hroom]. apply div_mono; lia. }
  cbn [app lenN] in *. rewrite N.add_0_l, ?N.sub_0_r in *. rewrite Hltmp, Hsl1 in *.
  destruct (Q_fields s1 s2 HQ2) as (_ & _ & _ & Hd2 & _ & _ & Hsl2). rewrite Hsl1 in Hsl2.
  assert (Hfl : lenN (free s) = lenN (free s2) + lenN nw1).
  { rewrite <- Hfree1, F1, lenN_app, lenN_rev. reflexivity. }
  destruct (chain_write_all_alloc s2 r1 rids mfids dids id nw1 off buf SW2 P2 O2)
    as (s3 & nw2 & Ew2 & SW3 & P3 & O3 & Ln2 & Hfit2 & F2 & HQ3 & En3 & Hc3 & Ho3).
  { rewrite Hsl2. exact Hfit1. }
  { rewrite Hsl2. lia. }
  rewrite Hsl2 in *.
  destruct (Q_fields s2 s3 HQ3) as (_ & _ & _ & Hd3 & _ & _ & Hsl3). rewrite Hsl2 in Hsl3.
  set (ln := N.max (d_len e) (off + lenN buf)).
  assert (Eln : ln = off + lenN buf) by (unfold ln; lia).
  destruct (finish_big s3 r1 rids mfids dids id e (nw1 ++ nw2) ln SW3
              ltac:(rewrite Hd3, Hd2; exact Hn1) Ht P3 O3)
    as (s' & Eu & Hbc & SW' & Ho4 & En' & _).
  { lia. } { rewrite Hsl3, Eln. exact Hfit2. }
  exists s'. split.
  { unfold write_data. sred.
    rewrite (stream_entry_ok s id e Hnth Ht). sred.
    assert (E1 : (d_len e <? off) = false) by lia. rewrite E1.
    fold ln.
    replace (N.min (MAX_REGULAR_SECTOR * slen s) (stream_len_mask (ver s)) <? ln)
      with false by (symmetry; apply N.ltb_ge; rewrite Eln; exact Hbounds).
    assert (E2 : (d_start e =? END_OF_CHAIN) = false) by lia. rewrite E2.
    assert (E3 : (d_len e <? MINI_STREAM_CUTOFF) = true) by lia. rewrite E3.
    assert (E4 : (ln <? MINI_STREAM_CUTOFF) = false) by lia. rewrite E4.
    assert (E5 : (MINI_STREAM_CUTOFF <=? off) = false) by lia. rewrite E5.
    rewrite (mchain_new_ok s _ mids Hch).
    rewrite (mchain_read_spec s rids (mkMChain mids 0) off Hgm)
      by (unfold mchain_len; cbn [mc_ids mc_off]; rewrite MSL_64; lia).
    cbn [mc_ids mc_off]. fold tmp.
    rewrite mchain_start_hd. rewrite mchain_start_hd in Hst. rewrite Hst, Efree.
    rewrite (chain_new_exec s1 END_OF_CHAIN IZero [] (chain_of_path _ _ _ (WalkProofs.path_nil _))).
    rewrite Ew1. rewrite Ew2. rewrite chain_start_hd. exact Eu. }
  split.
  { rewrite Hc3, Hc2 in Hbc. cbn [chain_content map concat app] in Hbc.
    rewrite Eln in Hbc.
    set (Z1 := repeatN 0 (slen s * lenN nw1) : list byte) in *.
    set (Z2 := repeatN 0 (slen s * lenN nw2) : list byte) in *.
    assert (HlS : lenN (spliceN Z1 0 tmp) = N.max (lenN Z1) off)
      by (rewrite lenN_spliceN, Hltmp; f_equal).
    replace (off + lenN buf) with (N.max off (off + lenN buf)) in Hbc at 1 by lia.
    rewrite takeN_spliceN_gen in Hbc by (try rewrite lenN_app, HlS; blia).
    rewrite takeN_app_le in Hbc by (rewrite HlS; blia).
    rewrite <- Hltmp in Hbc at 1. rewrite takeN_splice0 in Hbc.
    rewrite <- Hltmp in Hbc at 1. rewrite spliceN_at_end in Hbc.
    rewrite spliceN_tail by blia. rewrite <- Htmp. exact Hbc. }
  split; [exists r1, rids, mfids, dids; exact SW'|].
  split; [|lia].
  eapply others_kept_trans; [exact Ho1|]. eapply others_kept_trans; [exact Ho2|].
  eapply others_kept_trans; [exact Ho3 | exact Ho4].
Qed.

Lemma chain_set_len_ge : forall s c new_len,
  slen s + new_len < two64 -> 0 < new_len ->
  lenN (c_ids c) <= (slen s + new_len - 1) / slen s ->
  chain_set_len c new_len s
  = chain_grow (N.to_nat ((slen s + new_len - 1) / slen s - lenN (c_ids c))) c s.
Proof.
  intros s c new_len Hov Hpos Hge. pose proof (slen_pos s) as Hsp.
  unfold chain_set_len. rewrite bind_get. cbv zeta.
  destruct (two64 <=? slen s + new_len - 1 + 1) eqn:E1; [lia|].
  assert (H1 : 1 <= (slen s + new_len - 1) / slen s) by (apply N.div_le_lower_bound; lia).
  destruct ((slen s + new_len - 1) / slen s =? 0) eqn:E2; [lia|].
  destruct ((slen s + new_len - 1) / slen s <=? lenN (c_ids c)) eqn:E3.
  - assert (E : (slen s + new_len - 1) / slen s = lenN (c_ids c)) by lia.
    rewrite E, N.ltb_irrefl, N.sub_diag. reflexivity.
  - reflexivity.
Qed.

Lemma dropN_repeatN : forall A (x : A) n k, k <= n -> dropN k (repeatN x n) = repeatN x (n - k).
Proof.
  intros A x n k H. replace n with (k + (n - k)) at 1 by lia.
  rewrite StoreProofs.repeatN_add. rewrite dropN_app_ge by (rewrite lenN_repeatN; lia).
  rewrite lenN_repeatN, N.sub_diag, dropN_0. reflexivity.
Qed.

Theorem resize_small_to_big : forall s id V new_len,
  SWf s -> small_content s id V ->
  MINI_STREAM_CUTOFF <= new_len -> new_len <= MAX_REGULAR_SECTOR * slen s ->
  new_len <= stream_len_mask (ver s) ->
  (slen s + new_len - 1) / slen s <= lenN (free s) ->
  exists s',
    resize id new_len s = (s', Ok tt) /\
    big_content s' id (V ++ repeatN 0 (new_len - lenN V)) /\
    SWf s' /\ others_kept s s' id /\ nsect s' = nsect s.
Proof.
  intros s id V new_len (r & rids & mfids & dids & SW0) Hsc Hcut2 Hmax Hmask Hroom.
  pose proof (slen_pos s) as Hsp.
  pose proof (sw_m _ _ _ _ _ _ SW0) as W.
  destruct (small_content_at _ _ _ _ _ _ _ W Hsc) as (e & mids & Hsm).
  pose proof (small_at_lenV _ _ _ _ _ _ Hsm) as HlenV.
  destruct (small_at_start _ _ _ _ _ _ Hsm) as (Hne & Hst & Hk).
  pose proof (small_at_entry _ _ _ _ _ _ Hsm) as Hse.
  pose proof Hsm as (Hnth & Ht & Hcut & Hpos & Hch & Hgm & Hle & HV).
  pose proof (good_mchain_len _ _ _ Hgm) as HL0.
  destruct (free_small_chain s r rids mfids dids id e mids SW0 Hnth Hse Hch)
    as (s1 & r1 & Efree & SW1 & Sh1 & Hn1 & Ho1).
  pose proof (same_shape_slen _ _ Sh1) as Hsl1.
  pose proof Sh1 as (Hns1 & _ & _ & _ & Hfat1 & Hfree1 & _).
  set (num := (slen s + new_len - 1) / slen s) in *.
  assert (Hpos' : 0 < new_len) by (rewrite CUTOFF_4096 in *; lia).
  destruct (StoreProofs.ceil_props (slen s) new_len Hsp Hpos') as [Hc1 Hc2'']. fold num in Hc1, Hc2''.
  assert (Etmp : takeN (d_len e) (dropN 0 (mchain_content s rids mids)) = V)
    by (rewrite dropN_0; symmetry; exact HV).
  assert (Hp0 : path (fat s1) (hd END_OF_CHAIN []) []) by constructor.
  destruct (chain_write_all_alloc s1 r1 rids mfids dids id [] 0 V SW1 Hp0 (owned_nil _ _ _ _ _))
    as (s2 & nw1 & Ew1 & SW2 & P2 & O2 & Ln1 & Hfit1 & F1 & HQ2 & En2 & Hc2 & Ho2).
  { cbn [lenN]. lia. }
  { cbn [lenN]. rewrite N.add_0_l, N.sub_0_r, HlenV, Hsl1, Hfree1.
    etransitivity; [|exact Hroom]. apply div_mono; [exact Hsp | rewrite CUTOFF_4096 in *; lia]. }
  cbn [app lenN] in *. rewrite N.add_0_l, ?N.sub_0_r in *. rewrite HlenV, Hsl1 in *.
  destruct (Q_fields s1 s2 HQ2) as (_ & _ & _ & Hd2 & _ & _ & Hsl2). rewrite Hsl1 in Hsl2.
  assert (Hfl : lenN (free s) = lenN (free s2) + lenN nw1).
  { rewrite <- Hfree1, F1, lenN_app, lenN_rev. reflexivity. }
  assert (Hnw1 : lenN nw1 <= num).
  { rewrite Ln1. unfold num. apply div_mono; [exact Hsp | rewrite CUTOFF_4096 in *; lia]. }
  destruct (chain_grow_alloc (N.to_nat (num - lenN nw1)) s2 r1 rids mfids dids id nw1 (d_len e) SW2 P2 O2)
    as (s3 & nw2 & Eg & SW3 & P3 & O3 & Ln2 & F2 & HQ3 & En3 & Hc3 & Ho3).
  { rewrite N2Nat.id. lia. }
  rewrite N2Nat.id in Ln2. rewrite Hsl2 in *.
  destruct (Q_fields s2 s3 HQ3) as (_ & _ & _ & Hd3 & _ & _ & Hsl3). rewrite Hsl2 in Hsl3.
  destruct (finish_big s3 r1 rids mfids dids id e (nw1 ++ nw2) new_len SW3
              ltac:(rewrite Hd3, Hd2; exact Hn1) Ht P3 O3 Hcut2)
    as (s' & Eu & Hbc & SW' & Ho4 & En' & _).
  { rewrite Hsl3, lenN_app, Ln2. replace (lenN nw1 + (num - lenN nw1)) with num by lia. exact Hc1. }
  exists s'. split.
  { unfold resize. sred.
    rewrite (stream_entry_ok s id e Hnth Ht). sred.
    assert (E0 : (MAX_REGULAR_SECTOR * slen s <? new_len) = false) by (apply N.ltb_ge; exact Hmax).
    rewrite E0. sred. rewrite (mask_check_false s new_len Hmask). sred.
    assert (E2 : (d_start e =? END_OF_CHAIN) = false) by lia. rewrite E2.
    assert (E3 : (d_len e <? MINI_STREAM_CUTOFF) = true) by lia. rewrite E3.
    assert (E4 : (new_len =? 0) = false) by lia. rewrite E4.
    assert (E5 : (new_len <? MINI_STREAM_CUTOFF) = false) by lia. rewrite E5.
    rewrite (mchain_new_ok s _ mids Hch).
    rewrite (mchain_read_spec s rids (mkMChain mids 0) (d_len e) Hgm)
      by (unfold mchain_len; cbn [mc_ids mc_off]; rewrite MSL_64; lia).
    cbn [mc_ids mc_off]. rewrite Etmp.
    rewrite mchain_start_hd. rewrite mchain_start_hd in Hst. rewrite Hst, Efree.
    rewrite (chain_new_exec s1 END_OF_CHAIN IZero [] (chain_of_path _ _ _ (WalkProofs.path_nil _))).
    rewrite Ew1.
    rewrite (chain_set_len_ge s2 (mkChain IZero nw1 (d_len e)) new_len).
    - cbn [c_ids]. rewrite Hsl2. fold num. rewrite Eg. rewrite chain_start_hd. exact Eu.
    - rewrite Hsl2, StoreProofs.two64_val. rewrite MAXREG_val in Hmax.
      destruct (slen_cases s) as [E|E]; rewrite E in *; lia.
    - exact Hpos'.
    - cbn [c_ids]. rewrite Hsl2. fold num. exact Hnw1. }
  split.
  { rewrite Hc3, Hc2 in Hbc. cbn [chain_content map concat app] in Hbc.
    set (Z1 := repeatN 0 (slen s * lenN nw1) : list byte) in *.
    set (Z2 := repeatN 0 (slen s * lenN nw2) : list byte) in *.
    assert (HZ1 : lenN Z1 = slen s * lenN nw1) by (unfold Z1; apply lenN_repeatN).
    rewrite spliceN_inside in Hbc by (rewrite HZ1; blia).
    rewrite takeN_0 in Hbc. cbn [app] in Hbc. rewrite N.add_0_l in Hbc.
    unfold Z1 in Hbc at 1. rewrite dropN_repeatN in Hbc by blia.
    rewrite <- app_assoc in Hbc. unfold Z2 in Hbc. rewrite <- StoreProofs.repeatN_add in Hbc.
    rewrite takeN_app_ge in Hbc by (rewrite CUTOFF_4096 in *; blia).
    rewrite StoreProofs.takeN_repeatN in Hbc; [rewrite HlenV in Hbc; exact Hbc|].
    rewrite HlenV, Ln2, N.mul_sub_distr_l.
    pose proof (N.mul_le_mono_l _ _ (slen s) Hnw1). lia. }
  split; [exists r1, rids, mfids, dids; exact SW'|].
  split; [|lia].
  eapply others_kept_trans; [exact Ho1|]. eapply others_kept_trans; [exact Ho2|].
  eapply others_kept_trans; [exact Ho3 | exact Ho4].
Qed.


(* ------------------------------------------------------------------ *)
(* Part 5 (continued): the contract clauses over all the cases above   *)
(* ------------------------------------------------------------------ *)

(* write_data_contract, restricted to a stream that is not yet large, a
   non-empty buffer, and enough room: in the mini free list / retained
   capacity when the result stays small, on the FAT free stack when it
   becomes large *)
Theorem write_data_contract_alloc : forall s id V k off buf,
  SWf s -> content s id V -> lenN V < MINI_STREAM_CUTOFF -> mini_sectors s id k ->
  off <= lenN V -> 0 < lenN buf ->
  (lenN (spliceN V off buf) < MINI_STREAM_CUTOFF ->
     mini_room s (msectors (off + lenN buf) - k)) ->
  (MINI_STREAM_CUTOFF <= lenN (spliceN V off buf) ->
     (off + lenN buf + slen s - 1) / slen s <= lenN (free s)) ->
  (MINI_STREAM_CUTOFF <= lenN (spliceN V off buf) ->
     off + lenN buf <= N.min (MAX_REGULAR_SECTOR * slen s) (stream_len_mask (ver s))) ->
  exists s',
    write_data id off buf s = (s', Ok tt) /\
    content s' id (spliceN V off buf) /\
    SWf s' /\ others_kept s s' id.
Proof.
  intros s id V k off buf SW Hc HV Hk Hoff Hb Hsmall Hbig Hbounds.
  destruct (N.lt_ge_cases (lenN (spliceN V off buf)) MINI_STREAM_CUTOFF) as [Hlt|Hge].
  - exact (write_data_contract_small_alloc s id V k off buf Hc Hk Hoff Hb Hlt (Hsmall Hlt)).
  - specialize (Hbig Hge). specialize (Hbounds Hge). rewrite lenN_spliceN in Hge.
    assert (Hge' : MINI_STREAM_CUTOFF <= off + lenN buf) by blia.
    destruct Hc as [[-> He]|[H|H]].
    + cbn [lenN] in Hoff. assert (off = 0) by lia. subst off.
      assert (Es : spliceN [] 0 buf = buf).
      { unfold spliceN. cbn [takeN dropN lenN app]. rewrite N.sub_diag.
        change (repeatN 0 0) with (@nil byte). cbn [app]. apply app_nil_r. }
      rewrite Es. rewrite N.add_0_l in *.
      destruct (write_data_empty_big s id buf SW He Hge' Hbounds Hbig) as (s' & Hrun & Hbc & SW' & Ho & _).
      exists s'. split; [exact Hrun|]. split; [right; right; exact Hbc|]. split; assumption.
    + destruct (write_data_small_to_big s id V off buf SW H Hoff Hge' Hbounds Hbig)
        as (s' & Hrun & Hbc & SW' & Ho & _).
      exists s'. split; [exact Hrun|]. split; [right; right; exact Hbc|]. split; assumption.
    + pose proof (big_content_len_ge _ _ _ H). lia.
Qed.

(* resize_contract, restricted to n > 0 and enough room; [k] is the number
   of mini sectors a small (or empty) stream holds *)
Theorem resize_contract_alloc : forall s id V k n,
  SWf s -> content s id V -> 0 < n -> n <= MAX_REGULAR_SECTOR * slen s ->
  n <= stream_len_mask (ver s) ->
  (lenN V < MINI_STREAM_CUTOFF -> mini_sectors s id k) ->
  (lenN V < MINI_STREAM_CUTOFF -> n < MINI_STREAM_CUTOFF ->
     k <= msectors n /\ mini_room s (msectors n - k)) ->
  (MINI_STREAM_CUTOFF <= lenN V -> n < MINI_STREAM_CUTOFF -> mini_room s (msectors n)) ->
  (lenN V < MINI_STREAM_CUTOFF -> MINI_STREAM_CUTOFF <= n ->
     (slen s + n - 1) / slen s <= lenN (free s)) ->
  (MINI_STREAM_CUTOFF <= lenN V -> n < MINI_STREAM_CUTOFF) ->
  exists s',
    resize id n s = (s', Ok tt) /\
    content s' id (takeN n V ++ repeatN 0 (n - lenN V)) /\
    SWf s' /\ others_kept s s' id.
Proof.
  intros s id V k n SW Hc Hn Hmax Hmask Hk Hss Hbs Hsb Hbb.
  destruct (N.lt_ge_cases (lenN V) MINI_STREAM_CUTOFF) as [HV|HV].
  - destruct (N.lt_ge_cases n MINI_STREAM_CUTOFF) as [Hlt|Hge].
    + destruct (Hss HV Hlt) as [Hle Hroom].
      exact (resize_contract_small_alloc s id V k n Hc (Hk HV) HV Hn Hlt Hle Hroom).
    + specialize (Hsb HV Hge).
      destruct Hc as [[-> He]|[H|H]].
      * destruct (resize_empty_big s id n SW He Hge Hmax Hmask Hsb) as (s' & Hrun & Hbc & SW' & Ho & _).
        exists s'. split; [exact Hrun|]. cbn [takeN lenN app]. rewrite N.sub_0_r.
        split; [right; right; exact Hbc|]. split; assumption.
      * destruct (resize_small_to_big s id V n SW H Hge Hmax Hmask Hsb) as (s' & Hrun & Hbc & SW' & Ho & _).
        exists s'. split; [exact Hrun|]. rewrite takeN_all by lia.
        split; [right; right; exact Hbc|]. split; assumption.
      * pose proof (big_content_len_ge _ _ _ H). lia.
  - pose proof (Hbb HV) as Hlt. specialize (Hbs HV Hlt).
    destruct Hc as [[-> He]|[H|H]].
    + cbn [lenN] in HV. rewrite CUTOFF_4096 in HV. lia.
    + destruct (small_content_pos _ _ _ H). lia.
    + destruct (resize_big_to_small s id V n H Hn Hlt Hbs) as (s' & Hrun & Hsc & _ & SW' & Ho).
      exists s'. split; [exact Hrun|].
      replace (n - lenN V) with 0 by lia. change (repeatN 0 0) with (@nil byte). rewrite app_nil_r.
      split; [right; left; exact Hsc|]. split; assumption.
Qed.

(* the content of a large stream, computed *)
Definition big_bytes (s : cstate) (id : N) : option (list byte) :=
  match nthN (dirs s) id with
  | Some e =>
    if StoreProofs.is_big e then
      match chain_ids_of (fat s) (d_start e) with
      | Ok ids => Some (takeN (d_len e) (chain_content s ids))
      | _ => None
      end
    else None
  | None => None
  end.

Lemma big_bytes_sound : forall s id V,
  SWf s -> big_bytes s id = Some V -> big_content s id V.
Proof.
  intros s id V (r & rids & mfids & dids & SW) H. unfold big_bytes in H.
  destruct (nthN (dirs s) id) as [e|] eqn:He; [|discriminate].
  destruct (StoreProofs.is_big e) eqn:Eb; [|discriminate].
  unfold StoreProofs.is_big in Eb. apply andb_true_iff in Eb. destruct Eb as [E1 E2].
  assert (Ht : d_type e = TStream) by (destruct (d_type e); try discriminate; reflexivity).
  apply N.leb_le in E2.
  destruct (sw_bigchain _ _ _ _ _ _ SW id e (noX_not _) He (conj Ht E2)) as (ids & Hc & Hcov & HF).
  rewrite Hc in H. injection H as <-.
  exists e, ids. splits; try assumption; try reflexivity.
  apply StoreProofs.good_chain_of_wf; [apply SW | | exact HF].
  eapply ReuseProofs.path_nodup. apply WalkProofs.chain_ids_path. exact Hc.
Qed.


(* ------------------------------------------------------------------ *)
(* Part 1 (c), at the allocation level: the mini free list is empty,   *)
(* the MiniFAT chain has room, the mini-stream container is full: it   *)
(* grows by one regular sector taken from the FAT free stack           *)
(* ------------------------------------------------------------------ *)

Lemma find_last_go_walk : forall l fat f steps cur last,
  path fat cur l -> lastN l = Some last ->
  steps + lenN l <= lenN fat -> (length l <= f)%nat ->
  find_last_go f fat steps cur = Ok last.
Proof.
  induction l as [|a l IH]; intros fat f steps cur last Hp Hl Hs Hf; [discriminate|].
  inversion Hp as [|c nx l' Hc Hn Hp']; subst.
  destruct f as [|f]; [cbn in Hf; lia|]. cbn [find_last_go]. rewrite Hn. cbn [rbind].
  destruct l as [|b l].
  - inversion Hp'; subst. rewrite N.eqb_refl. cbn in Hl. injection Hl as <-. reflexivity.
  - inversion Hp' as [|c2 n2 l2 Hc2 Hn2 Hp2]; subst.
    destruct (b =? END_OF_CHAIN) eqn:E; [apply N.eqb_eq in E; contradiction|].
    cbn [lenN] in Hs.
    destruct (lenN fat <? steps + 1) eqn:E2; [lia|].
    apply (IH fat f (steps + 1) b last Hp').
    + rewrite ChainProofs.lastN_cons_cons in Hl. exact Hl.
    + cbn [lenN]. lia.
    + cbn [length] in Hf |- *. lia.
Qed.

Lemma extend_chain_any : forall s start ids last i,
  path (fat s) start ids -> lastN ids = Some last ->
  extend_chain start i s = extend_chain last i s.
Proof.
  intros s start ids last i Hp Hl.
  pose proof (ReuseProofs.path_nodup _ _ _ Hp) as Hnd.
  pose proof (WalkProofs.path_lt _ _ _ Hp) as HF.
  pose proof (lastN_Some_snoc _ _ _ Hl) as Eids.
  assert (Hs : start <> END_OF_CHAIN).
  { destruct ids as [|a t]; [discriminate|]. inversion Hp; subst. assumption. }
  assert (Hlast : last <> END_OF_CHAIN).
  { rewrite Eids in Hp. apply StoreProofs.path_mid in Hp. inversion Hp; subst. assumption. }
  assert (Hlen : lenN ids <= lenN (fat s)).
  { pose proof (WalkProofs.bounded_nodup_length _ _ Hnd HF) as H.
    rewrite WalkProofs.lenN_length. rewrite WalkProofs.lenN_length in H |- *. lia. }
  unfold extend_chain.
  destruct (start =? END_OF_CHAIN) eqn:E1; [apply N.eqb_eq in E1; contradiction|].
  destruct (last =? END_OF_CHAIN) eqn:E2; [apply N.eqb_eq in E2; contradiction|].
  rewrite !bind_get.
  rewrite (find_last_go_walk ids (fat s) _ 0 start last Hp Hl ltac:(lia)).
  - rewrite Eids in Hp. rewrite (StoreProofs.find_last_at_end _ _ (StoreProofs.path_last_EOC _ _ _ _ Hp)).
    reflexivity.
  - pose proof (StoreProofs.path_length_fuel _ _ _ Hp). lia.
Qed.

Theorem allocate_mini_extends_container : forall s r rids mfids dids v sid,
  SWf_at s r rids mfids dids ->
  mfree s = [] ->
  4 * (lenN (minifat s) + 1) <= slen s * lenN mfids ->
  64 * lenN (minifat s) = slen s * lenN rids -> rids <> [] ->
  lenN (minifat s) <= MAX_REGULAR_SECTOR ->
  64 * (lenN (minifat s) + 1) <= stream_len_mask (ver s) ->
  lastN (free s) = Some sid ->
  exists s' r',
    allocate_mini_sector v s = (s', Ok (lenN (minifat s))) /\
    minifat s' = minifat s ++ [v] /\ mfree s' = [] /\
    free s' = pop_last (free s) /\ nsect s' = nsect s /\
    MWf_at s' r' (rids ++ [sid]) mfids dids /\
    (forall j, j <> ROOT_STREAM_ID -> nthN (dirs s') j = nthN (dirs s) j) /\
    (forall ms, (ms + 1) * 64 <= slen s * lenN rids ->
       mini_bytes s' (rids ++ [sid]) ms = mini_bytes s rids ms) /\
    mini_bytes s' (rids ++ [sid]) (lenN (minifat s)) = repeatN 0 64.
Proof.
  intros s r rids mfids dids v sid SW Hmfree Hmcap Hfull Hrne Hbound Hfit Hlast.
  pose proof (sw_m _ _ _ _ _ _ SW) as W.
  pose proof (sw_alloc _ _ _ _ _ _ SW) as Wa.
  pose proof (slen_pos s) as Hsp.
  assert (Hmne : mfids <> []) by (intros ->; cbn [lenN] in Hmcap; lia).
  destruct (StoreProofs.chain_ids_head _ _ _ (mw_mch _ _ _ _ _ W) Hmne) as [Hms _].
  destruct (StoreProofs.chain_ids_head _ _ _ (mw_rch _ _ _ _ _ W) Hrne) as [Hrs _].
  pose proof (WalkProofs.chain_ids_path _ _ _ (mw_rch _ _ _ _ _ W)) as Hrp.
  destruct (lastN rids) as [last|] eqn:Elast; [|apply lastN_nil_inv in Elast; contradiction].
  assert (Hsid_free : In sid (free s)).
  { rewrite (lastN_Some_snoc _ _ _ Hlast). apply in_or_app. right. left. reflexivity. }
  destruct (wf_free s Wa sid Hsid_free) as [Hsid_n Hsid_f].
  pose proof (sw_fdifat _ _ _ _ _ _ SW sid Hsid_free) as Hsid_d.
  assert (Hsid_sys : ~ In sid rids /\ ~ In sid mfids /\ ~ In sid dids).
  { splits; intro Hin.
    - destruct (sw_sys _ _ _ _ _ _ SW sid (or_introl Hin)) as [H _]. contradiction.
    - destruct (sw_sys _ _ _ _ _ _ SW sid (or_intror (or_introl Hin))) as [H _]. contradiction.
    - destruct (sw_sys _ _ _ _ _ _ SW sid (or_intror (or_intror Hin))) as [H _]. contradiction. }
  destruct Hsid_sys as (Hsid_r & Hsid_m & Hsid_dd).
  (* 1: one more sector for the container *)
  destruct (StoreProofs.extend_chain_reuse s (d_start r) rids last sid Wa
              (sw_nsect _ _ _ _ _ _ SW) Hrp Elast Hlast Hsid_r Hsid_d)
    as (s2 & E2 & Wa2 & M2 & F2 & P2 & T2 & B2 & Z2).
  pose proof (keeps_extend_chain _ _ _ _ _ E2) as HQ2.
  destruct (Q_fields s s2 HQ2) as (Hmf2 & Hmfr2 & Hms2 & Hd2 & Hds2 & Hv2 & Hsl2).
  destruct M2 as (_ & En2 & Ed2 & _ & _ & Eimg2 & Efl2).
  assert (E2' : extend_chain (d_start r) IZero s = (s2, Ok sid)).
  { rewrite (extend_chain_any s (d_start r) rids last IZero Hrp Elast). exact E2. }
  assert (Hcells2 : forall l, (forall x, In x l -> ~ In x rids /\ x <> sid) ->
            forall c, path (fat s) c l -> path (fat s2) c l).
  { intros l Hl c Hp. apply (path_ext_le_out _ _ _ _ Hp); [rewrite Efl2; lia|].
    intros x Hx. destruct (Hl x Hx) as [X1 X2]. rewrite (T2 x X1 X2). reflexivity. }
  assert (Hdp2 : chain_ids_of (fat s2) (dir_start s2) = Ok dids).
  { rewrite Hds2. apply chain_of_path.
    apply Hcells2; [|apply WalkProofs.chain_ids_path; apply W].
    intros x Hx. split; [intro Hin; exact (mw_rd _ _ _ _ _ W x Hin Hx) | intro E; subst x; contradiction]. }
  assert (Hmp2 : chain_ids_of (fat s2) (minifat_start s2) = Ok mfids).
  { rewrite Hms2. apply chain_of_path.
    apply Hcells2; [|apply WalkProofs.chain_ids_path; apply W].
    intros x Hx. split; [intro Hin; exact (mw_rm _ _ _ _ _ W x Hin Hx) | intro E; subst x; contradiction]. }
  assert (Hgc2 : forall l, good_chain s l -> good_chain s2 l).
  { intros l (Hnd & HF & _). apply StoreProofs.good_chain_of_wf; [exact Wa2 | exact Hnd |].
    eapply Forall_impl; [|exact HF]. cbv beta. intros a [Ha _]. rewrite En2. exact Ha. }
  (* 2: the root entry *)
  set (f := fun e : dirent => set_start_len e (d_start r) (d_len e + MINI_SECTOR_LEN)).
  assert (Hr2 : nthN (dirs s2) ROOT_STREAM_ID = Some r) by (rewrite Hd2; apply W).
  destruct (with_mut_spec s2 ROOT_STREAM_ID r f dids Hr2) as (s3 & E3 & Hs3 & Himg3 & Hfr3 & Hlen3).
  { cbn [f set_start_len d_name]. eapply mw_names; [exact W|apply W]. }
  { exact Hdp2. }
  { apply Hgc2. apply W. }
  { rewrite Hsl2. pose proof (mw_dcap _ _ _ _ _ W) as Hdc.
    pose proof (nthN_Some_lt _ _ _ _ (mw_root _ _ _ _ _ W)). rewrite ROOT_val in *.
    unfold DIR_ENTRY_LEN in *. lia. }
  assert (Hsh23 : same_shape s2 s3).
  { rewrite Hs3. unfold same_shape. cbn [nsect ver img fat free difat dir_start minifat_start w_img w_dirs].
    repeat split; assumption. }
  pose proof (same_shape_slen _ _ Hsh23) as Hsl3.
  assert (Wa3 : AllocWf s3) by (eapply StoreProofs.AllocWf_shape; eassumption).
  assert (Hmf3 : minifat s3 = minifat s) by (rewrite Hs3; cbn [minifat w_img w_dirs]; exact Hmf2).
  (* 3: the MiniFAT cell *)
  destruct (set_minifat_fr s3 (lenN (minifat s)) v mfids) as (s4 & E4 & Hsh34 & Hmf4s & Hmfr4 & Hd4 & Hfr4).
  { rewrite Hmf3. lia. }
  { destruct Hsh23 as (_ & _ & _ & _ & B5 & _ & _ & _ & B9). rewrite B5, B9. exact Hmp2. }
  { eapply good_chain_shape; [apply Hgc2; apply W | exact Hsh23]. }
  { rewrite Hsl3, Hsl2. lia. }
  pose proof (same_shape_slen _ _ Hsh34) as Hsl4.
  pose proof (same_shape_trans _ _ _ Hsh23 Hsh34) as Hsh24.
  pose proof (nthN_Some_lt _ _ _ _ (mw_root _ _ _ _ _ W)) as Hrlt.
  assert (Hmf4 : minifat s4 = minifat s ++ [v]).
  { rewrite Hmf4s, Hmf3. unfold fat_set. rewrite N.eqb_refl. reflexivity. }
  assert (Hd4' : dirs s4 = updN (dirs s) ROOT_STREAM_ID (f r))
    by (rewrite Hd4, Hs3; cbn [dirs w_img w_dirs]; rewrite Hd2; reflexivity).
  assert (Hfat4 : fat s4 = fat s2) by (destruct Hsh24 as (_ & _ & _ & _ & B5 & _); exact B5).
  assert (Hlen4' : lenN (minifat s4) = lenN (minifat s) + 1) by (rewrite Hmf4, lenN_app; reflexivity).
  assert (Wa4 : AllocWf s4) by (eapply StoreProofs.AllocWf_shape; eassumption).
  assert (Hgc4 : forall l, good_chain s2 l -> good_chain s4 l)
    by (intros l Hg; eapply good_chain_shape; eassumption).
  assert (Hnd' : NoDup (rids ++ [sid])) by (eapply ReuseProofs.path_nodup; exact P2).
  assert (Hmfree4 : mfree s4 = []).
  { rewrite Hmfr4, Hs3. cbn [mfree w_img w_dirs]. rewrite Hmfr2. exact Hmfree. }
  (* the bytes of the container *)
  assert (Hrb : forall x, In x rids -> sector_bytes s4 x = sector_bytes s x).
  { intros x Hx.
    rewrite (Hfr4 x (mw_rm _ _ _ _ _ W x Hx)).
    rewrite (Hfr3 x (mw_rd _ _ _ _ _ W x Hx)).
    apply B2; [intro E; subst x; contradiction|].
    apply (sw_sys _ _ _ _ _ _ SW x). left. exact Hx. }
  assert (Hzb : sector_bytes s4 sid = repeatN 0 (slen s)).
  { rewrite (Hfr4 sid Hsid_m), (Hfr3 sid Hsid_dd), Z2. reflexivity. }
  assert (Hstream : mini_stream s4 (rids ++ [sid]) = mini_stream s rids ++ repeatN 0 (slen s)).
  { unfold mini_stream. rewrite chain_content_app. f_equal.
    - apply StoreProofs.chain_content_ext. exact Hrb.
    - unfold chain_content. cbn [map concat]. rewrite app_nil_r. exact Hzb. }
  pose proof (good_chain_len _ _ (mw_rgood _ _ _ _ _ W)) as HLr. fold (mini_stream s rids) in HLr.
  exists s4, (f r).
  split.
  { unfold allocate_mini_sector. rewrite bind_get.
    assert (Hpop : pop_free_mini (S (length (mfree s))) s = (s, Ok None)).
    { cbn [pop_free_mini]. rewrite bind_get, Hmfree. reflexivity. }
    rewrite (bind_exec _ _ _ _ _ Hpop). rewrite bind_get.
    destruct (minifat_start s =? END_OF_CHAIN) eqn:Es; [apply N.eqb_eq in Es; contradiction|].
    assert (Hgrow : (do c <- chain_new (minifat_start s) IFat;
                     if lenN (c_ids c) * (slen s / 4) <=? lenN (minifat s)
                     then do _ <- extend_chain (minifat_start s) IFat;
                          do c2 <- chain_new (minifat_start s) IFat;
                          header_write HDR_OFF_NUM_MINIFAT (le_bytes 4 (lenN (c_ids c2)))
                     else ret tt) s = (s, Ok tt)).
    { rewrite (bind_exec _ _ _ _ _ (chain_new_exec s _ IFat mfids (mw_mch _ _ _ _ _ W))). cbn [c_ids].
      pose proof (slen_div4 s _ _ Hmcap).
      destruct (lenN mfids * (slen s / 4) <=? lenN (minifat s)) eqn:E; [lia | reflexivity]. }
    rewrite (bind_exec _ _ _ _ _ Hgrow). rewrite bind_get. cbv zeta.
    assert (Happ : append_mini_sector s = (s3, Ok tt)).
    { unfold append_mini_sector, root_entry.
      rewrite (bind_exec _ _ _ _ _ (dir_entry_exec s _ r (mw_root _ _ _ _ _ W))).
      assert (Emod : d_len r mod MINI_SECTOR_LEN = 0).
      { rewrite (mw_rlen _ _ _ _ _ W). unfold MINI_SECTOR_LEN. lia. }
      rewrite Emod. cbn [N.eqb negb]. rewrite bind_ret.
      rewrite bind_get.
      pose proof (mroom_append_bound s (lenN (minifat s) + 1) ltac:(lia) Hfit) as Hbd.
      destruct (N.min (MAX_REGULAR_SECTOR * slen s) (stream_len_mask (ver s)) <? d_len r + MINI_SECTOR_LEN) eqn:Eb;
        [apply N.ltb_lt in Eb; rewrite (mw_rlen _ _ _ _ _ W) in Eb; unfold MINI_SECTOR_LEN in Eb; lia|].
      rewrite bind_ret.
      destruct (d_start r =? END_OF_CHAIN) eqn:Er; [apply N.eqb_eq in Er; contradiction|].
      assert (Hns : (do c <- chain_new (d_start r) IZero;
                     do s0 <- get;
                     (if chain_len (slen s0) c <=? d_len r
                      then do _ <- extend_chain (d_start r) IZero; ret tt else ret tt);;
                     ret (d_start r)) s = (s2, Ok (d_start r))).
      { rewrite (bind_exec _ _ _ _ _ (chain_new_exec s _ IZero rids (mw_rch _ _ _ _ _ W))).
        rewrite bind_get. unfold chain_len. cbn [c_ids]. rewrite (mw_rlen _ _ _ _ _ W).
        destruct (slen s * lenN rids <=? 64 * lenN (minifat s)) eqn:E; [|lia].
        rewrite (bind_exec _ _ _ _ _ (bind_exec _ _ _ _ _ E2')). reflexivity. }
      rewrite (bind_exec _ _ _ _ _ Hns). exact E3. }
    rewrite (bind_exec _ _ _ _ _ (dir_entry_exec s _ r (mw_root _ _ _ _ _ W) : root_entry s = (s, Ok r))).
    replace (d_len r <? (lenN (minifat s) + 1) * MINI_SECTOR_LEN) with true
      by (symmetry; apply N.ltb_lt; rewrite (mw_rlen _ _ _ _ _ W); unfold MINI_SECTOR_LEN; lia).
    rewrite (bind_exec _ _ _ _ _ Happ).
    rewrite (bind_exec _ _ _ _ _ E4). reflexivity. }
  split; [exact Hmf4|].
  split; [exact Hmfree4|].
  split; [destruct Hsh24 as (_ & _ & _ & _ & _ & B6 & _); rewrite B6; exact F2|].
  split; [rewrite (proj1 Hsh24); exact En2|].
  split.
  { constructor.
    - rewrite Hd4'. apply nthN_updN_same. exact Hrlt.
    - cbn [f set_start_len d_type]. apply W.
    - cbn [f set_start_len d_start]. rewrite Hfat4. apply chain_of_path. exact P2.
    - apply StoreProofs.good_chain_of_wf; [exact Wa4 | exact Hnd' |].
      rewrite Forall_forall. intros x Hx. rewrite (proj1 Hsh24), En2.
      apply in_app_or in Hx. destruct Hx as [Hx|[<-|[]]]; [|exact Hsid_n].
      destruct (mw_rgood _ _ _ _ _ W) as (_ & HF & _). rewrite Forall_forall in HF. exact (proj1 (HF x Hx)).
    - cbn [f set_start_len d_len]. rewrite (mw_rlen _ _ _ _ _ W), Hlen4'. unfold MINI_SECTOR_LEN. lia.
    - rewrite Hlen4', Hsl4, Hsl3, Hsl2, lenN_app. cbn [lenN].
      destruct (slen_cases s) as [E|E]; rewrite E in *; lia.
    - rewrite Hfat4. destruct Hsh24 as (_ & _ & _ & _ & _ & _ & _ & _ & B9). rewrite B9. exact Hmp2.
    - apply Hgc4, Hgc2. apply W.
    - rewrite Hlen4', Hsl4, Hsl3, Hsl2. exact Hmcap.
    - rewrite Hlen4'. lia.
    - rewrite Hfat4. destruct Hsh24 as (_ & _ & _ & _ & _ & _ & _ & B8 & _). rewrite B8. exact Hdp2.
    - apply Hgc4, Hgc2. apply W.
    - rewrite Hd4', lenN_updN, Hsl4, Hsl3, Hsl2. apply W.
    - intros j e0 He0. rewrite Hd4' in He0.
      destruct (N.eq_dec j ROOT_STREAM_ID) as [->|Hj].
      + rewrite nthN_updN_same in He0 by exact Hrlt. injection He0 as <-.
        cbn [f set_start_len d_name]. eapply mw_names; [exact W|apply W].
      + rewrite nthN_updN_other in He0 by congruence. eapply mw_names; eassumption.
    - intros x Hx. apply in_app_or in Hx. destruct Hx as [Hx|[<-|[]]];
        [exact (mw_rm _ _ _ _ _ W x Hx) | exact Hsid_m].
    - intros x Hx. apply in_app_or in Hx. destruct Hx as [Hx|[<-|[]]];
        [exact (mw_rd _ _ _ _ _ W x Hx) | exact Hsid_dd].
    - rewrite Hmfree4. constructor.
    - rewrite Hmfree4. intros x []. }
  split; [intros j Hj; rewrite Hd4'; apply nthN_updN_other; congruence|].
  split.
  { intros ms Hrange. unfold mini_bytes. rewrite Hstream.
    rewrite dropN_app_le by blia.
    rewrite takeN_app_le by (rewrite lenN_dropN; blia). reflexivity. }
  unfold mini_bytes. rewrite Hstream.
  rewrite dropN_app_ge by blia.
  replace (lenN (minifat s) * 64 - lenN (mini_stream s rids)) with 0 by blia.
  rewrite dropN_0. apply StoreProofs.takeN_repeatN.
  destruct (slen_cases s) as [E|E]; rewrite E; lia.
Qed.

(* ------------------------------------------------------------------ *)
(* Part 6: non-vacuity, on states produced by the model itself         *)
(* ------------------------------------------------------------------ *)
From Cfb.model Require Cfb.

Module Examples.
  Definition bytesN (n : nat) : list byte := map (fun i => N.of_nat i mod 251 + 1) (seq 0 n).

  Ltac vmc := vm_compute; first [reflexivity | discriminate | (intro; discriminate)].

  (* "/a" and "/b" with 100 bytes each, "/c" empty (V3 file, 512-byte sectors) *)
  Definition run : Cfb.fstate * list (res Cfb.value) :=
    let f0 := Cfb.init_fstate V3 4096 4 in
    let '(f1, r1) := Cfb.step f0 0 (Cfb.OCreateStream 0 [47; 97]) in
    let '(f2, r2) := Cfb.step f1 0 (Cfb.OHWrite 0 (bytesN 100)) in
    let '(f3, r3) := Cfb.step f2 0 (Cfb.OHDrop 0) in
    let '(f4, r4) := Cfb.step f3 0 (Cfb.OCreateStream 1 [47; 98]) in
    let '(f5, r5) := Cfb.step f4 0 (Cfb.OHWrite 1 (bytesN 100)) in
    let '(f6, r6) := Cfb.step f5 0 (Cfb.OHDrop 1) in
    let '(f7, r7) := Cfb.step f6 0 (Cfb.OCreateStream 2 [47; 99]) in
    let '(f8, r8) := Cfb.step f7 0 (Cfb.OHDrop 2) in
    (f8, [r1; r2; r3; r4; r5; r6; r7; r8]).

  Definition st : cstate := Eval vm_compute in Cfb.cs (fst run).

  Example run_ok :
    snd run = [Ok Cfb.VUnit; Ok (Cfb.VNum 100); Ok Cfb.VUnit; Ok Cfb.VUnit;
               Ok (Cfb.VNum 100); Ok Cfb.VUnit; Ok Cfb.VUnit; Ok Cfb.VUnit]
    /\ Cfb.cs (fst run) = st.
  Proof. split; vm_compute; reflexivity. Qed.

  (* slot 1 = "/a" (mini sectors 0,1), slot 2 = "/b" (2,3), slot 3 = "/c" (empty) *)
  Example st_shape :
    minifat st = [1; END_OF_CHAIN; 3; END_OF_CHAIN] /\ mfree st = [] /\ nsect st = 4 /\
    map (fun e => (d_type e, d_start e, d_len e)) (dirs st)
    = [(TRoot, 3, 256); (TStream, 0, 100); (TStream, 2, 100); (TStream, END_OF_CHAIN, 0)].
  Proof. vm_compute. repeat split; reflexivity. Qed.

  Example st_wf : SWf st.
  Proof. apply swf_b_sound. vm_compute. reflexivity. Qed.

  (* the invariant holds of a freshly created file, both versions *)
  Example fresh_wf : SWf (Cfb.create_state V3) /\ SWf (Cfb.create_state V4).
  Proof. split; apply swf_b_sound; vm_compute; reflexivity. Qed.

  (* shrinking "/a" to 10 bytes releases mini sector 1 to the free list *)
  Definition st2 : cstate := Eval vm_compute in fst (resize 1 10 st).
  Example st2_ok : resize 1 10 st = (st2, Ok tt) /\ mfree st2 = [1] /\
                   minifat st2 = [END_OF_CHAIN; FREE_SECTOR; 3; END_OF_CHAIN].
  Proof. vm_compute. repeat split; reflexivity. Qed.

  Example st2_wf : SWf st2.
  Proof. apply swf_b_sound. vm_compute. reflexivity. Qed.

  Definition b100 : list byte := Eval vm_compute in bytesN 100.
  Definition b10 : list byte := Eval vm_compute in bytesN 10.
  Definition b60 : list byte := Eval vm_compute in bytesN 60.
  Definition b70 : list byte := Eval vm_compute in bytesN 70.
  Definition z50 : list byte := Eval vm_compute in repeatN 0 50.
  Definition z200 : list byte := Eval vm_compute in repeatN 0 200.

  Example st2_b : small_content st2 2 b100 /\ mini_sectors st2 2 2.
  Proof.
    split.
    - apply small_bytes_sound; [exact st2_wf | vm_compute; reflexivity].
    - eexists _, [2; 3]. splits; vm_compute; reflexivity.
  Qed.

  Example st2_a : small_content st2 1 b10.
  Proof. apply small_bytes_sound; [exact st2_wf | vm_compute; reflexivity]. Qed.

  Example st2_c : empty_stream st2 3.
  Proof. eexists. unfold empty_at. splits; vm_compute; reflexivity. Qed.

  (* (a) "/b" grows from 100 to 150 bytes: 3 mini sectors, the third one comes
     from the mini free list *)
  Definition st3 : cstate := Eval vm_compute in fst (resize 2 150 st2).
  Example st3_ok : resize 2 150 st2 = (st3, Ok tt) /\ mfree st3 = [] /\ nsect st3 = 4.
  Proof. vm_compute. repeat split; reflexivity. Qed.

  Example grow_from_free_list :
    exists s',
      resize 2 150 st2 = (s', Ok tt) /\
      small_content s' 2 (b100 ++ z50) /\
      mini_sectors s' 2 3 /\ SWf s' /\
      small_content s' 1 b10 /\ empty_stream s' 3 /\
      read_data 2 100 50 s' = (s', Ok z50) /\
      mfree s' = [] /\ lenN (minifat s') = 4.
  Proof.
    destruct st2_b as [Hb Hk].
    assert (Hroom : mini_room st2 (msectors 150 - 2)).
    { apply mini_room_reuse; [exact st2_wf|]. vmc. }
    destruct (resize_small_alloc st2 2 b100 2 150 Hb Hk ltac:(vmc) ltac:(vmc) ltac:(vmc) Hroom)
      as (s' & Hrun & Hsc & Hms & Hwf & Ho1 & _ & Ho3).
    exists s'. split; [exact Hrun|].
    replace (takeN 150 b100 ++ repeatN 0 (150 - lenN b100)) with (b100 ++ z50) in Hsc by vmc.
    replace (msectors 150) with 3 in Hms by vmc.
    split; [exact Hsc|]. split; [exact Hms|]. split; [exact Hwf|].
    split; [apply Ho1; [discriminate | exact st2_a]|].
    split; [apply Ho3; [discriminate | exact st2_c]|].
    split.
    { pose proof (read_back_range s' 2 b100 z50 []) as H. rewrite app_nil_r in H.
      replace (lenN b100) with 100 in H by vmc. replace (lenN z50) with 50 in H by vmc.
      apply H; [exact Hsc | vmc]. }
    destruct st3_ok as (E & _). rewrite Hrun in E. injection E as ->.
    vm_compute. split; reflexivity.
  Qed.
  (* (b) then "/b" grows from 150 to 300 bytes: the free list is empty, two
     mini sectors are appended within the retained capacity; no sector is
     allocated *)
  Definition st4 : cstate := Eval vm_compute in fst (resize 2 300 st3).
  Example st4_ok : resize 2 300 st3 = (st4, Ok tt).
  Proof. vm_compute. reflexivity. Qed.

  Example st3_wf : SWf st3.
  Proof. apply swf_b_sound. vm_compute. reflexivity. Qed.

  Example grow_within_capacity :
    exists s',
      resize 2 300 st3 = (s', Ok tt) /\
      small_content s' 2 (b100 ++ z200) /\
      mini_sectors s' 2 5 /\ SWf s' /\
      small_content s' 1 b10 /\
      nsect s' = 4 /\ lenN (minifat s') = 6.
  Proof.
    assert (Hb : small_content st3 2 (b100 ++ z50))
      by (apply small_bytes_sound; [exact st3_wf | vm_compute; reflexivity]).
    assert (Ha : small_content st3 1 b10)
      by (apply small_bytes_sound; [exact st3_wf | vm_compute; reflexivity]).
    assert (Hk : mini_sectors st3 2 3) by (eexists _, [2; 3; 1]; splits; vm_compute; reflexivity).
    assert (Hroom : mini_room st3 (msectors 300 - 3))
      by (apply mini_room_b_sound; vm_compute; reflexivity).
    destruct (resize_small_alloc st3 2 _ 3 300 Hb Hk ltac:(vmc) ltac:(vmc) ltac:(vmc) Hroom)
      as (s' & Hrun & Hsc & Hms & Hwf' & Ho1 & _).
    exists s'. split; [exact Hrun|].
    replace (takeN 300 (b100 ++ z50) ++ repeatN 0 (300 - lenN (b100 ++ z50)))
      with (b100 ++ z200) in Hsc by vmc.
    replace (msectors 300) with 5 in Hms by vmc.
    split; [exact Hsc|]. split; [exact Hms|]. split; [exact Hwf'|].
    split; [apply Ho1; [discriminate | exact Ha]|].
    pose proof st4_ok as E. rewrite Hrun in E. injection E as ->.
    vm_compute. split; reflexivity.
  Qed.

  (* (a)+(b) at once: from st2, 100 -> 300 takes one mini sector from the free
     list and appends two *)
  Example grow_mixed :
    exists s',
      resize 2 300 st2 = (s', Ok tt) /\
      small_content s' 2 (b100 ++ z200) /\ SWf s' /\
      small_content s' 1 b10.
  Proof.
    destruct st2_b as [Hb Hk].
    assert (Hroom : mini_room st2 (msectors 300 - 2))
      by (apply mini_room_b_sound; vm_compute; reflexivity).
    destruct (resize_small_alloc st2 2 b100 2 300 Hb Hk ltac:(vmc) ltac:(vmc) ltac:(vmc) Hroom)
      as (s' & Hrun & Hsc & _ & Hwf' & Ho1 & _).
    exists s'. split; [exact Hrun|].
    replace (takeN 300 b100 ++ repeatN 0 (300 - lenN b100)) with (b100 ++ z200) in Hsc by vmc.
    split; [exact Hsc|]. split; [exact Hwf'|].
    apply Ho1; [discriminate | exact st2_a].
  Qed.

  (* write_data past the end of "/b": 100 bytes, 60 more written at offset 90 *)
  Example write_grows :
    exists s',
      write_data 2 90 b60 st2 = (s', Ok tt) /\
      small_content s' 2 (takeN 90 b100 ++ b60) /\ SWf s' /\
      small_content s' 1 b10 /\
      read_data 2 0 150 s' = (s', Ok (takeN 90 b100 ++ b60)).
  Proof.
    destruct st2_b as [Hb Hk].
    assert (Hroom : mini_room st2 (msectors (90 + lenN b60) - 2))
      by (apply mini_room_b_sound; vm_compute; reflexivity).
    destruct (write_data_small_alloc st2 2 b100 2 90 b60 Hb Hk ltac:(vmc) ltac:(vmc) Hroom)
      as (s' & Hrun & Hsc & _ & Hwf' & Ho1 & _).
    replace (spliceN b100 90 b60) with (takeN 90 b100 ++ b60) in Hsc by vmc.
    exists s'. split; [exact Hrun|]. split; [exact Hsc|]. split; [exact Hwf'|].
    split; [apply Ho1; [discriminate | exact st2_a]|].
    pose proof (read_back_all s' 2 _ Hsc) as H.
    replace (lenN (takeN 90 b100 ++ b60)) with 150 in H by vmc. exact H.
  Qed.

  (* case 1a: the first write / resize of the empty stream "/c" *)
  Example first_write :
    exists s',
      write_data 3 0 b70 st2 = (s', Ok tt) /\
      small_content s' 3 b70 /\ mini_sectors s' 3 2 /\ SWf s' /\
      small_content s' 2 b100 /\ small_content s' 1 b10.
  Proof.
    assert (Hroom : mini_room st2 (msectors (lenN b70)))
      by (apply mini_room_b_sound; vm_compute; reflexivity).
    destruct (write_data_empty_small st2 3 b70 st2_c ltac:(vmc) ltac:(vmc) Hroom)
      as (s' & Hrun & Hsc & Hms & Hwf' & Ho1 & _).
    replace (msectors (lenN b70)) with 2 in Hms by vmc.
    exists s'. split; [exact Hrun|]. split; [exact Hsc|]. split; [exact Hms|].
    split; [exact Hwf'|].
    split; [apply Ho1; [discriminate | exact (proj1 st2_b)]
           | apply Ho1; [discriminate | exact st2_a]].
  Qed.

  Example first_resize :
    exists s',
      resize 3 200 st2 = (s', Ok tt) /\
      small_content s' 3 z200 /\ SWf s' /\
      read_data 3 0 200 s' = (s', Ok z200).
  Proof.
    assert (Hroom : mini_room st2 (msectors 200))
      by (apply mini_room_b_sound; vm_compute; reflexivity).
    destruct (resize_empty_small st2 3 200 st2_c ltac:(vmc) ltac:(vmc) Hroom)
      as (s' & Hrun & Hsc & _ & Hwf' & _).
    replace (repeatN 0 200) with z200 in Hsc by vmc.
    exists s'. split; [exact Hrun|]. split; [exact Hsc|]. split; [exact Hwf'|].
    pose proof (read_back_all s' 3 _ Hsc) as H.
    replace (lenN z200) with 200 in H by vmc. exact H.
  Qed.

  (* the contract clause instance applies too *)
  Example contract_instance :
    exists s',
      write_data 3 0 b70 st2 = (s', Ok tt) /\ content s' 3 (spliceN [] 0 b70) /\ SWf s'.
  Proof.
    assert (Hc : content st2 3 []) by (left; split; [reflexivity | exact st2_c]).
    assert (Hk : mini_sectors st2 3 0) by (eexists _, []; splits; vm_compute; reflexivity).
    assert (Hroom : mini_room st2 (msectors (0 + lenN b70) - 0))
      by (apply mini_room_b_sound; vm_compute; reflexivity).
    destruct (write_data_contract_small_alloc st2 3 [] 0 0 b70 Hc Hk ltac:(vmc) ltac:(vmc) ltac:(vmc) Hroom)
      as (s' & Hrun & Hc' & Hwf' & _).
    exists s'. repeat split; assumption.
  Qed.

  (* the bytes the reused mini sector 1 held ("/a"'s bytes 65..100) are not
     visible in "/b" after the growth: computed *)
  Example stale_bytes_not_visible :
    takeN 36 (mini_bytes st2 [3] 1) = dropN 64 b100 /\
    snd (read_data 2 128 22 st3) = Ok (repeatN 0 22).
  Proof. vm_compute. split; reflexivity. Qed.
End Examples.

(* migrations: "/a" small, "/b" empty, "/c" large (5000 bytes, 10 sectors) *)
Module Examples2.
  Import Examples.

  Definition run : Cfb.fstate * list (res Cfb.value) :=
    let f0 := Cfb.init_fstate V3 4096 4 in
    let '(f1, r1) := Cfb.step f0 0 (Cfb.OCreateStream 0 [47; 97]) in
    let '(f2, r2) := Cfb.step f1 0 (Cfb.OHWrite 0 (bytesN 100)) in
    let '(f3, r3) := Cfb.step f2 0 (Cfb.OHDrop 0) in
    let '(f4, r4) := Cfb.step f3 0 (Cfb.OCreateStream 1 [47; 98]) in
    let '(f5, r5) := Cfb.step f4 0 (Cfb.OHDrop 1) in
    let '(f6, r6) := Cfb.step f5 0 (Cfb.OCreateStream 2 [47; 99]) in
    let '(f7, r7) := Cfb.step f6 0 (Cfb.OHDrop 2) in
    (f7, [r1; r2; r3; r4; r5; r6; r7]).

  Definition m0 : cstate := Eval vm_compute in Cfb.cs (fst run).
  Definition b5000 : list byte := Eval vm_compute in bytesN 5000.
  Definition b4200 : list byte := Eval vm_compute in bytesN 4200.

  (* "/c" is written at the store level: the file grows by ten sectors *)
  Definition big : cstate := Eval vm_compute in fst (write_data 3 0 b5000 m0).

  Example big_ok :
    snd run = [Ok Cfb.VUnit; Ok (Cfb.VNum 100); Ok Cfb.VUnit; Ok Cfb.VUnit; Ok Cfb.VUnit;
               Ok Cfb.VUnit; Ok Cfb.VUnit] /\
    write_data 3 0 b5000 m0 = (big, Ok tt) /\ nsect big = 14 /\ free big = [].
  Proof. vm_compute. repeat split; reflexivity. Qed.

  Example big_wf : SWf big.
  Proof. apply swf_b_sound. vm_compute. reflexivity. Qed.

  Example big_c : big_content big 3 b5000.
  Proof. apply big_bytes_sound; [exact big_wf | vm_compute; reflexivity]. Qed.

  Example big_a : small_content big 1 b100.
  Proof. apply small_bytes_sound; [exact big_wf | vm_compute; reflexivity]. Qed.

  (* 3b: "/c" shrinks to 100 bytes and moves into the mini stream; its ten
     sectors go to the free stack; "/a" keeps its bytes *)
  Definition m1 : cstate := Eval vm_compute in fst (resize 3 100 big).
  Example m1_ok : resize 3 100 big = (m1, Ok tt) /\ lenN (free m1) = 10 /\ nsect m1 = 14.
  Proof. vm_compute. repeat split; reflexivity. Qed.

  Example big_to_small :
    exists s',
      resize 3 100 big = (s', Ok tt) /\
      small_content s' 3 (takeN 100 b5000) /\ mini_sectors s' 3 2 /\ SWf s' /\
      small_content s' 1 b100 /\ lenN (free s') = 10.
  Proof.
    assert (Hroom : mini_room big (msectors 100))
      by (apply mini_room_b_sound; vm_compute; reflexivity).
    destruct (resize_big_to_small big 3 b5000 100 big_c ltac:(vmc) ltac:(vmc) Hroom)
      as (s' & Hrun & Hsc & Hms & Hwf' & Ho1 & _).
    replace (msectors 100) with 2 in Hms by vmc.
    exists s'. split; [exact Hrun|]. split; [exact Hsc|]. split; [exact Hms|]. split; [exact Hwf'|].
    split; [apply Ho1; [discriminate | exact big_a]|].
    destruct m1_ok as (E & _). rewrite Hrun in E. injection E as ->. vm_compute. reflexivity.
  Qed.

  Example m1_wf : SWf m1.
  Proof. apply swf_b_sound. vm_compute. reflexivity. Qed.

  Definition c100 : list byte := Eval vm_compute in takeN 100 b5000.

  Example m1_c : small_content m1 3 c100.
  Proof. apply small_bytes_sound; [exact m1_wf | vm_compute; reflexivity]. Qed.

  Example m1_b : empty_stream m1 2.
  Proof. eexists. unfold empty_at. splits; vm_compute; reflexivity. Qed.

  (* 2b (resize): "/c" grows from 100 to 4500 bytes and moves back to a regular
     chain of nine sectors taken from the free stack; its mini sectors are
     released and the MiniFAT is trimmed *)
  Definition m2 : cstate := Eval vm_compute in fst (resize 3 4500 m1).
  Example m2_ok : resize 3 4500 m1 = (m2, Ok tt).
  Proof. vm_compute. reflexivity. Qed.

  Example small_to_big_resize :
    exists s',
      resize 3 4500 m1 = (s', Ok tt) /\
      big_content s' 3 (c100 ++ repeatN 0 4400) /\ SWf s' /\ nsect s' = 14 /\
      small_content s' 1 b100 /\ lenN (minifat s') = 2 /\ lenN (free s') = 1.
  Proof.
    destruct (resize_small_to_big m1 3 c100 4500 m1_wf m1_c ltac:(vmc) ltac:(vmc) ltac:(vmc) ltac:(vmc))
      as (s' & Hrun & Hbc & Hwf' & Ho & Hn).
    replace (4500 - lenN c100) with 4400 in Hbc by vmc.
    assert (Ha : small_content m1 1 b100)
      by (apply small_bytes_sound; [exact m1_wf | vm_compute; reflexivity]).
    exists s'. split; [exact Hrun|]. split; [exact Hbc|]. split; [exact Hwf'|].
    split; [rewrite Hn; vm_compute; reflexivity|].
    split; [apply (proj1 Ho); [discriminate | exact Ha]|].
    pose proof m2_ok as E. rewrite Hrun in E. injection E as ->.
    vm_compute. split; reflexivity.
  Qed.

  (* 2b (write_data): 4100 bytes written at offset 90 *)
  Example small_to_big_write :
    exists s',
      write_data 3 90 (takeN 4100 b5000) m1 = (s', Ok tt) /\
      big_content s' 3 (takeN 90 c100 ++ takeN 4100 b5000) /\ SWf s' /\ nsect s' = 14.
  Proof.
    destruct (write_data_small_to_big m1 3 c100 90 (takeN 4100 b5000) m1_wf m1_c
                ltac:(vmc) ltac:(vmc) ltac:(vmc) ltac:(vmc))
      as (s' & Hrun & Hbc & Hwf' & _ & Hn).
    replace (spliceN c100 90 (takeN 4100 b5000)) with (takeN 90 c100 ++ takeN 4100 b5000) in Hbc by vmc.
    exists s'. split; [exact Hrun|]. split; [exact Hbc|]. split; [exact Hwf'|].
    rewrite Hn. vm_compute. reflexivity.
  Qed.

  (* 1b: the empty stream "/b" becomes large at once *)
  Example empty_to_big_write :
    exists s',
      write_data 2 0 b4200 m1 = (s', Ok tt) /\
      big_content s' 2 b4200 /\ SWf s' /\ nsect s' = 14 /\
      small_content s' 3 c100 /\
      read_data 2 4000 200 s' = (s', Ok (dropN 4000 b4200)).
  Proof.
    destruct (write_data_empty_big m1 2 b4200 m1_wf m1_b ltac:(vmc) ltac:(vmc) ltac:(vmc))
      as (s' & Hrun & Hbc & Hwf' & Ho & Hn).
    exists s'. split; [exact Hrun|]. split; [exact Hbc|]. split; [exact Hwf'|].
    split; [rewrite Hn; vm_compute; reflexivity|].
    split; [apply (proj1 Ho); [discriminate | exact m1_c]|].
    rewrite (StoreProofs.read_data_big s' 2 b4200 4000 200 Hbc) by vmc.
    vm_compute. reflexivity.
  Qed.

  Example empty_to_big_resize :
    exists s',
      resize 2 4096 m1 = (s', Ok tt) /\ big_content s' 2 (repeatN 0 4096) /\ SWf s' /\
      small_content s' 3 c100.
  Proof.
    destruct (resize_empty_big m1 2 4096 m1_wf m1_b ltac:(vmc) ltac:(vmc) ltac:(vmc) ltac:(vmc))
      as (s' & Hrun & Hbc & Hwf' & Ho & _).
    exists s'. split; [exact Hrun|]. split; [exact Hbc|]. split; [exact Hwf'|].
    apply (proj1 Ho); [discriminate | exact m1_c].
  Qed.
End Examples2.

(* 1 (c): the container is full (8 mini sectors in one 512-byte sector), the
   mini free list is empty, the FAT free stack holds ten sectors *)
Module Examples3.
  Import Examples Examples2.

  Definition full : cstate := Eval vm_compute in fst (resize 1 384 m1).

  Example full_ok :
    resize 1 384 m1 = (full, Ok tt) /\ lenN (minifat full) = 8 /\ mfree full = [] /\
    lenN (free full) = 10 /\ swf_b full = true.
  Proof. vm_compute. repeat split; reflexivity. Qed.

  Example container_extended :
    exists s' sid,
      allocate_mini_sector END_OF_CHAIN full = (s', Ok 8) /\
      lastN (free full) = Some sid /\ lenN (free s') = 9 /\ nsect s' = nsect full /\
      (exists r', MWf_at s' r' ([3] ++ [sid]) [2] [1]) /\
      mini_bytes s' ([3] ++ [sid]) 8 = repeatN 0 64 /\
      (forall ms, ms < 8 -> mini_bytes s' ([3] ++ [sid]) ms = mini_bytes full [3] ms).
  Proof.
    destruct full_ok as (_ & _ & _ & _ & Hb).
    destruct (swf_b_sound full Hb) as (r & rids & mfids & dids & SW).
    pose proof (sw_m _ _ _ _ _ _ SW) as W.
    assert (Er : rids = [3]).
    { pose proof (mw_rch _ _ _ _ _ W) as H. pose proof (mw_root _ _ _ _ _ W) as Hr.
      vm_compute in Hr. injection Hr as <-. vm_compute in H. injection H as <-. reflexivity. }
    assert (Em : mfids = [2]).
    { pose proof (mw_mch _ _ _ _ _ W) as H. vm_compute in H. injection H as <-. reflexivity. }
    assert (Ed : dids = [1]).
    { pose proof (mw_dch _ _ _ _ _ W) as H. vm_compute in H. injection H as <-. reflexivity. }
    subst rids mfids dids.
    destruct (lastN (free full)) as [sid|] eqn:El; [|vm_compute in El; discriminate].
    destruct (allocate_mini_extends_container full r [3] [2] [1] END_OF_CHAIN sid SW)
      as (s' & r' & E & _ & _ & F & N' & W' & _ & Hfr & Hz); try vmc.
    { exact El. }
    exists s', sid. split; [exact E|]. split; [reflexivity|].
    split; [rewrite F; vm_compute; reflexivity|]. split; [exact N'|].
    split; [exists r'; exact W'|]. split; [exact Hz|].
    intros ms Hms. apply Hfr. replace (slen full * lenN [3]) with 512 by vmc. lia.
  Qed.
End Examples3.

(* ------------------------------------------------------------------ *)
Check alloc_mini_step.
Check mini_extend_step.
Check mchain_grow_spec.
Check mchain_write_all_alloc.
Check resize_small_alloc_full.
Check write_data_small_alloc_full.
Check resize_empty_small_full.
Check write_data_empty_small_full.
Check SWf_after.
Check swf_b_sound.
Check mini_room_reuse.
Check mini_room_capacity.
Check resize_small_alloc.
Check write_data_small_alloc.
Check resize_small_alloc_reads.
Check write_data_small_alloc_reads.
Check resize_empty_small.
Check write_data_empty_small.
Check resize_empty_big.
Check write_data_empty_big.
Check write_data_small_to_big.
Check resize_small_to_big.
Check resize_big_to_small.
Check allocate_mini_extends_container.
Check read_data_contract_here.
Check write_data_contract_small_alloc.
Check resize_contract_small_alloc.
Check write_data_contract_alloc.
Check resize_contract_alloc.
Print Assumptions resize_small_alloc.
Print Assumptions write_data_small_alloc.
Print Assumptions resize_small_alloc_reads.
Print Assumptions write_data_small_alloc_reads.
Print Assumptions resize_empty_small.
Print Assumptions write_data_empty_small.
Print Assumptions resize_empty_big.
Print Assumptions write_data_empty_big.
Print Assumptions write_data_small_to_big.
Print Assumptions resize_small_to_big.
Print Assumptions resize_big_to_small.
Print Assumptions allocate_mini_extends_container.
Print Assumptions read_data_contract_here.
Print Assumptions write_data_contract_alloc.
Print Assumptions resize_contract_alloc.
Print Assumptions swf_b_sound.
Print Assumptions mini_room_b_sound.
Print Assumptions Examples.grow_from_free_list.
Print Assumptions Examples.grow_within_capacity.
Print Assumptions Examples.grow_mixed.
Print Assumptions Examples.write_grows.
Print Assumptions Examples.first_write.
Print Assumptions Examples.first_resize.
Print Assumptions Examples2.big_to_small.
Print Assumptions Examples2.small_to_big_resize.
Print Assumptions Examples2.small_to_big_write.
Print Assumptions Examples2.empty_to_big_write.
Print Assumptions Examples2.empty_to_big_resize.
Print Assumptions Examples3.container_extended.
