(* WalkProofs.v — the graph-theoretic core of "reading arbitrary bytes never
   panics or hangs": a FAT that passed check_pointees is an injective, in-range
   partial successor function, hence every chain walk with the fuel the model
   passes terminates (pigeonhole, Walk.v). *)
From Coq Require Import List NArith Bool Lia ZifyN ZifyBool Arith.
From Coq Require FinFun.
From Cfb.model Require Import Base Names DirEnt State Alloc Dir Open.
From Cfb.gen Require Import Consts.
From Cfb.proofs Require Walk.
Import ListNotations.
Open Scope N_scope.

(* ------------------------------------------------------------------ *)
(* "neither Panic nor OutOfFuel" *)
Definition fine {A} (r : res A) : Prop :=
  match r with Panic _ | OutOfFuel => False | _ => True end.

Lemma fine_iff {A} (r : res A) : fine r <-> r <> OutOfFuel /\ (forall p, r <> Panic p).
Proof.
  destruct r; simpl.
  - split; [intros _; split; intros; discriminate|auto].
  - split; [intros _; split; intros; discriminate|auto].
  - split; [intros []|]. intros [_ H]. apply (H site). reflexivity.
  - split; [intros []|]. intros [H _]. apply H. reflexivity.
Qed.

Lemma fine_rbind {A B} (m : res A) (f : A -> res B) :
  fine m -> (forall a, m = Ok a -> fine (f a)) -> fine (rbind m f).
Proof. destruct m; simpl; auto. Qed.

(* ------------------------------------------------------------------ *)
(* bridging N-indexed list functions to the standard library *)
Lemma lenN_length {A} (l : list A) : lenN l = N.of_nat (length l).
Proof. induction l as [|x t IH]; [reflexivity|]. cbn [lenN length]. rewrite IH. lia. Qed.

Lemma nthN_nth_error {A} (l : list A) i : nthN l i = nth_error l (N.to_nat i).
Proof.
  revert i. induction l as [|x t IH]; intros i.
  - destruct (N.to_nat i); reflexivity.
  - cbn [nthN]. destruct (N.eqb_spec i 0) as [->|Hne]; [reflexivity|].
    rewrite IH. replace (N.to_nat i) with (S (N.to_nat (N.pred i))) by lia. reflexivity.
Qed.

Lemma nthN_Some_lt {A} (l : list A) i x : nthN l i = Some x -> i < lenN l.
Proof.
  rewrite nthN_nth_error, lenN_length. intros H.
  assert (N.to_nat i < length l)%nat by (apply nth_error_Some; congruence). lia.
Qed.

Lemma nthN_lt_Some {A} (l : list A) i : i < lenN l -> exists x, nthN l i = Some x.
Proof.
  rewrite nthN_nth_error, lenN_length. intros H.
  destruct (nth_error l (N.to_nat i)) eqn:E; [eauto|].
  apply nth_error_None in E. lia.
Qed.

Lemma nthN_None_ge {A} (l : list A) i : nthN l i = None -> lenN l <= i.
Proof.
  rewrite nthN_nth_error, lenN_length. intros H. apply nth_error_None in H. lia.
Qed.

Lemma nthN_In {A} (l : list A) i x : nthN l i = Some x -> In x l.
Proof. rewrite nthN_nth_error. apply nth_error_In. Qed.

Lemma memN_In x l : memN x l = true <-> In x l.
Proof.
  induction l as [|y t IH]; cbn [memN In]; [split; [discriminate|tauto]|].
  rewrite orb_true_iff, IH, N.eqb_eq. split; intros [H|H]; auto.
Qed.

Lemma memN_false x l : memN x l = false <-> ~ In x l.
Proof. rewrite <- memN_In. destruct (memN x l); split; congruence. Qed.

(* constants, proved once and kept folded *)
Lemma MAXREG_lt_INVALID : MAX_REGULAR_SECTOR < INVALID_SECTOR. Proof. reflexivity. Qed.
Lemma MAXREG_lt_EOC : MAX_REGULAR_SECTOR < END_OF_CHAIN. Proof. reflexivity. Qed.
Lemma MAXREG_lt_FREE : MAX_REGULAR_SECTOR < FREE_SECTOR. Proof. reflexivity. Qed.
Global Opaque MAX_REGULAR_SECTOR INVALID_SECTOR END_OF_CHAIN FREE_SECTOR DIFAT_SECTOR FAT_SECTOR.

(* a list of numbers below n without duplicates has at most n elements *)
Lemma bounded_nodup_length (l : list N) (n : N) :
  NoDup l -> Forall (fun x => x < n) l -> (length l <= N.to_nat n)%nat.
Proof.
  intros Hnd Hall.
  assert (H : (length l <= length (map N.of_nat (seq 0 (N.to_nat n))))%nat).
  { apply NoDup_incl_length; [exact Hnd|]. intros x Hx.
    rewrite Forall_forall in Hall. specialize (Hall x Hx).
    apply in_map_iff. exists (N.to_nat x). split; [lia|]. apply in_seq. lia. }
  rewrite map_length, seq_length in H. exact H.
Qed.

(* ------------------------------------------------------------------ *)
(* W1: check_pointees *)
Definition regular (c : N) : bool := c <=? MAX_REGULAR_SECTOR.
Definition regs (cells : list N) : list N := filter regular cells.

Theorem check_pointees_spec b cells n seen :
  check_pointees b cells n seen = Ok tt <->
  ( Forall (fun c => c < n) (regs cells)
    /\ NoDup (regs cells)
    /\ (forall c, In c (regs cells) -> ~ In c seen)
    /\ (b = false -> ~ In INVALID_SECTOR cells) ).
Proof.
  revert seen. induction cells as [|c t IH]; intros seen.
  - cbn. split; [intros _|reflexivity].
    repeat split; try constructor; intros; tauto.
  - cbn [check_pointees regs filter]. fold (regs t).
    change (regular c) with (c <=? MAX_REGULAR_SECTOR).
    destruct (N.leb_spec c MAX_REGULAR_SECTOR) as [Hreg|Hirr].
    + destruct (N.leb_spec n c) as [Hge|Hlt].
      { split; [discriminate|]. intros [H _]. inversion H; subst. lia. }
      destruct (memN c seen) eqn:Hmem.
      { split; [discriminate|]. intros (_ & _ & H & _). apply memN_In in Hmem.
        exfalso. apply (H c); [left; reflexivity|exact Hmem]. }
      apply memN_false in Hmem. rewrite IH. split.
      * intros (Hall & Hnd & Hdis & Hinv). repeat split.
        -- constructor; assumption.
        -- constructor; [|exact Hnd]. intros Hin. apply (Hdis c Hin). left; reflexivity.
        -- intros x [<-|Hx]; [exact Hmem|]. intros Hs. apply (Hdis x Hx). right; exact Hs.
        -- intros Hb [Heq|Hin]; [|exact (Hinv Hb Hin)].
           pose proof MAXREG_lt_INVALID. lia.
      * intros (Hall & Hnd & Hdis & Hinv). inversion Hall; subst. inversion Hnd; subst.
        repeat split; try assumption.
        -- intros x Hx [<-|Hs]; [contradiction|]. apply (Hdis x); [right; exact Hx|exact Hs].
        -- intros Hb Hin. apply (Hinv Hb). right; exact Hin.
    + destruct (negb b && (c =? INVALID_SECTOR)) eqn:Hb.
      { split; [discriminate|]. intros (_ & _ & _ & H).
        apply andb_true_iff in Hb. destruct Hb as [Hb Hc].
        apply negb_true_iff in Hb. apply N.eqb_eq in Hc. exfalso.
        apply (H Hb). left. exact Hc. }
      rewrite IH. split; intros (Hall & Hnd & Hdis & Hinv); repeat split; try assumption.
      * intros Hb' [Heq|Hin]; [|exact (Hinv Hb' Hin)].
        subst b c. cbn [negb andb] in Hb. apply N.eqb_neq in Hb. congruence.
      * intros Hb' Hin. apply (Hinv Hb'). right; exact Hin.
Qed.

(* ------------------------------------------------------------------ *)
(* W2: the checked successor is injective on a validated table *)
Lemma next_of_Ok fat i x :
  next_of fat i = Ok x <->
  nthN fat i = Some x /\ (x = END_OF_CHAIN \/ (x <= MAX_REGULAR_SECTOR /\ x < lenN fat)).
Proof.
  unfold next_of. destruct (nthN fat i) as [nx|]; [|split; [discriminate|intros [H _]; discriminate]].
  destruct (N.eqb_spec nx END_OF_CHAIN) as [He|He]; cbn [negb andb].
  - split; [intros [= <-]; auto|intros [[= <-] _]; reflexivity].
  - destruct (N.ltb_spec MAX_REGULAR_SECTOR nx); cbn [orb].
    + split; [discriminate|]. intros [[= <-] [H1|[H1 H2]]]; [contradiction|lia].
    + destruct (N.leb_spec (lenN fat) nx).
      * split; [discriminate|]. intros [[= <-] [H1|[H1 H2]]]; [contradiction|lia].
      * split; [intros [= <-]; auto|intros [[= <-] _]; reflexivity].
Qed.

Lemma next_of_fine fat i : fine (next_of fat i).
Proof.
  unfold next_of. destruct (nthN fat i); [|exact I].
  match goal with |- fine (if ?c then _ else _) => destruct c end; exact I.
Qed.

Lemma next_of_lt fat i x : next_of fat i = Ok x -> i < lenN fat.
Proof. intros H. apply next_of_Ok in H. destruct H as [H _]. eapply nthN_Some_lt; eauto. Qed.

Lemma nodup_regs_index (l : list N) : NoDup (regs l) ->
  forall i j x, nthN l i = Some x -> nthN l j = Some x -> regular x = true -> i = j.
Proof.
  induction l as [|c t IH]; intros Hnd i j x Hi Hj Hx; [discriminate|].
  assert (Hnd' : NoDup (regs t)).
  { cbn [regs filter] in Hnd. destruct (regular c); [inversion Hnd; assumption|exact Hnd]. }
  assert (Hhead : forall k, c = x -> nthN t k = Some x -> False).
  { intros k -> Hk. cbn [regs filter] in Hnd. rewrite Hx in Hnd. inversion Hnd; subst.
    match goal with H : ~ In _ _ |- _ => apply H end.
    apply filter_In. split; [eapply nthN_In; eauto|exact Hx]. }
  cbn [nthN] in Hi, Hj.
  destruct (N.eqb_spec i 0) as [->|Hi0]; destruct (N.eqb_spec j 0) as [->|Hj0].
  - reflexivity.
  - injection Hi as Hi. exfalso; eauto.
  - injection Hj as Hj. exfalso; eauto.
  - assert (N.pred i = N.pred j) by (eapply IH; eauto). lia.
Qed.

Theorem next_of_injective b fat i j x :
  check_pointees b fat (lenN fat) [] = Ok tt ->
  next_of fat i = Ok x -> next_of fat j = Ok x -> x <> END_OF_CHAIN -> i = j.
Proof.
  intros Hc Hi Hj Hx. apply check_pointees_spec in Hc. destruct Hc as (_ & Hnd & _).
  apply next_of_Ok in Hi, Hj. destruct Hi as [Hi [?|[Hr _]]]; [contradiction|].
  destruct Hj as [Hj _]. eapply nodup_regs_index; eauto.
  unfold regular. apply N.leb_le. exact Hr.
Qed.

(* ------------------------------------------------------------------ *)
(* W3 / W4: Chain::new terminates on a validated table *)
Section ChainWalk.
Variable b : bool.
Variable fat : list N.
Hypothesis Hcp : check_pointees b fat (lenN fat) [] = Ok tt.

Let n : nat := length fat.

Definition nxt (i : nat) : option nat :=
  match next_of fat (N.of_nat i) with
  | Ok x => if x =? END_OF_CHAIN then None else Some (N.to_nat x)
  | _ => None
  end.

Lemma nxt_Some i j : nxt i = Some j ->
  exists x, next_of fat (N.of_nat i) = Ok x /\ x <> END_OF_CHAIN /\ j = N.to_nat x.
Proof.
  unfold nxt. destruct (next_of fat (N.of_nat i)) as [x| | |]; try discriminate.
  destruct (N.eqb_spec x END_OF_CHAIN); [discriminate|]. intros [= <-]. eauto.
Qed.

Lemma nxt_range i j : nxt i = Some j -> (i < n /\ j < n)%nat.
Proof.
  intros H. apply nxt_Some in H. destruct H as (x & Hx & Hne & ->).
  pose proof (next_of_lt _ _ _ Hx) as Hi. apply next_of_Ok in Hx.
  destruct Hx as [_ [?|[_ Hlt]]]; [contradiction|].
  unfold n. rewrite lenN_length in *. lia.
Qed.

Lemma nxt_inj i i' j : nxt i = Some j -> nxt i' = Some j -> i = i'.
Proof.
  intros H H'. apply nxt_Some in H, H'.
  destruct H as (x & Hx & Hne & ->). destruct H' as (x' & Hx' & Hne' & He).
  apply N2Nat.inj in He. subst x'.
  assert (N.of_nat i = N.of_nat i') by (eapply next_of_injective; eauto). lia.
Qed.

Notation it := (Walk.it nxt).
Definition fw (s i : nat) : nat := match it i s with Some x => x | None => 0%nat end.

Lemma noreturn_lt s k c : (s < n)%nat -> it k s = Some c ->
  (forall m, (0 < m <= k)%nat -> it m s <> Some s) -> (k < n)%nat.
Proof.
  intros Hs Hk Hnr. destruct (Nat.lt_ge_cases k n) as [|Hge]; [assumption|exfalso].
  destruct (Walk.it_below nxt _ _ _ Hk n Hge) as [y Hy].
  destruct (Walk.injective_walk n nxt nxt_range nxt_inj s y Hs Hy) as (m & Hm & Hms).
  apply (Hnr m); [lia|exact Hms].
Qed.

Lemma pref_props s K : (s < n)%nat ->
  (forall i, (i < K)%nat -> exists x, it i s = Some x) ->
  (forall m, (0 < m < K)%nat -> it m s <> Some s) ->
  let l := map N.of_nat (Walk.pref (fw s) K) in
  NoDup l /\ Forall (fun i => i < lenN fat) l /\ length l = K.
Proof.
  intros Hs Hdef Hnr l. subst l.
  assert (Hfw : forall i, (i < K)%nat -> it i s = Some (fw s i)).
  { intros i Hi. destruct (Hdef i Hi) as [x Hx]. unfold fw. rewrite Hx. reflexivity. }
  split; [|split].
  - apply FinFun.Injective_map_NoDup; [intros x y H; lia|].
    destruct (Walk.dup_or_nodup (fw s) K) as [H|(i & j & Hij & Hf)]; [exact H|exfalso].
    destruct (Walk.no_repeat nxt nxt_inj s i j (fw s i)) as (m & Hm & Hms);
      [lia|apply Hfw; lia|rewrite Hf; apply Hfw; lia|].
    apply (Hnr m); [lia|exact Hms].
  - apply Forall_forall. intros x Hx. apply in_map_iff in Hx. destruct Hx as (y & <- & Hy).
    apply Walk.pref_in in Hy. destruct Hy as (i & Hi & <-).
    pose proof (Walk.it_lt n nxt nxt_range i s (fw s i) Hs (Hfw i Hi)).
    rewrite lenN_length. fold n. lia.
  - rewrite map_length. apply Walk.pref_length.
Qed.

Definition walk_post (r : res (list N)) : Prop :=
  match r with
  | Ok ids => NoDup ids /\ Forall (fun i => i < lenN fat) ids /\ (length ids <= length fat)%nat
  | Err _ => True
  | _ => False
  end.

Lemma rev_props (l : list N) K :
  NoDup l /\ Forall (fun i => i < lenN fat) l /\ length l = K -> (K <= n)%nat ->
  walk_post (Ok (rev l)).
Proof.
  intros (H1 & H2 & H3) HK. cbn. repeat split.
  - apply NoDup_rev; assumption.
  - apply Forall_rev; assumption.
  - rewrite rev_length. fold n. lia.
Qed.

Lemma go_inv s : (s < n)%nat -> forall f k c acc,
  it k s = Some c ->
  (forall m, (0 < m <= k)%nat -> it m s <> Some s) ->
  acc = map N.of_nat (Walk.pref (fw s) k) ->
  (n + 1 <= k + f)%nat ->
  walk_post (chain_ids_go f fat (N.of_nat s) (N.of_nat c) acc).
Proof.
  intros Hs. induction f as [|f IH]; intros k c acc Hk Hnr Hacc Hfuel.
  - pose proof (noreturn_lt s k c Hs Hk Hnr). lia.
  - pose proof (noreturn_lt s k c Hs Hk Hnr) as Hkn.
    assert (Hdef : forall i, (i <= k)%nat -> exists x, it i s = Some x)
      by (intros i Hi; eapply Walk.it_below; eauto).
    cbn [chain_ids_go]. destruct (N.eqb_spec (N.of_nat c) END_OF_CHAIN) as [He|He].
    + subst acc. apply (rev_props _ k); [|lia].
      apply pref_props; [assumption| |]; intros; [apply Hdef|apply Hnr]; lia.
    + pose proof (next_of_fine fat (N.of_nat c)) as Hfine.
      destruct (next_of fat (N.of_nat c)) as [a| | |] eqn:E; cbn [rbind]; try exact I; try contradiction.
      destruct (N.eqb_spec a (N.of_nat s)) as [Has|Has]; [exact I|].
      assert (Hacc' : N.of_nat c :: acc = map N.of_nat (Walk.pref (fw s) (S k))).
      { subst acc. cbn [Walk.pref map]. f_equal. unfold fw. rewrite Hk. reflexivity. }
      destruct (N.eqb_spec a END_OF_CHAIN) as [Hae|Hae].
      * subst a. destruct f as [|f]; [lia|]. cbn [chain_ids_go]. rewrite N.eqb_refl.
        rewrite Hacc'. apply (rev_props _ (S k)); [|lia].
        apply pref_props; [assumption| |]; intros; [apply Hdef|apply Hnr]; lia.
      * assert (Hn : nxt c = Some (N.to_nat a)).
        { unfold nxt. rewrite E. destruct (N.eqb_spec a END_OF_CHAIN); [contradiction|reflexivity]. }
        assert (Hk' : it (S k) s = Some (N.to_nat a)) by (cbn [Walk.it]; rewrite Hk; exact Hn).
        rewrite <- (N2Nat.id a). apply (IH (S k)); [exact Hk'| |exact Hacc'|lia].
        intros m Hm. destruct (Nat.eq_dec m (S k)) as [->|Hne]; [|apply Hnr; lia].
        rewrite Hk'. intros [= Hc]. apply Has. lia.
Qed.

Theorem chain_ids_post start : walk_post (chain_ids_of fat start).
Proof.
  unfold chain_ids_of. destruct (N.lt_ge_cases start (lenN fat)) as [Hlt|Hge].
  - rewrite <- (N2Nat.id start). rewrite lenN_length in Hlt.
    apply (go_inv (N.to_nat start)) with (k := 0%nat); fold n; try reflexivity; try lia.
  - cbn [chain_ids_go]. destruct (N.eqb_spec start END_OF_CHAIN).
    + cbn. repeat split; [constructor|constructor|lia].
    + destruct (next_of fat start) as [x| | |] eqn:E; cbn [rbind]; try exact I.
      * apply next_of_lt in E. lia.
      * pose proof (next_of_fine fat start) as H. rewrite E in H. exact H.
      * pose proof (next_of_fine fat start) as H. rewrite E in H. exact H.
Qed.
End ChainWalk.

Theorem chain_ids_fine b fat :
  check_pointees b fat (lenN fat) [] = Ok tt -> forall start, fine (chain_ids_of fat start).
Proof.
  intros H start. pose proof (chain_ids_post b fat H start) as P.
  destruct (chain_ids_of fat start); cbn in *; tauto.
Qed.

Theorem chain_ids_total b fat :
  check_pointees b fat (lenN fat) [] = Ok tt ->
  forall start, chain_ids_of fat start <> OutOfFuel /\ (forall p, chain_ids_of fat start <> Panic p).
Proof. intros H start. apply fine_iff. eapply chain_ids_fine; eauto. Qed.

Theorem chain_ids_nodup b fat :
  check_pointees b fat (lenN fat) [] = Ok tt ->
  forall start ids, chain_ids_of fat start = Ok ids ->
  NoDup ids /\ Forall (fun i => i < lenN fat) ids /\ (length ids <= length fat)%nat.
Proof.
  intros H start ids E. pose proof (chain_ids_post b fat H start) as P.
  rewrite E in P. exact P.
Qed.

(* ------------------------------------------------------------------ *)
(* W5: the bounded walk of extend_chain, unconditionally *)
Lemma find_last_go_fine fat : forall f steps cur,
  steps <= lenN fat -> (length fat + 1 <= N.to_nat steps + f)%nat ->
  fine (find_last_go f fat steps cur).
Proof.
  induction f as [|f IH]; intros steps cur Hs Hf.
  - rewrite lenN_length in Hs. lia.
  - cbn [find_last_go]. apply fine_rbind; [apply next_of_fine|]. intros nx _.
    destruct (nx =? END_OF_CHAIN); [exact I|].
    destruct (N.ltb_spec (lenN fat) (steps + 1)); [exact I|].
    apply IH; [assumption|lia].
Qed.

Theorem find_last_fine fat start : fine (find_last_go (S (S (length fat))) fat 0 start).
Proof. apply find_last_go_fine; lia. Qed.

Theorem find_last_total fat start :
  find_last_go (S (S (length fat))) fat 0 start <> OutOfFuel /\
  (forall p, find_last_go (S (S (length fat))) fat 0 start <> Panic p).
Proof. apply fine_iff. apply find_last_fine. Qed.

(* ------------------------------------------------------------------ *)
(* W6: count_directory_sectors follows the path Chain::new follows (without the
   came-back-to-first check), so it needs no more fuel than a successful
   Chain::new on the directory chain. *)
Lemma lenN_app {A} (l1 l2 : list A) : lenN (l1 ++ l2) = lenN l1 + lenN l2.
Proof. rewrite !lenN_length, app_length. lia. Qed.

Lemma lenN_rev {A} (l : list A) : lenN (rev l) = lenN l.
Proof. rewrite !lenN_length, rev_length. reflexivity. Qed.

Lemma count_dir_of_chain fat first : forall f cur acc ids c,
  chain_ids_go f fat first cur acc = Ok ids ->
  count_dir_go f fat c cur = Ok (c + lenN ids - lenN acc).
Proof.
  induction f as [|f IH]; intros cur acc ids c H; [discriminate|].
  cbn [chain_ids_go] in H. cbn [count_dir_go].
  destruct (cur =? END_OF_CHAIN).
  - injection H as <-. rewrite lenN_rev. f_equal. lia.
  - destruct (next_of fat cur) as [nx| | |]; cbn [rbind] in *; try discriminate.
    destruct (nx =? first); [discriminate|].
    rewrite (IH _ _ _ (c + 1) H). cbn [lenN]. f_equal. lia.
Qed.

Lemma count_dir_go_mono fat : forall f c cur r,
  count_dir_go f fat c cur = Ok r -> count_dir_go (S f) fat c cur = Ok r.
Proof.
  induction f as [|f IH]; intros c cur r H; [discriminate|].
  cbn [count_dir_go] in H. change (count_dir_go (S (S f)) fat c cur) with
    (if cur =? END_OF_CHAIN then Ok c
     else rbind (next_of fat cur) (fun nx => count_dir_go (S f) fat (c + 1) nx)).
  destruct (cur =? END_OF_CHAIN); [exact H|].
  destruct (next_of fat cur) as [nx| | |]; cbn [rbind] in *; try discriminate.
  apply IH. exact H.
Qed.

(* update_num_dir_sectors: if Chain::new succeeds on the directory chain (which
   is what open and every write_dir_entry establish), the count terminates with
   the fuel the model passes and returns the chain length. *)
Lemma chain_ids_go_S f fat first cur acc :
  chain_ids_go (S f) fat first cur acc =
  if cur =? END_OF_CHAIN then Ok (rev acc)
  else rbind (next_of fat cur) (fun nx =>
       if nx =? first then Err EInvalidData
       else chain_ids_go f fat first nx (cur :: acc)).
Proof. reflexivity. Qed.

Theorem count_dir_total fat start nx ids :
  chain_ids_of fat start = Ok ids -> start <> END_OF_CHAIN -> next_of fat start = Ok nx ->
  count_dir_go (S (S (length fat))) fat 1 nx = Ok (lenN ids).
Proof.
  unfold chain_ids_of. intros H Hs Hn. rewrite chain_ids_go_S in H.
  destruct (N.eqb_spec start END_OF_CHAIN); [contradiction|].
  rewrite Hn in H. cbn [rbind] in H. destruct (nx =? start); [discriminate|].
  apply count_dir_go_mono. rewrite (count_dir_of_chain _ _ _ _ _ _ 1 H).
  cbn [lenN]. f_equal. lia.
Qed.

Lemma chain_ids_go_err fat first : forall f cur acc k,
  chain_ids_go f fat first cur acc = Err k -> k = EInvalidData.
Proof.
  induction f as [|f IH]; intros cur acc k; [discriminate|].
  rewrite chain_ids_go_S. destruct (cur =? END_OF_CHAIN); [discriminate|].
  unfold next_of at 1. destruct (nthN fat cur) as [nx|]; [|cbn; congruence].
  match goal with |- context [if ?c then Err _ else Ok _] => destruct c end; [cbn; congruence|].
  cbn [rbind]. destruct (nx =? first); [congruence|]. apply IH.
Qed.

Corollary count_dir_total_checked b fat start nx :
  check_pointees b fat (lenN fat) [] = Ok tt ->
  start <> END_OF_CHAIN -> next_of fat start = Ok nx ->
  (exists ids, chain_ids_of fat start = Ok ids /\
               count_dir_go (S (S (length fat))) fat 1 nx = Ok (lenN ids))
  \/ chain_ids_of fat start = Err EInvalidData.
Proof.
  intros Hc Hs Hn. pose proof (chain_ids_fine b fat Hc start) as Hf.
  destruct (chain_ids_of fat start) as [ids|k| |] eqn:E; try contradiction.
  - left. exists ids. split; [reflexivity|]. eapply count_dir_total; eauto.
  - right. f_equal. eapply chain_ids_go_err; eauto.
Qed.

(* ------------------------------------------------------------------ *)
(* W6 (continued): simple paths.  [path fat cur l]: following the checked
   successor from cur visits exactly l and then reaches END_OF_CHAIN. *)
Inductive path (fat : list N) : N -> list N -> Prop :=
| path_nil : path fat END_OF_CHAIN []
| path_cons cur nx l : cur <> END_OF_CHAIN -> next_of fat cur = Ok nx ->
    path fat nx l -> path fat cur (cur :: l).

Lemma chain_ids_go_path fat first : forall f cur acc ids,
  chain_ids_go f fat first cur acc = Ok ids ->
  exists l, ids = rev acc ++ l /\ path fat cur l.
Proof.
  induction f as [|f IH]; intros cur acc ids H; [discriminate|].
  rewrite chain_ids_go_S in H. destruct (N.eqb_spec cur END_OF_CHAIN) as [->|Hc].
  - injection H as <-. exists []. rewrite app_nil_r. split; [reflexivity|constructor].
  - destruct (next_of fat cur) as [nx| | |] eqn:E; cbn [rbind] in H; try discriminate.
    destruct (nx =? first); [discriminate|].
    apply IH in H. destruct H as (l & -> & Hp). exists (cur :: l). split.
    + cbn [rev]. rewrite <- app_assoc. reflexivity.
    + econstructor; eauto.
Qed.

Theorem chain_ids_path fat start ids : chain_ids_of fat start = Ok ids -> path fat start ids.
Proof.
  intros H. apply chain_ids_go_path in H. destruct H as (l & -> & Hp). exact Hp.
Qed.

Lemma path_lt fat cur l : path fat cur l -> Forall (fun x => x < lenN fat) l.
Proof.
  induction 1; constructor; [|assumption]. eapply next_of_lt; eauto.
Qed.

(* a simple path that avoids [first] after its head is what Chain::new accepts *)
Lemma chain_ids_go_of_path fat first : first <> END_OF_CHAIN ->
  forall cur l, path fat cur l ->
  forall f acc, (forall x, In x (tl l) -> x <> first) -> (length l < f)%nat ->
  chain_ids_go f fat first cur acc = Ok (rev acc ++ l).
Proof.
  intros Hf cur l Hp. induction Hp as [|cur nx l Hc Hn Hp IH]; intros f acc Htl Hlen.
  - destruct f; [lia|]. rewrite chain_ids_go_S, N.eqb_refl, app_nil_r. reflexivity.
  - destruct f; [cbn in Hlen; lia|]. rewrite chain_ids_go_S.
    destruct (N.eqb_spec cur END_OF_CHAIN); [contradiction|].
    rewrite Hn. cbn [rbind].
    assert (Hnx : nx <> first).
    { inversion Hp; subst; [congruence|]. apply Htl. cbn. left; reflexivity. }
    destruct (N.eqb_spec nx first); [contradiction|].
    rewrite IH; [cbn [rev]; rewrite <- app_assoc; reflexivity| |cbn [length] in Hlen; lia].
    intros x Hx. apply Htl. cbn [tl]. destruct l; [destruct Hx|right; exact Hx].
Qed.

Theorem chain_ids_of_path fat start l :
  path fat start l -> NoDup l -> chain_ids_of fat start = Ok l.
Proof.
  intros Hp Hnd. unfold chain_ids_of.
  destruct (N.eq_dec start END_OF_CHAIN) as [->|Hs].
  - inversion Hp; subst; [|contradiction]. rewrite chain_ids_go_S, N.eqb_refl. reflexivity.
  - change l with (rev [] ++ l). apply chain_ids_go_of_path; [assumption|assumption| |].
    + inversion Hp; subst; [congruence|]. cbn [tl]. inversion Hnd; subst. intros x Hx ->. contradiction.
    + pose proof (bounded_nodup_length _ _ Hnd (path_lt _ _ _ Hp)) as H.
      rewrite lenN_length, Nat2N.id in H. lia.
Qed.

(* seek_within_dir_entry *)
Lemma dir_sector_go_path fat : forall k start l sid,
  path fat start l -> nth_error l k = Some sid -> dir_sector_go k fat start = Ok sid.
Proof.
  induction k as [|k IH]; intros start l sid Hp Hn.
  - destruct Hp; [discriminate|]. injection Hn as <-. reflexivity.
  - destruct Hp as [|cur nx l Hc Hx Hp]; [discriminate|]. cbn [nth_error] in Hn.
    cbn [dir_sector_go]. destruct (N.eqb_spec cur END_OF_CHAIN); [contradiction|].
    rewrite Hx. cbn [rbind]. eapply IH; eauto.
Qed.

Theorem dir_sector_total fat start ids k sid :
  chain_ids_of fat start = Ok ids -> nth_error ids k = Some sid ->
  dir_sector_go k fat start = Ok sid.
Proof. intros H. apply chain_ids_path in H. eapply dir_sector_go_path; eauto. Qed.

(* ------------------------------------------------------------------ *)
Check check_pointees_spec.
Check next_of_injective.
Check chain_ids_total.
Check chain_ids_nodup.
Check find_last_total.
Check count_dir_total.
Check chain_ids_of_path.
Check dir_sector_total.
Print Assumptions check_pointees_spec.
Print Assumptions next_of_injective.
Print Assumptions chain_ids_total.
Print Assumptions chain_ids_nodup.
Print Assumptions find_last_total.
Print Assumptions count_dir_total.
Print Assumptions count_dir_total_checked.
Print Assumptions chain_ids_of_path.
Print Assumptions dir_sector_total.
