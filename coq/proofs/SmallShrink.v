(* SmallShrink.v -- the one data-moving store case the other files leave open:
   a small stream (shorter than 4096 bytes, stored in 64-byte mini sectors) is
   cut back to a smaller NON-ZERO length that needs FEWER mini sectors
   (Store.resize -> Mini.mchain_set_len -> Mini.free_mini_chain_after): the
   last kept cell of the mini chain becomes END_OF_CHAIN, the cut-off tail is
   released cell by cell (free_mini_sector: FREE on disk and in the cache,
   pushed on the mini free list, trailing FREE cells of the cached MiniFAT
   trimmed, root length written back), the entry gets the new length.

     1  cut_cell_coh           the terminating write keeps Coherent / MWf
     2  swfx_mini_shrink       StoreAlloc's SWf when mini sectors of one stream
                               only are released (table-level free_small_chain)
     3  shrink_release         free_mini_chain_after: DataPersist2.CohX (all but
                               stream id), kept path, cell maps, the count
     4  mchain_set_len_shrink, resize_small_shrink_run     the run of resize
     5  resize_small_shrink_full / resize_small_shrink_cohdata'    C02
     6  resize_small_shrink_dinv                                   C03 (DInv, FreeAll)
     7  ShrinkCase, ResizeCase12 (= DataPersist2.ResizeCase + this case),
        resize_case12_cohtree, resize_shrink_w2, resize_case12_w2,
        resize_shrink_image_wf (wf_check = 0)
     8  resize_shrink_frames_d, resize_case12_frames, setlen_frames_full12   C07
     9  ExampleShrink: 1000 -> 900, 1000 -> 100, 3000 -> 65, 300 -> 130 (a cell
        released in the middle of the MiniFAT and one at its end)
    10  resize_small_shrink_room, SmallKept, small_grow_cut_once / _iter /
        _stable (C15: grow n0 -> n1, cut back, repeated); ExampleGrowCutSmall
   No defect found: nothing is leaked, the kept cell is terminated, the root
   length follows the trim, the reopened MiniFAT equals the cached one.
   Stdlib only; no axioms; every proof is complete. *)
From Coq Require Import List NArith ZArith Lia Bool ZifyN ZifyBool Permutation.
From Cfb.model Require Import Base Names Time DirEnt State Alloc Dir Mini Store Handle Open Cfb.
From Cfb.gen Require Import Consts.
From Cfb.spec Require Import WfImage.
From Cfb.proofs Require Import DirProofs ChainProofs.
From Cfb.proofs Require CodecProofs WalkProofs ReuseProofs CoherenceProofs DirCoherence
                        ReopenProofs MutRefine PersistProofs StoreProofs StoreMiniProofs
                        MiniChainProofs HandleFrame TimeProofs QueryRefine StoreAlloc DataPersist
                        TreeProofs WalkSafe WfPersist ReadonlyTotal.
From Cfb.proofs Require Import DataWf DataPersist2 DataWf2 DataFrame.
From Cfb.proofs Require DataCycle.
Import ListNotations.
Open Scope N_scope.

Ltac Zify.zify_post_hook ::= Z.div_mod_to_equations.

Import ReopenProofs PersistProofs WfPersist.
Import ReuseProofs StoreProofs MiniChainProofs StoreMiniProofs HandleFrame.
Import DataPersist.

(* ================================================================== *)
(* 0. small facts                                                      *)
(* ================================================================== *)

(* a cell of the MiniFAT is overwritten by an irregular value *)
Lemma mini_valid_unlink : forall mf i v v',
  check_pointees true mf (lenN mf) [] = Ok tt ->
  nthN mf i = Some v -> regular v' = false ->
  check_pointees true (updN mf i v') (lenN (updN mf i v')) [] = Ok tt.
Proof.
  intros mf i v v' Hval Hcell Rv'.
  apply WalkProofs.check_pointees_spec in Hval. destruct Hval as (P1 & P2 & _ & _).
  apply WalkProofs.check_pointees_spec. rewrite lenN_updN.
  destruct (regular v) eqn:Rv.
  - pose proof (regs_updN_drop mf i v v' Hcell Rv Rv') as HP.
    assert (Hsub : forall y, In y (regs (updN mf i v')) -> In y (regs mf)).
    { intros y Hy. eapply Permutation_in; [exact HP|]. right. exact Hy. }
    split; [rewrite Forall_forall in *; intros y Hy; apply P1; apply Hsub; exact Hy|].
    split; [|split; [intros c _ []|discriminate]].
    assert (Hnd : NoDup (v :: regs (updN mf i v'))).
    { eapply Permutation_NoDup; [apply Permutation_sym; exact HP|exact P2]. }
    inversion Hnd; assumption.
  - rewrite (regs_updN_irr mf i v v' Hcell Rv Rv').
    split; [exact P1|]. split; [exact P2|]. split; [intros c _ []|discriminate].
Qed.

Lemma app_cons_snoc : forall A (a : list A) x b, a ++ x :: b = (a ++ [x]) ++ b.
Proof. intros. rewrite <- app_assoc. reflexivity. Qed.

Lemma NoDup_app_l : forall A (a b : list A), NoDup (a ++ b) -> NoDup a.
Proof.
  intros A a b H. induction a as [|x a IH]; [constructor|].
  cbn [app] in H. inversion H as [|? ? Hx Hnd]; subst. constructor; [|exact (IH Hnd)].
  intro Hin. apply Hx. apply in_or_app. left. exact Hin.
Qed.

Lemma NoDup_app_disj : forall A (a b : list A) x, NoDup (a ++ b) -> In x a -> In x b -> False.
Proof.
  intros A a b x H. induction a as [|y a IH]; intros Ha Hb; [destruct Ha|].
  cbn [app] in H. inversion H as [|? ? Hy Hnd]; subst. destruct Ha as [->|Ha].
  - apply Hy. apply in_or_app. right. exact Hb.
  - exact (IH Hnd Ha Hb).
Qed.

(* ================================================================== *)
(* 1. step A: the last kept cell is terminated                         *)
(* ================================================================== *)

Lemma cut_cell_coh : forall s r rids mfids dids kept last tail c,
  Coherent s -> MD s -> FreeUnref (minifat s) -> SA.MWf_at s r rids mfids dids ->
  path (minifat s) c (kept ++ last :: tail) -> tail <> [] ->
  exists s1 nx,
    next_mini last s = (s, Ok nx) /\
    set_minifat last END_OF_CHAIN s = (s1, Ok tt) /\
    Coherent s1 /\ MD s1 /\ FreeUnref (minifat s1) /\ SA.MWf_at s1 r rids mfids dids /\
    minifat s1 = updN (minifat s) last END_OF_CHAIN /\
    dirs s1 = dirs s /\ mfree s1 = mfree s /\ frameM mfids s s1 /\ same_shape s s1 /\
    (forall x, ~ In x mfids -> sector_bytes s1 x = sector_bytes s x) /\
    path (minifat s1) c (kept ++ [last]) /\ path (minifat s1) nx tail /\
    nthN (minifat s) last = Some nx /\ hd END_OF_CHAIN tail = nx /\
    unref (minifat s1) nx /\
    (forall y, y <> END_OF_CHAIN -> unref (minifat s) y -> unref (minifat s1) y).
Proof.
  intros s r rids mfids dids kept last tail c HC Hmd Hfu W Hp Htl.
  pose proof (ReuseProofs.path_nodup _ _ _ Hp) as Hnd.
  pose proof (path_mid _ _ _ _ _ Hp) as Hpm.
  inversion Hpm as [|c0 nx l0 Hc Hn Hp']; subst.
  pose proof Hn as Hn0. apply WalkProofs.next_of_Ok in Hn0. destruct Hn0 as [Hcell Hr].
  pose proof (nthN_Some_lt _ _ _ _ Hcell) as Hlt.
  pose proof (SA.mw_bound _ _ _ _ _ W) as Hbd.
  assert (Hnxhd : hd END_OF_CHAIN tail = nx) by (symmetry; exact (SA.path_hd _ _ _ Hp')).
  assert (Hnx_reg : nx <= MAX_REGULAR_SECTOR).
  { destruct Hr as [->|[Hr1 _]]; [|exact Hr1]. inversion Hp'; subst; [contradiction|]. congruence. }
  assert (Hnf : nx <> FREE_SECTOR) by (markers; lia).
  assert (Hni : ~ In last kept).
  { intro Hin. apply (NoDup_app_disj _ kept (last :: tail) last Hnd Hin). left. reflexivity. }
  assert (Hnt : ~ In last tail).
  { rewrite app_cons_snoc in Hnd. intro Hin.
    apply (NoDup_app_disj _ (kept ++ [last]) tail last Hnd); [|exact Hin].
    apply in_or_app. right. left. reflexivity. }
  destruct irregular_marks as [IE IF].
  destruct (SA.set_minifat_fr s last END_OF_CHAIN mfids) as (s1 & E1 & Hsh1 & Hmf1 & Hmfr1 & Hd1 & Hfr1).
  { lia. } { apply W. } { apply W. } { pose proof (SA.mw_mcap _ _ _ _ _ W). lia. }
  assert (Hmf1' : minifat s1 = updN (minifat s) last END_OF_CHAIN).
  { rewrite Hmf1. unfold fat_set. destruct (last =? lenN (minifat s)) eqn:Ei; [lia|reflexivity]. }
  pose proof HC as HC0. apply Coherent_CohM in HC. destruct HC as [HM Hlast].
  destruct (set_minifat_cohm s last END_OF_CHAIN s1 HM Hmd ltac:(vm_compute; reflexivity) E1)
    as (HM1 & _ & _ & _ & _ & mids' & Hmids' & F1).
  { destruct (last =? lenN (minifat s)) eqn:E; [apply N.eqb_eq in E; lia|].
    exact (mini_valid_unlink _ _ _ _ (cm_mini_valid s HM) Hcell IE). }
  { intros root Hr0. destruct (last =? lenN (minifat s)) eqn:E; [apply N.eqb_eq in E; lia|].
    rewrite lenN_updN. exact (cm_fits s HM root Hr0). }
  assert (mids' = mfids).
  { unfold DirCoherence.minifat_ids in Hmids'. rewrite (SA.mw_mch _ _ _ _ _ W) in Hmids'. congruence. }
  subst mids'.
  assert (HC1 : Coherent s1).
  { apply Coherent_CohM. split; [exact HM1|]. rewrite Hmf1'. intro Hl.
    apply lastN_updN_cases in Hl. destruct Hl as [Hl|Hl]; [markers; lia|exact (Hlast Hl)]. }
  assert (Hmono : forall y, y <> END_OF_CHAIN -> unref (minifat s) y -> unref (minifat s1) y).
  { intros y Hy Hu. rewrite Hmf1'. apply unref_updN; [exact Hu|congruence]. }
  exists s1, nx.
  split; [unfold next_mini, next_mini_of; rewrite bind_get, Hn; reflexivity|].
  split; [exact E1|]. split; [exact HC1|]. split; [eapply MD_frameM; eassumption|].
  split.
  { intros x Hx. rewrite Hmf1' in Hx.
    destruct (N.eq_dec x last) as [->|Hne].
    - rewrite nthN_updN_same in Hx by exact Hlt.
      assert (END_OF_CHAIN = FREE_SECTOR) by congruence. markers. lia.
    - rewrite nthN_updN_other in Hx by congruence. apply Hmono; [|exact (Hfu x Hx)].
      pose proof (nthN_Some_lt _ _ _ _ Hx). markers. lia. }
  split.
  { apply (SA.MWf_transfer s s1 r r rids mfids dids W Hsh1).
    - rewrite Hd1. reflexivity.
    - intros j e0 He0. rewrite Hd1 in He0. eapply SA.mw_names; eassumption.
    - rewrite Hd1. apply W.
    - apply W.
    - reflexivity.
    - rewrite Hmf1', lenN_updN. apply W.
    - rewrite Hmf1', lenN_updN. apply W.
    - rewrite Hmf1', lenN_updN. apply W.
    - rewrite Hmf1', lenN_updN. apply W.
    - rewrite Hmfr1. apply W.
    - intros x Hx. rewrite Hmfr1 in Hx. rewrite Hmf1'.
      pose proof (SA.mw_ffree _ _ _ _ _ W x Hx) as Hxf.
      rewrite nthN_updN_other; [exact Hxf|]. intros ->. congruence. }
  split; [exact Hmf1'|]. split; [exact Hd1|]. split; [exact Hmfr1|]. split; [exact F1|].
  split; [exact Hsh1|]. split; [exact Hfr1|].
  split; [rewrite Hmf1'; exact (path_truncate _ _ _ _ _ Hp Hni Hlt)|].
  split.
  { rewrite Hmf1'. apply (path_ext (minifat s)); [exact Hp'|apply lenN_updN|].
    intros x Hx. apply nthN_updN_other. intros ->. contradiction. }
  split; [exact Hcell|]. split; [exact Hnxhd|].
  split; [|exact Hmono].
  intros i Hi. rewrite Hmf1' in Hi.
  destruct (N.eq_dec i last) as [->|Hil].
  - rewrite nthN_updN_same in Hi by exact Hlt. markers. injection Hi as Hi. lia.
  - rewrite nthN_updN_other in Hi by congruence. apply Hil.
    pose proof (ch_mini_valid s HC0) as Hval.
    apply WalkProofs.check_pointees_spec in Hval. destruct Hval as (_ & Hndr & _).
    eapply WalkProofs.nodup_regs_index; [exact Hndr|exact Hi|exact Hcell|].
    apply regular_spec. exact Hnx_reg.
Qed.

(* ================================================================== *)
(* 2. the structural invariant when mini sectors of stream [id] only   *)
(*    are released (StoreAlloc.free_small_chain, table-level)          *)
(* ================================================================== *)

Lemma swfx_mini_shrink : forall s s1 r r1 rids mfids dids id e mids,
  SA.SWfX_at s r rids mfids dids SA.noX -> SA.MWf_at s1 r1 rids mfids dids -> same_shape s s1 ->
  nthN (dirs s) id = Some e -> SA.small_entry e ->
  chain_ids_of (minifat s) (d_start e) = Ok mids ->
  (forall j, j <> ROOT_STREAM_ID -> nthN (dirs s1) j = nthN (dirs s) j) ->
  (forall x, ~ In x mfids -> ~ In x dids -> sector_bytes s1 x = sector_bytes s x) ->
  lenN (minifat s1) <= lenN (minifat s) ->
  (forall y w, ~ In y mids -> nthN (minifat s) y = Some w -> w <> FREE_SECTOR ->
     nthN (minifat s1) y = Some w) ->
  SA.SWfX_at s1 r1 rids mfids dids (SA.Xid id) /\ nthN (dirs s1) id = Some e /\
  SA.others_kept s s1 id /\
  (forall j ej m, j <> id -> nthN (dirs s) j = Some ej -> SA.small_entry ej ->
     chain_ids_of (minifat s) (d_start ej) = Ok m -> chain_ids_of (minifat s1) (d_start ej) = Ok m).
Proof.
  intros s s1 r r1 rids mfids dids id e mids SW W1 Sh He Hse Hc Dj Fr Le K.
  pose proof (SA.sw_m _ _ _ _ _ _ SW) as W.
  destruct Hse as (Ht & Hpos & Hcut).
  pose proof (SA.small_not_root _ _ _ _ _ _ _ W He Ht) as Hidr.
  pose proof (same_shape_slen _ _ Sh) as Hsl.
  pose proof Sh as (Hns & _ & _ & _ & Hfat & Hfree & Hdifat & _).
  assert (Hrbytes : forall x, In x rids -> sector_bytes s1 x = sector_bytes s x).
  { intros x Hx. apply Fr; [exact (SA.mw_rm _ _ _ _ _ W x Hx) | exact (SA.mw_rd _ _ _ _ _ W x Hx)]. }
  assert (Hstream_dirs : forall j ej, nthN (dirs s1) j = Some ej -> d_type ej = TStream ->
            nthN (dirs s) j = Some ej).
  { intros j ej Hej Tj. rewrite Dj in Hej; [exact Hej|].
    intro E. subst j. rewrite (SA.mw_root _ _ _ _ _ W1) in Hej. injection Hej as <-.
    exact (SA.mw_rtype _ _ _ _ _ W1 Tj). }
  assert (Hkeptc : forall j ej m, j <> id -> nthN (dirs s) j = Some ej -> SA.small_entry ej ->
            chain_ids_of (minifat s) (d_start ej) = Ok m -> chain_ids_of (minifat s1) (d_start ej) = Ok m).
  { intros j ej m Hj Hej Hsj Hcm.
    apply SA.chain_of_path. apply (SA.path_keep _ _ _ _ (WalkProofs.chain_ids_path _ _ _ Hcm) Le).
    intros y w Hy Hcy Hw. apply K; [|exact Hcy | exact Hw].
    intro Hin.
    exact (SA.sw_disj _ _ _ _ _ _ SW id j e ej mids m (SA.noX_not _) (SA.noX_not _) ltac:(congruence)
             He (conj Ht (conj Hpos Hcut)) Hc Hej Hsj Hcm y Hin Hy). }
  assert (Hkept : forall j ej, j <> id -> nthN (dirs s) j = Some ej -> SA.small_entry ej ->
            exists m, chain_ids_of (minifat s) (d_start ej) = Ok m /\
                      chain_ids_of (minifat s1) (d_start ej) = Ok m /\ d_len ej <= 64 * lenN m).
  { intros j ej Hj Hej Hsj.
    destruct (SA.sw_small _ _ _ _ _ _ SW j ej (SA.noX_not _) Hej Hsj) as (m & Hcm & Hlm).
    exists m. split; [exact Hcm|]. split; [|exact Hlm]. exact (Hkeptc j ej m Hj Hej Hsj Hcm). }
  split.
  { constructor.
    - exact W1.
    - eapply StoreProofs.AllocWf_shape; [apply SW | exact Sh].
    - rewrite Hns. apply SW.
    - rewrite Hfree. apply SW.
    - intros x Hx. rewrite Hfree, Hdifat. exact (SA.sw_sys _ _ _ _ _ _ SW x Hx).
    - intros x Hx. rewrite Hfree in Hx. rewrite Hdifat. exact (SA.sw_fdifat _ _ _ _ _ _ SW x Hx).
    - intros j ej Hxj Hej Hsj. pose proof (Hstream_dirs j ej Hej (proj1 Hsj)) as Hej0.
      destruct (Hkept j ej ltac:(intro E; exact (Hxj E)) Hej0 Hsj) as (m & _ & Hc1 & Hl).
      exists m. split; assumption.
    - intros j1 j2 e1 e2 m1 m2 Hx1 Hx2 Hne He1 Hs1 Hc1 He2 Hs2 Hc2.
      pose proof (Hstream_dirs j1 e1 He1 (proj1 Hs1)) as He10.
      pose proof (Hstream_dirs j2 e2 He2 (proj1 Hs2)) as He20.
      destruct (Hkept j1 e1 ltac:(intro E; exact (Hx1 E)) He10 Hs1) as (ma & Hca & Hca1 & _).
      destruct (Hkept j2 e2 ltac:(intro E; exact (Hx2 E)) He20 Hs2) as (mb & Hcb & Hcb1 & _).
      rewrite Hc1 in Hca1. injection Hca1 as <-. rewrite Hc2 in Hcb1. injection Hcb1 as <-.
      exact (SA.sw_disj _ _ _ _ _ _ SW j1 j2 e1 e2 m1 m2 (SA.noX_not _) (SA.noX_not _) Hne
               He10 Hs1 Hca He20 Hs2 Hcb).
    - intros j ej _ Hej Hbj. rewrite Hfat, Hsl, Hns.
      exact (SA.sw_bigchain _ _ _ _ _ _ SW j ej (SA.noX_not _) (Hstream_dirs j ej Hej (proj1 Hbj)) Hbj).
    - intros j ej l _ Hej Hbj Hcl. rewrite Hfat in Hcl. rewrite Hfree, Hdifat.
      exact (SA.sw_big _ _ _ _ _ _ SW j ej l (SA.noX_not _) (Hstream_dirs j ej Hej (proj1 Hbj)) Hbj Hcl).
    - intros j1 j2 e1 e2 l1 l2 _ _ Hne He1 Hb1 Hc1 He2 Hb2 Hc2. rewrite Hfat in Hc1, Hc2.
      exact (SA.sw_bigdisj _ _ _ _ _ _ SW j1 j2 e1 e2 l1 l2 (SA.noX_not _) (SA.noX_not _) Hne
               (Hstream_dirs j1 e1 He1 (proj1 Hb1)) Hb1 Hc1
               (Hstream_dirs j2 e2 He2 (proj1 Hb2)) Hb2 Hc2). }
  split; [rewrite Dj by exact Hidr; exact He|].
  split; [|exact Hkeptc].
  split; [|split].
  - intros id' V' Hne Hsc.
    destruct (SA.small_content_at _ _ _ _ _ _ _ W Hsc) as (e1 & m1 & Hs1).
    pose proof (SA.small_at_entry _ _ _ _ _ _ Hs1) as Hse1.
    destruct Hs1 as (Hn1 & Ht1 & Hcut1 & Hpos1 & Hch1 & Hgm1 & Hle1 & HV1).
    destruct (Hkept id' e1 Hne Hn1 Hse1) as (m & Hcm & Hcm1 & _).
    rewrite Hch1 in Hcm. injection Hcm as <-.
    exists e1, rids, m1. unfold small_at. splits; try assumption.
    + rewrite Dj by exact (SA.small_not_root _ _ _ _ _ _ _ W Hn1 Ht1). exact Hn1.
    + exact (SA.good_mchain_of_path s1 r1 rids mfids dids (d_start e1) m1 W1
               (WalkProofs.chain_ids_path _ _ _ Hcm1)).
    + rewrite HV1. f_equal. symmetry. apply SA.mchain_content_ext. intros ms _.
      apply SA.mini_bytes_ext. exact Hrbytes.
  - intros id' V' Hne (e2 & l2 & He2 & Ht2 & Hcut2 & Hc2 & Hg2 & Hle2 & HV2).
    exists e2, l2. splits; try assumption.
    + rewrite Dj by exact (SA.small_not_root _ _ _ _ _ _ _ W He2 Ht2). exact He2.
    + rewrite Hfat. exact Hc2.
    + eapply good_chain_shape; eassumption.
    + rewrite Hsl. exact Hle2.
    + rewrite HV2. f_equal. symmetry. apply StoreProofs.chain_content_ext. intros x Hx.
      destruct (SA.sw_big _ _ _ _ _ _ SW id' e2 l2 (SA.noX_not _) He2 (conj Ht2 Hcut2) Hc2 x Hx)
        as (_ & S2 & S3 & _).
      apply Fr; assumption.
  - intros id' Hne (e3 & Hn3 & Ht3 & Hst3 & Hl3). exists e3. unfold SA.empty_at.
    rewrite Dj by exact (SA.small_not_root _ _ _ _ _ _ _ W Hn3 Ht3). splits; assumption.
Qed.

(* ================================================================== *)
(* 3. free_mini_chain_after: the kept prefix is terminated, the tail   *)
(*    is released cell by cell; everything holds except for [id]       *)
(* ================================================================== *)

Lemma shrink_release : forall s r rids mfids dids id e kept0 ms tail,
  CohData' s -> SD s r rids mfids dids ->
  nthN (dirs s) id = Some e -> SA.small_entry e ->
  chain_ids_of (minifat s) (d_start e) = Ok (kept0 ++ ms :: tail) -> tail <> [] ->
  exists s2 r2,
    free_mini_chain_after ms s = (s2, Ok tt) /\
    CohX s2 r2 rids mfids dids id /\ nthN (dirs s2) id = Some e /\ SA.others_kept s s2 id /\
    frameM (mfids ++ dids) s s2 /\
    path (minifat s2) (d_start e) (kept0 ++ [ms]) /\
    unref (minifat s2) (d_start e) /\
    lenN (minifat s2) <= lenN (minifat s) /\
    (forall j, j <> ROOT_STREAM_ID -> nthN (dirs s2) j = nthN (dirs s) j) /\
    lenN (dirs s2) = lenN (dirs s) /\
    lenN (mfree s) + lenN tail + lenN (minifat s2) <= lenN (mfree s2) + lenN (minifat s) /\
    (forall x, In x rids -> sector_bytes s2 x = sector_bytes s x) /\
    (forall j ej m, j <> id -> nthN (dirs s) j = Some ej -> SA.small_entry ej ->
       chain_ids_of (minifat s) (d_start ej) = Ok m -> chain_ids_of (minifat s2) (d_start ej) = Ok m) /\
    (forall y w, ~ In y (ms :: tail) -> nthN (minifat s) y = Some w -> w <> FREE_SECTOR ->
       nthN (minifat s2) y = Some w) /\
    (forall y w, nthN (minifat s2) y = Some w -> w <> FREE_SECTOR ->
       ~ In y tail /\ ((y = ms /\ w = END_OF_CHAIN) \/ (y <> ms /\ nthN (minifat s) y = Some w))).
Proof.
  intros s r rids mfids dids id e kept0 ms tail HCD HSD He Hse Hc Htl.
  pose proof HCD as [HC _ HF Hax]. pose proof HSD as [SW Hmdj].
  pose proof (SA.sw_m _ _ _ _ _ _ SW) as W.
  pose proof (WalkProofs.chain_ids_path _ _ _ Hc) as Hp.
  pose proof (ReuseProofs.path_nodup _ _ _ Hp) as Hnd.
  pose proof (SA.mw_bound _ _ _ _ _ W) as Hbd.
  destruct (cut_cell_coh s r rids mfids dids kept0 ms tail (d_start e) HC (CohData'_MD s HCD)
              (ax_mfree s Hax) W Hp Htl)
    as (s1 & nx & Enext & E1 & HC1 & Hmd1 & Hfu1 & W1 & Hmf1 & Hd1 & Hmfr1 & F1 & Sh1 & Fr1 &
        Pk1 & Pt1 & Hcell & Hnxhd & Hunx & Hmono1).
  assert (Hmslt : ms < lenN (minifat s)) by (eapply nthN_Some_lt; exact Hcell).
  destruct (SA.free_mini_chain_go_spec tail (S (S (length (minifat s1)))) nx s1 r rids mfids dids W1 Pt1
              (path_length_fuel _ _ _ Pt1))
    as (s2 & r2 & E2 & W2 & Sh2 & Ld2 & Dj2 & Fr2 & Le2 & K2).
  destruct (free_mini_chain_go_coh tail _ nx s1 r rids mfids dids s2 HC1 Hmd1 Hfu1 W1 Pt1
              ltac:(intros _; exact Hunx) E2)
    as (HC2 & Hmd2 & Hfu2 & Hmono2 & F2).
  pose proof (free_mini_chain_go_back tail _ nx s1 r rids mfids dids s2 HC1 Hmd1 Hfu1 W1 Pt1
                ltac:(intros _; exact Hunx) E2) as Hback.
  assert (Hlen1 : lenN (minifat s1) = lenN (minifat s)) by (rewrite Hmf1; apply lenN_updN).
  assert (Hkt : forall y, In y (kept0 ++ [ms]) -> ~ In y tail).
  { intros y Hy Hyt. rewrite app_cons_snoc in Hnd. exact (NoDup_app_disj _ _ _ y Hnd Hy Hyt). }
  assert (Fwd : forall y w, ~ In y (ms :: tail) -> nthN (minifat s) y = Some w -> w <> FREE_SECTOR ->
            nthN (minifat s2) y = Some w).
  { intros y w Hy Hcy Hw. apply K2; [intro Hin; apply Hy; right; exact Hin| |exact Hw].
    rewrite Hmf1. rewrite nthN_updN_other; [exact Hcy|]. intros ->. apply Hy. left. reflexivity. }
  destruct (swfx_mini_shrink s s2 r r2 rids mfids dids id e (kept0 ++ ms :: tail) SW W2
              (same_shape_trans _ _ _ Sh1 Sh2) He Hse Hc)
    as (SW2 & He2 & Hoth & Hkc).
  { intros j Hj. rewrite (Dj2 j Hj), Hd1. reflexivity. }
  { intros x X1 X2. rewrite (Fr2 x X1 X2). exact (Fr1 x X1). }
  { lia. }
  { intros y w Hy Hcy Hw. apply Fwd; [|exact Hcy|exact Hw].
    intro Hin. apply Hy. apply in_or_app. right. exact Hin. }
  assert (FM : frameM (mfids ++ dids) s s2).
  { eapply frameM_trans; [|exact F2]. eapply frameM_weaken; [|exact F1].
    intros x Hx. apply in_or_app. left. exact Hx. }
  pose proof FM as (G1 & G2 & G3 & G4 & G5 & G6 & G7 & G8 & _).
  assert (Hback_dirs : forall j ej, nthN (dirs s2) j = Some ej -> d_type ej = TStream ->
            nthN (dirs s) j = Some ej).
  { intros j ej Hej Tj. rewrite Dj2, Hd1 in Hej; [exact Hej|].
    intros ->. rewrite (SA.mw_root _ _ _ _ _ W2) in Hej. injection Hej as <-.
    exact (SA.mw_rtype _ _ _ _ _ W2 Tj). }
  assert (Hhead_ne : d_start e <> END_OF_CHAIN).
  { destruct kept0 as [|a k0]; cbn [app] in Hp; inversion Hp; subst; assumption. }
  assert (Hhead_in : In (d_start e) (kept0 ++ ms :: tail)).
  { pose proof (SA.path_hd _ _ _ Hp) as Hh. destruct kept0 as [|a k0]; cbn [app hd] in *; left; congruence. }
  assert (Hsmall_head : forall j ej, nthN (dirs s) j = Some ej -> SA.small_entry ej ->
            unref (minifat s2) (d_start ej)).
  { intros j ej Hej Hsj.
    destruct (SA.sw_small _ _ _ _ _ _ SW j ej (SA.noX_not _) Hej Hsj) as (m & Hcm & Hcovm).
    pose proof (small_head_in _ ej m Hsj Hcm Hcovm) as Hin.
    pose proof (SA.path_In_lt _ _ _ _ (WalkProofs.chain_ids_path _ _ _ Hcm) Hin) as Hlt.
    apply Hmono2; [lia|]. apply Hmono1; [markers; lia|]. exact (ax_mheads s Hax j ej Hej Hsj). }
  exists s2, r2.
  split.
  { unfold free_mini_chain_after. rewrite (bind_exec _ _ _ _ _ Enext).
    rewrite (bind_exec _ _ _ _ _ E1). unfold free_mini_chain. rewrite bind_get. exact E2. }
  split.
  { unfold CohX. split; [exact HC2|].
    split; [apply (FreeClean_transfer s); [exact G6|exact G2|exact G5|exact HF]|].
    split; [exact SW2|]. split; [exact Hmdj|].
    split; [unfold FreeUnref; rewrite G5; exact (ax_free s Hax)|]. split; [exact Hfu2|]. split.
    - intros j ej Hj Hej Hbj. rewrite G5.
      exact (ax_heads s Hax j ej (Hback_dirs j ej Hej (proj1 Hbj)) Hbj).
    - intros j ej Hj Hej Hsj. exact (Hsmall_head j ej (Hback_dirs j ej Hej (proj1 Hsj)) Hsj). }
  split; [exact He2|]. split; [exact Hoth|]. split; [exact FM|].
  split.
  { apply (SA.path_keep _ _ _ _ Pk1 Le2). intros y w Hy Hcy Hw.
    apply K2; [exact (Hkt y Hy)|exact Hcy|exact Hw]. }
  split; [exact (Hsmall_head id e He Hse)|].
  split; [lia|].
  split; [intros j Hj; rewrite (Dj2 j Hj), Hd1; reflexivity|].
  split; [rewrite Ld2, Hd1; reflexivity|].
  split.
  { pose proof (DataCycle.free_mini_chain_go_count tail _ nx s1 r rids mfids dids s2 W1 Pt1
                  (path_length_fuel _ _ _ Pt1) E2) as Hcnt.
    rewrite Hmfr1, Hlen1 in Hcnt. exact Hcnt. }
  split.
  { intros x Hx. rewrite Fr2; [apply Fr1|exact (SA.mw_rm _ _ _ _ _ W x Hx)|exact (SA.mw_rd _ _ _ _ _ W x Hx)].
    exact (SA.mw_rm _ _ _ _ _ W x Hx). }
  split; [exact Hkc|]. split; [exact Fwd|].
  intros y w Hy Hw. destruct (Hback y w Hy Hw) as [Hy1 Hnt]. split; [exact Hnt|].
  rewrite Hmf1 in Hy1. destruct (N.eq_dec y ms) as [->|Hne].
  - left. split; [reflexivity|]. rewrite nthN_updN_same in Hy1 by exact Hmslt. congruence.
  - right. split; [exact Hne|]. rewrite nthN_updN_other in Hy1 by congruence. exact Hy1.
Qed.

(* ================================================================== *)
(* 4. the run of resize in this case                                   *)
(* ================================================================== *)

Lemma mchain_set_len_shrink : forall s mids n ms s2,
  0 < n -> n < MINI_STREAM_CUTOFF ->
  (64 + n - 1) / 64 < lenN mids -> nthN mids ((64 + n - 1) / 64 - 1) = Some ms ->
  free_mini_chain_after ms s = (s2, Ok tt) ->
  mchain_set_len (mkMChain mids 0) n s = (s2, Ok (mkMChain mids 0)).
Proof.
  intros s mids n ms s2 Hpos Hcut Hlt Hnth Hfree. unfold mchain_set_len.
  assert (E1 : (MINI_STREAM_CUTOFF <=? n) = false) by lia. rewrite E1.
  rewrite MSL_64. cbv zeta. cbn [mc_ids].
  assert (Hk : 0 < (64 + n - 1) / 64) by (apply msectors_pos; exact Hpos).
  assert (E2 : ((64 + n - 1) / 64 =? 0) = false) by lia. rewrite E2.
  assert (E3 : ((64 + n - 1) / 64 <=? lenN mids) = true) by lia. rewrite E3.
  assert (E4 : ((64 + n - 1) / 64 <? lenN mids) = true) by lia. rewrite E4.
  rewrite Hnth. rewrite (bind_exec _ _ _ _ _ Hfree). reflexivity.
Qed.

Lemma resize_small_shrink_run : forall s id e mids ms s2 n s',
  nthN (dirs s) id = Some e -> d_type e = TStream ->
  0 < d_len e -> d_len e < MINI_STREAM_CUTOFF -> d_start e <> END_OF_CHAIN ->
  0 < n -> n < d_len e ->
  chain_ids_of (minifat s) (d_start e) = Ok mids ->
  (64 + n - 1) / 64 < lenN mids -> nthN mids ((64 + n - 1) / 64 - 1) = Some ms ->
  free_mini_chain_after ms s = (s2, Ok tt) ->
  hd END_OF_CHAIN mids = d_start e ->
  update_entry id (d_start e) n s2 = (s', Ok tt) ->
  resize id n s = (s', Ok tt).
Proof.
  intros s id e mids ms s2 n s' He Ht Hpos Hcut Hst Hpos' Hlt Hch Hk Hnth Hfree Hhd Hu.
  apply (resize_small_run s id e mids mids s2 s2 0 n s' He Ht Hpos Hcut Hst Hpos' ltac:(lia) Hch).
  - apply (mchain_set_len_shrink s mids n ms s2 Hpos' ltac:(lia) Hk Hnth Hfree).
  - unfold zero_fill_mchain. assert (E : (d_len e <? n) = false) by lia. rewrite E. reflexivity.
  - exact Hhd.
  - exact Hu.
Qed.

(* ================================================================== *)
(* 5. item 1 (C02): persistence                                        *)
(* ================================================================== *)

Lemma split_at_nth : forall (l : list N) k x, 0 < k -> nthN l (k - 1) = Some x ->
  l = takeN (k - 1) l ++ x :: dropN k l /\ takeN k l = takeN (k - 1) l ++ [x].
Proof.
  intros l k x Hk Hn.
  pose proof (takeN_snoc_nth _ l (k - 1) x Hn) as E. replace (k - 1 + 1) with k in E by lia.
  split; [|exact E].
  rewrite <- (ChainProofs.takeN_dropN_id _ l k) at 1. rewrite E, <- app_assoc. reflexivity.
Qed.

Lemma resize_small_shrink_full : forall s r rids mfids dids id e mids V n,
  CohData' s -> SD s r rids mfids dids ->
  small_at s id e rids mids V -> 0 < n -> n < d_len e -> (64 + n - 1) / 64 < lenN mids ->
  exists ms s' r',
    nthN mids ((64 + n - 1) / 64 - 1) = Some ms /\
    resize id n s = (s', Ok tt) /\ CohData' s' /\ SD s' r' rids mfids dids /\
    small_at s' id (set_start_len e (d_start e) n) rids (takeN ((64 + n - 1) / 64) mids) (takeN n V) /\
    SA.others_kept s s' id /\
    nsect s' = nsect s /\ free s' = free s /\ fat s' = fat s /\ difat s' = difat s /\ ver s' = ver s /\
    lenN (dirs s') = lenN (dirs s) /\
    (forall j, j <> ROOT_STREAM_ID -> j <> id -> nthN (dirs s') j = nthN (dirs s) j) /\
    lenN (minifat s') <= lenN (minifat s) /\
    lenN (mfree s) + (lenN mids - (64 + n - 1) / 64) + lenN (minifat s') <= lenN (mfree s') + lenN (minifat s) /\
    (forall j ej m, j <> id -> nthN (dirs s) j = Some ej -> SA.small_entry ej ->
       chain_ids_of (minifat s) (d_start ej) = Ok m -> chain_ids_of (minifat s') (d_start ej) = Ok m) /\
    (forall y w, ~ In y (ms :: dropN ((64 + n - 1) / 64) mids) -> nthN (minifat s) y = Some w ->
       w <> FREE_SECTOR -> nthN (minifat s') y = Some w) /\
    (forall y w, nthN (minifat s') y = Some w -> w <> FREE_SECTOR ->
       ~ In y (dropN ((64 + n - 1) / 64) mids) /\
       ((y = ms /\ w = END_OF_CHAIN) \/ (y <> ms /\ nthN (minifat s) y = Some w))).
Proof.
  intros s r rids mfids dids id e mids V n HCD HSD Hsm Hpos' Hlt Hk.
  set (k := (64 + n - 1) / 64) in *.
  pose proof HCD as [HC _ HF Hax]. pose proof HSD as [SW Hmdj].
  pose proof (SA.sw_m _ _ _ _ _ _ SW) as W.
  destruct (small_at_start _ _ _ _ _ _ Hsm) as (Hne & Hst & Hk0).
  pose proof (SA.small_at_entry _ _ _ _ _ _ Hsm) as Hse.
  pose proof Hsm as (Hnth & Ht & Hcut & Hpos & Hch & Hgm & Hle & HV).
  assert (Hk1 : 0 < k) by (apply msectors_pos; exact Hpos').
  assert (Hkb : n <= 64 * k /\ 64 * k < n + 64) by (unfold k; lia).
  destruct (nthN_lt_Some _ mids (k - 1) ltac:(lia)) as [ms Hms].
  destruct (split_at_nth mids k ms Hk1 Hms) as [Esplit Ekept].
  set (kept0 := takeN (k - 1) mids) in *. set (tail := dropN k mids) in *.
  assert (Htl : tail <> []).
  { intro E. assert (lenN tail = 0) by (rewrite E; reflexivity).
    unfold tail in H. rewrite ChainProofs.lenN_dropN in H. lia. }
  assert (Hch' : chain_ids_of (minifat s) (d_start e) = Ok (kept0 ++ ms :: tail)) by (rewrite <- Esplit; exact Hch).
  destruct (shrink_release s r rids mfids dids id e kept0 ms tail HCD HSD Hnth Hse Hch' Htl)
    as (s2 & r2 & Efree & HX2 & He2 & Ho1 & FM & Pk & Hun & Hle2 & Dj2 & Ld2 & Hcnt & Hrb & Hkc & Fwd & Bwd).
  pose proof HX2 as (HC2 & _ & SW2 & _).
  pose proof (SA.sw_m _ _ _ _ _ _ SW2) as W2.
  pose proof FM as (G1 & G2 & G3 & G4 & G5 & G6 & G7 & G8 & _).
  set (kept := kept0 ++ [ms]) in *.
  assert (Hlk : lenN kept = k).
  { rewrite <- Ekept. rewrite ChainProofs.lenN_takeN. lia. }
  assert (Hhdk : hd END_OF_CHAIN kept = d_start e) by (symmetry; exact (SA.path_hd _ _ _ Pk)).
  assert (Hhdm : hd END_OF_CHAIN mids = d_start e).
  { symmetry. exact (SA.path_hd _ _ _ (WalkProofs.chain_ids_path _ _ _ Hch)). }
  destruct (SA.finish_small s2 id e r2 rids mfids dids kept n W2 He2 Ht ltac:(rewrite Hhdk; exact Pk))
    as (s' & Eu & Hsm' & W' & M); [exact Hpos'|lia|lia|].
  rewrite Hhdk in Eu, Hsm'.
  assert (Hinm : forall x, In x kept -> In x mids).
  { intros x Hx. rewrite Esplit. unfold kept in Hx. apply in_app_or in Hx. apply in_or_app.
    destruct Hx as [Hx|[<-|[]]]; [left; exact Hx|right; left; reflexivity]. }
  assert (Hmids2 : forall j ej m, j <> id -> nthN (dirs s2) j = Some ej -> SA.small_entry ej ->
            chain_ids_of (minifat s2) (d_start ej) = Ok m -> forall x, In x kept -> ~ In x m).
  { intros j ej m Hj Hej Hsj Hcm x Hx Hxm.
    assert (Hjr : j <> ROOT_STREAM_ID).
    { intros ->. rewrite (SA.mw_root _ _ _ _ _ W2) in Hej. injection Hej as <-.
      exact (SA.mw_rtype _ _ _ _ _ W2 (proj1 Hsj)). }
    rewrite (Dj2 j Hjr) in Hej.
    destruct (SA.sw_small _ _ _ _ _ _ SW j ej (SA.noX_not _) Hej Hsj) as (m0 & Hcm0 & _).
    pose proof (Hkc j ej m0 Hj Hej Hsj Hcm0) as Hcm2. assert (m0 = m) by congruence. subst m0.
    exact (SA.sw_disj _ _ _ _ _ _ SW id j e ej mids m (SA.noX_not _) (SA.noX_not _) ltac:(congruence)
             Hnth Hse Hch Hej Hsj Hcm0 x (Hinm x Hx) Hxm). }
  assert (Hsm'' : small_at s' id (set_start_len e (d_start e) n) rids (kept ++ [])
                    (takeN n (mchain_content s2 rids kept))) by (rewrite app_nil_r; exact Hsm').
  assert (M' : SA.mframe s2 s' id rids mfids dids (kept ++ [])) by (rewrite app_nil_r; exact M).
  destruct (SA.after_opX s2 s' r2 r2 rids mfids dids (SA.Xid id) id _ kept [] _ SW2
              ltac:(intros j Hj; exact Hj) W' Hsm'' ltac:(intros x []) Hmids2 M') as [SW' Ho2].
  pose proof M as (Msh & Mlen & Mdirs & _ & _ & _ & _).
  pose proof Msh as (S1 & S2 & _ & _ & S5 & S6 & S7 & _).
  destruct (small_finish_X s2 s2 s' r2 r2 rids mfids dids id e [] (d_start e) n HX2
              (CohX_MiniOK _ _ _ _ _ _ HX2) He2 Ht eq_refl eq_refl eq_refl eq_refl)
    as (HCD' & Hv' & Hmf' & Hd').
  { intros y _ Hy _. exact Hy. }
  { intros x []. }
  { exact Hun. }
  { apply (CodecProofs.wf_start (ver s) e). apply (ch_dir_wf s HC). eapply nthN_In. exact Hnth. }
  { exact Hpos'. }
  { lia. }
  { exact Eu. }
  { exact SW'. }
  { exact Mdirs. }
  assert (R : resize id n s = (s', Ok tt)).
  { exact (resize_small_shrink_run s id e mids ms s2 n s' Hnth Ht Hpos Hcut Hne Hpos' Hlt Hch Hk Hms
             Efree Hhdm Eu). }
  (* the content *)
  assert (HVn : takeN n (mchain_content s2 rids kept) = takeN n V).
  { assert (Hc2 : mchain_content s2 rids kept = mchain_content s rids kept).
    { apply SA.mchain_content_ext. intros m0 _. apply SA.mini_bytes_ext. exact Hrb. }
    rewrite Hc2, HV.
    assert (Em : mids = kept ++ tail) by (unfold kept; rewrite <- app_cons_snoc; exact Esplit).
    replace (mchain_content s rids mids) with (mchain_content s rids kept ++ mchain_content s rids tail)
      by (rewrite <- SA.mchain_content_app, <- Em; reflexivity).
    rewrite takeN_takeN by lia.
    assert (Hgk : good_mchain s rids kept).
    { destruct Hgm as (g1 & g2 & g3 & g4). split; [exact g1|]. split; [exact g2|]. split.
      - rewrite Em in g3. exact (NoDup_app_l _ _ _ g3).
      - rewrite Forall_forall in *. intros x Hx. apply g4. exact (Hinm x Hx). }
    pose proof (good_mchain_len _ _ _ Hgk) as HL.
    rewrite ChainProofs.takeN_app_le by (rewrite HL, Hlk; unfold byte in *; lia). reflexivity. }
  exists ms, s', r2.
  split; [exact Hms|]. split; [exact R|]. split; [exact HCD'|]. split; [split; [exact SW'|exact Hmdj]|].
  split.
  { rewrite Ekept. fold kept. exact (small_at_V_eq _ _ _ _ _ _ _ Hsm' HVn). }
  split; [exact (SA.others_kept_trans _ _ _ _ Ho1 Ho2)|].
  split; [congruence|]. split; [congruence|]. split; [congruence|]. split; [congruence|].
  split; [congruence|].
  split; [congruence|].
  split; [intros j Hjr Hj; rewrite (Mdirs j Hjr Hj); exact (Dj2 j Hjr)|].
  split; [rewrite Hmf'; exact Hle2|].
  split.
  { assert (Hmfr' : mfree s' = mfree s2).
    { destruct (update_entry_spec s2 id e dids (d_start e) n) as (s'' & Hu & Hs'' & _).
      { exact He2. } { exact (SA.mw_names _ _ _ _ _ W2 id e He2). } { apply W2. } { apply W2. }
      { pose proof (SA.mw_dcap _ _ _ _ _ W2). pose proof (nthN_Some_lt _ _ _ _ He2).
        unfold DIR_ENTRY_LEN in *. lia. }
      assert (s'' = s') by congruence. subst s''. rewrite Hs''. reflexivity. }
    rewrite Hmf', Hmfr'. unfold tail in Hcnt. rewrite ChainProofs.lenN_dropN in Hcnt. exact Hcnt. }
  split; [intros j ej m Hj Hej Hsj Hcm; rewrite Hmf'; exact (Hkc j ej m Hj Hej Hsj Hcm)|].
  split; [intros y w Hy Hcy Hw; rewrite Hmf'; exact (Fwd y w Hy Hcy Hw)|].
  intros y w Hy Hw. rewrite Hmf' in Hy. exact (Bwd y w Hy Hw).
Qed.

Lemma msectors_mono : forall a b, a <= b -> SA.msectors a <= SA.msectors b.
Proof. intros a b H. unfold SA.msectors. apply N.div_le_mono; lia. Qed.

(* what the hypotheses of the main theorems give *)
Lemma shrink_premises : forall s r rids mfids dids id V n,
  SA.MWf_at s r rids mfids dids -> small_content s id V ->
  SA.msectors n < SA.msectors (lenN V) ->
  exists e mids, small_at s id e rids mids V /\ n < d_len e /\ (64 + n - 1) / 64 < lenN mids.
Proof.
  intros s r rids mfids dids id V n W Hsc Hms.
  destruct (SA.small_content_at _ _ _ _ _ _ _ W Hsc) as (e & mids & Hsm).
  pose proof (small_at_lenV _ _ _ _ _ _ Hsm) as HlenV.
  pose proof Hsm as (_ & _ & _ & _ & _ & _ & Hle & _).
  exists e, mids. split; [exact Hsm|]. rewrite SA.msectors_ceil. rewrite HlenV in Hms.
  split.
  - destruct (N.lt_ge_cases n (d_len e)) as [H|H]; [exact H|].
    pose proof (msectors_mono _ _ H). lia.
  - unfold SA.msectors in *. lia.
Qed.

(* ---- item 1: a small stream is cut back to a shorter non-zero length that
        needs fewer mini sectors; the kept chain is the prefix of the old one,
        its last cell is terminated, the cut-off tail is released (FREE on disk
        and in the cache, pushed on the mini free list), trailing FREE cells
        are trimmed and the root length follows ---- *)
Theorem resize_small_shrink_cohdata' : forall s id V n,
  CohData' s -> small_content s id V ->
  0 < n -> SA.msectors n < SA.msectors (lenN V) ->
  exists s',
    resize id n s = (s', Ok tt) /\ CohData' s' /\
    (forall strict, open_model strict (concat_img (img s')) = Ok (reopened s')) /\
    small_content s' id (takeN n V) /\ small_content (reopened s') id (takeN n V) /\
    mini_sectors s' id (SA.msectors n) /\
    SA.others_kept s s' id /\ nsect s' = nsect s /\ free s' = free s /\ fat s' = fat s /\
    lenN (minifat s') <= lenN (minifat s) /\
    (TreePart s -> TreePart s').
Proof.
  intros s id V n HCD Hsc Hpos' Hms.
  pose proof HCD as [HC (r & rids & mfids & dids & HSD) _ _].
  pose proof (SA.sw_m _ _ _ _ _ _ (proj1 HSD)) as W.
  destruct (shrink_premises s r rids mfids dids id V n W Hsc Hms) as (e & mids & Hsm & Hlt & Hk).
  destruct (resize_small_shrink_full s r rids mfids dids id e mids V n HCD HSD Hsm Hpos' Hlt Hk)
    as (ms & s' & r' & _ & R & HCD' & _ & Hsm' & Hoth & Hns & Hfr & Hfat & _ & Hv & _ & _ & Hlm & _).
  pose proof Hsm as (Hnth & Ht & _).
  assert (Hsc' : small_content s' id (takeN n V)) by (eexists _, rids, _; exact Hsm').
  exists s'. split; [exact R|]. split; [exact HCD'|]. split; [exact (cohdata'_reopens s' HCD')|].
  split; [exact Hsc'|].
  split; [exact (small_content_same_store s' (reopened s') (same_store_reopened s') _ _ Hsc')|].
  split.
  { pose proof (small_at_mini_sectors _ _ _ _ _ _ Hsm') as Hmsec.
    rewrite ChainProofs.lenN_takeN in Hmsec. rewrite <- SA.msectors_ceil.
    replace (N.min ((64 + n - 1) / 64) (lenN mids)) with ((64 + n - 1) / 64) in Hmsec by lia. exact Hmsec. }
  split; [exact Hoth|]. split; [exact Hns|]. split; [exact Hfr|]. split; [exact Hfat|].
  split; [exact Hlm|].
  intro HTP. apply (TreePart_DF s s' id HTP (cd_coh s' HCD') Hv).
  - pose proof (framesR_resize id n s) as D. rewrite R in D. exact D.
  - intros e0 He0 _. assert (e0 = e) by congruence. subst e0. exact Ht.
Qed.

(* ================================================================== *)
(* 6. item 2 (C03): the ownership invariant                            *)
(* ================================================================== *)

Theorem resize_small_shrink_dinv : forall s id V n,
  CohData' s -> DInv s -> FreeAll s -> small_content s id V ->
  0 < n -> SA.msectors n < SA.msectors (lenN V) ->
  exists s', resize id n s = (s', Ok tt) /\ CohData' s' /\ DInv s' /\ FreeAll s'.
Proof.
  intros s id V n HCD HD HFA Hsc Hpos' Hms.
  pose proof HCD as [HC (r & rids & mfids & dids & HSD) _ _].
  pose proof (SA.sw_m _ _ _ _ _ _ (proj1 HSD)) as W.
  destruct (shrink_premises s r rids mfids dids id V n W Hsc Hms) as (e & mids & Hsm & Hlt & Hk).
  destruct (resize_small_shrink_full s r rids mfids dids id e mids V n HCD HSD Hsm Hpos' Hlt Hk)
    as (ms & s' & r' & Hmsn & R & HCD' & HSD' & Hsm' & Hoth & Hns & Hfr & Hfat & Hdf & Hv & Hld & Hdirs &
        Hlm & _ & Hkc & Fwd & Bwd).
  set (k := (64 + n - 1) / 64) in *.
  pose proof (SA.small_at_entry _ _ _ _ _ _ Hsm) as Hse.
  pose proof Hsm as (Hnth & Ht & Hcut & Hpos & Hch & Hgm & Hle & HV).
  pose proof Hsm' as (Hnth' & _ & _ & _ & Hch' & _ & _ & _).
  cbn [set_start_len d_start d_len] in Hch'.
  pose proof (cd_coh s' HCD') as HC'.
  assert (Hsl : slen s' = slen s) by (unfold slen; rewrite Hv; reflexivity).
  assert (Hk1 : 0 < k) by (apply msectors_pos; exact Hpos').
  destruct (split_at_nth mids k ms Hk1 Hmsn) as [Esplit Ekept].
  (* the entries of the other streams are the same *)
  assert (Hback : forall j x, nthN (dirs s') j = Some x -> d_type x = TStream -> j <> id ->
            nthN (dirs s) j = Some x).
  { intros j x Hx Htx Hj. rewrite <- (Hdirs j); [exact Hx| |exact Hj].
    intros ->. rewrite (coherent_root_type s' x HC' Hx) in Htx. discriminate Htx. }
  assert (Hfwd : forall j x, nthN (dirs s) j = Some x -> d_type x = TStream -> j <> id ->
            nthN (dirs s') j = Some x).
  { intros j x Hx Htx Hj. rewrite (Hdirs j); [exact Hx| |exact Hj].
    intros ->. rewrite (coherent_root_type s x HC Hx) in Htx. discriminate Htx. }
  assert (Hmfwd : forall i x, i <> id -> mowns s i x -> mowns s' i x).
  { intros i x Hi (a & l & Ha & Hta & Hpa & Hba & Hl & Hx).
    exists a, l. split; [exact (Hfwd i a Ha Hta Hi)|]. split; [exact Hta|]. split; [exact Hpa|].
    split; [exact Hba|]. split; [|exact Hx].
    exact (Hkc i a l Hi Ha (conj Hta (conj Hpa Hba)) Hl). }
  assert (Hown' : forall x, In x (takeN k mids) -> mowns s' id x).
  { intros x Hx. exists (set_start_len e (d_start e) n), (takeN k mids).
    cbn [set_start_len d_type d_len d_start]. split; [exact Hnth'|]. split; [exact Ht|].
    split; [exact Hpos'|]. split; [lia|]. split; [exact Hch'|exact Hx]. }
  split with s'. split; [exact R|]. split; [exact HCD'|].
  split; [|exact (freeall_same_tables s s' Hfat Hfr HFA)].
  apply (cohdata'_exact_dinv s' HCD'). constructor.
  - intros i x Hx Htx Hl. destruct (N.eq_dec i id) as [->|Hi].
    + rewrite Hnth' in Hx. injection Hx as <-. cbn [set_start_len d_len] in Hl. lia.
    + exact (di_empty s HD i x (Hback i x Hx Htx Hi) Htx Hl).
  - intros i x ids Hx Htx Hb Hl. rewrite Hfat in Hl. rewrite Hsl. destruct (N.eq_dec i id) as [->|Hi].
    + rewrite Hnth' in Hx. injection Hx as <-. cbn [set_start_len d_len] in Hb. lia.
    + destruct (di_big s HD i x (Hback i x Hx Htx Hi) Htx Hb) as (l & Hl' & Hll). congruence.
  - intros i x ids Hx Htx Hp Hb Hl. destruct (N.eq_dec i id) as [->|Hi].
    + rewrite Hnth' in Hx. injection Hx as <-. cbn [set_start_len d_len d_start] in *.
      assert (ids = takeN k mids) by congruence. subst ids.
      rewrite ceil64, ChainProofs.lenN_takeN. fold k. lia.
    + pose proof (Hback i x Hx Htx Hi) as Hx0.
      destruct (di_small s HD i x Hx0 Htx Hp Hb) as (l & Hl' & Hll).
      pose proof (Hkc i x l Hi Hx0 (conj Htx (conj Hp Hb)) Hl'). congruence.
  - intros x v Hvx Hnf. rewrite Hfat in Hvx. destruct (di_fat_cover s HD x v Hvx Hnf) as (o & Ho).
    exists o. destruct o as [| | | |j].
    + cbn [fowns] in *. rewrite Hdf. exact Ho.
    + apply (br_dir s' r' rids mfids dids HSD'). apply (br_dir s r rids mfids dids HSD). exact Ho.
    + apply (br_mfat s' r' rids mfids dids HSD'). apply (br_mfat s r rids mfids dids HSD). exact Ho.
    + apply (br_root s' r' rids mfids dids HSD'). apply (br_root s r rids mfids dids HSD). exact Ho.
    + destruct Ho as (a & l & Ha & Hta & Hba & Hl & Hxl).
      assert (Hj : j <> id) by (intros ->; assert (a = e) by congruence; subst a; lia).
      exists a, l. rewrite Hfat. auto using Hfwd.
  - intros y w Hy Hw. destruct (Bwd y w Hy Hw) as [Hnt [[-> _]|[Hne Hy0]]].
    + exists id. apply Hown'. rewrite Ekept. apply in_or_app. right. left. reflexivity.
    + destruct (di_mini_cover s HD y w Hy0 Hw) as (i & Hi).
      destruct (N.eq_dec i id) as [->|Hii]; [|exists i; exact (Hmfwd i y Hii Hi)].
      exists id. apply Hown'.
      destruct Hi as (a & l & Ha & _ & _ & _ & Hl & Hyl).
      assert (a = e) by congruence. subst a. assert (l = mids) by congruence. subst l.
      rewrite <- (ChainProofs.takeN_dropN_id _ mids k) in Hyl. apply in_app_or in Hyl.
      destruct Hyl as [Hyl|Hyl]; [exact Hyl|contradiction].
Qed.

(* ================================================================== *)
(* 7. the twelfth resize case, in the vocabularies of the other files  *)
(* ================================================================== *)

(* small-to-small resize to fewer (but not zero) mini sectors *)
Definition ShrinkCase (s : cstate) (id n : N) : Prop :=
  exists V, small_content s id V /\ 0 < n /\ SA.msectors n < SA.msectors (lenN V).

(* DataPersist2.ResizeCase (eleven disjuncts) with the missing one *)
Definition ResizeCase12 (s : cstate) (id n : N) : Prop := ResizeCase s id n \/ ShrinkCase s id n.

Theorem resize_shrink_cohtree : forall s id n,
  CohTree s -> ShrinkCase s id n ->
  exists s', resize id n s = (s', Ok tt) /\ CohTree s' /\
    (forall strict, open_model strict (concat_img (img s')) = Ok (reopened s')).
Proof.
  intros s id n [HCD HTP] (V & Hsc & Hn & Hms).
  destruct (resize_small_shrink_cohdata' s id V n HCD Hsc Hn Hms)
    as (s' & R & C & Hop & _ & _ & _ & _ & _ & _ & _ & _ & T).
  exists s'. split; [exact R|]. split; [split; [exact C|exact (T HTP)]|exact Hop].
Qed.

Theorem resize_case12_cohtree : forall s id n,
  CohTree s -> ResizeCase12 s id n ->
  exists s', resize id n s = (s', Ok tt) /\ CohTree s' /\
    (forall strict, open_model strict (concat_img (img s')) = Ok (reopened s')).
Proof.
  intros s id n HT [H|H]; [exact (resize_case_cohtree s id n HT H)|exact (resize_shrink_cohtree s id n HT H)].
Qed.

(* ---- item 2, with the directory part: W2 = CohTree + DInv + FreeAll + Tidy,
        hence the independent checker accepts the image ---- *)
Theorem resize_shrink_w2 : forall s id n,
  W2 s -> ShrinkCase s id n -> exists s', resize id n s = (s', Ok tt) /\ W2 s'.
Proof.
  intros s id n HW (V & Hsc & Hn & Hms).
  pose proof HW as (HT & HD & HFA & HTd). pose proof (proj1 HT) as HCD.
  destruct (resize_shrink_cohtree s id n HT (ex_intro _ V (conj Hsc (conj Hn Hms)))) as (s0 & R0 & HT0 & _).
  destruct (resize_small_shrink_dinv s id V n HCD HD HFA Hsc Hn Hms) as (s' & R & _ & HD' & HFA').
  assert (s0 = s') by congruence. subst s0.
  destruct Hsc as (e & l & m & (He & Ht & _)).
  exists s'. split; [exact R|]. apply (w2_after s s' id e HW He Ht HT0 HD' HFA').
  pose proof (framesR_resize id n s) as D. rewrite R in D. exact D.
Qed.

Theorem resize_case12_w2 : forall s id n,
  W2 s -> ResizeCase12 s id n -> exists s', resize id n s = (s', Ok tt) /\ W2 s'.
Proof.
  intros s id n HW [H|H]; [exact (resize_case_w2 s id n HW H)|exact (resize_shrink_w2 s id n HW H)].
Qed.

Corollary resize_shrink_image_wf : forall s id n,
  W2 s -> ShrinkCase s id n ->
  exists s', resize id n s = (s', Ok tt) /\ wf_check (concat_img (img s')) = 0.
Proof.
  intros s id n HW H. destruct (resize_shrink_w2 s id n HW H) as (s' & R & HW').
  exists s'. split; [exact R|exact (w2_image_wf s' HW')].
Qed.

(* ================================================================== *)
(* 8. item 3 (C07): every other stream keeps its content               *)
(* ================================================================== *)

Theorem resize_shrink_frames_d : forall s id n,
  CohData' s -> ShrinkCase s id n ->
  exists s', resize id n s = (s', Ok tt) /\ call_frames s s' id (fun V => resized V n).
Proof.
  intros s id n HCD (V & Hsc & Hn & Hms).
  destruct (resize_small_shrink_cohdata' s id V n HCD Hsc Hn Hms)
    as (s' & R & C & _ & S' & _ & _ & K & _ & _ & _ & _ & T).
  exists s'. split; [exact R|].
  split; [exact C|]. split; [exact T|]. split; [exact K|]. split.
  - apply others_kept_content; [exact HCD|exact K|].
    pose proof (framesR_resize id n s) as D. rewrite R in D. exact D.
  - intros V0 HV0.
    rewrite (stream_content_fun s id V0 V HV0 (or_intror (or_introl Hsc))).
    rewrite resized_cut; [right; left; exact S'|].
    destruct (N.le_gt_cases n (lenN V)) as [H|H]; [exact H|].
    pose proof (msectors_mono (lenN V) n ltac:(lia)). lia.
Qed.

Theorem resize_shrink_frames : forall s id n,
  CohTree s -> ShrinkCase s id n ->
  exists s', resize id n s = (s', Ok tt) /\ CohTree s' /\
    SA.others_kept s s' id /\ others_content_kept s s' id /\
    (forall V, stream_content s id V -> stream_content s' id (resized V n)).
Proof.
  intros s id n [HCD HTP] HR.
  destruct (resize_shrink_frames_d s id n HCD HR) as (s' & R & C & T & K & O & X).
  exists s'. split; [exact R|]. split; [split; [exact C|exact (T HTP)]|]. auto.
Qed.

Theorem resize_case12_frames : forall s id n,
  CohTree s -> ResizeCase12 s id n ->
  exists s', resize id n s = (s', Ok tt) /\ CohTree s' /\
    SA.others_kept s s' id /\ others_content_kept s s' id /\
    (forall V, stream_content s id V -> stream_content s' id (resized V n)).
Proof.
  intros s id n HT [H|H]; [exact (resize_case_frames s id n HT H)|exact (resize_shrink_frames s id n HT H)].
Qed.

(* the handle level: OHSetLen whose write-back is any of the six write cases
   and whose resize is any of the TWELVE resize cases *)
Definition covered_setlen12 (n : N) (h : handle) (s : cstate) : Prop :=
  cov_flush2 h s /\ (n <> h_total h -> ResizeCase12 (fst (flush_changes' h s)) (h_id h) n).

Theorem setlen_frames_full12 : forall f now i n h V f' r,
  nthN (hs f) i = Some (Some h) ->
  CohTree (cs f) -> covered_setlen12 n h (cs f) -> stream_content (cs f) (h_id h) V ->
  n <> h_total h ->
  step f now (OHSetLen i n) = (f', r) ->
  r = Ok VUnit /\
  (exists h', nthN (hs f') i = Some (Some h') /\ h_dirty h' = false /\ h_id h' = h_id h /\ h_total h' = n) /\
  CohTree (cs f') /\
  stream_content (cs f') (h_id h) (resized (VecSpec.absV h V) n) /\
  others_content_kept (cs f) (cs f') (h_id h) /\
  (forall strict, open_model strict (concat_img (img (cs f'))) = Ok (reopened (cs f'))) /\
  stream_content (reopened (cs f')) (h_id h) (resized (VecSpec.absV h V) n).
Proof.
  intros f now i n h V f' r Hh HG [HC1 HC2] HV Hn H.
  specialize (HC2 Hn).
  destruct (flush_changes_full h (cs f) V HG HC1 HV) as (s1 & h1 & E & Hd & Hid & _ & _ & HG1 & HV1 & _ & O1).
  rewrite E in HC2. cbn [fst] in HC2.
  destruct (resize_case12_frames s1 (h_id h) n HG1 HC2) as (s2 & R & HG2 & _ & O2 & X).
  cbn [step] in H. unfold with_handle in H. rewrite Hh in H.
  unfold h_set_len', h_set_len in H. apply N.eqb_neq in Hn. rewrite Hn in H.
  unfold flush_changes' in E. cbv zeta in H. rewrite E in H. rewrite Hid, R in H.
  injection H as <- <-. cbn [cs hs rmap rbind].
  split; [reflexivity|]. split.
  - eexists. split; [apply nthN_updN_same; eapply nthN_Some_lt; exact Hh|].
    cbn [h_dirty h_id h_total]. split; [exact Hd|]. split; reflexivity.
  - split; [exact HG2|]. split; [exact (X _ HV1)|]. split; [eapply ock_trans; eassumption|].
    split; [exact (cohdata'_reopens _ (proj1 HG2))|apply stream_content_reopened; exact (X _ HV1)].
Qed.

(* ================================================================== *)
(* 9. item 5: non-vacuity, on states built by running the model        *)
(* ================================================================== *)

(* the full invariant of a state reached by one resize, by the boolean checkers
   (used for the growths that extend the container, which no theorem covers) *)
Lemma w2_checked_resize : forall s0 s id n e,
  W2 s0 -> resize id n s0 = (s, Ok tt) -> nthN (dirs s0) id = Some e -> d_type e = TStream ->
  ver s = ver s0 -> cohdata'_b s = true -> dinv_b s = true -> freeall_b s = true -> W2 s.
Proof.
  intros s0 s id n e HW R He Ht Hv Hc Hd Hf.
  pose proof (cohdata'_b_sound s Hc) as HCD.
  pose proof (framesR_resize id n s0) as D. rewrite R in D.
  apply (w2_after s0 s id e HW He Ht); [|apply dinv_b_sound; exact Hd|apply freeall_b_sound; exact Hf|exact D].
  split; [exact HCD|].
  apply (TreePart_DF s0 s id (proj2 (proj1 HW)) (cd_coh s HCD) Hv D).
  intros e0 He0 _. assert (e0 = e) by congruence. subst e0. exact Ht.
Qed.

Lemma cohdata'_swf : forall s, CohData' s -> SA.SWf s.
Proof. intros s [_ (r & rids & mfids & dids & [SW _]) _ _]. exists r, rids, mfids, dids. exact SW. Qed.

Module ExampleShrink.
  Import HandleFrame.Example DataPersist.Example DataPersist2.Example1 DataPersist2.Example3.
  Ltac arith := vm_compute; first [reflexivity | discriminate | (intro; discriminate)].

  (* ---- A. HandleFrame's file fA: "/a" (directory slot 1) = 100 bytes in mini
          sectors 0, 1; "/b" (slot 2) = 5000 bytes in sectors 4..13.  "/a" is
          grown to 1000 bytes by the model (16 mini sectors; the container gets
          a second sector), then cut ---- *)
  Definition V1000 : list byte := bytes100 ++ repeatN 0 900.
  Definition sA : cstate := Eval vm_compute in fst (resize 1 1000 (cs fA)).
  Lemma sA_run : resize 1 1000 (cs fA) = (sA, Ok tt). Proof. vm_compute. reflexivity. Qed.
  Lemma sA_w2 : W2 sA.
  Proof.
    eapply (w2_checked_resize (cs fA) sA 1 1000 _ DataWf2.Example7.fA_w2 sA_run); try arith.
  Qed.
  Lemma sA_cd' : CohData' sA. Proof. exact (proj1 (proj1 sA_w2)). Qed.
  Lemma sA_small : small_content sA 1 V1000.
  Proof. apply SA.small_bytes_sound; [exact (cohdata'_swf sA sA_cd')|vm_compute; reflexivity]. Qed.
  Lemma sA_big : big_content sA 2 Vb.
  Proof. apply SA.big_bytes_sound; [exact (cohdata'_swf sA sA_cd')|vm_compute; reflexivity]. Qed.

  (* 1000 -> 900 bytes: 16 -> 15 mini sectors; the released mini sector 15 is
     the last cell of the MiniFAT: trimmed, the root length goes 1024 -> 960 *)
  Example cut_1000_900 :
    exists s',
      resize 1 900 sA = (s', Ok tt) /\ W2 s' /\
      (forall strict, open_model strict (concat_img (img s')) = Ok (reopened s')) /\
      wf_check (concat_img (img s')) = 0 /\
      small_content (reopened s') 1 (takeN 900 V1000) /\ mini_sectors s' 1 15 /\
      big_content s' 2 Vb /\ nsect s' = nsect sA /\ free s' = free sA /\ fat s' = fat sA.
  Proof.
    assert (HS : ShrinkCase sA 1 900) by (exists V1000; split; [exact sA_small|split; arith]).
    destruct (resize_shrink_w2 sA 1 900 sA_w2 HS) as (s' & R & HW').
    destruct (resize_small_shrink_cohdata' sA 1 V1000 900 sA_cd' sA_small ltac:(arith) ltac:(arith))
      as (s0 & R0 & C & O & _ & B & K & (_ & Hbg & _) & Hn & Hf & Hfat & _).
    assert (s0 = s') by congruence. subst s0.
    exists s'. split; [exact R|]. split; [exact HW'|]. split; [exact O|].
    split; [exact (w2_image_wf s' HW')|]. split; [exact B|].
    split; [replace 15 with (SA.msectors 900) by arith; exact K|].
    split; [apply Hbg; [discriminate|exact sA_big]|]. auto.
  Qed.

  Example cut_1000_900_evaluated :
    let s' := fst (resize 1 900 sA) in
    snd (resize 1 900 sA) = Ok tt /\
    open_model true (concat_img (img s')) = Ok (reopened s') /\
    open_model false (concat_img (img s')) = Ok (reopened s') /\
    wf_check (concat_img (img s')) = 0 /\
    cohdata'_b s' = true /\ dinv_b s' = true /\ freeall_b s' = true /\
    minifat sA = [1; 2; 3; 4; 5; 6; 7; 8; 9; 10; 11; 12; 13; 14; 15; END_OF_CHAIN] /\
    minifat s' = [1; 2; 3; 4; 5; 6; 7; 8; 9; 10; 11; 12; 13; 14; END_OF_CHAIN] /\
    mfree s' = [] /\
    option_map d_len (nthN (dirs sA) 0) = Some 1024 /\
    option_map d_len (nthN (dirs s') 0) = Some 960 /\
    snd (read_data 1 0 2000 (reopened s')) = Ok (takeN 900 V1000) /\
    snd (read_data 2 0 6000 (reopened s')) = Ok Vb.
  Proof. repeat split; vm_compute; reflexivity. Qed.

  (* 1000 -> 100 bytes: 16 -> 2 mini sectors; fourteen cells released, all trimmed *)
  Example cut_1000_100 :
    exists s',
      resize 1 100 sA = (s', Ok tt) /\ W2 s' /\
      (forall strict, open_model strict (concat_img (img s')) = Ok (reopened s')) /\
      wf_check (concat_img (img s')) = 0 /\
      small_content (reopened s') 1 bytes100 /\ mini_sectors s' 1 2 /\ big_content s' 2 Vb.
  Proof.
    assert (HS : ShrinkCase sA 1 100) by (exists V1000; split; [exact sA_small|split; arith]).
    destruct (resize_shrink_w2 sA 1 100 sA_w2 HS) as (s' & R & HW').
    destruct (resize_small_shrink_cohdata' sA 1 V1000 100 sA_cd' sA_small ltac:(arith) ltac:(arith))
      as (s0 & R0 & C & O & _ & B & K & (_ & Hbg & _) & _).
    assert (s0 = s') by congruence. subst s0.
    exists s'. split; [exact R|]. split; [exact HW'|]. split; [exact O|].
    split; [exact (w2_image_wf s' HW')|].
    split; [replace bytes100 with (takeN 100 V1000) by arith; exact B|].
    split; [replace 2 with (SA.msectors 100) by arith; exact K|].
    apply Hbg; [discriminate|exact sA_big].
  Qed.

  Example cut_1000_100_evaluated :
    let s' := fst (resize 1 100 sA) in
    snd (resize 1 100 sA) = Ok tt /\
    open_model true (concat_img (img s')) = Ok (reopened s') /\
    wf_check (concat_img (img s')) = 0 /\
    cohdata'_b s' = true /\ dinv_b s' = true /\ freeall_b s' = true /\
    minifat s' = [1; END_OF_CHAIN] /\ mfree s' = [] /\
    option_map d_len (nthN (dirs s') 0) = Some 128 /\
    nsect s' = 15 /\ free s' = [] /\
    snd (read_data 1 0 2000 (reopened s')) = Ok bytes100.
  Proof. repeat split; vm_compute; reflexivity. Qed.

  (* ---- B. "/a" grown to 3000 bytes (47 mini sectors, six container sectors),
          cut to 65 bytes (2 mini sectors) ---- *)
  Definition V3000 : list byte := bytes100 ++ repeatN 0 2900.
  Definition sD : cstate := Eval vm_compute in fst (resize 1 3000 (cs fA)).
  Lemma sD_run : resize 1 3000 (cs fA) = (sD, Ok tt). Proof. vm_compute. reflexivity. Qed.
  Lemma sD_w2 : W2 sD.
  Proof.
    eapply (w2_checked_resize (cs fA) sD 1 3000 _ DataWf2.Example7.fA_w2 sD_run); try arith.
  Qed.
  Lemma sD_cd' : CohData' sD. Proof. exact (proj1 (proj1 sD_w2)). Qed.
  Lemma sD_small : small_content sD 1 V3000.
  Proof. apply SA.small_bytes_sound; [exact (cohdata'_swf sD sD_cd')|vm_compute; reflexivity]. Qed.

  Example cut_3000_65 :
    exists s',
      resize 1 65 sD = (s', Ok tt) /\ W2 s' /\
      (forall strict, open_model strict (concat_img (img s')) = Ok (reopened s')) /\
      wf_check (concat_img (img s')) = 0 /\
      small_content (reopened s') 1 (takeN 65 bytes100) /\ mini_sectors s' 1 2 /\
      nsect s' = nsect sD /\ free s' = free sD /\ fat s' = fat sD.
  Proof.
    assert (HS : ShrinkCase sD 1 65) by (exists V3000; split; [exact sD_small|split; arith]).
    destruct (resize_shrink_w2 sD 1 65 sD_w2 HS) as (s' & R & HW').
    destruct (resize_small_shrink_cohdata' sD 1 V3000 65 sD_cd' sD_small ltac:(arith) ltac:(arith))
      as (s0 & R0 & C & O & _ & B & K & _ & Hn & Hf & Hfat & _).
    assert (s0 = s') by congruence. subst s0.
    exists s'. split; [exact R|]. split; [exact HW'|]. split; [exact O|].
    split; [exact (w2_image_wf s' HW')|].
    split; [replace (takeN 65 bytes100) with (takeN 65 V3000) by arith; exact B|].
    split; [replace 2 with (SA.msectors 65) by arith; exact K|]. auto.
  Qed.

  Example cut_3000_65_evaluated :
    let s' := fst (resize 1 65 sD) in
    snd (resize 1 65 sD) = Ok tt /\
    open_model true (concat_img (img s')) = Ok (reopened s') /\
    wf_check (concat_img (img s')) = 0 /\
    cohdata'_b s' = true /\ dinv_b s' = true /\ freeall_b s' = true /\
    lenN (minifat sD) = 47 /\ minifat s' = [1; END_OF_CHAIN] /\ mfree s' = [] /\
    option_map d_len (nthN (dirs sD) 0) = Some 3008 /\
    option_map d_len (nthN (dirs s') 0) = Some 128 /\
    nsect s' = 19 /\ free s' = [] /\
    snd (read_data 1 0 2000 (reopened s')) = Ok (takeN 65 bytes100).
  Proof. repeat split; vm_compute; reflexivity. Qed.

  (* ---- C. DataPersist2's fH: "/c" (slot 3) = 70 bytes in mini sectors 2, 3;
          mini sectors 0, 1 on the mini free list.  "/c" is grown to 300 bytes
          (chain 2 -> 3 -> 1 -> 0 -> 4: two from the free list, one appended)
          and cut to 130 bytes: mini sector 0 is released in the MIDDLE of the
          table (it goes to the free list, nothing to trim there), mini sector
          4 at the END (trimmed; the root length goes 320 -> 256) ---- *)
  Definition V300 : list byte := repeatN 7 70 ++ repeatN 0 230.
  Definition sE : cstate := Eval vm_compute in fst (resize 3 300 (cs fH)).
  Lemma sE_run : resize 3 300 (cs fH) = (sE, Ok tt). Proof. vm_compute. reflexivity. Qed.
  Lemma sE_w2 : W2 sE.
  Proof.
    eapply (w2_checked_resize (cs fH) sE 3 300 _ DataWf2.Example12.fH_w2 sE_run); try arith.
  Qed.
  Lemma sE_cd' : CohData' sE. Proof. exact (proj1 (proj1 sE_w2)). Qed.
  Lemma sE_small : small_content sE 3 V300.
  Proof. apply SA.small_bytes_sound; [exact (cohdata'_swf sE sE_cd')|vm_compute; reflexivity]. Qed.

  Example cut_300_130 :
    exists s',
      resize 3 130 sE = (s', Ok tt) /\ W2 s' /\
      (forall strict, open_model strict (concat_img (img s')) = Ok (reopened s')) /\
      wf_check (concat_img (img s')) = 0 /\
      small_content (reopened s') 3 (takeN 130 V300) /\ mini_sectors s' 3 3.
  Proof.
    assert (HS : ShrinkCase sE 3 130) by (exists V300; split; [exact sE_small|split; arith]).
    destruct (resize_shrink_w2 sE 3 130 sE_w2 HS) as (s' & R & HW').
    destruct (resize_small_shrink_cohdata' sE 3 V300 130 sE_cd' sE_small ltac:(arith) ltac:(arith))
      as (s0 & R0 & C & O & _ & B & K & _).
    assert (s0 = s') by congruence. subst s0.
    exists s'. split; [exact R|]. split; [exact HW'|]. split; [exact O|].
    split; [exact (w2_image_wf s' HW')|]. split; [exact B|].
    replace 3 with (SA.msectors 130) by arith. exact K.
  Qed.

  Example cut_300_130_evaluated :
    let s' := fst (resize 3 130 sE) in
    snd (resize 3 130 sE) = Ok tt /\
    open_model true (concat_img (img s')) = Ok (reopened s') /\
    wf_check (concat_img (img s')) = 0 /\
    cohdata'_b s' = true /\ dinv_b s' = true /\ freeall_b s' = true /\
    minifat sE = [4; 0; 3; 1; END_OF_CHAIN] /\ mfree sE = [] /\
    minifat s' = [FREE_SECTOR; END_OF_CHAIN; 3; 1] /\ mfree s' = [0] /\
    mfree (reopened s') = [0] /\
    option_map d_len (nthN (dirs sE) 0) = Some 320 /\
    option_map d_len (nthN (dirs s') 0) = Some 256 /\
    snd (read_data 3 0 2000 (reopened s')) = Ok (takeN 130 V300).
  Proof. repeat split; vm_compute; reflexivity. Qed.
End ExampleShrink.

(* ================================================================== *)
(* 10. item 4 (C15): a small stream that keeps its content is grown    *)
(*     and cut back, repeatedly                                        *)
(* ================================================================== *)

Notation mini_chains := DataCycle.mini_chains.
Notation grow_cut := DataCycle.grow_cut.
Notation iter_cycle := DataCycle.iter_cycle.

(* the cut, with the account of the mini level: the mini free list gains the
   released mini sectors and loses at most as many entries as the MiniFAT is
   trimmed by; so the mini level keeps room for what it released WITHOUT
   touching the FAT (free list first, then re-appending inside the capacity
   the container and the MiniFAT chain retain) *)
Theorem resize_small_shrink_room : forall s id V n k rids mfids,
  CohData' s -> small_content s id V -> mini_sectors s id k -> mini_chains s rids mfids ->
  0 < n -> SA.msectors n < SA.msectors (lenN V) ->
  exists s',
    resize id n s = (s', Ok tt) /\ CohData' s' /\
    (forall strict, open_model strict (concat_img (img s')) = Ok (reopened s')) /\
    small_content s' id (takeN n V) /\ mini_sectors s' id (SA.msectors n) /\
    free s' = free s /\ nsect s' = nsect s /\ fat s' = fat s /\ ver s' = ver s /\
    lenN (minifat s') <= lenN (minifat s) /\
    lenN (mfree s) + (k - SA.msectors n) + lenN (minifat s') <= lenN (mfree s') + lenN (minifat s) /\
    mini_chains s' rids mfids /\ SA.mroom s' rids mfids (k - SA.msectors n) /\
    SA.others_kept s s' id /\ (TreePart s -> TreePart s').
Proof.
  intros s id V n k rids0 mfids0 HCD Hsc Hk Hmc Hpos' Hms.
  pose proof HCD as [HC (r & rids & mfids & dids & HSD) _ _].
  pose proof (SA.sw_m _ _ _ _ _ _ (proj1 HSD)) as W.
  destruct (DataCycle.mini_chains_witness _ _ _ _ _ _ _ W Hmc) as [-> ->].
  destruct (shrink_premises s r rids mfids dids id V n W Hsc Hms) as (e & mids & Hsm & Hlt & Hkk).
  pose proof (mini_sectors_small_at _ _ _ _ _ _ _ Hsm Hk) as Ek. subst k.
  destruct (resize_small_shrink_full s r rids mfids dids id e mids V n HCD HSD Hsm Hpos' Hlt Hkk)
    as (ms & s' & r' & _ & R & HCD' & HSD' & Hsm' & Hoth & Hns & Hfr & Hfat & _ & Hv & _ & _ & Hlm & Hcnt & _).
  pose proof Hsm as (Hnth & Ht & _).
  pose proof (SA.sw_m _ _ _ _ _ _ (proj1 HSD')) as W'.
  rewrite <- SA.msectors_ceil.
  assert (Hsl : slen s' = slen s) by (unfold slen; rewrite Hv; reflexivity).
  exists s'. split; [exact R|]. split; [exact HCD'|]. split; [exact (cohdata'_reopens s' HCD')|].
  split; [eexists _, rids, _; exact Hsm'|].
  split.
  { pose proof (small_at_mini_sectors _ _ _ _ _ _ Hsm') as Hmsec.
    rewrite ChainProofs.lenN_takeN in Hmsec.
    replace (N.min ((64 + n - 1) / 64) (lenN mids)) with ((64 + n - 1) / 64) in Hmsec by lia. exact Hmsec. }
  split; [exact Hfr|]. split; [exact Hns|]. split; [exact Hfat|]. split; [exact Hv|].
  split; [exact Hlm|]. split; [exact Hcnt|].
  split; [exact (DataCycle.mini_chains_of_wf _ _ _ _ _ W')|].
  split.
  { unfold SA.mroom. rewrite Hsl, Hv.
    set (d := lenN mids - (64 + n - 1) / 64) in *.
    destruct (N.le_gt_cases d (lenN (mfree s'))) as [Hle1|Hgt1]; [left; exact Hle1|right].
    pose proof (SA.mw_mcap _ _ _ _ _ W). pose proof (SA.mw_rcap _ _ _ _ _ W).
    pose proof (SA.mw_bound _ _ _ _ _ W). pose proof (DataCycle.root_len_fits s r rids mfids dids HC W).
    assert (lenN (minifat s') + (d - lenN (mfree s')) <= lenN (minifat s)) by lia.
    repeat split; nia. }
  split; [exact Hoth|].
  intro HTP. apply (TreePart_DF s s' id HTP (cd_coh s' HCD') Hv).
  - pose proof (framesR_resize id n s) as D. rewrite R in D. exact D.
  - intros e0 He0 _. assert (e0 = e) by congruence. subst e0. exact Ht.
Qed.

(* the state before a repetition: stream [id] holds the n0 bytes [V] in exactly
   msectors n0 mini sectors; the mini level has room for the msectors n1 -
   msectors n0 additional mini sectors WITHOUT touching the FAT; the capacity
   of the container stays that far below what the root entry can record *)
Record SmallKept (s : cstate) (id n0 n1 : N) (V : list byte) (rids mfids : list N) : Prop := mkSK {
  sk_coh : CohData' s;
  sk_content : small_content s id V;
  sk_len : lenN V = n0;
  sk_sectors : mini_sectors s id (SA.msectors n0);
  sk_pos : 0 < n0;
  sk_more : SA.msectors n0 < SA.msectors n1;
  sk_cut : n1 < MINI_STREAM_CUTOFF;
  sk_chains : mini_chains s rids mfids;
  sk_room : SA.mroom s rids mfids (SA.msectors n1 - SA.msectors n0);
  sk_cap : slen s * lenN rids + 64 * (SA.msectors n1 - SA.msectors n0) <= stream_len_mask (ver s)
}.

Lemma msectors_lt_inv : forall a b, SA.msectors a < SA.msectors b -> a < b.
Proof.
  intros a b H. destruct (N.lt_ge_cases a b) as [L|L]; [exact L|].
  pose proof (msectors_mono b a L). lia.
Qed.

Lemma grown_len : forall (V : list byte) n, lenN V <= n -> lenN (takeN n V ++ repeatN 0 (n - lenN V)) = n.
Proof.
  intros V n H. rewrite lenN_app, ChainProofs.lenN_takeN, ChainProofs.lenN_repeatN. lia.
Qed.

Lemma grown_cut_back : forall (V : list byte) n,
  lenN V <= n -> takeN (lenN V) (takeN n V ++ repeatN 0 (n - lenN V)) = V.
Proof.
  intros V n H. rewrite (ChainProofs.takeN_all _ V n H). apply CodecProofs.takeN_app_exact.
Qed.

(* one repetition: growth inside the capacity, then the cut; nothing moves at
   the FAT level, the content is back, the state is ready for the next one *)
Theorem small_grow_cut_once : forall s id n0 n1 V rids mfids,
  SmallKept s id n0 n1 V rids mfids ->
  exists sm s',
    resize id n1 s = (sm, Ok tt) /\ resize id n0 sm = (s', Ok tt) /\
    grow_cut id n1 n0 s = (s', Ok tt) /\
    CohData' sm /\ small_content sm id (takeN n1 V ++ repeatN 0 (n1 - n0)) /\
    mini_sectors sm id (SA.msectors n1) /\ nsect sm = nsect s /\ free sm = free s /\ fat sm = fat s /\
    (forall strict, open_model strict (concat_img (img sm)) = Ok (reopened sm)) /\
    SmallKept s' id n0 n1 V rids mfids /\
    nsect s' = nsect s /\ free s' = free s /\ fat s' = fat s /\ ver s' = ver s /\
    (forall strict, open_model strict (concat_img (img s')) = Ok (reopened s')) /\
    SA.others_kept s s' id /\ (TreePart s -> TreePart s').
Proof.
  intros s id n0 n1 V rids0 mfids0 [HCD Hsc Hlen Hk Hpos Hmore Hcut Hmc Hroom Hcap].
  pose proof HCD as [HC (r & rids & mfids & dids & SW & Hmdj) HF Hax].
  pose proof (SA.sw_m _ _ _ _ _ _ SW) as W.
  destruct (DataCycle.mini_chains_witness _ _ _ _ _ _ _ W Hmc) as [-> ->].
  pose proof (msectors_lt_inv _ _ Hmore) as Hn01.
  assert (Hpos1 : 0 < n1) by lia.
  assert (Hmr : SA.mini_room s (SA.msectors n1 - SA.msectors n0)) by (exists r, rids, mfids, dids; split; assumption).
  assert (Hrf : RootFits s (SA.msectors n1 - SA.msectors n0)).
  { unfold RootFits. pose proof (SA.mw_rcap _ _ _ _ _ W). lia. }
  destruct (resize_small_alloc_cohdata' s id V (SA.msectors n0) n1 HCD Hsc Hk Hpos1 Hcut ltac:(lia) Hmr Hrf)
    as (sm & R1 & HCDm & Hopm & _ & Hscm & Hkm & Hom & HTm).
  destruct (SA.small_content_at _ _ _ _ _ _ _ W Hsc) as (e & mids & Hsm).
  pose proof (mini_sectors_small_at _ _ _ _ _ _ _ Hsm Hk) as Ek.
  destruct (SA.resize_small_alloc_full s id e r rids mfids dids mids V n1 W Hsm Hpos1)
    as (sm' & news & r' & Hrun & _ & _ & Wm & _ & M).
  { rewrite SA.msectors_ceil, Ek. lia. }
  { exact Hcut. }
  { rewrite SA.msectors_ceil, Ek. exact Hroom. }
  assert (sm' = sm) by congruence. subst sm'.
  pose proof (proj1 M) as (A1 & A2 & _ & _ & A5 & A6 & _).
  pose proof (DataCycle.mini_chains_of_wf _ _ _ _ _ Wm) as Hmcm.
  rewrite Hlen in Hscm.
  set (Vm := takeN n1 V ++ repeatN 0 (n1 - n0)) in *.
  assert (HlenVm : lenN Vm = n1) by (unfold Vm; rewrite <- Hlen; apply grown_len; lia).
  destruct (resize_small_shrink_room sm id Vm n0 (SA.msectors n1) rids mfids HCDm Hscm Hkm Hmcm Hpos
              ltac:(rewrite HlenVm; exact Hmore))
    as (s' & R2 & HCD' & Hop' & Hsc' & Hk' & Fr' & N' & Ft' & V' & _ & _ & Hmc' & Hroom' & Ho' & HT').
  assert (HV' : takeN n0 Vm = V).
  { unfold Vm. rewrite <- Hlen. apply grown_cut_back. lia. }
  rewrite HV' in Hsc'.
  assert (Hv : ver s' = ver s) by congruence.
  assert (Hsl : slen s' = slen s) by (unfold slen; rewrite Hv; reflexivity).
  exists sm, s'. split; [exact R1|]. split; [exact R2|].
  split; [unfold DataCycle.grow_cut; rewrite (DataCycle.bind_ok _ _ _ _ _ _ _ R1); exact R2|].
  split; [exact HCDm|]. split; [exact Hscm|]. split; [exact Hkm|].
  split; [exact A1|]. split; [exact A6|]. split; [exact A5|]. split; [exact Hopm|].
  split.
  { constructor; try assumption. rewrite Hsl, Hv. exact Hcap. }
  split; [congruence|]. split; [congruence|]. split; [congruence|]. split; [exact Hv|].
  split; [exact Hop'|].
  split; [exact (SA.others_kept_trans _ _ _ _ Hom Ho')|]. intro HT. exact (HT' (HTm HT)).
Qed.

Theorem small_grow_cut_iter : forall j s id n0 n1 V rids mfids,
  SmallKept s id n0 n1 V rids mfids ->
  exists sj,
    iter_cycle (grow_cut id n1 n0) j s = (sj, Ok tt) /\
    SmallKept sj id n0 n1 V rids mfids /\
    nsect sj = nsect s /\ free sj = free s /\ fat sj = fat s /\ ver sj = ver s /\
    (forall strict, open_model strict (concat_img (img sj)) = Ok (reopened sj)) /\
    SA.others_kept s sj id /\ (TreePart s -> TreePart sj).
Proof.
  induction j as [|j IH]; intros s id n0 n1 V rids mfids HR.
  - exists s. split; [reflexivity|]. split; [exact HR|]. repeat (split; [reflexivity|]).
    split; [exact (cohdata'_reopens s (sk_coh _ _ _ _ _ _ _ HR))|].
    split; [apply SA.others_kept_refl|]. intro H; exact H.
  - destruct (IH s id n0 n1 V rids mfids HR) as (sj & Ej & HRj & Nj & Frj & Ftj & Vj & _ & Hoj & HTj).
    destruct (small_grow_cut_once sj id n0 n1 V rids mfids HRj)
      as (sm & s' & _ & _ & Ec & _ & _ & _ & _ & _ & _ & _ & HR' & N' & Fr' & Ft' & V' & Hop' & Ho' & HT').
    exists s'. split; [exact (DataCycle.iter_cycle_snoc _ _ _ _ _ Ej Ec)|].
    split; [exact HR'|]. split; [congruence|]. split; [congruence|]. split; [congruence|].
    split; [congruence|]. split; [exact Hop'|].
    split; [exact (SA.others_kept_trans _ _ _ _ Hoj Ho')|]. intro HT. exact (HT' (HTj HT)).
Qed.

(* ---- over whole repetitions: repetition 1 is arbitrary (its growth may have
        extended the container or the MiniFAT chain, i.e. grown the file); only
        its middle state [m] is constrained.  Repetitions 2, 3, ... succeed,
        change neither the sector count nor the free stack nor the FAT, give
        the content back each time; every state reopens to itself ---- *)
Theorem small_grow_cut_stable : forall s m id n0 n1 Vm rids mfids,
  resize id n1 s = (m, Ok tt) ->
  CohData' m -> small_content m id Vm -> lenN Vm = n1 -> mini_sectors m id (SA.msectors n1) ->
  0 < n0 -> SA.msectors n0 < SA.msectors n1 -> n1 < MINI_STREAM_CUTOFF ->
  mini_chains m rids mfids ->
  slen m * lenN rids + 64 * (SA.msectors n1 - SA.msectors n0) <= stream_len_mask (ver m) ->
  exists s1,
    iter_cycle (grow_cut id n1 n0) 1 s = (s1, Ok tt) /\
    nsect s1 = nsect m /\ free s1 = free m /\ fat s1 = fat m /\ SA.others_kept m s1 id /\
    forall j, exists sj,
      iter_cycle (grow_cut id n1 n0) (S j) s = (sj, Ok tt) /\
      nsect sj = nsect s1 /\ free sj = free s1 /\ fat sj = fat s1 /\
      mini_chains sj rids mfids /\
      CohData' sj /\ small_content sj id (takeN n0 Vm) /\ mini_sectors sj id (SA.msectors n0) /\
      (forall strict, open_model strict (concat_img (img sj)) = Ok (reopened sj)) /\
      SA.others_kept s1 sj id.
Proof.
  intros s m id n0 n1 Vm rids mfids R0 HCD Hsc HlenVm Hk Hpos Hmore Hcut Hmc Hcap.
  destruct (resize_small_shrink_room m id Vm n0 (SA.msectors n1) rids mfids HCD Hsc Hk Hmc Hpos
              ltac:(rewrite HlenVm; exact Hmore))
    as (s1 & R1 & HCD1 & Hop1 & Hsc1 & Hk1 & Fr1 & N1 & Ft1 & V1 & _ & _ & Hmc1 & Hroom1 & Ho1 & HT1).
  pose proof (msectors_lt_inv _ _ Hmore) as Hn01.
  assert (Hsl : slen s1 = slen m) by (unfold slen; rewrite V1; reflexivity).
  assert (HR : SmallKept s1 id n0 n1 (takeN n0 Vm) rids mfids).
  { constructor; try assumption.
    - rewrite ChainProofs.lenN_takeN. lia.
    - rewrite Hsl, V1. exact Hcap. }
  assert (Ec : grow_cut id n1 n0 s = (s1, Ok tt)).
  { unfold DataCycle.grow_cut. rewrite (DataCycle.bind_ok _ _ _ _ _ _ _ R0). exact R1. }
  exists s1. split; [rewrite (DataCycle.iter_cycle_S _ 0 s s1 Ec); reflexivity|].
  split; [exact N1|]. split; [exact Fr1|]. split; [exact Ft1|]. split; [exact Ho1|].
  intro j. destruct (small_grow_cut_iter j s1 id n0 n1 _ rids mfids HR)
    as (sj & Ej & HRj & Nj & Frj & Ftj & Vj & Hopj & Hoj & _).
  exists sj. split; [rewrite (DataCycle.iter_cycle_S _ j s s1 Ec); exact Ej|].
  split; [exact Nj|]. split; [exact Frj|]. split; [exact Ftj|].
  split; [exact (sk_chains _ _ _ _ _ _ _ HRj)|]. split; [exact (sk_coh _ _ _ _ _ _ _ HRj)|].
  split; [exact (sk_content _ _ _ _ _ _ _ HRj)|]. split; [exact (sk_sectors _ _ _ _ _ _ _ HRj)|].
  split; [exact Hopj|exact Hoj].
Qed.

Module ExampleGrowCutSmall.
  Import HandleFrame.Example DataPersist.Example DataPersist2.Example1 DataPersist2.Example3 ExampleShrink.
  Ltac arith := vm_compute; first [reflexivity | discriminate | (intro; discriminate)].

  (* ---- fH: "/c" (slot 3) = 70 bytes in mini sectors 2, 3; mini free list
          [0; 1]; the container is sector 3, the MiniFAT chain sector 2.
          "/c" is grown to 300 bytes (5 mini sectors: two from the free list,
          one appended within the container) and cut back to 70 bytes, any
          number of times: the file never grows, not even the first time ---- *)
  Lemma fH_kept : SmallKept (cs fH) 3 70 300 (repeatN 7 70) [3] [2].
  Proof.
    constructor.
    - exact fH_cd'.
    - apply SA.small_bytes_sound; [exact (cohdata'_swf _ fH_cd')|vm_compute; reflexivity].
    - arith.
    - eexists _, [2; 3]. repeat split; vm_compute; reflexivity.
    - arith.
    - arith.
    - arith.
    - exact (proj1 DataCycle.ExampleSmall.fH_mini).
    - right. repeat split; arith.
    - arith.
  Qed.

  Example grow_cut_70_300 : forall j, exists sj,
    iter_cycle (grow_cut 3 300 70) j (cs fH) = (sj, Ok tt) /\
    nsect sj = 15 /\ free sj = [] /\ fat sj = fat (cs fH) /\
    CohData' sj /\ small_content sj 3 (repeatN 7 70) /\
    (forall strict, open_model strict (concat_img (img sj)) = Ok (reopened sj)) /\
    SA.others_kept (cs fH) sj 3.
  Proof.
    intro j. destruct (small_grow_cut_iter j (cs fH) 3 70 300 _ _ _ fH_kept)
      as (sj & Ej & HRj & Nj & Frj & Ftj & _ & Hopj & Hoj & _).
    exists sj. split; [exact Ej|]. split; [rewrite Nj; arith|]. split; [rewrite Frj; arith|].
    split; [exact Ftj|]. split; [exact (sk_coh _ _ _ _ _ _ _ HRj)|].
    split; [exact (sk_content _ _ _ _ _ _ _ HRj)|]. split; [exact Hopj|exact Hoj].
  Qed.

  Definition summary (c : M unit) (j : nat) (s : cstate) :=
    let r := iter_cycle c j s in
    (snd r, nsect (fst r), free (fst r), minifat (fst r), mfree (fst r),
     option_map d_len (nthN (dirs (fst r)) 0), wf_check (concat_img (img (fst r)))).

  (* the mini free list gets the two reused mini sectors back in alternating
     order; the appended one is trimmed each time *)
  Example grow_cut_70_300_evaluated :
    summary (grow_cut 3 300 70) 1 (cs fH) = (Ok tt, 15, [], [FREE_SECTOR; FREE_SECTOR; 3; END_OF_CHAIN], [1; 0], Some 256, 0) /\
    summary (grow_cut 3 300 70) 2 (cs fH) = (Ok tt, 15, [], [FREE_SECTOR; FREE_SECTOR; 3; END_OF_CHAIN], [0; 1], Some 256, 0) /\
    summary (grow_cut 3 300 70) 3 (cs fH) = (Ok tt, 15, [], [FREE_SECTOR; FREE_SECTOR; 3; END_OF_CHAIN], [1; 0], Some 256, 0).
  Proof. repeat split; vm_compute; reflexivity. Qed.

  (* ---- fA: "/a" (slot 1) = 100 bytes; the cycle 100 -> 1000 -> 100.  The FIRST
          growth extends the container (14 -> 15 sectors: no theorem covers it,
          its middle state sA is checked by evaluation); from then on every
          repetition re-appends the 14 mini sectors inside the retained
          container: nsect, free stack and FAT never change again ---- *)
  Example grow_cut_100_1000 :
    exists s1,
      iter_cycle (grow_cut 1 1000 100) 1 (cs fA) = (s1, Ok tt) /\ nsect s1 = 15 /\ free s1 = [] /\
      forall j, exists sj,
        iter_cycle (grow_cut 1 1000 100) (S j) (cs fA) = (sj, Ok tt) /\
        nsect sj = 15 /\ free sj = [] /\ fat sj = fat s1 /\
        CohData' sj /\ small_content sj 1 bytes100 /\
        (forall strict, open_model strict (concat_img (img sj)) = Ok (reopened sj)).
  Proof.
    assert (Hmc : mini_chains sA [3; 14] [2]).
    { split; [eexists; split; vm_compute; reflexivity|vm_compute; reflexivity]. }
    assert (Hk : mini_sectors sA 1 (SA.msectors 1000)).
    { eexists _, _. repeat split; vm_compute; reflexivity. }
    destruct (small_grow_cut_stable (cs fA) sA 1 100 1000 V1000 [3; 14] [2] sA_run sA_cd' sA_small
                ltac:(arith) Hk ltac:(arith) ltac:(arith) ltac:(arith) Hmc ltac:(arith))
      as (s1 & E1 & N1 & F1 & _ & _ & Hall).
    exists s1. split; [exact E1|]. split; [rewrite N1; arith|]. split; [rewrite F1; arith|].
    intro j. destruct (Hall j) as (sj & Ej & Nj & Frj & Ftj & _ & HCDj & Hscj & _ & Hopj & _).
    exists sj. split; [exact Ej|]. split; [rewrite Nj, N1; arith|]. split; [rewrite Frj, F1; arith|].
    split; [exact Ftj|]. split; [exact HCDj|].
    split; [replace bytes100 with (takeN 100 V1000) by arith; exact Hscj|exact Hopj].
  Qed.

  Example grow_cut_100_1000_evaluated :
    nsect (cs fA) = 14 /\
    summary (grow_cut 1 1000 100) 1 (cs fA) = (Ok tt, 15, [], [1; END_OF_CHAIN], [], Some 128, 0) /\
    summary (grow_cut 1 1000 100) 2 (cs fA) = (Ok tt, 15, [], [1; END_OF_CHAIN], [], Some 128, 0) /\
    summary (grow_cut 1 1000 100) 3 (cs fA) = (Ok tt, 15, [], [1; END_OF_CHAIN], [], Some 128, 0).
  Proof. repeat split; vm_compute; reflexivity. Qed.
End ExampleGrowCutSmall.

(* ================================================================== *)
(* the statements                                                      *)
(* ================================================================== *)
Check cut_cell_coh.
Check shrink_release.
Check resize_small_shrink_full.
Check resize_small_shrink_cohdata'.
Check resize_small_shrink_dinv.
Check resize_shrink_cohtree.
Check resize_case12_cohtree.
Check resize_shrink_w2.
Check resize_case12_w2.
Check resize_shrink_image_wf.
Check resize_shrink_frames_d.
Check resize_shrink_frames.
Check resize_case12_frames.
Check setlen_frames_full12.
Check resize_small_shrink_room.
Check small_grow_cut_once.
Check small_grow_cut_iter.
Check small_grow_cut_stable.

Print Assumptions resize_small_shrink_cohdata'.
Print Assumptions resize_small_shrink_dinv.
Print Assumptions resize_case12_cohtree.
Print Assumptions resize_case12_w2.
Print Assumptions resize_shrink_image_wf.
Print Assumptions resize_case12_frames.
Print Assumptions setlen_frames_full12.
Print Assumptions resize_small_shrink_room.
Print Assumptions small_grow_cut_iter.
Print Assumptions small_grow_cut_stable.
Print Assumptions ExampleShrink.cut_1000_900.
Print Assumptions ExampleShrink.cut_1000_900_evaluated.
Print Assumptions ExampleShrink.cut_1000_100.
Print Assumptions ExampleShrink.cut_3000_65.
Print Assumptions ExampleShrink.cut_300_130.
Print Assumptions ExampleShrink.cut_300_130_evaluated.
Print Assumptions ExampleGrowCutSmall.grow_cut_70_300.
Print Assumptions ExampleGrowCutSmall.grow_cut_100_1000.
