(* C06 — a stream handle behaves as a seekable byte array for every buffer size.
   Pinned statements only; contract and invariant in spec/VecSpec.v, proofs in
   proofs/HandleProofs.v.  The handle model (model/Handle.v) is written over an
   abstract store; [store_contract] is what the layer below must provide (it is
   instantiated and its hypotheses discharged for a byte-vector store and for a
   faulty store in HandleProofs.v; for the real store, Store.v, it is tied to the
   code by the lockstep correspondence and the fault enumerations). *)
From Cfb.model Require Import Base Handle.
From Cfb.spec Require Import VecSpec.
From Cfb.proofs Require Import HandleProofs.
From Cfb.gen Require Import Consts.
Open Scope N_scope.

Section C06.
Variable St : Type.
Variable read_data : N -> N -> N -> St -> St * res (list byte).
Variable write_data : N -> N -> list byte -> St -> St * res unit.
Variable resize : N -> N -> St -> St * res unit.
Variable stream_len : N -> St -> St * res N.
Variable content : St -> N -> list byte -> Prop.
Hypothesis SC : store_contract St read_data write_data resize stream_len content.

(* every sequence of read / fill_buf / consume / write / seek / set_len / flush /
   len / position, for every configured maximum buffer size m (including those
   below the minimum), refines the Read/Write/BufRead/Seek contract over a byte
   vector with a cursor, and never panics *)
Theorem C06_every_history_refines_the_vector_contract :
  forall (m id : N) (s : St) (V : list byte) (ops : list hop),
    content s id V ->
    exists h : handle,
      handle_new St stream_len id m s = (s, Ok h) /\
      b_max (h_buf h) = N.max m STREAM_BUFFER_MIN /\
      (forall (s' : St) (h' : handle) (outs : list hout),
         run_ops St read_data write_data resize stream_len h ops s = (s', (h', outs)) ->
         exists (A' : list byte) (c' : N),
           cruns (V, 0) ops outs (A', c') /\
           handle_rel St content id s' h' (A', c') /\ h_total h' = lenN A' /\ ~ In OBad outs).
Proof. exact (handle_trace_refines St read_data write_data resize stream_len content SC). Qed.

(* seeking outside [0, len] — for any argument, however extreme — is InvalidInput
   and changes neither the handle nor the store *)
Theorem C06_out_of_range_seek_refused :
  forall (s : St) (V : list byte) (h : handle) (w : whence) (z : Z),
    HInv V h -> seek_spec (lenN (absV h V)) (h_position h) w z = None ->
    h_seek St write_data stream_len h w z s = (s, (h, Err EInvalidInput)).
Proof. exact (h_seek_invalid St write_data stream_len). Qed.

(* the looping forms give the same bytes and the same final state for every
   buffer size and buffer state *)
Theorem C06_buffer_size_irrelevant_read_to_end :
  forall (id1 id2 k1 k2 : N) (f1 f2 : nat) (s1 s2 : St) (h1 h2 : handle) (A : list byte)
         (c : N) (s1' s2' : St) (h1' h2' : handle) (bs1 bs2 : list byte),
    0 < k1 -> 0 < k2 ->
    handle_rel St content id1 s1 h1 (A, c) -> handle_rel St content id2 s2 h2 (A, c) ->
    read_to_end_f St read_data write_data stream_len f1 k1 h1 [] s1 = (s1', (h1', Ok bs1)) ->
    read_to_end_f St read_data write_data stream_len f2 k2 h2 [] s2 = (s2', (h2', Ok bs2)) ->
    bs1 = bs2 /\ bs1 = dropN c A /\
    handle_rel St content id1 s1' h1' (A, N.max c (lenN A)) /\
    handle_rel St content id2 s2' h2' (A, N.max c (lenN A)).
Proof. exact (buffer_size_irrelevant_read_to_end St read_data write_data resize stream_len content SC). Qed.

Theorem C06_buffer_size_irrelevant_write_all :
  forall (id1 id2 : N) (f1 f2 : nat) (s1 s2 : St) (h1 h2 : handle) (A : list byte)
         (c : N) (bs : list byte) (s1' s2' : St) (h1' h2' : handle),
    handle_rel St content id1 s1 h1 (A, c) -> handle_rel St content id2 s2 h2 (A, c) ->
    write_all_f St write_data stream_len f1 h1 bs s1 = (s1', (h1', Ok tt)) ->
    write_all_f St write_data stream_len f2 h2 bs s2 = (s2', (h2', Ok tt)) ->
    handle_rel St content id1 s1' h1' (spliceN A c bs, c + lenN bs) /\
    handle_rel St content id2 s2' h2' (spliceN A c bs, c + lenN bs).
Proof. exact (buffer_size_irrelevant_write_all St read_data write_data resize stream_len content SC). Qed.

Theorem C06_buffer_size_irrelevant_read_exact :
  forall (id1 id2 : N) (f1 f2 : nat) (s1 s2 : St) (h1 h2 : handle) (A : list byte)
         (c n : N) (s1' s2' : St) (h1' h2' : handle) (bs1 bs2 : list byte),
    handle_rel St content id1 s1 h1 (A, c) -> handle_rel St content id2 s2 h2 (A, c) ->
    read_exact_f St read_data write_data stream_len f1 h1 n [] s1 = (s1', (h1', Ok bs1)) ->
    read_exact_f St read_data write_data stream_len f2 h2 n [] s2 = (s2', (h2', Ok bs2)) ->
    bs1 = bs2 /\ bs1 = takeN n (dropN c A) /\
    handle_rel St content id1 s1' h1' (A, c + n) /\ handle_rel St content id2 s2' h2' (A, c + n).
Proof. exact (buffer_size_irrelevant_read_exact St read_data write_data resize stream_len content SC). Qed.

(* reads before the end return at least one byte, non-empty writes accept at
   least one: the looping forms terminate *)
Theorem C06_read_progress :
  forall (s : St) (id : N) (V : list byte) (h : handle) (n : N) (s' : St) (h' : handle) (bs : list byte),
    content s id V -> h_id h = id -> HInv V h -> 0 < n -> h_position h < lenN (absV h V) ->
    h_read St read_data write_data stream_len h n s = (s', (h', Ok bs)) -> 0 < lenN bs.
Proof. exact (h_read_progress St read_data write_data resize stream_len content SC). Qed.
Theorem C06_write_progress :
  forall (s : St) (id : N) (V : list byte) (h : handle) (inp : list byte) (s' : St) (h' : handle) (k : N),
    content s id V -> h_id h = id -> HInv V h -> inp <> [] ->
    h_write St write_data stream_len h inp s = (s', (h', Ok k)) -> 0 < k.
Proof. exact (h_write_progress St read_data write_data resize stream_len content SC). Qed.
End C06.

(* len() is always current *)
Theorem C06_len_is_current : forall (V : list byte) (h : handle), HInv V h -> h_total h = lenN (absV h V).
Proof. exact len_is_abs_len. Qed.

Print Assumptions C06_every_history_refines_the_vector_contract.
Print Assumptions C06_out_of_range_seek_refused.
Print Assumptions C06_buffer_size_irrelevant_read_to_end.
Print Assumptions C06_buffer_size_irrelevant_write_all.
Print Assumptions C06_buffer_size_irrelevant_read_exact.
Print Assumptions C06_read_progress.
Print Assumptions C06_write_progress.
Print Assumptions C06_len_is_current.
