(* C03 — every produced image is a well-formed MS-CFB file by an independent checker.  Statements are printed by Check below and compared with C03.expected.  PARTIAL: the checker wf_check (spec/WfImage.v, written from MS-CFB and the property text, sharing no mechanics with the model or the library) is run on the IMPLEMENTATION's bytes after every operation of every generated history — that is the property's oracle applied directly to the code.  Theorems cover the base case (the created image of both versions is accepted), evaluated instances of the inductive step, non-triviality of the checker, and the parts of the invariant W that are proved: FAT cache = FAT on disk through reuse and growth, FAT/DIFAT markers maintained (FatInv/DifatOk), free list disjoint from FAT sectors and naming only FREE cells, removal blanks exactly the removed slot and keeps the sibling tree a search tree without red-red edges.  Also proved (proofs/WfPersist.v): THE PROPERTY FOR NAMESPACE HISTORIES - the checker accepts (all rules, 50 since the strengthening prompted by proofs/WfOpen.v) the image of every state satisfying the history invariant of C02 (PInv) with empty streams, no orphan FAT cells, an empty mini stream and blank slots outside the tree; those conditions hold of the fresh file and are kept by create_storage, create_new_stream, remove_storage, remove_stream and the metadata setters; hence for EVERY history of those calls and the queries from a fresh file of either version (up to 6000 calls) the image is well-formed, at every prefix.  Also proved (proofs/DataWf.v): THE STATIC THEOREM FOR FILES WITH STREAM DATA - the checker accepts (all rules, 50 since the strengthening prompted by proofs/WfOpen.v) the image of every state satisfying DBase (Coherent + well-formed entries + root) and DInv (the mini-stream container and MiniFAT chains exist and fit; every stream has start END_OF_CHAIN when empty, a FAT chain of EXACTLY ceil(len / sector) sectors at or above the cutoff, a MiniFAT chain of exactly ceil(len / 64) mini sectors below it; every non-FREE FAT cell and every non-FREE MiniFAT cell has exactly one owner) with a tidy directory; the old theorem for empty streams is a corollary; DInv is preserved by write-back and resize in the non-allocating cases, by growth of a large stream into reused and into appended sectors, and by shrinking a large stream (freed cells become FREE and lose their owner); wf_data_history / wf_data_history_meta: for every history of covered handle operations, queries and metadata setters on a file with data the image is well-formed at every prefix.  Also proved (proofs/DataWf2.v): the invariant W2 (C02's persistence invariant + DInv + 'every FREE cell is on the free stack', i.e. nothing leaked + tidy directory) is preserved, by a counting argument over the sectors of the file, by every large-stream operation (growth by reuse and append, release, truncation to zero, first growth, allocating writes), by truncation of a small stream to zero, by removal of large and of empty streams and by reopen; wf_data_history4: wf_check = 0 at every prefix of histories made of those operations and queries.  In its final form (wf_data_history_full) the theorem ranges over hist_ok2 itself - small-stream growth with mini-sector allocation, first small writes, both migrations and removal of small streams included - i.e. over every history for which C02 proves persistence.  NOT proved: what hist_ok2 excludes (creations and storages inside data histories - covered separately by wf_history and wf_data_history_meta -, growth needing a new FAT / DIFAT / container sector inside the data cases, the DIFAT-sector regime). *)
From Cfb.model Require Import Base Names DirEnt State Alloc Dir Mini Store Handle Open Cfb.
From Cfb.gen Require Import Consts.
From Cfb.spec Require Import WfImage.
From Cfb.proofs Require Import WfProofs CoherenceProofs ReuseProofs DirProofs WalkSafe ReadonlyTotal PersistProofs WfPersist DataWf DataWf2 SmallShrink HistoryRefine Progress.
Set Printing Width 110.

(* base case, version 3 *)
Theorem C03_created_image_wf_v3 : ltac:(let t := type of created_image_wf_v3 in exact t).
Proof. exact created_image_wf_v3. Qed.
Check C03_created_image_wf_v3.
Print Assumptions C03_created_image_wf_v3.

(* base case, version 4 *)
Theorem C03_created_image_wf_v4 : ltac:(let t := type of created_image_wf_v4 in exact t).
Proof. exact created_image_wf_v4. Qed.
Check C03_created_image_wf_v4.
Print Assumptions C03_created_image_wf_v4.

(* an evaluated history through every allocator path, version 3 *)
Theorem C03_history_image_wf_v3 : ltac:(let t := type of history_image_wf_v3 in exact t).
Proof. exact history_image_wf_v3. Qed.
Check C03_history_image_wf_v3.
Print Assumptions C03_history_image_wf_v3.

(* the same, version 4 *)
Theorem C03_history_image_wf_v4 : ltac:(let t := type of history_image_wf_v4 in exact t).
Proof. exact history_image_wf_v4. Qed.
Check C03_history_image_wf_v4.
Print Assumptions C03_history_image_wf_v4.

(* the checker is not trivially accepting *)
Theorem C03_checker_rejects_unmarked_fat_sector : ltac:(let t := type of checker_rejects_unmarked_fat_sector in exact t).
Proof. exact checker_rejects_unmarked_fat_sector. Qed.
Check C03_checker_rejects_unmarked_fat_sector.
Print Assumptions C03_checker_rejects_unmarked_fat_sector.

(* file length must be a whole number of sectors *)
Theorem C03_checker_rejects_truncated : ltac:(let t := type of checker_rejects_truncated in exact t).
Proof. exact checker_rejects_truncated. Qed.
Check C03_checker_rejects_truncated.
Print Assumptions C03_checker_rejects_truncated.

(* directory entries are inspected *)
Theorem C03_checker_rejects_bad_colour : ltac:(let t := type of checker_rejects_bad_colour in exact t).
Proof. exact checker_rejects_bad_colour. Qed.
Check C03_checker_rejects_bad_colour.
Print Assumptions C03_checker_rejects_bad_colour.

(* header FAT count, DIFAT and markers stay consistent when FAT / DIFAT sectors are added *)
Theorem C03_fat_cache_is_on_disk_after_growth : ltac:(let t := type of allocate_grow_coherent in exact t).
Proof. exact allocate_grow_coherent. Qed.
Check C03_fat_cache_is_on_disk_after_growth.
Print Assumptions C03_fat_cache_is_on_disk_after_growth.

(* and when free sectors are reused *)
Theorem C03_fat_cache_is_on_disk_after_reuse : ltac:(let t := type of allocate_reuse_preserves in exact t).
Proof. exact allocate_reuse_preserves. Qed.
Check C03_fat_cache_is_on_disk_after_reuse.
Print Assumptions C03_fat_cache_is_on_disk_after_reuse.

(* Safe includes: free list without duplicates, naming only FREE cells (so no sector is handed out twice) *)
Theorem C03_free_list_names_only_free_cells : ltac:(let t := type of allocate_sector_preserves in exact t).
Proof. exact allocate_sector_preserves. Qed.
Check C03_free_list_names_only_free_cells.
Print Assumptions C03_free_list_names_only_free_cells.

(* unallocated entries are blank, the children stay a search tree *)
Theorem C03_removal_blanks_the_slot_and_keeps_a_search_tree : ltac:(let t := type of remove_rep in exact t).
Proof. exact remove_rep. Qed.
Check C03_removal_blanks_the_slot_and_keeps_a_search_tree.
Print Assumptions C03_removal_blanks_the_slot_and_keeps_a_search_tree.

(* no two adjacent red nodes are introduced *)
Theorem C03_removal_creates_no_red_red : ltac:(let t := type of remove_no_red_red in exact t).
Proof. exact remove_no_red_red. Qed.
Check C03_removal_creates_no_red_red.
Print Assumptions C03_removal_creates_no_red_red.

(* every state satisfying the history invariant (with empty streams, owned FAT cells, empty mini stream, blank free slots) has an image the independent checker accepts *)
Theorem C03_invariant_states_are_well_formed : ltac:(let t := type of pinv_image_wf in exact t).
Proof. exact pinv_image_wf. Qed.
Check C03_invariant_states_are_well_formed.
Print Assumptions C03_invariant_states_are_well_formed.

(* the extra conditions are preserved by every covered operation (Ok, or refused without effect) *)
Theorem C03_invariant_is_kept_by_every_covered_call : ltac:(let t := type of step_xinv in exact t).
Proof. exact step_xinv. Qed.
Check C03_invariant_is_kept_by_every_covered_call.
Print Assumptions C03_invariant_is_kept_by_every_covered_call.

(* for EVERY history of the covered calls from a fresh file: wf_check = 0 *)
Theorem C03_images_of_namespace_histories_are_well_formed : ltac:(let t := type of wf_history in exact t).
Proof. exact wf_history. Qed.
Check C03_images_of_namespace_histories_are_well_formed.
Print Assumptions C03_images_of_namespace_histories_are_well_formed.

(* the same at every operation boundary *)
Theorem C03_well_formed_at_every_prefix : ltac:(let t := type of wf_every_prefix in exact t).
Proof. exact wf_every_prefix. Qed.
Check C03_well_formed_at_every_prefix.
Print Assumptions C03_well_formed_at_every_prefix.

(* non-vacuity: the 17-call example history of C02, V3 and V4 *)
Theorem C03_history_example_is_well_formed : ltac:(let t := type of WfExample.hist_wf in exact t).
Proof. exact WfExample.hist_wf. Qed.
Check C03_history_example_is_well_formed.
Print Assumptions C03_history_example_is_well_formed.

(* and the checker rejects that image with one byte changed *)
Theorem C03_checker_rejects_a_corrupted_example_image : ltac:(let t := type of WfExample.hist_image_broken_rejected in exact t).
Proof. exact WfExample.hist_image_broken_rejected. Qed.
Check C03_checker_rejects_a_corrupted_example_image.
Print Assumptions C03_checker_rejects_a_corrupted_example_image.

(* the same with NO hypothesis about the model's results (proofs/Progress.v) *)
Theorem C03_images_of_namespace_histories_are_well_formed_unconditionally : ltac:(let t := type of wf_history_total in exact t).
Proof. exact wf_history_total. Qed.
Check C03_images_of_namespace_histories_are_well_formed_unconditionally.
Print Assumptions C03_images_of_namespace_histories_are_well_formed_unconditionally.

(* at every operation boundary *)
Theorem C03_well_formed_at_every_prefix_unconditionally : ltac:(let t := type of wf_every_prefix_total in exact t).
Proof. exact wf_every_prefix_total. Qed.
Check C03_well_formed_at_every_prefix_unconditionally.
Print Assumptions C03_well_formed_at_every_prefix_unconditionally.

(* STATIC THEOREM WITH DATA: every state with DBase, DInv (exact chain lengths, unique owner of every non-free sector and mini sector) and a tidy directory has an image the checker accepts *)
Theorem C03_images_with_stream_data_are_well_formed : ltac:(let t := type of dinv_image_wf in exact t).
Proof. exact dinv_image_wf. Qed.
Check C03_images_with_stream_data_are_well_formed.
Print Assumptions C03_images_with_stream_data_are_well_formed.

(* the side conditions of the namespace theorem imply DInv *)
Theorem C03_empty_streams_are_a_special_case : ltac:(let t := type of empty_dinv in exact t).
Proof. exact empty_dinv. Qed.
Check C03_empty_streams_are_a_special_case.
Print Assumptions C03_empty_streams_are_a_special_case.

(* write-back within the capacity of the chain *)
Theorem C03_covered_writes_keep_the_ownership_invariant : ltac:(let t := type of covered_write_dinv in exact t).
Proof. exact covered_write_dinv. Qed.
Check C03_covered_writes_keep_the_ownership_invariant.
Print Assumptions C03_covered_writes_keep_the_ownership_invariant.

(* resize within the capacity of the chain *)
Theorem C03_covered_resizes_keep_the_ownership_invariant : ltac:(let t := type of covered_resize_dinv in exact t).
Proof. exact covered_resize_dinv. Qed.
Check C03_covered_resizes_keep_the_ownership_invariant.
Print Assumptions C03_covered_resizes_keep_the_ownership_invariant.

(* the reused sectors change owner from nobody to the stream; exact chain length *)
Theorem C03_growth_into_reused_sectors_keeps_it : ltac:(let t := type of resize_big_grow_reuse_dinv in exact t).
Proof. exact resize_big_grow_reuse_dinv. Qed.
Check C03_growth_into_reused_sectors_keeps_it.
Print Assumptions C03_growth_into_reused_sectors_keeps_it.

(* the appended sectors were beyond the table *)
Theorem C03_growth_by_appending_keeps_it : ltac:(let t := type of resize_big_grow_append_dinv in exact t).
Proof. exact resize_big_grow_append_dinv. Qed.
Check C03_growth_by_appending_keeps_it.
Print Assumptions C03_growth_by_appending_keeps_it.

(* the released sectors become FREE and lose their owner; the chain has exactly the new ceiling *)
Theorem C03_shrinking_keeps_it : ltac:(let t := type of resize_big_shrink_dinv in exact t).
Proof. exact resize_big_shrink_dinv. Qed.
Check C03_shrinking_keeps_it.
Print Assumptions C03_shrinking_keeps_it.

(* histories of covered handle operations and queries on a file with data: wf_check = 0 at every prefix *)
Theorem C03_images_of_data_histories_are_well_formed : ltac:(let t := type of wf_data_history in exact t).
Proof. exact wf_data_history. Qed.
Check C03_images_of_data_histories_are_well_formed.
Print Assumptions C03_images_of_data_histories_are_well_formed.

(* the same including set_state / set_clsid / set_created / set_modified *)
Theorem C03_images_of_data_histories_with_metadata_calls : ltac:(let t := type of wf_data_history_meta in exact t).
Proof. exact wf_data_history_meta. Qed.
Check C03_images_of_data_histories_with_metadata_calls.
Print Assumptions C03_images_of_data_histories_with_metadata_calls.

(* non-vacuity: a 100-byte and a 5000-byte stream written through handles, version 3: DBase, DInv, Tidy and wf_check = 0 *)
Theorem C03_data_images_example_small_and_large_v3 : ltac:(let t := type of DataWf.Examples.both_v3 in exact t).
Proof. exact DataWf.Examples.both_v3. Qed.
Check C03_data_images_example_small_and_large_v3.
Print Assumptions C03_data_images_example_small_and_large_v3.

(* version 4 *)
Theorem C03_data_images_example_small_and_large_v4 : ltac:(let t := type of DataWf.Examples.both_v4 in exact t).
Proof. exact DataWf.Examples.both_v4. Qed.
Check C03_data_images_example_small_and_large_v4.
Print Assumptions C03_data_images_example_small_and_large_v4.

(* growth, shrinking, a crossing of the cutoff and both migrations *)
Theorem C03_data_images_example_churn : ltac:(let t := type of DataWf.Examples.churn_v3 in exact t).
Proof. exact DataWf.Examples.churn_v3. Qed.
Check C03_data_images_example_churn.
Print Assumptions C03_data_images_example_churn.

(* non-vacuity of the shrink theorem on a concrete state *)
Theorem C03_shrink_theorem_applies : ltac:(let t := type of DataWf.AllocExamples.shrink_applies in exact t).
Proof. exact DataWf.AllocExamples.shrink_applies. Qed.
Check C03_shrink_theorem_applies.
Print Assumptions C03_shrink_theorem_applies.

(* DataWf2: the persistence invariant of C02 plus exact chain lengths and coverage of non-FREE cells is DInv *)
Theorem C03_exact_lengths_and_coverage_give_the_ownership_invariant : ltac:(let t := type of cohdata'_exact_dinv in exact t).
Proof. exact cohdata'_exact_dinv. Qed.
Check C03_exact_lengths_and_coverage_give_the_ownership_invariant.
Print Assumptions C03_exact_lengths_and_coverage_give_the_ownership_invariant.

(* refutation of the shortcut: a state satisfying the C02 invariant whose image the checker rejects (rule 42: a chain longer than the recorded length needs) - never produced by the model, but why DInv must be carried separately *)
Theorem C03_persistence_invariant_alone_is_not_enough : ltac:(let t := type of DataWf2.Counter.cohtree_without_dinv in exact t).
Proof. exact DataWf2.Counter.cohtree_without_dinv. Qed.
Check C03_persistence_invariant_alone_is_not_enough.
Print Assumptions C03_persistence_invariant_alone_is_not_enough.

(* W2 = C02 invariant + DInv + every FREE cell is on the free stack (nothing leaked) + tidy directory *)
Theorem C03_w2_states_have_accepted_images : ltac:(let t := type of w2_image_wf in exact t).
Proof. exact w2_image_wf. Qed.
Check C03_w2_states_have_accepted_images.
Print Assumptions C03_w2_states_have_accepted_images.

(* by a counting (pigeonhole) argument over [0, nsect) *)
Theorem C03_release_keeps_ownership_and_leaks_nothing : ltac:(let t := type of resize_big_release_dinv in exact t).
Proof. exact resize_big_release_dinv. Qed.
Check C03_release_keeps_ownership_and_leaks_nothing.
Print Assumptions C03_release_keeps_ownership_and_leaks_nothing.

(* large stream to length 0: the whole chain returns to the free stack *)
Theorem C03_truncation_to_zero_keeps_it : ltac:(let t := type of resize_big_to_zero_dinv in exact t).
Proof. exact resize_big_to_zero_dinv. Qed.
Check C03_truncation_to_zero_keeps_it.
Print Assumptions C03_truncation_to_zero_keeps_it.

(* a new chain from the free stack *)
Theorem C03_first_growth_of_an_empty_stream_keeps_it : ltac:(let t := type of resize_empty_big_dinv in exact t).
Proof. exact resize_empty_big_dinv. Qed.
Check C03_first_growth_of_an_empty_stream_keeps_it.
Print Assumptions C03_first_growth_of_an_empty_stream_keeps_it.

(* growth by write-back *)
Theorem C03_writes_that_take_free_sectors_keep_it : ltac:(let t := type of write_big_alloc_dinv in exact t).
Proof. exact write_big_alloc_dinv. Qed.
Check C03_writes_that_take_free_sectors_keep_it.
Print Assumptions C03_writes_that_take_free_sectors_keep_it.

(* a small stream gives its mini chain back; MiniFAT trimmed *)
Theorem C03_small_truncation_to_zero_keeps_it : ltac:(let t := type of resize_small_to_zero_dinv in exact t).
Proof. exact resize_small_to_zero_dinv. Qed.
Check C03_small_truncation_to_zero_keeps_it.
Print Assumptions C03_small_truncation_to_zero_keeps_it.

(* remove_stream on a stream with a regular chain: W2 afterwards (chain on the free stack, slot blank, directory tidy) *)
Theorem C03_removal_of_a_large_stream_keeps_it : ltac:(let t := type of remove_big_stream_w2 in exact t).
Proof. exact remove_big_stream_w2. Qed.
Check C03_removal_of_a_large_stream_keeps_it.
Print Assumptions C03_removal_of_a_large_stream_keeps_it.

(* remove_stream on an empty stream in a file with data *)
Theorem C03_removal_of_an_empty_stream_keeps_it : ltac:(let t := type of remove_empty_stream_w2 in exact t).
Proof. exact remove_empty_stream_w2. Qed.
Check C03_removal_of_an_empty_stream_keeps_it.
Print Assumptions C03_removal_of_an_empty_stream_keeps_it.

(* reopen may occur inside histories *)
Theorem C03_reopened_state_keeps_it : ltac:(let t := type of w2_reopened in exact t).
Proof. exact w2_reopened. Qed.
Check C03_reopened_state_keeps_it.
Print Assumptions C03_reopened_state_keeps_it.

(* for EVERY history of handle operations in the covered cases (growth by reuse / append, release, truncation to zero of large and small streams, first growth, allocating writes), removal of large and empty streams, reopen and queries: wf_check = 0 at every prefix *)
Theorem C03_images_of_data_histories_with_allocation_release_and_removal : ltac:(let t := type of wf_data_history4 in exact t).
Proof. exact wf_data_history4. Qed.
Check C03_images_of_data_histories_with_allocation_release_and_removal.
Print Assumptions C03_images_of_data_histories_with_allocation_release_and_removal.

(* non-vacuity: append growth, removal of a 12-sector stream, reopen, a query *)
Theorem C03_data_history_example_with_removal : ltac:(let t := type of DataWf2.Example8.hist5_wf in exact t).
Proof. exact DataWf2.Example8.hist5_wf. Qed.
Check C03_data_history_example_with_removal.
Print Assumptions C03_data_history_example_with_removal.

(* non-vacuity: a 100-byte stream truncated to zero, reopen *)
Theorem C03_data_history_example_small_truncation : ltac:(let t := type of DataWf2.Example9.hist6_wf in exact t).
Proof. exact DataWf2.Example9.hist6_wf. Qed.
Check C03_data_history_example_small_truncation.
Print Assumptions C03_data_history_example_small_truncation.

(* mini sectors from the mini free list or appended: tight - every index below the new MiniFAT length is old or the allocated one *)
Theorem C03_small_growth_with_allocation_keeps_it : ltac:(let t := type of resize_small_alloc_dinv in exact t).
Proof. exact resize_small_alloc_dinv. Qed.
Check C03_small_growth_with_allocation_keeps_it.
Print Assumptions C03_small_growth_with_allocation_keeps_it.

(* mini chain released, MiniFAT trimmed, root length shrunk *)
Theorem C03_removal_of_a_small_stream_keeps_it : ltac:(let t := type of remove_small_stream_w2 in exact t).
Proof. exact remove_small_stream_w2. Qed.
Check C03_removal_of_a_small_stream_keeps_it.
Print Assumptions C03_removal_of_a_small_stream_keeps_it.

(* both tables move: pigeonhole on the FAT side, release frames on the mini side *)
Theorem C03_migration_small_to_large_keeps_it : ltac:(let t := type of resize_small_to_big_dinv in exact t).
Proof. exact resize_small_to_big_dinv. Qed.
Check C03_migration_small_to_large_keeps_it.
Print Assumptions C03_migration_small_to_large_keeps_it.

(* the reverse *)
Theorem C03_migration_large_to_small_keeps_it : ltac:(let t := type of resize_big_to_small_dinv in exact t).
Proof. exact resize_big_to_small_dinv. Qed.
Check C03_migration_large_to_small_keeps_it.
Print Assumptions C03_migration_large_to_small_keeps_it.

(* SmallShrink: the small stream cut to fewer non-zero mini sectors - exact length, released cells free and unowned, nothing leaked *)
Theorem C03_small_shrink_keeps_it : ltac:(let t := type of resize_small_shrink_dinv in exact t).
Proof. exact resize_small_shrink_dinv. Qed.
Check C03_small_shrink_keeps_it.
Print Assumptions C03_small_shrink_keeps_it.

(* the checker accepts the image after it *)
Theorem C03_small_shrink_image_is_well_formed : ltac:(let t := type of resize_shrink_image_wf in exact t).
Proof. exact resize_shrink_image_wf. Qed.
Check C03_small_shrink_image_is_well_formed.
Print Assumptions C03_small_shrink_image_is_well_formed.

(* one API step of a covered history (all 11 resize cases, all 6 write cases, the 3 removal cases, reopen, queries) *)
Theorem C03_every_covered_step_keeps_it : ltac:(let t := type of step_w2_full in exact t).
Proof. exact step_w2_full. Qed.
Check C03_every_covered_step_keeps_it.
Print Assumptions C03_every_covered_step_keeps_it.

(* THE PROPERTY over hist_ok2 itself: along every history for which C02 proves persistence, the independent checker accepts the image at every prefix - exact chain lengths, unique owners, nothing leaked *)
Theorem C03_images_of_all_covered_data_histories_are_well_formed : ltac:(let t := type of wf_data_history_full in exact t).
Proof. exact wf_data_history_full. Qed.
Check C03_images_of_all_covered_data_histories_are_well_formed.
Print Assumptions C03_images_of_all_covered_data_histories_are_well_formed.

(* non-vacuity: large-to-small and small-to-large migrations, a first small write with flush, reopen *)
Theorem C03_full_history_example : ltac:(let t := type of DataWf2.Example12.hist3_wf in exact t).
Proof. exact DataWf2.Example12.hist3_wf. Qed.
Check C03_full_history_example.
Print Assumptions C03_full_history_example.

(* EVALUATION (not the general claim): all set_len sequences of depth 2 over {0,64,100,4095,4096,5000,9000} on two streams give accepted images *)
Theorem C03_bounded_exhaustive_set_len_search : ltac:(let t := type of DataWf.Evaluated.explore2_v3 in exact t).
Proof. exact DataWf.Evaluated.explore2_v3. Qed.
Check C03_bounded_exhaustive_set_len_search.
Print Assumptions C03_bounded_exhaustive_set_len_search.
