(* C16 — strict acceptance implies permissive acceptance with the same meaning.
   Pinned statements only; proofs in proofs/StrictProofs.v. *)
From Cfb.model Require Import Base Names DirEnt State Open.
From Cfb.gen Require Import Consts.
From Cfb.proofs Require Import StrictProofs.
Open Scope N_scope.

(* for EVERY byte string: the identical state, hence the identical tree,
   metadata and stream contents *)
Theorem C16_strict_implies_permissive :
  forall bytes s, open_model true bytes = Ok s -> open_model false bytes = Ok s.
Proof. exact strict_implies_permissive. Qed.
Print Assumptions C16_strict_implies_permissive.

(* documented deviations at the decoder level: permissive reads the deviant
   bytes as the clean entry / header, strict rejects them *)
Theorem C16_tolerated_stream_clsid :
  forall v bs e g, dirent_decode v true bs = Ok e -> d_type e = TStream -> lenN g = 16 -> clsid_decode g <> 0 ->
    let bs' := spliceN bs 80 g in
    dirent_decode v false bs' = Ok e /\ dirent_decode v true bs' = Err EInvalidData.
Proof. exact tolerated_stream_clsid. Qed.
Print Assumptions C16_tolerated_stream_clsid.

Theorem C16_tolerated_stream_times :
  forall v bs e t, dirent_decode v true bs = Ok e -> d_type e = TStream -> lenN t = 16 ->
    le_val (takeN 8 t) <> 0 \/ le_val (takeN 8 (dropN 8 t)) <> 0 ->
    let bs' := spliceN bs 100 t in
    dirent_decode v false bs' = Ok e /\ dirent_decode v true bs' = Err EInvalidData.
Proof. exact tolerated_stream_times. Qed.
Print Assumptions C16_tolerated_stream_times.

Theorem C16_tolerated_storage_start_len :
  forall v bs e g, dirent_decode v true bs = Ok e -> d_type e = TStorage -> lenN g = 12 ->
    le_val (takeN 4 g) <> 0 \/ N.land (le_val (takeN 8 (dropN 4 g))) (stream_len_mask v) <> 0 ->
    let bs' := spliceN bs 116 g in
    dirent_decode v false bs' = Ok e /\ dirent_decode v true bs' = Err EInvalidData.
Proof. exact tolerated_storage_start_len. Qed.
Print Assumptions C16_tolerated_storage_start_len.

Theorem C16_tolerated_root_name :
  forall v bs e nb nm0, dirent_decode v true bs = Ok e -> d_type e = TRoot -> lenN nb = 66 ->
    let nlb := le_val (takeN 2 (dropN 64 nb)) in
    let nlc := if 0 <? nlb then nlb / 2 - 1 else 0 in
    nlb <= 64 -> nlb mod 2 = 0 ->
    from_utf16 (takeN nlc (u16s (takeN 64 nb))) = Some nm0 -> nm0 <> ROOT_DIR_NAME ->
    let bs' := spliceN bs 0 nb in
    dirent_decode v false bs' = Ok e /\ dirent_decode v true bs' = Err EInvalidData.
Proof. exact tolerated_root_name. Qed.
Print Assumptions C16_tolerated_root_name.

Theorem C16_tolerated_unterminated_name :
  forall v bs e a b, dirent_decode v true bs = Ok e -> a + 256 * b <> 0 ->
    let nlb := le_val (takeN 2 (dropN 64 bs)) in
    let nlc := if 0 <? nlb then nlb / 2 - 1 else 0 in
    let bs' := spliceN bs (2 * nlc) [a; b] in
    dirent_decode v false bs' = Ok e /\ dirent_decode v true bs' = Err EInvalidData.
Proof. exact tolerated_unterminated_name. Qed.
Print Assumptions C16_tolerated_unterminated_name.

Theorem C16_tolerated_v3_num_dir :
  forall bs h g, header_decode true bs = Ok h -> h_ver h = V3 -> lenN g = 4 -> le_val g <> 0 ->
    let bs' := spliceN bs HDR_OFF_NUM_DIR g in
    header_decode false bs' = Ok h /\ header_decode true bs' = Err EInvalidData.
Proof. exact tolerated_v3_num_dir. Qed.
Print Assumptions C16_tolerated_v3_num_dir.

Theorem C16_first_difat_free_is_end_of_chain :
  forall st bs h, header_decode st bs = Ok h -> h_first_difat h = END_OF_CHAIN ->
    header_decode st (spliceN bs HDR_OFF_FIRST_DIFAT (le_bytes 4 FREE_SECTOR)) = Ok h.
Proof. exact tolerated_first_difat_free. Qed.
Print Assumptions C16_first_difat_free_is_end_of_chain.
