(* C16 — strict acceptance implies permissive acceptance with the same meaning.
   Pinned statements only; proofs in proofs/StrictProofs.v. *)
From Cfb.model Require Import Base Names DirEnt State Open.
From Cfb.gen Require Import Consts.
From Cfb.spec Require Import WfImage.
From Cfb.proofs Require Import StrictProofs WfOpen WfContent Tolerated.
Set Printing Width 110.
Open Scope N_scope.

(* for EVERY byte string: the identical state, hence the identical tree,
   metadata and stream contents *)
Theorem C16_strict_implies_permissive :
  forall bytes s, open_model true bytes = Ok s -> open_model false bytes = Ok s.
Proof. exact strict_implies_permissive. Qed.
Print Assumptions C16_strict_implies_permissive.

(* documented deviations at the decoder level: permissive reads the deviant
   bytes as the clean entry / header, strict rejects them *)
Theorem C16_tolerated_stream_clsid :
  forall v bs e g, dirent_decode v true bs = Ok e -> d_type e = TStream -> lenN g = 16 -> clsid_decode g <> 0 ->
    let bs' := spliceN bs 80 g in
    dirent_decode v false bs' = Ok e /\ dirent_decode v true bs' = Err EInvalidData.
Proof. exact tolerated_stream_clsid. Qed.
Print Assumptions C16_tolerated_stream_clsid.

Theorem C16_tolerated_stream_times :
  forall v bs e t, dirent_decode v true bs = Ok e -> d_type e = TStream -> lenN t = 16 ->
    le_val (takeN 8 t) <> 0 \/ le_val (takeN 8 (dropN 8 t)) <> 0 ->
    let bs' := spliceN bs 100 t in
    dirent_decode v false bs' = Ok e /\ dirent_decode v true bs' = Err EInvalidData.
Proof. exact tolerated_stream_times. Qed.
Print Assumptions C16_tolerated_stream_times.

Theorem C16_tolerated_storage_start_len :
  forall v bs e g, dirent_decode v true bs = Ok e -> d_type e = TStorage -> lenN g = 12 ->
    le_val (takeN 4 g) <> 0 \/ N.land (le_val (takeN 8 (dropN 4 g))) (stream_len_mask v) <> 0 ->
    let bs' := spliceN bs 116 g in
    dirent_decode v false bs' = Ok e /\ dirent_decode v true bs' = Err EInvalidData.
Proof. exact tolerated_storage_start_len. Qed.
Print Assumptions C16_tolerated_storage_start_len.

Theorem C16_tolerated_root_name :
  forall v bs e nb nm0, dirent_decode v true bs = Ok e -> d_type e = TRoot -> lenN nb = 66 ->
    let nlb := le_val (takeN 2 (dropN 64 nb)) in
    let nlc := if 0 <? nlb then nlb / 2 - 1 else 0 in
    nlb <= 64 -> nlb mod 2 = 0 ->
    from_utf16 (takeN nlc (u16s (takeN 64 nb))) = Some nm0 -> nm0 <> ROOT_DIR_NAME ->
    let bs' := spliceN bs 0 nb in
    dirent_decode v false bs' = Ok e /\ dirent_decode v true bs' = Err EInvalidData.
Proof. exact tolerated_root_name. Qed.
Print Assumptions C16_tolerated_root_name.

Theorem C16_tolerated_unterminated_name :
  forall v bs e a b, dirent_decode v true bs = Ok e -> a + 256 * b <> 0 ->
    let nlb := le_val (takeN 2 (dropN 64 bs)) in
    let nlc := if 0 <? nlb then nlb / 2 - 1 else 0 in
    let bs' := spliceN bs (2 * nlc) [a; b] in
    dirent_decode v false bs' = Ok e /\ dirent_decode v true bs' = Err EInvalidData.
Proof. exact tolerated_unterminated_name. Qed.
Print Assumptions C16_tolerated_unterminated_name.

Theorem C16_tolerated_v3_num_dir :
  forall bs h g, header_decode true bs = Ok h -> h_ver h = V3 -> lenN g = 4 -> le_val g <> 0 ->
    let bs' := spliceN bs HDR_OFF_NUM_DIR g in
    header_decode false bs' = Ok h /\ header_decode true bs' = Err EInvalidData.
Proof. exact tolerated_v3_num_dir. Qed.
Print Assumptions C16_tolerated_v3_num_dir.

Theorem C16_first_difat_free_is_end_of_chain :
  forall st bs h, header_decode st bs = Ok h -> h_first_difat h = END_OF_CHAIN ->
    header_decode st (spliceN bs HDR_OFF_FIRST_DIFAT (le_bytes 4 FREE_SECTOR)) = Ok h.
Proof. exact tolerated_first_difat_free. Qed.
Print Assumptions C16_first_difat_free_is_end_of_chain.

(* TABLE level, whole images: for ANY strictly openable image, changing the FAT / MiniFAT / DIFAT sector count in the header makes strict open fail and permissive open return the same state (up to the cached header bytes) *)
Theorem C16_image_header_counts_tolerated : ltac:(let t := type of tolerated_header_count in exact t).
Proof. exact tolerated_header_count. Qed.
Check C16_image_header_counts_tolerated.
Print Assumptions C16_image_header_counts_tolerated.

(* for ANY checker-accepted image: strict rejects, permissive exposes exactly logical b *)
Theorem C16_wf_header_counts_same_logical_content : ltac:(let t := type of wf_tolerated_header_count in exact t).
Proof. exact wf_tolerated_header_count. Qed.
Check C16_wf_header_counts_same_logical_content.
Print Assumptions C16_wf_header_counts_same_logical_content.

(* non-zero directory sector count in version 3 *)
Theorem C16_wf_v3_directory_count_same_logical_content : ltac:(let t := type of wf_tolerated_v3_num_dir in exact t).
Proof. exact wf_tolerated_v3_num_dir. Qed.
Check C16_wf_v3_directory_count_same_logical_content.
Print Assumptions C16_wf_v3_directory_count_same_logical_content.

(* version 4: permissive ignores the count; strict refuses only a count that is too small (observation: a count that is too large is accepted by strict too) *)
Theorem C16_wf_v4_directory_count : ltac:(let t := type of wf_v4_num_dir in exact t).
Proof. exact wf_v4_num_dir. Qed.
Check C16_wf_v4_directory_count.
Print Assumptions C16_wf_v4_directory_count.

(* DIFAT chain ended by the free marker in the header: read as END_OF_CHAIN in BOTH modes, same logical content *)
Theorem C16_wf_first_difat_free : ltac:(let t := type of wf_first_difat_free in exact t).
Proof. exact wf_first_difat_free. Qed.
Check C16_wf_first_difat_free.
Print Assumptions C16_wf_first_difat_free.

(* FAT entries beyond the last sector not FREE: strict rejects, permissive trims, same logical content *)
Theorem C16_zero_padded_fat_tolerated : ltac:(let t := type of wf_tolerated_fat_padding in exact t).
Proof. exact wf_tolerated_fat_padding. Qed.
Check C16_zero_padded_fat_tolerated.
Print Assumptions C16_zero_padded_fat_tolerated.

(* a FAT sector whose own cell is not FAT_SECTOR: strict rejects, permissive repairs in memory, same logical content *)
Theorem C16_unmarked_fat_sector_tolerated : ltac:(let t := type of wf_tolerated_fat_unmarked in exact t).
Proof. exact wf_tolerated_fat_unmarked. Qed.
Check C16_unmarked_fat_sector_tolerated.
Print Assumptions C16_unmarked_fat_sector_tolerated.

(* the in-memory repair itself *)
Theorem C16_permissive_repair_of_marks : ltac:(let t := type of alloc_validate_perm_repair in exact t).
Proof. exact alloc_validate_perm_repair. Qed.
Check C16_permissive_repair_of_marks.
Print Assumptions C16_permissive_repair_of_marks.

(* next pointer FREE in a DIFAT sector: strict InvalidData, permissive ends the chain *)
Theorem C16_difat_chain_ended_by_free_inside_a_difat_sector : ltac:(let t := type of difat_chain_free_end in exact t).
Proof. exact difat_chain_free_end. Qed.
Check C16_difat_chain_ended_by_free_inside_a_difat_sector.
Print Assumptions C16_difat_chain_ended_by_free_inside_a_difat_sector.

(* non-vacuity: the theorem applied to a model-written image with storages, mini and regular streams *)
Theorem C16_header_count_examples : ltac:(let t := type of Tolerated.HeaderExamples.num_fat_v3_thm in exact t).
Proof. exact Tolerated.HeaderExamples.num_fat_v3_thm. Qed.
Check C16_header_count_examples.
Print Assumptions C16_header_count_examples.

(* non-vacuity *)
Theorem C16_zero_padded_fat_example : ltac:(let t := type of Tolerated.FatExamples.zero_padded_fat_v3_thm in exact t).
Proof. exact Tolerated.FatExamples.zero_padded_fat_v3_thm. Qed.
Check C16_zero_padded_fat_example.
Print Assumptions C16_zero_padded_fat_example.

(* EVALUATION (no general theorem): an over-long MiniFAT is truncated by permissive open and refused by strict open *)
Theorem C16_overlong_minifat_example : ltac:(let t := type of Tolerated.FatExamples.overlong_minifat_v3 in exact t).
Proof. exact Tolerated.FatExamples.overlong_minifat_v3. Qed.
Check C16_overlong_minifat_example.
Print Assumptions C16_overlong_minifat_example.
