(* C14 — shared read access concurrent with stream I/O never deadlocks.
   Pinned statements only; model in model/Lock.v, proofs in proofs/LockProofs.v.
   std's RwLock is MODELLED by the class of admissible grant policies; that the
   library's lock usage satisfies the hypotheses (well bracketed, hold depth <= 1
   at every acquisition site) is observed on the real code by the instrumented
   lock on every run of this check. *)
From Coq Require Import List Arith Lia.
Import ListNotations.
From Cfb.model Require Import Lock.
From Cfb.proofs Require Import LockProofs.

(* any number of threads, any admissible policy (writer preference, reader
   preference, FIFO, ...), any schedule: no reachable configuration is stuck *)
Theorem C14_non_nested_sections_never_deadlock :
  forall policy progs s0 cfg,
    admissible policy ->
    Forall well_bracketed progs -> Forall depth_le1 progs -> Forall guarded progs ->
    reachable policy (init progs s0) cfg -> ~ stuck policy cfg.
Proof. exact non_nested_progress. Qed.
Print Assumptions C14_non_nested_sections_never_deadlock.

(* every execution is finite and ends with all calls completed *)
Theorem C14_all_calls_complete :
  forall policy progs s0 cfg,
    admissible policy ->
    Forall well_bracketed progs -> Forall depth_le1 progs -> Forall guarded progs ->
    reachable policy (init progs s0) cfg -> inevitably_final policy cfg.
Proof. exact all_runs_terminate. Qed.
Print Assumptions C14_all_calls_complete.

Theorem C14_no_infinite_schedule :
  forall policy (cs : nat -> config) (ls : nat -> label),
    ~ (forall n, step policy (cs n) (ls n) (cs (S n))).
Proof. exact no_infinite_run. Qed.
Print Assumptions C14_no_infinite_schedule.

(* the hypothesis is necessary, and the pinned tree's nested read acquisition
   could deadlock: reader holds, writer queues, reader re-requests *)
Theorem C14_nested_read_can_deadlock :
  admissible writer_pref /\
  Forall well_bracketed dl_progs /\ Forall guarded dl_progs /\ ~ Forall depth_le1 dl_progs /\
  run writer_pref (init dl_progs 0) dl_sched dl_config /\ stuck writer_pref dl_config.
Proof. exact nested_read_deadlocks. Qed.
Print Assumptions C14_nested_read_can_deadlock.

(* each result equals the state before or after some whole write section *)
Theorem C14_reads_see_whole_write_sections :
  forall policy progs s0 cfg,
    reachable policy (init progs s0) cfg ->
    (forall t v, In t (threads cfg) -> In v (log t) -> In v (commits cfg)) /\
    (forall i cfg', step policy cfg (LRead i) cfg' ->
       compat (threads cfg) R /\
       exists t rest cs,
         nth_error (threads cfg) i = Some t /\
         nth_error (threads cfg') i = Some (mkThread rest (held t) (st cfg :: log t)) /\
         commits cfg = st cfg :: cs).
Proof. exact reads_see_whole_sections. Qed.
Print Assumptions C14_reads_see_whole_write_sections.

Theorem C14_writers_are_exclusive :
  forall policy progs s0 cfg i t,
    reachable policy (init progs s0) cfg ->
    nth_error (threads cfg) i = Some t -> In W (held t) ->
    held t = [W] /\ forall j t', nth_error (threads cfg) j = Some t' -> j <> i -> held t' = [].
Proof. exact mutual_exclusion. Qed.
Print Assumptions C14_writers_are_exclusive.
