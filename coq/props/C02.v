(* C02 — write-through persistence: the byte image always reopens to the same state.  Statements are printed by Check below and compared with C02.expected.  PARTIAL: proved are the write-through of the FAT (every cached cell equals the cell on disk after every table mutation, for reuse and growth paths), that the on-disk FAT read back as open does has the cache as a prefix, the entry / header codec round trips in both modes, and that strict acceptance gives the same state as permissive.  The composition persist (open (image s) = s up to free-list order, for every reachable s) is NOT proved; it is checked at every operation boundary of generated histories: the implementation's bytes, taken without flush, are reopened in both modes by the crate and by the model and all dumps compared. *)
From Cfb.model Require Import Base Names DirEnt State Alloc Dir Mini Store Handle Open Cfb.
From Cfb.gen Require Import Consts.
From Cfb.proofs Require Import CoherenceProofs CodecProofs StrictProofs.
Set Printing Width 110.

(* every FAT cell update is on disk when the call returns *)
Theorem C02_set_fat_writes_through : ltac:(let t := type of set_fat_existing_coherent in exact t).
Proof. exact set_fat_existing_coherent. Qed.
Check C02_set_fat_writes_through.
Print Assumptions C02_set_fat_writes_through.

(* allocation from the free list keeps cache = disk *)
Theorem C02_allocation_reuse_keeps_coherence : ltac:(let t := type of allocate_reuse_preserves in exact t).
Proof. exact allocate_reuse_preserves. Qed.
Check C02_allocation_reuse_keeps_coherence.
Print Assumptions C02_allocation_reuse_keeps_coherence.

(* growth (new FAT / DIFAT sectors) keeps cache = disk and the DIFAT consistent *)
Theorem C02_allocation_growth_keeps_coherence : ltac:(let t := type of allocate_grow_coherent in exact t).
Proof. exact allocate_grow_coherent. Qed.
Check C02_allocation_growth_keeps_coherence.
Print Assumptions C02_allocation_growth_keeps_coherence.

(* reading the FAT sectors as open does returns the cached FAT as a prefix *)
Theorem C02_fat_on_disk_reads_back : ltac:(let t := type of fat_roundtrip_on_disk in exact t).
Proof. exact fat_roundtrip_on_disk. Qed.
Check C02_fat_on_disk_reads_back.
Print Assumptions C02_fat_on_disk_reads_back.

(* writes to non-FAT sectors never disturb it, in any outcome *)
Theorem C02_data_writes_do_not_touch_the_fat : ltac:(let t := type of sector_write_keeps_fat in exact t).
Proof. exact sector_write_keeps_fat. Qed.
Check C02_data_writes_do_not_touch_the_fat.
Print Assumptions C02_data_writes_do_not_touch_the_fat.

(* every valid directory entry decodes to itself in both modes *)
Theorem C02_dirent_roundtrip : ltac:(let t := type of dirent_roundtrip in exact t).
Proof. exact dirent_roundtrip. Qed.
Check C02_dirent_roundtrip.
Print Assumptions C02_dirent_roundtrip.

(* every valid header decodes to itself in both modes *)
Theorem C02_header_roundtrip : ltac:(let t := type of header_roundtrip in exact t).
Proof. exact header_roundtrip. Qed.
Check C02_header_roundtrip.
Print Assumptions C02_header_roundtrip.

(* both validation modes build the identical state *)
Theorem C02_strict_and_permissive_agree : ltac:(let t := type of strict_implies_permissive in exact t).
Proof. exact strict_implies_permissive. Qed.
Check C02_strict_and_permissive_agree.
Print Assumptions C02_strict_and_permissive_agree.
