(* C02 — write-through persistence: the byte image always reopens to the same state.  Statements are printed by Check below and compared with C02.expected.  PARTIAL: proved are the write-through of the FAT, of the directory (insert / remove / metadata updates / new directory sectors) and of the MiniFAT cells (every cached cell or entry equals its bytes on disk after every mutation), that the on-disk FAT and directory read back as open does return the cache (the directory followed by the blank slots of its last sector), the entry / header codec round trips in both modes, and that strict acceptance gives the same state as permissive.  Also proved (proofs/ReopenProofs.v): the REOPEN ROUND TRIP - for every state that is Coherent (header bytes = header computed from the cache, FAT / directory / MiniFAT cache = disk, tails FREE, tables valid; no DIFAT sectors, i.e. at most 109 FAT sectors) open in BOTH modes on the concatenated image succeeds and returns exactly the cached tables (directory followed by the blank slots of its last sector, free lists rebuilt in index order); Coherent holds for the fresh file of either version and, by a sound boolean checker, for reachable example states (storages, mini and regular streams, removals, second FAT sector, second directory sector, extended MiniFAT); the header field writes of allocation keep the header coherent.  Also proved (proofs/PersistProofs.v): PERSISTENCE OVER HISTORIES of the namespace - a stronger invariant PInv (Coherent + directory and MiniFAT chains disjoint + every entry well-formed and black + the table represents a tree) holds of the fresh file of either version, is preserved by create_storage, create_new_stream, remove_storage, remove_stream (of empty streams), the four metadata setters (unchanged state on their refusals), including the growth of the directory chain by a sector with a new FAT sector, and implies the round trip; hence for EVERY history of those calls and the queries (up to 6000 calls, each Ok or without effect) the bytes alone reopen in both modes to the cached state, at every prefix.  Also proved (proofs/DataPersist.v): on files WITH stream data, write-back and resize in the cases that allocate nothing, growth of a large stream into reused or appended sectors, and the metadata calls keep cache = disk (Coherent) - hence after flush / drop of a handle the bytes alone reopen in both modes and hold what the handle showed, over histories of such operations.  Also proved (proofs/DataPersist2.v): the remaining data-moving operations keep a strengthened invariant CohTree (Coherent + every stream's chain well-formed and pairwise disjoint + free lists clean + nothing points into a free cell + tree) and hence the round trip, with the expected content in the reopened file: shrinking a large stream with release of sectors, truncation to zero (both kinds), removal of streams WITH data (large: chain freed; small: mini chain freed, MiniFAT trimmed, root length shrunk; empty), growth of a small stream with mini-sector allocation (reuse and append), first write / resize of an empty stream (small and large), both migrations across the 4096 cutoff (by resize and by write), writes that take free sectors; the REOPENED state satisfies the invariant again, so reopen may occur inside histories; persist_data_history2 lifts this to every history whose steps fall into the covered cases (ResizeCase: 11, WriteCase: 6 - sufficient conditions, spelled out in hist_ok2).  Hypothesis RootFits on mini-sector appends (the root entry's length stays below the version's length mask) records a bug candidate in the crate: nothing bounds the mini stream of a version 3 file by 4 GiB.  Proved separately (proofs/SmallShrink.v): the twelfth resize case, a small stream cut to fewer non-zero mini sectors.  NOT proved: release of a large stream with a zero fill above the old content, allocation at the end of the file through writes, growth that needs a new FAT / DIFAT sector or a new sector for the mini-stream container inside those cases, creations inside CohTree histories, and the DIFAT-sector regime; these are checked at every operation boundary of generated histories: the implementation's bytes, taken without flush, are reopened in both modes by the crate and by the model and all dumps compared. *)
From Cfb.model Require Import Base Names DirEnt State Alloc Dir Mini Store Handle Open Cfb.
From Cfb.gen Require Import Consts.
From Cfb.proofs Require Import CoherenceProofs CodecProofs StrictProofs DirCoherence ReopenProofs ReadonlyTotal PersistProofs HistoryRefine Progress HandleFrame DataPersist DataPersist2 SmallShrink.
Set Printing Width 110.

(* every FAT cell update is on disk when the call returns *)
Theorem C02_set_fat_writes_through : ltac:(let t := type of set_fat_existing_coherent in exact t).
Proof. exact set_fat_existing_coherent. Qed.
Check C02_set_fat_writes_through.
Print Assumptions C02_set_fat_writes_through.

(* allocation from the free list keeps cache = disk *)
Theorem C02_allocation_reuse_keeps_coherence : ltac:(let t := type of allocate_reuse_preserves in exact t).
Proof. exact allocate_reuse_preserves. Qed.
Check C02_allocation_reuse_keeps_coherence.
Print Assumptions C02_allocation_reuse_keeps_coherence.

(* growth (new FAT / DIFAT sectors) keeps cache = disk and the DIFAT consistent *)
Theorem C02_allocation_growth_keeps_coherence : ltac:(let t := type of allocate_grow_coherent in exact t).
Proof. exact allocate_grow_coherent. Qed.
Check C02_allocation_growth_keeps_coherence.
Print Assumptions C02_allocation_growth_keeps_coherence.

(* reading the FAT sectors as open does returns the cached FAT as a prefix *)
Theorem C02_fat_on_disk_reads_back : ltac:(let t := type of fat_roundtrip_on_disk in exact t).
Proof. exact fat_roundtrip_on_disk. Qed.
Check C02_fat_on_disk_reads_back.
Print Assumptions C02_fat_on_disk_reads_back.

(* writes to non-FAT sectors never disturb it, in any outcome *)
Theorem C02_data_writes_do_not_touch_the_fat : ltac:(let t := type of sector_write_keeps_fat in exact t).
Proof. exact sector_write_keeps_fat. Qed.
Check C02_data_writes_do_not_touch_the_fat.
Print Assumptions C02_data_writes_do_not_touch_the_fat.

(* metadata / length updates of an entry are on disk when the call returns *)
Theorem C02_dir_entry_rewrites_write_through : ltac:(let t := type of with_dir_entry_mut_coherent in exact t).
Proof. exact with_dir_entry_mut_coherent. Qed.
Check C02_dir_entry_rewrites_write_through.
Print Assumptions C02_dir_entry_rewrites_write_through.

(* after insert_dir_entry (slot reuse, append within a sector, or a new directory sector) every cached entry equals its 128 bytes on disk and the rest of the chain is blank *)
Theorem C02_insertion_writes_through : ltac:(let t := type of insert_dir_entry_coherent_fatinv in exact t).
Proof. exact insert_dir_entry_coherent_fatinv. Qed.
Check C02_insertion_writes_through.
Print Assumptions C02_insertion_writes_through.

(* same after remove_dir_entry *)
Theorem C02_removal_writes_through : ltac:(let t := type of remove_dir_entry_coherent in exact t).
Proof. exact remove_dir_entry_coherent. Qed.
Check C02_removal_writes_through.
Print Assumptions C02_removal_writes_through.

(* open's directory loop on the image returns the cached table followed by blank slots *)
Theorem C02_directory_on_disk_reads_back : ltac:(let t := type of dir_loop_reads_back in exact t).
Proof. exact dir_loop_reads_back. Qed.
Check C02_directory_on_disk_reads_back.
Print Assumptions C02_directory_on_disk_reads_back.

(* every MiniFAT cell update is on disk when the call returns *)
Theorem C02_minifat_writes_through : ltac:(let t := type of set_minifat_coherent in exact t).
Proof. exact set_minifat_coherent. Qed.
Check C02_minifat_writes_through.
Print Assumptions C02_minifat_writes_through.

(* every valid directory entry decodes to itself in both modes *)
Theorem C02_dirent_roundtrip : ltac:(let t := type of dirent_roundtrip in exact t).
Proof. exact dirent_roundtrip. Qed.
Check C02_dirent_roundtrip.
Print Assumptions C02_dirent_roundtrip.

(* every valid header decodes to itself in both modes *)
Theorem C02_header_roundtrip : ltac:(let t := type of header_roundtrip in exact t).
Proof. exact header_roundtrip. Qed.
Check C02_header_roundtrip.
Print Assumptions C02_header_roundtrip.

(* both validation modes build the identical state *)
Theorem C02_strict_and_permissive_agree : ltac:(let t := type of strict_implies_permissive in exact t).
Proof. exact strict_implies_permissive. Qed.
Check C02_strict_and_permissive_agree.
Print Assumptions C02_strict_and_permissive_agree.

(* for EVERY coherent state: open (either mode) of the bytes alone = the cached state (blank directory slots appended, free lists in index order) *)
Theorem C02_reopen_round_trip : ltac:(let t := type of reopen_both_modes in exact t).
Proof. exact reopen_both_modes. Qed.
Check C02_reopen_round_trip.
Print Assumptions C02_reopen_round_trip.

(* the same, field by field *)
Theorem C02_reopen_returns_the_cached_tables : ltac:(let t := type of reopen_same_tables in exact t).
Proof. exact reopen_same_tables. Qed.
Check C02_reopen_returns_the_cached_tables.
Print Assumptions C02_reopen_returns_the_cached_tables.

(* a boolean checker implies Coherent (used to establish it for concrete reachable states by evaluation) *)
Theorem C02_coherence_is_decidable_soundly : ltac:(let t := type of coherent_b_sound in exact t).
Proof. exact coherent_b_sound. Qed.
Check C02_coherence_is_decidable_soundly.
Print Assumptions C02_coherence_is_decidable_soundly.

(* the file written by create, V3 and V4 *)
Theorem C02_fresh_file_is_coherent : ltac:(let t := type of Examples.create_state_coherent in exact t).
Proof. exact Examples.create_state_coherent. Qed.
Check C02_fresh_file_is_coherent.
Print Assumptions C02_fresh_file_is_coherent.

(* non-vacuity: states after removals, with an extended MiniFAT, a second FAT sector, a second directory sector *)
Theorem C02_reachable_states_are_coherent : ltac:(let t := type of Examples.more_coherent in exact t).
Proof. exact Examples.more_coherent. Qed.
Check C02_reachable_states_are_coherent.
Print Assumptions C02_reachable_states_are_coherent.

(* header bytes of a fresh file = header computed from the cache *)
Theorem C02_fresh_header_is_coherent : ltac:(let t := type of create_state_header_coherent in exact t).
Proof. exact create_state_header_coherent. Qed.
Check C02_fresh_header_is_coherent.
Print Assumptions C02_fresh_header_is_coherent.

(* reuse and growth (with or without a new FAT sector listed in the header DIFAT) leave header bytes = header of the cache *)
Theorem C02_allocation_keeps_the_header_coherent : ltac:(let t := type of allocate_sector_header in exact t).
Proof. exact allocate_sector_header. Qed.
Check C02_allocation_keeps_the_header_coherent.
Print Assumptions C02_allocation_keeps_the_header_coherent.

(* appending a FAT sector writes the DIFAT slot and the FAT-sector count through *)
Theorem C02_new_fat_sector_updates_the_header : ltac:(let t := type of append_fat_sector_header in exact t).
Proof. exact append_fat_sector_header. Qed.
Check C02_new_fat_sector_updates_the_header.
Print Assumptions C02_new_fat_sector_updates_the_header.

(* every state satisfying the history invariant reopens, in both modes, to its cached tables *)
Theorem C02_history_invariant_implies_round_trip : ltac:(let t := type of PInv_reopens in exact t).
Proof. exact PInv_reopens. Qed.
Check C02_history_invariant_implies_round_trip.
Print Assumptions C02_history_invariant_implies_round_trip.

(* strict directory validation succeeds on every all-black table that represents an abstract tree *)
Theorem C02_tables_that_represent_a_tree_validate : ltac:(let t := type of tree_validates in exact t).
Proof. exact tree_validates. Qed.
Check C02_tables_that_represent_a_tree_validate.
Print Assumptions C02_tables_that_represent_a_tree_validate.

(* V3 and V4 *)
Theorem C02_fresh_file_satisfies_the_invariant : ltac:(let t := type of create_state_pinv in exact t).
Proof. exact create_state_pinv. Qed.
Check C02_fresh_file_satisfies_the_invariant.
Print Assumptions C02_fresh_file_satisfies_the_invariant.

(* including directory-chain growth and a new FAT sector *)
Theorem C02_create_storage_preserves_the_invariant : ltac:(let t := type of create_storage_preserves in exact t).
Proof. exact create_storage_preserves. Qed.
Check C02_create_storage_preserves_the_invariant.
Print Assumptions C02_create_storage_preserves_the_invariant.

(* removal by relinking keeps cache = disk and the table a tree *)
Theorem C02_remove_storage_preserves_the_invariant : ltac:(let t := type of remove_storage_preserves in exact t).
Proof. exact remove_storage_preserves. Qed.
Check C02_remove_storage_preserves_the_invariant.
Print Assumptions C02_remove_storage_preserves_the_invariant.

(* same for set_storage_clsid, set_created_time, set_modified_time (set_*_preserves, set_*_err in proofs/PersistProofs.v) *)
Theorem C02_metadata_updates_preserve_the_invariant : ltac:(let t := type of set_state_preserves in exact t).
Proof. exact set_state_preserves. Qed.
Check C02_metadata_updates_preserve_the_invariant.
Print Assumptions C02_metadata_updates_preserve_the_invariant.

(* for EVERY history of the covered calls from a fresh file: the bytes alone reopen, in both modes, to the cached state *)
Theorem C02_persistence_over_histories : ltac:(let t := type of persist_history in exact t).
Proof. exact persist_history. Qed.
Check C02_persistence_over_histories.
Print Assumptions C02_persistence_over_histories.

(* the same at every operation boundary of the history (a crash or drop between any two calls) *)
Theorem C02_persistence_at_every_prefix : ltac:(let t := type of persist_every_prefix in exact t).
Proof. exact persist_every_prefix. Qed.
Check C02_persistence_at_every_prefix.
Print Assumptions C02_persistence_at_every_prefix.

(* non-vacuity: a 17-call history (storages, an empty stream, metadata, a refused removal, slot reuse, directory growth) on V3 and V4 *)
Theorem C02_persistence_example : ltac:(let t := type of Example.hist_persists in exact t).
Proof. exact Example.hist_persists. Qed.
Check C02_persistence_example.
Print Assumptions C02_persistence_example.

(* the same with NO hypothesis about the model's results: every covered call is Ok or refused without effect (proofs/Progress.v) *)
Theorem C02_persistence_over_histories_unconditionally : ltac:(let t := type of persist_history_total in exact t).
Proof. exact persist_history_total. Qed.
Check C02_persistence_over_histories_unconditionally.
Print Assumptions C02_persistence_over_histories_unconditionally.

(* at every operation boundary *)
Theorem C02_persistence_at_every_prefix_unconditionally : ltac:(let t := type of persist_every_prefix_total in exact t).
Proof. exact persist_every_prefix_total. Qed.
Check C02_persistence_at_every_prefix_unconditionally.
Print Assumptions C02_persistence_at_every_prefix_unconditionally.

(* files WITH stream data: a write-back in the non-allocating cases (small or large stream) keeps Coherent and the disjointness of all chains, and every other stream's content *)
Theorem C02_data_writes_keep_cache_equal_disk : ltac:(let t := type of write_data_cohdata in exact t).
Proof. exact write_data_cohdata. Qed.
Check C02_data_writes_keep_cache_equal_disk.
Print Assumptions C02_data_writes_keep_cache_equal_disk.

(* same for resize inside the sectors the stream has *)
Theorem C02_data_resizes_keep_cache_equal_disk : ltac:(let t := type of resize_cohdata in exact t).
Proof. exact resize_cohdata. Qed.
Check C02_data_resizes_keep_cache_equal_disk.
Print Assumptions C02_data_resizes_keep_cache_equal_disk.

(* after such a write the bytes alone reopen in both modes to the cached state, the reopened file holds the spliced content, every other stream its old content *)
Theorem C02_bytes_reopen_after_a_data_write : ltac:(let t := type of persist_after_covered_write in exact t).
Proof. exact persist_after_covered_write. Qed.
Check C02_bytes_reopen_after_a_data_write.
Print Assumptions C02_bytes_reopen_after_a_data_write.

(* THROUGH THE HANDLE: after flush returns, what the handle showed is what the reopened file holds *)
Theorem C02_bytes_reopen_after_flush : ltac:(let t := type of flush_persists in exact t).
Proof. exact flush_persists. Qed.
Check C02_bytes_reopen_after_flush.
Print Assumptions C02_bytes_reopen_after_flush.

(* same when the handle is dropped with buffered data *)
Theorem C02_bytes_reopen_after_drop : ltac:(let t := type of drop_persists in exact t).
Proof. exact drop_persists. Qed.
Check C02_bytes_reopen_after_drop.
Print Assumptions C02_bytes_reopen_after_drop.

(* set_state / set_clsid / set_created / set_modified keep the invariant and all contents on files that hold stream data, whatever they return *)
Theorem C02_metadata_calls_on_files_with_data : ltac:(let t := type of meta_step_cohdata in exact t).
Proof. exact meta_step_cohdata. Qed.
Check C02_metadata_calls_on_files_with_data.
Print Assumptions C02_metadata_calls_on_files_with_data.

(* histories of covered handle operations, open_stream, metadata calls and queries on a file with data: the bytes reopen to the cached state at every prefix *)
Theorem C02_persistence_over_histories_with_data : ltac:(let t := type of persist_data_history in exact t).
Proof. exact persist_data_history. Qed.
Check C02_persistence_over_histories_with_data.
Print Assumptions C02_persistence_over_histories_with_data.

(* a large stream growing into sectors from the free stack: FAT cells written through, round trip, content V ++ zeros in the reopened file *)
Theorem C02_growth_into_reused_sectors_persists : ltac:(let t := type of resize_big_reuse_coherent in exact t).
Proof. exact resize_big_reuse_coherent. Qed.
Check C02_growth_into_reused_sectors_persists.
Print Assumptions C02_growth_into_reused_sectors_persists.

(* growing at the end of the file, incl. a new FAT sector with its header fields (below 109 FAT sectors) *)
Theorem C02_growth_by_appending_persists : ltac:(let t := type of resize_big_append_coherent in exact t).
Proof. exact resize_big_append_coherent. Qed.
Check C02_growth_by_appending_persists.
Print Assumptions C02_growth_by_appending_persists.

(* DataPersist2: shrinking a large stream frees the tail of its chain: FAT cells FREE on disk and in the cache, freed ids appended to the free stack, round trip, content takeN *)
Theorem C02_release_of_sectors_persists : ltac:(let t := type of resize_big_release_cohdata' in exact t).
Proof. exact resize_big_release_cohdata'. Qed.
Check C02_release_of_sectors_persists.
Print Assumptions C02_release_of_sectors_persists.

(* remove_stream on a stream with a regular chain: chain freed, slot blank, others kept, bytes reopen *)
Theorem C02_removal_of_a_large_stream_persists : ltac:(let t := type of remove_big_stream_cohtree in exact t).
Proof. exact remove_big_stream_cohtree. Qed.
Check C02_removal_of_a_large_stream_persists.
Print Assumptions C02_removal_of_a_large_stream_persists.

(* remove_stream on a stream in the mini stream: mini chain freed, in-memory MiniFAT trimmed, root length written back, bytes reopen *)
Theorem C02_removal_of_a_small_stream_persists : ltac:(let t := type of remove_small_stream_cohtree in exact t).
Proof. exact remove_small_stream_cohtree. Qed.
Check C02_removal_of_a_small_stream_persists.
Print Assumptions C02_removal_of_a_small_stream_persists.

(* a small stream growing by k mini sectors (free-list reuse, then append inside the container): MiniFAT and root entry written through *)
Theorem C02_small_growth_with_allocation_persists : ltac:(let t := type of resize_small_alloc_cohdata' in exact t).
Proof. exact resize_small_alloc_cohdata'. Qed.
Check C02_small_growth_with_allocation_persists.
Print Assumptions C02_small_growth_with_allocation_persists.

(* first bytes of a stream that had no chain *)
Theorem C02_first_write_of_an_empty_stream_persists : ltac:(let t := type of write_empty_small_cohdata' in exact t).
Proof. exact write_empty_small_cohdata'. Qed.
Check C02_first_write_of_an_empty_stream_persists.
Print Assumptions C02_first_write_of_an_empty_stream_persists.

(* crossing the 4096 cutoff upwards by resize: data copied into a new regular chain, mini chain freed *)
Theorem C02_migration_small_to_large_persists : ltac:(let t := type of resize_small_to_big_cohdata' in exact t).
Proof. exact resize_small_to_big_cohdata'. Qed.
Check C02_migration_small_to_large_persists.
Print Assumptions C02_migration_small_to_large_persists.

(* crossing the cutoff by a write *)
Theorem C02_migration_by_write_persists : ltac:(let t := type of write_small_to_big_cohdata' in exact t).
Proof. exact write_small_to_big_cohdata'. Qed.
Check C02_migration_by_write_persists.
Print Assumptions C02_migration_by_write_persists.

(* crossing the cutoff downwards: data copied into mini sectors, regular chain freed *)
Theorem C02_migration_large_to_small_persists : ltac:(let t := type of resize_big_to_small_cohdata' in exact t).
Proof. exact resize_big_to_small_cohdata'. Qed.
Check C02_migration_large_to_small_persists.
Print Assumptions C02_migration_large_to_small_persists.

(* SmallShrink: the one store case DataPersist2 left open - a small stream cut to a smaller non-zero length needing fewer mini sectors: kept cell terminated, tail released to the mini free list, MiniFAT trimmed, root length written back; bytes reopen with takeN n V *)
Theorem C02_small_shrink_to_fewer_mini_sectors_persists : ltac:(let t := type of resize_small_shrink_cohdata' in exact t).
Proof. exact resize_small_shrink_cohdata'. Qed.
Check C02_small_shrink_to_fewer_mini_sectors_persists.
Print Assumptions C02_small_shrink_to_fewer_mini_sectors_persists.

(* the 11 cases of DataPersist2 plus the small shrink *)
Theorem C02_all_twelve_resize_cases_persist : ltac:(let t := type of resize_case12_cohtree in exact t).
Proof. exact resize_case12_cohtree. Qed.
Check C02_all_twelve_resize_cases_persist.
Print Assumptions C02_all_twelve_resize_cases_persist.

(* the state that open returns satisfies CohTree again (free lists rebuilt in index order, blank slots appended): reopen may occur inside histories *)
Theorem C02_reopened_state_satisfies_the_invariant : ltac:(let t := type of cohtree_reopened in exact t).
Proof. exact cohtree_reopened. Qed.
Check C02_reopened_state_satisfies_the_invariant.
Print Assumptions C02_reopened_state_satisfies_the_invariant.

(* dispatch over the 11 resize cases *)
Theorem C02_every_covered_resize_case : ltac:(let t := type of resize_case_cohtree in exact t).
Proof. exact resize_case_cohtree. Qed.
Check C02_every_covered_resize_case.
Print Assumptions C02_every_covered_resize_case.

(* dispatch over the 6 write cases *)
Theorem C02_every_covered_write_case : ltac:(let t := type of write_case_cohtree in exact t).
Proof. exact write_case_cohtree. Qed.
Check C02_every_covered_write_case.
Print Assumptions C02_every_covered_write_case.

(* one API step (handle operation, removal, reopen, query, open_stream) of a covered history keeps CohTree *)
Theorem C02_one_step_with_data : ltac:(let t := type of step_cohtree in exact t).
Proof. exact step_cohtree. Qed.
Check C02_one_step_with_data.
Print Assumptions C02_one_step_with_data.

(* for EVERY history whose steps fall into the covered cases: CohTree at every prefix and the bytes alone reopen in both modes to the reopened cached state *)
Theorem C02_persistence_over_histories_with_allocation : ltac:(let t := type of persist_data_history2 in exact t).
Proof. exact persist_data_history2. Qed.
Check C02_persistence_over_histories_with_allocation.
Print Assumptions C02_persistence_over_histories_with_allocation.

(* non-vacuity: growth at end of file, release, removal, a reopen in the middle, growth from the rebuilt free list, a buffered write with its flush *)
Theorem C02_history_example_with_allocation : ltac:(let t := type of DataPersist2.Example4.hist2_persists in exact t).
Proof. exact DataPersist2.Example4.hist2_persists. Qed.
Check C02_history_example_with_allocation.
Print Assumptions C02_history_example_with_allocation.

(* non-vacuity: large-to-small, small-to-large, first write to an empty stream, reopen - through handles *)
Theorem C02_history_example_through_handles : ltac:(let t := type of DataPersist2.Example6.hist3_persists in exact t).
Proof. exact DataPersist2.Example6.hist3_persists. Qed.
Check C02_history_example_through_handles.
Print Assumptions C02_history_example_through_handles.

(* why RootFits is a hypothesis: a version 3 root length of 2^32 is written as 64 bits and read back masked to 32 *)
Theorem C02_root_length_bound_is_needed : ltac:(let t := type of DataPersist2.root_fits_needed in exact t).
Proof. exact DataPersist2.root_fits_needed. Qed.
Check C02_root_length_bound_is_needed.
Print Assumptions C02_root_length_bound_is_needed.

(* non-vacuity: a small and a large stream built by running the model; an 8-step history with writes, a flush, a metadata call, a query and a drop *)
Theorem C02_data_persistence_example : ltac:(let t := type of DataPersist.Example.hist_persists in exact t).
Proof. exact DataPersist.Example.hist_persists. Qed.
Check C02_data_persistence_example.
Print Assumptions C02_data_persistence_example.
