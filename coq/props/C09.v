(* C09 — names are validated, case-insensitive, and paths are normalised
   consistently.  Pinned statements only; proofs are in proofs/NamesProofs.v
   (and, for the sibling-set statements, proofs/TreeProofs.v). *)
From Cfb.model Require Import Base Names.
From Cfb.gen Require Import Consts UpTable.
From Cfb.proofs Require Import NamesProofs.
Open Scope N_scope.

(* the order used by every tree descent is shortlex on (length in UTF-16 units,
   upper-cased UTF-16 code units): the ASCII fast path and the general path agree *)
Theorem C09_order_is_shortlex_on_upcased_units :
  forall a b, cmp_names a b = shortlex (key a) (key b).
Proof. exact cmp_names_key. Qed.
Check C09_order_is_shortlex_on_upcased_units : forall a b, cmp_names a b = shortlex (key a) (key b).
Print Assumptions C09_order_is_shortlex_on_upcased_units.

Theorem C09_order_refl : forall a, cmp_names a a = Eq.
Proof. exact cmp_names_refl. Qed.
Print Assumptions C09_order_refl.

Theorem C09_order_antisym : forall a b, cmp_names b a = CompOpp (cmp_names a b).
Proof. exact cmp_names_antisym. Qed.
Print Assumptions C09_order_antisym.

Theorem C09_order_trans : forall a b c, cmp_names a b = Lt -> cmp_names b c = Lt -> cmp_names a c = Lt.
Proof. exact cmp_names_trans_lt. Qed.
Print Assumptions C09_order_trans.

Theorem C09_equiv_trans : forall a b c, cmp_names a b = Eq -> cmp_names b c = Eq -> cmp_names a c = Eq.
Proof. exact cmp_names_eq_trans. Qed.
Print Assumptions C09_equiv_trans.

Theorem C09_equiv_congruence :
  forall a b c, cmp_names a b = Eq -> cmp_names a c = cmp_names b c /\ cmp_names c a = cmp_names c b.
Proof. intros a b c H; split; [exact (cmp_names_eq_compat_l a b c H) | exact (cmp_names_eq_compat_r a b c H)]. Qed.
Print Assumptions C09_equiv_congruence.

(* two names collide exactly when their upper-cased UTF-16 forms are equal *)
Theorem C09_equiv_iff_same_upcased_units :
  forall a b, cmp_names a b = Eq <-> utf16 (map upper a) = utf16 (map upper b).
Proof. exact cmp_names_eq_iff. Qed.
Print Assumptions C09_equiv_iff_same_upcased_units.

(* found again under any letter-case variant *)
Theorem C09_case_insensitive : forall a, cmp_names (map upper a) a = Eq.
Proof. exact cmp_names_case_insensitive. Qed.
Print Assumptions C09_case_insensitive.

(* facts about the generated table: the real upper-casing function restricted
   to ASCII is ASCII upper-casing, never changes the UTF-16 length, is idempotent *)
Theorem C09_table_ascii : forall c, c < 128 -> upper c = ascii_upper c.
Proof. exact upper_ascii. Qed.
Print Assumptions C09_table_ascii.
Theorem C09_table_idempotent : forall c, upper (upper c) = upper c.
Proof. exact upper_idem. Qed.
Print Assumptions C09_table_idempotent.

(* validation: exactly "at most 31 UTF-16 units and none of / \ : !" *)
Theorem C09_validate_iff :
  forall n, (exists u, validate_name n = Ok u) <->
            (lenN (utf16 n) <= 31 /\ ~ In 47 n /\ ~ In 92 n /\ ~ In 58 n /\ ~ In 33 n).
Proof. exact validate_name_ok_iff. Qed.
Print Assumptions C09_validate_iff.

Theorem C09_validate_rejects_with_invalid_input :
  forall n, validate_name n =
            (if (lenN (utf16 n) <=? MAX_NAME_LEN) && negb (existsb (fun f => memN f n) FORBIDDEN_CHARS)
             then Ok (utf16 n) else Err EInvalidInput).
Proof. exact validate_name_spec. Qed.
Print Assumptions C09_validate_rejects_with_invalid_input.

(* path spellings *)
Theorem C09_path_trailing_slash : forall p, name_chain_from_path (p ++ [SLASH]) = name_chain_from_path p.
Proof. exact path_trailing_slash. Qed.
Print Assumptions C09_path_trailing_slash.
Theorem C09_path_leading_slash : forall p, name_chain_from_path (SLASH :: p) = name_chain_from_path p.
Proof. exact path_leading_slash. Qed.
Print Assumptions C09_path_leading_slash.
Theorem C09_path_dot :
  forall p q, name_chain_from_path (p ++ [SLASH; DOT; SLASH] ++ q) = name_chain_from_path (p ++ [SLASH] ++ q).
Proof. exact path_dot_component. Qed.
Print Assumptions C09_path_dot.
Theorem C09_path_dotdot :
  forall p q x, x <> [] -> ~ In SLASH x -> is_dot x = false -> is_dotdot x = false ->
    name_chain_from_path (p ++ [SLASH] ++ x ++ [SLASH; DOT; DOT; SLASH] ++ q) = name_chain_from_path (p ++ [SLASH] ++ q).
Proof. exact path_dotdot_component. Qed.
Print Assumptions C09_path_dotdot.
Theorem C09_path_escape_is_invalid_input :
  forall cs, name_chain_go (CParent :: cs) [] = Err EInvalidInput.
Proof. exact chain_escape. Qed.
Print Assumptions C09_path_escape_is_invalid_input.
Theorem C09_path_errors_are_invalid_input :
  forall cs names k, name_chain_go cs names = Err k -> k = EInvalidInput.
Proof. exact chain_only_invalid_input. Qed.
Print Assumptions C09_path_errors_are_invalid_input.
