(* C01 — namespace and content operations agree with an abstract tree model.  Statements are printed by Check below and compared with C01.expected.  PARTIAL: the directory layer (lookup / insert / remove / listing on the pointer table refine a search tree over cmp_names, for any tree shape) and the specification's own invariants are theorems; the composition into the full refinement step_refines_spec (abs (step s op) = spec_step (abs s) op, including stream bytes through chains and migrations) is NOT proved — it is checked instance by instance: on every step of every generated history the abstraction of the model state equals the specification tree and the specification's result equals the implementation's. *)
From Cfb.model Require Import Base Names DirEnt State Alloc Dir Mini Store Handle Open Cfb.
From Cfb.gen Require Import Consts.
From Cfb.spec Require Import Tree.
From Cfb.proofs Require Import NamesProofs DirProofs TreeProofs.
Set Printing Width 110.

(* table lookup with the model's own fuel = search-tree lookup, for ANY tree shape (balance and colour irrelevant) *)
Theorem C01_lookup_is_bst_lookup : ltac:(let t := type of find_in_siblings_total in exact t).
Proof. exact find_in_siblings_total. Qed.
Check C01_lookup_is_bst_lookup.
Print Assumptions C01_lookup_is_bst_lookup.

(* the id found is the unique entry whose name is equivalent up to case *)
Theorem C01_bst_lookup_finds_exactly_equivalent_name : ltac:(let t := type of bst_find_iff in exact t).
Proof. exact bst_find_iff. Qed.
Check C01_bst_lookup_finds_exactly_equivalent_name.
Print Assumptions C01_bst_lookup_finds_exactly_equivalent_name.

(* insertion links a new leaf at the search position; ids become a permutation of new :: old *)
Theorem C01_insert_is_bst_insert : ltac:(let t := type of insert_rep in exact t).
Proof. exact insert_rep. Qed.
Check C01_insert_is_bst_insert.
Print Assumptions C01_insert_is_bst_insert.

(* removal = search-tree removal *)
Theorem C01_remove_is_bst_remove : ltac:(let t := type of remove_rep in exact t).
Proof. exact remove_rep. Qed.
Check C01_remove_is_bst_remove.
Print Assumptions C01_remove_is_bst_remove.

(* read_storage visits exactly the in-order sequence, i.e. CFB order *)
Theorem C01_listing_is_inorder : ltac:(let t := type of entries_nonrec_inorder in exact t).
Proof. exact entries_nonrec_inorder. Qed.
Check C01_listing_is_inorder.
Print Assumptions C01_listing_is_inorder.

(* every operation of the abstract specification keeps every children list strictly sorted (hence unique up to case) *)
Theorem C01_spec_keeps_children_sorted : ltac:(let t := type of wf_spec_step in exact t).
Proof. exact wf_spec_step. Qed.
Check C01_spec_keeps_children_sorted.
Print Assumptions C01_spec_keeps_children_sorted.

(* any set of pairwise non-equivalent names inserted in any order gives the same sorted list; each stays findable under any case variant through insertions and removals *)
Theorem C01_spec_siblings_coexist : ltac:(let t := type of siblings_coexist in exact t).
Proof. exact siblings_coexist. Qed.
Check C01_spec_siblings_coexist.
Print Assumptions C01_spec_siblings_coexist.

(* in the specification an Err result never changes the tree *)
Theorem C01_spec_refusals_have_no_effect : ltac:(let t := type of spec_refused_no_effect in exact t).
Proof. exact spec_refused_no_effect. Qed.
Check C01_spec_refusals_have_no_effect.
Print Assumptions C01_spec_refusals_have_no_effect.
