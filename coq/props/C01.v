(* C01 — namespace and content operations agree with an abstract tree model.  Statements are printed by Check below and compared with C01.expected.  PARTIAL: proved are the directory layer (lookup / insert / remove / listing on the pointer table refine a search tree over cmp_names, for any tree shape), the specification's own invariants, and the refinement of the NAMESPACE: under the representation relation TreeRep (table represents abstract tree; stream bytes abstracted by a content relation with a frame hypothesis) every query returns the specification's result and every successful namespace mutation yields a table representing the specification's new tree, with agreeing refusal kinds.  Also proved (proofs/HistoryRefine.v): the lift to WHOLE HISTORIES from a freshly created file of either version - for every list of the seven namespace mutations, nine queries, open_stream and stream creation at fresh paths, the model's results and the specification's are related call by call (equal refusal kinds, entries equal up to the root's length field) and the final table represents the final tree, up to the first late failure - and (proofs/Progress.v) late failures do not occur: whenever the specification accepts a covered call on a state reached by a namespace history (up to 6000 calls, i.e. below 109 FAT sectors) the model returns Ok, so the refinement over histories holds with no hypothesis about the model's results.  Also proved (proofs/DataFrame.v): the CONTENT half over data histories - every covered step (all handle operations in all covered store cases incl. allocation and migrations, removal with data, reopen) keeps TreeRep with the real stream contents and updates exactly the addressed leaf.  NOT proved: truncating create_stream, the *_all operations, creations inside data histories — those are checked instance by instance: on every step of every generated history the abstraction of the model state equals the specification tree and the specification's result equals the implementation's. *)
From Cfb.model Require Import Base Names DirEnt State Alloc Dir Mini Store Handle Open Cfb.
From Cfb.gen Require Import Consts.
From Cfb.spec Require Import Tree.
From Cfb.proofs Require Import NamesProofs DirProofs TreeProofs QueryRefine MutRefine ReadonlyTotal HistoryRefine PersistProofs Progress DataFrame.
Set Printing Width 110.

(* table lookup with the model's own fuel = search-tree lookup, for ANY tree shape (balance and colour irrelevant) *)
Theorem C01_lookup_is_bst_lookup : ltac:(let t := type of find_in_siblings_total in exact t).
Proof. exact find_in_siblings_total. Qed.
Check C01_lookup_is_bst_lookup.
Print Assumptions C01_lookup_is_bst_lookup.

(* the id found is the unique entry whose name is equivalent up to case *)
Theorem C01_bst_lookup_finds_exactly_equivalent_name : ltac:(let t := type of bst_find_iff in exact t).
Proof. exact bst_find_iff. Qed.
Check C01_bst_lookup_finds_exactly_equivalent_name.
Print Assumptions C01_bst_lookup_finds_exactly_equivalent_name.

(* insertion links a new leaf at the search position; ids become a permutation of new :: old *)
Theorem C01_insert_is_bst_insert : ltac:(let t := type of insert_rep in exact t).
Proof. exact insert_rep. Qed.
Check C01_insert_is_bst_insert.
Print Assumptions C01_insert_is_bst_insert.

(* removal = search-tree removal *)
Theorem C01_remove_is_bst_remove : ltac:(let t := type of remove_rep in exact t).
Proof. exact remove_rep. Qed.
Check C01_remove_is_bst_remove.
Print Assumptions C01_remove_is_bst_remove.

(* read_storage visits exactly the in-order sequence, i.e. CFB order *)
Theorem C01_listing_is_inorder : ltac:(let t := type of entries_nonrec_inorder in exact t).
Proof. exact entries_nonrec_inorder. Qed.
Check C01_listing_is_inorder.
Print Assumptions C01_listing_is_inorder.

(* every operation of the abstract specification keeps every children list strictly sorted (hence unique up to case) *)
Theorem C01_spec_keeps_children_sorted : ltac:(let t := type of wf_spec_step in exact t).
Proof. exact wf_spec_step. Qed.
Check C01_spec_keeps_children_sorted.
Print Assumptions C01_spec_keeps_children_sorted.

(* any set of pairwise non-equivalent names inserted in any order gives the same sorted list; each stays findable under any case variant through insertions and removals *)
Theorem C01_spec_siblings_coexist : ltac:(let t := type of siblings_coexist in exact t).
Proof. exact siblings_coexist. Qed.
Check C01_spec_siblings_coexist.
Print Assumptions C01_spec_siblings_coexist.

(* in the specification an Err result never changes the tree *)
Theorem C01_spec_refusals_have_no_effect : ltac:(let t := type of spec_refused_no_effect in exact t).
Proof. exact spec_refused_no_effect. Qed.
Check C01_spec_refusals_have_no_effect.
Print Assumptions C01_spec_refusals_have_no_effect.

(* when the directory table represents the abstract tree t (TreeRep), path lookup on the table = get on t, and the id found represents the node found *)
Theorem C01_path_lookup_refines_get : ltac:(let t := type of lookup_refines_get in exact t).
Proof. exact lookup_refines_get. Qed.
Check C01_path_lookup_refines_get.
Print Assumptions C01_path_lookup_refines_get.

(* exists / is_stream / is_storage / entry / root_entry / read_storage / read_root / walk / walk_storage: the model's step returns exactly the specification's result (entries up to the root's length field), state unchanged *)
Theorem C01_queries_refine_spec : ltac:(let t := type of query_step_refines in exact t).
Proof. exact query_step_refines. Qed.
Check C01_queries_refine_spec.
Print Assumptions C01_queries_refine_spec.

(* open_stream succeeds exactly when the specification does, same error kind otherwise; the handle is bound to the id representing that leaf *)
Theorem C01_open_stream_refines_spec : ltac:(let t := type of open_stream_step_refines in exact t).
Proof. exact open_stream_step_refines. Qed.
Check C01_open_stream_refines_spec.
Print Assumptions C01_open_stream_refines_spec.

(* create_storage, remove_storage, remove_stream, set_storage_clsid, set_state_bits, set_created_time, set_modified_time: whenever the model's step succeeds, the specification succeeds and the new table represents the specification's new tree *)
Theorem C01_namespace_mutations_refine_spec : ltac:(let t := type of namespace_step_refines in exact t).
Proof. exact namespace_step_refines. Qed.
Check C01_namespace_mutations_refine_spec.
Print Assumptions C01_namespace_mutations_refine_spec.

(* creating a new stream: the new table represents the tree with an empty leaf inserted at the sorted position *)
Theorem C01_create_stream_refines_spec : ltac:(let t := type of create_stream_step_refines in exact t).
Proof. exact create_stream_step_refines. Qed.
Check C01_create_stream_refines_spec.
Print Assumptions C01_create_stream_refines_spec.

(* when the specification refuses, the model refuses with the same kind and an unchanged state (same for the other seven operations: *_refusal in proofs/MutRefine.v) *)
Theorem C01_create_storage_refusal_kinds_agree : ltac:(let t := type of create_storage_refusal in exact t).
Proof. exact create_storage_refusal. Qed.
Check C01_create_storage_refusal_kinds_agree.
Print Assumptions C01_create_storage_refusal_kinds_agree.

(* same, for remove_stream *)
Theorem C01_remove_stream_refusal_kinds_agree : ltac:(let t := type of remove_stream_refusal in exact t).
Proof. exact remove_stream_refusal. Qed.
Check C01_remove_stream_refusal_kinds_agree.
Print Assumptions C01_remove_stream_refusal_kinds_agree.

(* on every covered call model and specification agree (results related, new table represents new tree) unless the specification succeeds and the model fails late *)
Theorem C01_one_step_agreement : ltac:(let t := type of step_agreement in exact t).
Proof. exact step_agreement. Qed.
Check C01_one_step_agreement.
Print Assumptions C01_one_step_agreement.

(* the file written by create (V3 and V4) represents the empty tree *)
Theorem C01_fresh_file_represents_empty_tree : ltac:(let t := type of fresh_sim in exact t).
Proof. exact fresh_sim. Qed.
Check C01_fresh_file_represents_empty_tree.
Print Assumptions C01_fresh_file_represents_empty_tree.

(* for EVERY history of covered calls on a fresh file without late failure: all results related, final table represents the final tree *)
Theorem C01_histories_refine_spec : ltac:(let t := type of fresh_history_refines in exact t).
Proof. exact fresh_history_refines. Qed.
Check C01_histories_refine_spec.
Print Assumptions C01_histories_refine_spec.

(* without that hypothesis: results are related strictly up to the first late failure, which is the only way the two can part *)
Theorem C01_histories_agree_until_late_failure : ltac:(let t := type of fresh_history_agrees_until_late_failure in exact t).
Proof. exact fresh_history_agrees_until_late_failure. Qed.
Check C01_histories_agree_until_late_failure.
Print Assumptions C01_histories_agree_until_late_failure.

(* non-vacuity: an 18-call history (five of them refused) on V3 and V4 meets the hypotheses *)
Theorem C01_history_example : ltac:(let t := type of Example.ex_history in exact t).
Proof. exact Example.ex_history. Qed.
Check C01_history_example.
Print Assumptions C01_history_example.

(* DataFrame: CONTENT half - one covered step on a file with data (any of the 10 handle operations in any covered store case, removal with data, reopen): the table represents the specification's tree with the addressed leaf replaced by what the model predicts *)
Theorem C01_content_refinement_one_step : ltac:(let t := type of step_refines_full in exact t).
Proof. exact step_refines_full. Qed.
Check C01_content_refinement_one_step.
Print Assumptions C01_content_refinement_one_step.

(* for every history of hist_ok2 on live handles: there is a tree reached by the per-step leaf updates that the final table represents, with the real stream contents *)
Theorem C01_content_refinement_over_histories : ltac:(let t := type of data_history_refines in exact t).
Proof. exact data_history_refines. Qed.
Check C01_content_refinement_over_histories.
Print Assumptions C01_content_refinement_over_histories.

(* after set_len the leaf is exactly resized (buffered view) n *)
Theorem C01_set_len_leaf_is_determined : ltac:(let t := type of setlen_tree_full in exact t).
Proof. exact setlen_tree_full. Qed.
Check C01_set_len_leaf_is_determined.
Print Assumptions C01_set_len_leaf_is_determined.

(* after flush the leaf is exactly the handle's buffered view *)
Theorem C01_flush_leaf_is_determined : ltac:(let t := type of flush_tree_full in exact t).
Proof. exact flush_tree_full. Qed.
Check C01_flush_leaf_is_determined.
Print Assumptions C01_flush_leaf_is_determined.

(* PROGRESS: on a state reached by a namespace history, whenever the specification accepts a covered call the model returns Ok (no failure in slot allocation, directory growth, sector allocation or write-through) *)
Theorem C01_accepted_calls_do_not_fail_late : ltac:(let t := type of step_progress in exact t).
Proof. exact step_progress. Qed.
Check C01_accepted_calls_do_not_fail_late.
Print Assumptions C01_accepted_calls_do_not_fail_late.

(* step_agreement with the late-failure alternative removed *)
Theorem C01_one_step_agreement_without_exception : ltac:(let t := type of step_agreement_total in exact t).
Proof. exact step_agreement_total. Qed.
Check C01_one_step_agreement_without_exception.
Print Assumptions C01_one_step_agreement_without_exception.

(* THE PROPERTY for the namespace: for EVERY history (up to 6000 calls) of the covered calls on a fresh file of either version, all results are related to the specification's and the final table represents the final tree - no hypothesis about the model's results *)
Theorem C01_histories_refine_spec_unconditionally : ltac:(let t := type of fresh_history_refines_total in exact t).
Proof. exact fresh_history_refines_total. Qed.
Check C01_histories_refine_spec_unconditionally.
Print Assumptions C01_histories_refine_spec_unconditionally.

(* including create_stream where the path is new *)
Theorem C01_the_same_with_stream_creation_at_fresh_paths : ltac:(let t := type of fresh_history_refines_from_total in exact t).
Proof. exact fresh_history_refines_from_total. Qed.
Check C01_the_same_with_stream_creation_at_fresh_paths.
Print Assumptions C01_the_same_with_stream_creation_at_fresh_paths.
