(* C10 — rejected operations have no effect.  Pinned statements only; proofs in
   proofs/RefuseProofs.v.  [precheck] computes, from the path, the directory
   table and the handle alone, the refusal that the API-level checks produce
   (missing parent, wrong type, existing name, non-empty storage, removing the
   root, invalid path or name, out-of-range seek). *)
From Cfb.model Require Import Base Names DirEnt State Handle Cfb.
From Cfb.proofs Require Import RefuseProofs.
Open Scope N_scope.

Theorem C10_refused_call_changes_nothing :
  forall f now o k, precheck f o = Some k -> step f now o = (f, Err k).
Proof. exact precheck_sound. Qed.
Print Assumptions C10_refused_call_changes_nothing.

Theorem C10_refusal_kinds :
  forall f o k, precheck f o = Some k -> k = ENotFound \/ k = EAlreadyExists \/ k = EInvalidInput.
Proof. exact precheck_kinds. Qed.
Print Assumptions C10_refusal_kinds.

(* the bytes are bit-for-bit unchanged and so is the handle table *)
Theorem C10_refused_bytes_unchanged :
  forall f now o k, precheck f o = Some k ->
    fst (step f now o) = f /\ snd (step f now o) = Err k /\
    concat_img (img (cs (fst (step f now o)))) = concat_img (img (cs f)) /\
    hs (fst (step f now o)) = hs f.
Proof. exact refused_no_effect. Qed.
Print Assumptions C10_refused_bytes_unchanged.

(* every later result is the same as if the call had not been made *)
Theorem C10_refused_then_same_future :
  forall f now o k, precheck f o = Some k -> forall ops, run_ops (fst (step f now o)) ops = run_ops f ops.
Proof. exact refused_then_same_future. Qed.
Print Assumptions C10_refused_then_same_future.

(* out-of-range seeks are exactly the seek refusals *)
Theorem C10_seek_refusal_exact :
  forall f i w z h, nthN (hs f) i = Some (Some h) ->
    forall k, seek_target h w z = Err k <-> precheck f (OHSeek i w z) = Some k.
Proof. exact seek_refusal_exact. Qed.
Print Assumptions C10_seek_refusal_exact.

(* for the read-only queries the converse holds too: their only errors are refusals *)
Theorem C10_query_errors_are_refusals :
  forall f now o f' k, query o = true -> step f now o = (f', Err k) -> f' = f /\ precheck f o = Some k.
Proof. exact precheck_complete_partial. Qed.
Print Assumptions C10_query_errors_are_refusals.
