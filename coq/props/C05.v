(* C05 — reading arbitrary bytes never panics, hangs or exhausts memory.
   Pinned statements only; proofs in proofs/OpenTotal.v, proofs/WalkProofs.v,
   proofs/RefuseProofs.v (read-only queries), proofs/ChainProofs.v and
   proofs/ReadonlyTotal.v (every read-only call after open).  In the
   model every Rust panic site is a [Panic] result and every loop runs on explicit
   fuel returning [OutOfFuel], so these are not artefacts of totalisation. *)
From Cfb.model Require Import Base Names DirEnt State Alloc Dir Open Cfb.
From Cfb.gen Require Import Consts.
From Cfb.model Require Import Mini Store Handle.
From Cfb.proofs Require Import WalkProofs OpenTotal RefuseProofs ReadonlyTotal.
Open Scope N_scope.

(* for EVERY byte string, in both modes: Ok or an error value *)
Theorem C05_open_never_panics_or_hangs :
  forall strict bytes, match open_model strict bytes with Panic _ | OutOfFuel => False | _ => True end.
Proof. exact open_total. Qed.
Print Assumptions C05_open_never_panics_or_hangs.

(* every table built by open is no longer than the input: memory proportional to the input *)
Theorem C05_open_size_linear :
  forall strict bytes s, open_model strict bytes = Ok s ->
    lenN (fat s) <= lenN bytes /\ lenN (dirs s) <= lenN bytes /\
    lenN (minifat s) <= lenN bytes /\ lenN (difat s) <= lenN bytes /\
    lenN (difat_ids s) <= lenN bytes /\ lenN (free s) <= lenN bytes /\
    lenN (mfree s) <= lenN bytes /\ lenN (img s) <= lenN bytes.
Proof. exact open_size_bound. Qed.
Print Assumptions C05_open_size_linear.

(* what open establishes, and why the library's cheap "came back to the first
   sector" loop check is enough: on an accepted table every chain walk from ANY
   start terminates without panicking *)
Theorem C05_accepted_tables_are_injective :
  forall strict bytes s, open_model strict bytes = Ok s ->
    check_pointees false (fat s) (lenN (fat s)) [] = Ok tt /\
    check_pointees true (minifat s) (lenN (minifat s)) [] = Ok tt /\
    (exists ids, chain_ids_of (fat s) (dir_start s) = Ok ids) /\
    (exists ids, chain_ids_of (fat s) (minifat_start s) = Ok ids) /\
    dirs s <> [].
Proof. exact open_post. Qed.
Print Assumptions C05_accepted_tables_are_injective.

Theorem C05_walks_on_injective_tables_terminate :
  forall b fat, check_pointees b fat (lenN fat) [] = Ok tt ->
    forall start, chain_ids_of fat start <> OutOfFuel /\ (forall p, chain_ids_of fat start <> Panic p).
Proof. exact chain_ids_total. Qed.
Print Assumptions C05_walks_on_injective_tables_terminate.

(* read-only API calls: an error from one of them is a precondition refusal and
   leaves everything unchanged (so they cannot panic their way out either: the
   only non-Ok results are the three refusal kinds) *)
Theorem C05_queries_only_refuse :
  forall f now o f' k, query o = true -> step f now o = (f', Err k) -> f' = f /\ precheck f o = Some k.
Proof. exact precheck_complete_partial. Qed.
Print Assumptions C05_queries_only_refuse.

(* what directory validation establishes, in both modes: the entries reachable from the root
   through left / right / child links form a finite forest without sharing, every node typed *)
Theorem C05_validated_directory_is_a_forest :
  forall strict ds, dir_validate strict ds = Ok tt -> DirTree ds.
Proof. exact validated_directory_is_forest. Qed.
Print Assumptions C05_validated_directory_is_a_forest.

(* THE PROPERTY, for the model: for EVERY byte string that open accepts (either mode) and EVERY
   sequence of read-only calls - exists / is_stream / is_storage / entry / root_entry /
   read_storage / read_root / walk / walk_storage / flush / version / open_stream / read_to_end
   through a fresh handle / read / fill_buf / consume (within the buffer: BufRead's contract) /
   seek / len / position / drop on up to nh handles, any buffer size - every result is Ok or an
   error value (never Panic, never OutOfFuel) and the file state is unchanged.  Every loop of
   the model runs on fuel computed from table sizes, so "not OutOfFuel" is termination. *)
Theorem C05_read_only_calls_never_panic_or_hang :
  forall strict bytes s, open_model strict bytes = Ok s ->
  forall f, cs f = s -> HandlesOk s (hs f) ->
  forall l, ro_seq f l ->
    Forall fine (snd (run_ops f l)) /\ cs (fst (run_ops f l)) = s /\ HandlesOk s (hs (fst (run_ops f l))).
Proof. exact readonly_total. Qed.
Print Assumptions C05_read_only_calls_never_panic_or_hang.

(* the same from the state right after open (no handles yet), for call sequences that can be
   described without looking at the state *)
Theorem C05_read_only_calls_after_open :
  forall strict bytes s mb nh, open_model strict bytes = Ok s ->
  forall l, Forall (fun p => ro_op_static (snd p)) l ->
    Forall fine (snd (run_ops (mkF s (repeatN None nh) mb) l)) /\
    cs (fst (run_ops (mkF s (repeatN None nh) mb) l)) = s.
Proof. exact readonly_total_fresh. Qed.
Print Assumptions C05_read_only_calls_after_open.
