(* C13 — write failures are reported, not swallowed; a successful flush means
   durable.  Pinned statements only (handle level); proofs in
   proofs/HandleProofs.v.  The store contract lets a write-back fail at any point,
   possibly torn (bytes inside the written range arbitrary, everything outside
   intact), and lets resize fail atomically.  No panic after a fault below the
   handle, and the atomicity assumption on resize, are covered by the exhaustive
   single-fault enumeration on the real crate. *)
From Cfb.model Require Import Base Handle.
From Cfb.spec Require Import VecSpec.
From Cfb.proofs Require Import HandleProofs.
Open Scope N_scope.

Section C13.
Variable St : Type.
Variable read_data : N -> N -> N -> St -> St * res (list byte).
Variable write_data : N -> N -> list byte -> St -> St * res unit.
Variable resize : N -> N -> St -> St * res unit.
Variable stream_len : N -> St -> St * res N.
Variable content : St -> N -> list byte -> Prop.
Hypothesis SC : store_contract St read_data write_data resize stream_len content.

(* if flush returns Ok, every byte accepted by earlier writes is in the store —
   also when earlier flush attempts failed (HInv is an invariant across them) *)
Theorem C13_flush_ok_means_durable :
  forall (s : St) (id : N) (V : list byte) (h : handle) (s' : St) (h' : handle),
    content s id V -> h_id h = id -> HInv V h ->
    h_flush St write_data stream_len h s = (s', (h', Ok tt)) ->
    content s' id (absV h V) /\ h_dirty h' = false /\ HInv (absV h V) h'.
Proof. exact (flush_ok_durable St read_data write_data resize stream_len content SC). Qed.

(* a failing write-back makes the enclosing call return Err, and leaves the
   accepted data pending (abstract content unchanged, invariant kept) *)
Theorem C13_flush_reports_and_keeps_data :
  forall (s : St) (id : N) (V : list byte) (h : handle),
    content s id V -> h_id h = id -> HInv V h ->
    op_refines St content id flush_post V h (h_flush St write_data stream_len h s).
Proof. exact (h_flush_refines St read_data write_data resize stream_len content SC). Qed.

Theorem C13_write_reports_and_keeps_data :
  forall (s : St) (id : N) (V : list byte) (h : handle) (inp : list byte),
    content s id V -> h_id h = id -> HInv V h ->
    op_refines St content id (write_post inp) V h (h_write St write_data stream_len h inp s).
Proof. exact (h_write_refines St read_data write_data resize stream_len content SC). Qed.

Theorem C13_set_len_reports_and_keeps_data :
  forall (s : St) (id : N) (V : list byte) (h : handle) (n : N),
    content s id V -> h_id h = id -> HInv V h ->
    op_refines St content id (set_len_post n) V h (h_set_len St write_data resize stream_len h n s).
Proof. exact (h_set_len_refines St read_data write_data resize stream_len content SC). Qed.
End C13.
Print Assumptions C13_flush_ok_means_durable.
Print Assumptions C13_flush_reports_and_keeps_data.
Print Assumptions C13_write_reports_and_keeps_data.
Print Assumptions C13_set_len_reports_and_keeps_data.
