(* C04 — any valid layout written by another implementation is read correctly.  Statements are printed by Check below and compared with C04.expected.  FULL FOR THE MODEL: the layout-independence components are theorems — a chain is read as the concatenation of its sectors in chain order WHATEVER the sector numbers (fragmented, reversed, anywhere in the file), lookup finds exactly the keys of ANY search tree over the CFB order (balanced red-black or degenerate, any slots), listing is the in-order sequence, the order is shortlex on upper-cased UTF-16 units.  Also proved (proofs/WfOpen.v), for ARBITRARY bytes (every element a byte): WHATEVER the independent checker spec/WfImage.v accepts (50 rules; any sector placement, any chain order, any DIFAT layout, any red-black tree shape, any slot assignment) strict open and permissive open succeed, and the state they return has exactly the tables the checker computed from the bytes: FAT, FAT-sector list, DIFAT chain, the decoded directory entries and the MiniFAT (wf_open_opened, wf_open_ok, and the permissive forms).  Proving it exposed seven places where the checker had been weaker than MS-CFB; they are now rules 45-50 and the theorem has no hypothesis besides bytes_ok (the model's byte type is N).  Also proved (proofs/WfContent.v): THE COMPOSITION - abs (open bytes) = logical bytes for every accepted image, where logical is an independent specification function blind to the layout; hence two accepted images with the same logical content open to the same tree and give the same answers to every read-only call (layout independence), with six differently laid-out example images.  What remains outside the proof is the tie of the model to the crate (lockstep + the independent layout synthesiser). *)
From Cfb.model Require Import Base Names DirEnt State Alloc Dir Mini Store Handle Open Cfb.
From Cfb.gen Require Import Consts.
From Cfb.spec Require Import WfImage.
From Cfb.proofs Require Import NamesProofs ChainProofs DirProofs WalkProofs WfOpen WfContent.
Set Printing Width 110.

(* reading through any good chain returns the bytes of its sectors in chain order *)
Theorem C04_chain_read_any_sector_order : ltac:(let t := type of chain_read_spec in exact t).
Proof. exact chain_read_spec. Qed.
Check C04_chain_read_any_sector_order.
Print Assumptions C04_chain_read_any_sector_order.

(* the chain is exactly the FAT walk from its start, whatever sector numbers it visits *)
Theorem C04_chain_walk_is_fat_walk : ltac:(let t := type of chain_ids_of_walk in exact t).
Proof. exact chain_ids_of_walk. Qed.
Check C04_chain_walk_is_fat_walk.
Print Assumptions C04_chain_walk_is_fat_walk.

(* lookup = search-tree lookup for any tree shape and any slot assignment *)
Theorem C04_lookup_any_tree_shape : ltac:(let t := type of find_in_siblings_spec in exact t).
Proof. exact find_in_siblings_spec. Qed.
Check C04_lookup_any_tree_shape.
Print Assumptions C04_lookup_any_tree_shape.

(* found iff an entry with an equivalent name is in the tree *)
Theorem C04_lookup_exact : ltac:(let t := type of bst_find_iff in exact t).
Proof. exact bst_find_iff. Qed.
Check C04_lookup_exact.
Print Assumptions C04_lookup_exact.

(* listing = in-order sequence for any tree shape *)
Theorem C04_listing_any_tree_shape : ltac:(let t := type of entries_nonrec_inorder in exact t).
Proof. exact entries_nonrec_inorder. Qed.
Check C04_listing_any_tree_shape.
Print Assumptions C04_listing_any_tree_shape.

(* the descent order is shortlex on (UTF-16 length, upper-cased UTF-16 units) *)
Theorem C04_order_is_the_spec_order : ltac:(let t := type of cmp_names_key in exact t).
Proof. exact cmp_names_key. Qed.
Check C04_order_is_the_spec_order.
Print Assumptions C04_order_is_the_spec_order.

(* what acceptance by the independent checker means, rule by rule, for arbitrary bytes *)
Theorem C04_checker_certificate : ltac:(let t := type of wf_certificate in exact t).
Proof. exact wf_certificate. Qed.
Check C04_checker_certificate.
Print Assumptions C04_checker_certificate.

(* ARBITRARY bytes accepted by the checker: the strict header decoder succeeds with the fields the checker read *)
Theorem C04_wf_header_opens : ltac:(let t := type of wf_header_ok in exact t).
Proof. exact wf_header_ok. Qed.
Check C04_wf_header_opens.
Print Assumptions C04_wf_header_opens.

(* ... the DIFAT loop, FAT load, trim and allocator validation succeed in strict mode and produce the checker's FAT, whatever the layout *)
Theorem C04_wf_open_reaches_directory_phase : ltac:(let t := type of wf_open_upto_alloc in exact t).
Proof. exact wf_open_upto_alloc. Qed.
Check C04_wf_open_reaches_directory_phase.
Print Assumptions C04_wf_open_reaches_directory_phase.

(* ... given the directory phase, the MiniFAT phase succeeds and open returns the state built from the checker's tables *)
Theorem C04_wf_open_given_directory_phase : ltac:(let t := type of wf_open_given_dir in exact t).
Proof. exact wf_open_given_dir. Qed.
Check C04_wf_open_given_directory_phase.
Print Assumptions C04_wf_open_given_directory_phase.

(* the directory stage: the checker's tree walk (search tree, no red-red, every id once) implies that the model's explicit-stack DFS validation accepts *)
Theorem C04_wf_directory_validation_accepts : ltac:(let t := type of wf_dir_validate_ok in exact t).
Proof. exact wf_dir_validate_ok. Qed.
Check C04_wf_directory_validation_accepts.
Print Assumptions C04_wf_directory_validation_accepts.

(* root, every reached node and every blank slot satisfy what the strict entry decoder demands *)
Theorem C04_wf_entries_decode : ltac:(let t := type of wf_entries_ok in exact t).
Proof. exact wf_entries_ok. Qed.
Check C04_wf_entries_decode.
Print Assumptions C04_wf_entries_decode.

(* THE THEOREM: wf_check bytes = 0 -> strict open = Ok (the state built from the checker's own tables) *)
Theorem C04_wf_open_returns_the_checkers_tables : ltac:(let t := type of wf_open_opened in exact t).
Proof. exact wf_open_opened. Qed.
Check C04_wf_open_returns_the_checkers_tables.
Print Assumptions C04_wf_open_returns_the_checkers_tables.

(* corollary: every accepted image opens in strict mode *)
Theorem C04_wf_open_ok : ltac:(let t := type of wf_open_ok in exact t).
Proof. exact wf_open_ok. Qed.
Check C04_wf_open_ok.
Print Assumptions C04_wf_open_ok.

(* the same state from permissive open *)
Theorem C04_wf_open_returns_the_checkers_tables_permissive : ltac:(let t := type of wf_open_opened_permissive in exact t).
Proof. exact wf_open_opened_permissive. Qed.
Check C04_wf_open_returns_the_checkers_tables_permissive.
Print Assumptions C04_wf_open_returns_the_checkers_tables_permissive.

(* corollary *)
Theorem C04_wf_open_ok_permissive : ltac:(let t := type of wf_open_ok_permissive in exact t).
Proof. exact wf_open_ok_permissive. Qed.
Check C04_wf_open_ok_permissive.
Print Assumptions C04_wf_open_ok_permissive.

(* why bytes_ok is a hypothesis: a list element of 70000 in a name field passes the checker and is refused by open *)
Theorem C04_bytes_ok_is_needed : ltac:(let t := type of WfOpen.Gaps.bytes_ok_needed in exact t).
Proof. exact WfOpen.Gaps.bytes_ok_needed. Qed.
Check C04_bytes_ok_is_needed.
Print Assumptions C04_bytes_ok_is_needed.

(* THE PROPERTY FOR THE MODEL: for ARBITRARY bytes the checker accepts, strict open succeeds and the abstract tree it exposes (names, kinds, metadata, child order, every stream's bytes) equals logical bytes - a specification function that uses only chain_of, parse_entry and in-order traversal, i.e. is blind to sector placement, chain order, tree balance, colours and slots *)
Theorem C04_content_of_any_accepted_layout : ltac:(let t := type of wf_abs_logical in exact t).
Proof. exact wf_abs_logical. Qed.
Check C04_content_of_any_accepted_layout.
Print Assumptions C04_content_of_any_accepted_layout.

(* the same tree from permissive open *)
Theorem C04_content_of_any_accepted_layout_permissive : ltac:(let t := type of wf_abs_logical_permissive in exact t).
Proof. exact wf_abs_logical_permissive. Qed.
Check C04_content_of_any_accepted_layout_permissive.
Print Assumptions C04_content_of_any_accepted_layout_permissive.

(* two accepted images with the same logical content - however differently laid out - open to the same abstract tree *)
Theorem C04_layout_independence : ltac:(let t := type of same_logical_same_abs in exact t).
Proof. exact same_logical_same_abs. Qed.
Check C04_layout_independence.
Print Assumptions C04_layout_independence.

(* in any combination of open modes *)
Theorem C04_layout_independence_any_mode : ltac:(let t := type of same_logical_same_abs_any_mode in exact t).
Proof. exact same_logical_same_abs_any_mode. Qed.
Check C04_layout_independence_any_mode.
Print Assumptions C04_layout_independence_any_mode.

(* stage (a): names, kinds, metadata and child order *)
Theorem C04_namespace_of_any_accepted_layout : ltac:(let t := type of wf_abs_namespace in exact t).
Proof. exact wf_abs_namespace. Qed.
Check C04_namespace_of_any_accepted_layout.
Print Assumptions C04_namespace_of_any_accepted_layout.

(* the in-order listing of any accepted sibling tree is strictly increasing in the CFB order *)
Theorem C04_logical_tree_is_sorted : ltac:(let t := type of logical_wf_node in exact t).
Proof. exact logical_wf_node. Qed.
Check C04_logical_tree_is_sorted.
Print Assumptions C04_logical_tree_is_sorted.

(* every read-only call and open_stream by path on the opened state answers as the specification does on logical bytes *)
Theorem C04_api_answers_depend_on_logical_content_only : ltac:(let t := type of wf_api_logical in exact t).
Proof. exact wf_api_logical. Qed.
Check C04_api_answers_depend_on_logical_content_only.
Print Assumptions C04_api_answers_depend_on_logical_content_only.

(* two accepted images with equal logical content give the same answers *)
Theorem C04_same_logical_same_answers : ltac:(let t := type of same_logical_same_answers in exact t).
Proof. exact same_logical_same_answers. Qed.
Check C04_same_logical_same_answers.
Print Assumptions C04_same_logical_same_answers.

(* non-vacuity: six pairwise different images (different operation orders, V3 and V4, reversed FAT chain, MiniFAT holes, over-long container, a red node, a re-linked sibling tree) *)
Theorem C04_layout_example_images_differ : ltac:(let t := type of WfContent.LayoutExample.different_images in exact t).
Proof. exact WfContent.LayoutExample.different_images. Qed.
Check C04_layout_example_images_differ.
Print Assumptions C04_layout_example_images_differ.

(* ... all with the same logical content *)
Theorem C04_layout_example_same_logical : ltac:(let t := type of WfContent.LayoutExample.same_logical in exact t).
Proof. exact WfContent.LayoutExample.same_logical. Qed.
Check C04_layout_example_same_logical.
Print Assumptions C04_layout_example_same_logical.

(* ... to which the theorems are applied *)
Theorem C04_layout_example_same_answers : ltac:(let t := type of WfContent.LayoutExample.same_answers_all in exact t).
Proof. exact WfContent.LayoutExample.same_answers_all. Qed.
Check C04_layout_example_same_answers.
Print Assumptions C04_layout_example_same_answers.

(* the theorem applied to model-written images of both versions *)
Theorem C04_wf_open_example_by_theorem : ltac:(let t := type of WfOpen.WfOpenExample.opened_by_theorem in exact t).
Proof. exact WfOpen.WfOpenExample.opened_by_theorem. Qed.
Check C04_wf_open_example_by_theorem.
Print Assumptions C04_wf_open_example_by_theorem.

(* non-vacuity of the premises: a model-written image with storages, mini and regular streams and removals *)
Theorem C04_wf_open_example : ltac:(let t := type of WfOpen.WfOpenExample.premises_v3 in exact t).
Proof. exact WfOpen.WfOpenExample.premises_v3. Qed.
Check C04_wf_open_example.
Print Assumptions C04_wf_open_example.
