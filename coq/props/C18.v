(* C18 — results do not depend on buffering, I/O chunking, backend or run.
   Pinned statements only; model in model/IO.v, proofs in proofs/IOProofs.v.
   std's read_exact / write_all / io::copy are MODELLED from their documentation
   (retry on Interrupted, continue after short counts); the backends themselves
   (Cursor, File) are covered by running the same histories on each. *)
From Cfb.model Require Import Base IO.
From Cfb.proofs Require Import IOProofs.
Open Scope N_scope.

Theorem C18_read_exact_chunk_independent :
  forall fuel fuel1 n b o,
    n + count_interrupted o + 1 <= N.of_nat fuel -> n + 1 <= N.of_nat fuel1 ->
    let r := read_exact fuel n b o in
    let r1 := read_exact fuel1 n b [] in
    result r = result r1 /\ final r = final r1 /\
    (result r = Ok (takeN n (dropN (pos b) (data b))) /\ pos (final r) = pos b + n
     \/ result r = Err EUnexpectedEof /\ lenN (data b) - pos b < n) /\
    result r <> OutOfFuel /\ data (final r) = data b.
Proof. exact read_exact_chunk_independent. Qed.
Print Assumptions C18_read_exact_chunk_independent.

Theorem C18_write_all_chunk_independent :
  forall fuel fuel1 bs b o,
    lenN bs + count_interrupted o + 1 <= N.of_nat fuel -> lenN bs + 1 <= N.of_nat fuel1 ->
    let r := write_all fuel bs b o in
    let r1 := write_all fuel1 bs b [] in
    result r = Ok tt /\ result r1 = Ok tt /\ final r = final r1 /\
    final r = write_all_spec bs b /\
    (bs <> [] -> data (final r) = spliceN (data b) (pos b) bs) /\
    pos (final r) = pos b + lenN bs.
Proof. exact write_all_chunk_independent. Qed.
Print Assumptions C18_write_all_chunk_independent.

Theorem C18_chain_read_chunk_independent :
  forall fuel fuel1 sl secs ofs n b o,
    0 < sl -> all_in_bounds (data b) secs sl -> ofs + n <= sl * lenN secs ->
    n + count_interrupted o + 1 <= N.of_nat fuel -> n + 1 <= N.of_nat fuel1 ->
    let r := chain_read_exact fuel sl secs ofs n b o in
    let r1 := chain_read_exact fuel1 sl secs ofs n b [] in
    result r = Ok (chain_bytes (data b) secs sl ofs n, ofs + n) /\
    result r1 = Ok (chain_bytes (data b) secs sl ofs n, ofs + n) /\
    final r = final r1 /\ data (final r) = data b.
Proof. exact chain_read_exact_chunk_independent. Qed.
Print Assumptions C18_chain_read_chunk_independent.

Theorem C18_chain_write_chunk_independent :
  forall fuel fuel1 sl secs ofs bs b o,
    0 < sl -> ofs + lenN bs <= sl * lenN secs ->
    lenN bs + count_interrupted o + 1 <= N.of_nat fuel -> lenN bs + 1 <= N.of_nat fuel1 ->
    let r := chain_write_all fuel sl secs ofs bs b o in
    let r1 := chain_write_all fuel1 sl secs ofs bs b [] in
    result r = Ok (ofs + lenN bs) /\ result r1 = Ok (ofs + lenN bs) /\
    final r = final r1 /\ data (final r) = chain_splice (data b) secs sl ofs bs.
Proof. exact chain_write_all_chunk_independent. Qed.
Print Assumptions C18_chain_write_chunk_independent.

(* every access seeks first: no dependence on the position a previous access left *)
Theorem C18_seek_first_read :
  forall fuel p n d q q' o,
    read_exact_at fuel p n {| data := d; pos := q |} o = read_exact_at fuel p n {| data := d; pos := q' |} o.
Proof. exact seek_first_read_exact. Qed.
Print Assumptions C18_seek_first_read.
Theorem C18_seek_first_write :
  forall fuel p bs d q q' o,
    write_all_at fuel p bs {| data := d; pos := q |} o = write_all_at fuel p bs {| data := d; pos := q' |} o.
Proof. exact seek_first_write_all. Qed.
Print Assumptions C18_seek_first_write.
