(* C17 — metadata set through the API is returned exactly and survives
   reopening.  Pinned statements only; proofs in proofs/TimeProofs.v and
   proofs/CodecProofs.v.  That the setters store these values in the entry and
   that reopening decodes what was encoded is tied to the code by the lockstep
   correspondence (profile "meta", with reopen at random points). *)
From Cfb.model Require Import Base Names Time DirEnt.
From Cfb.gen Require Import Consts.
From Cfb.proofs Require Import TimeProofs CodecProofs.
Open Scope N_scope.

(* every stored FILETIME is reported as a SystemTime that converts back to it *)
Theorem C17_filetime_roundtrip :
  forall ts, ts <= u64_max -> let '(b, s, n) := to_system_time ts in from_system_time b s n = ts.
Proof. exact filetime_roundtrip. Qed.
Print Assumptions C17_filetime_roundtrip.

(* 100 ns resolution, rounded toward the Unix epoch on both sides of it *)
Theorem C17_floor_after_epoch :
  forall s n, n < 1000000000 -> UNIX_EPOCH_TIMESTAMP + s * 10000000 + n / 100 <= u64_max ->
    from_system_time false s n = UNIX_EPOCH_TIMESTAMP + s * 10000000 + n / 100.
Proof. exact from_time_floor_after. Qed.
Print Assumptions C17_floor_after_epoch.
Theorem C17_floor_before_epoch :
  forall s n, n < 1000000000 -> s * 10000000 + n / 100 <= UNIX_EPOCH_TIMESTAMP ->
    from_system_time true s n = UNIX_EPOCH_TIMESTAMP - (s * 10000000 + n / 100).
Proof. exact from_time_floor_before. Qed.
Print Assumptions C17_floor_before_epoch.

(* saturation at 1601 and at the largest FILETIME instead of failing *)
Theorem C17_saturates_low :
  forall s n, UNIX_EPOCH_TIMESTAMP <= s * 10000000 + n / 100 -> from_system_time true s n = 0.
Proof. exact from_time_saturates_low. Qed.
Print Assumptions C17_saturates_low.
Theorem C17_saturates_high :
  forall s n, u64_max <= UNIX_EPOCH_TIMESTAMP + s * 10000000 + n / 100 -> from_system_time false s n = u64_max.
Proof. exact from_time_saturates_high. Qed.
Print Assumptions C17_saturates_high.
Theorem C17_always_in_range : forall b s n, from_system_time b s n <= u64_max.
Proof. exact from_time_range. Qed.
Print Assumptions C17_always_in_range.

(* setting a time that was read back stores the same value again *)
Theorem C17_set_get_set :
  forall b s n, n < 1000000000 ->
    let ts := from_system_time b s n in
    let '(b', s', n') := to_system_time ts in from_system_time b' s' n' = ts.
Proof. exact from_time_idempotent. Qed.
Print Assumptions C17_set_get_set.

(* all 128-bit CLSIDs and every valid directory entry survive the 128-byte encoding *)
Theorem C17_clsid_roundtrip : forall g, g < 2 ^ 128 -> clsid_decode (clsid_encode g) = g.
Proof. exact clsid_roundtrip. Qed.
Print Assumptions C17_clsid_roundtrip.
Theorem C17_dirent_roundtrip :
  forall v strict e, dirent_wf v e -> dirent_decode v strict (dirent_encode e) = Ok e.
Proof. exact dirent_roundtrip. Qed.
Print Assumptions C17_dirent_roundtrip.
Theorem C17_header_roundtrip :
  forall strict h, header_wf h -> header_decode strict (header_encode h) = Ok h.
Proof. exact header_roundtrip. Qed.
Print Assumptions C17_header_roundtrip.
