(* C12 — read failures of the underlying file never turn into wrong data.
   Pinned statements only (handle level); proofs in proofs/HandleProofs.v.  The
   store contract lets every read fail arbitrarily (Err k) without changing the
   stream's content.  [op_refines]: an Ok result is exactly what the contract
   over the true content prescribes; an Err result leaves the abstract content
   and the cursor unchanged and keeps the invariant, so every later successful
   read again returns true content; Panic / OutOfFuel are impossible.  Error
   propagation below the store interface (sector -> chain -> store) is covered by
   the exhaustive single-fault enumeration on the real crate, not by a theorem. *)
From Cfb.model Require Import Base Handle.
From Cfb.spec Require Import VecSpec.
From Cfb.proofs Require Import HandleProofs.
Open Scope N_scope.

Section C12.
Variable St : Type.
Variable read_data : N -> N -> N -> St -> St * res (list byte).
Variable write_data : N -> N -> list byte -> St -> St * res unit.
Variable resize : N -> N -> St -> St * res unit.
Variable stream_len : N -> St -> St * res N.
Variable content : St -> N -> list byte -> Prop.
Hypothesis SC : store_contract St read_data write_data resize stream_len content.

Theorem C12_read_is_exact_or_error_and_harmless :
  forall (s : St) (id : N) (V : list byte) (h : handle) (n : N),
    content s id V -> h_id h = id -> HInv V h ->
    op_refines St content id (read_post n) V h (h_read St read_data write_data stream_len h n s).
Proof. exact (h_read_refines St read_data write_data resize stream_len content SC). Qed.

Theorem C12_fill_buf_is_exact_or_error_and_harmless :
  forall (s : St) (id : N) (V : list byte) (h : handle),
    content s id V -> h_id h = id -> HInv V h ->
    op_refines St content id fill_post V h (h_fill_buf St read_data write_data stream_len h s).
Proof. exact (h_fill_buf_refines St read_data write_data resize stream_len content SC). Qed.

Theorem C12_seek_is_exact_or_error_and_harmless :
  forall (s : St) (id : N) (V : list byte) (h : handle) (w : whence) (z : Z),
    content s id V -> h_id h = id -> HInv V h ->
    op_refines St content id (seek_post w z) V h (h_seek St write_data stream_len h w z s).
Proof. exact (h_seek_refines St read_data write_data resize stream_len content SC). Qed.

(* whole histories with faults at arbitrary points: still a run of the contract *)
Theorem C12_histories_with_faults :
  forall (m id : N) (s : St) (V : list byte) (ops : list hop),
    content s id V ->
    exists h : handle,
      handle_new St stream_len id m s = (s, Ok h) /\
      b_max (h_buf h) = N.max m Consts.STREAM_BUFFER_MIN /\
      (forall (s' : St) (h' : handle) (outs : list hout),
         run_ops St read_data write_data resize stream_len h ops s = (s', (h', outs)) ->
         exists (A' : list byte) (c' : N),
           cruns (V, 0) ops outs (A', c') /\
           handle_rel St content id s' h' (A', c') /\ h_total h' = lenN A' /\ ~ In OBad outs).
Proof. exact (handle_trace_refines St read_data write_data resize stream_len content SC). Qed.
End C12.
Print Assumptions C12_read_is_exact_or_error_and_harmless.
Print Assumptions C12_fill_buf_is_exact_or_error_and_harmless.
Print Assumptions C12_seek_is_exact_or_error_and_harmless.
Print Assumptions C12_histories_with_faults.
