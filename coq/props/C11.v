(* C11 — mutating any file the library agreed to open never panics or hangs.  Statements are printed by Check below and compared with C11.expected; proofs in proofs/WalkSafe.v, proofs/WalkProofs.v, proofs/OpenTotal.v.  The invariant is NOT injectivity of the FAT (mutation of a damaged file can give a cell two predecessors) but Safe = (every walk terminates: no edge enters a cycle from outside) + (the free list has no duplicates and names only FREE cells); it holds after open of ANY accepted byte string, is preserved by EVERY allocator / chain / mini-chain operation in EVERY outcome (Ok or error half-way), and implies that every checked walk terminates without panicking.  THE PROPERTY FOR THE MODEL (proofs/MutTotal.v): an invariant MInv (the safety invariant + root entry typed + names within 31 units + the directory a forest + MiniFAT free list in range) holds after open of ANY accepted byte string in either mode and of the created file; every API call - all creations, removals, metadata setters, queries, read_to_end, reopen, and every handle operation including handles that are stale (stream removed, overwritten or resized behind them) - returns Ok or an error and re-establishes the invariant IN EVERY OUTCOME; hence every sequence of calls (BufRead::consume within the buffer being the only precondition) yields only Ok / Err results, with ONE exception: model site 303 (append_fat_sector indexing difat_sector_ids after 128 failed allocations on a file whose FAT does not cover it; scenario S303, not replayed on the crate), and under the guard Bound (tables below 2^32-5 entries; the model has no u32 wrap-around).  The proof attempts produced the scenarios S705 / S705b / S305 / SREMOVE / S503 / S403, each replayed on the crate and repaired; the examples pin their values after the repairs. *)
From Cfb.model Require Import Base Names DirEnt State Alloc Dir Mini Store Handle Open Cfb.
From Cfb.gen Require Import Consts.
From Cfb.proofs Require Import WalkProofs OpenTotal WalkSafe ReadonlyTotal MutTotal.
Set Printing Width 110.

(* what permissive (or strict) open establishes for any byte string it accepts *)
Theorem C11_accepted_files_are_safe : ltac:(let t := type of open_allsafe in exact t).
Proof. exact open_allsafe. Qed.
Check C11_accepted_files_are_safe.
Print Assumptions C11_accepted_files_are_safe.

(* on a safe state every chain walk from ANY start (also a corrupted start sector) ends or errors: no hang, no panic *)
Theorem C11_safe_walks_terminate : ltac:(let t := type of allsafe_walks_total in exact t).
Proof. exact allsafe_walks_total. Qed.
Check C11_safe_walks_terminate.
Print Assumptions C11_safe_walks_terminate.

(* the invariant is exactly 'no walk runs forever' *)
Theorem C11_walksafe_iff_no_hang : ltac:(let t := type of walksafe_iff_terminates in exact t).
Proof. exact walksafe_iff_terminates. Qed.
Check C11_walksafe_iff_no_hang.
Print Assumptions C11_walksafe_iff_no_hang.

(* in every outcome *)
Theorem C11_allocation_preserves : ltac:(let t := type of allocate_sector_preserves in exact t).
Proof. exact allocate_sector_preserves. Qed.
Check C11_allocation_preserves.
Print Assumptions C11_allocation_preserves.

(* in every outcome *)
Theorem C11_extension_preserves : ltac:(let t := type of extend_chain_preserves in exact t).
Proof. exact extend_chain_preserves. Qed.
Check C11_extension_preserves.
Print Assumptions C11_extension_preserves.

(* in every outcome *)
Theorem C11_freeing_preserves : ltac:(let t := type of free_chain_preserves in exact t).
Proof. exact free_chain_preserves. Qed.
Check C11_freeing_preserves.
Print Assumptions C11_freeing_preserves.

(* in every outcome *)
Theorem C11_chain_resize_preserves : ltac:(let t := type of chain_set_len_allsafe in exact t).
Proof. exact chain_set_len_allsafe. Qed.
Check C11_chain_resize_preserves.
Print Assumptions C11_chain_resize_preserves.

(* in every outcome *)
Theorem C11_chain_write_preserves : ltac:(let t := type of chain_write_all_allsafe in exact t).
Proof. exact chain_write_all_allsafe. Qed.
Check C11_chain_write_preserves.
Print Assumptions C11_chain_write_preserves.

(* in every outcome *)
Theorem C11_mini_chain_resize_preserves : ltac:(let t := type of mchain_set_len_allsafe in exact t).
Proof. exact mchain_set_len_allsafe. Qed.
Check C11_mini_chain_resize_preserves.
Print Assumptions C11_mini_chain_resize_preserves.

(* in every outcome *)
Theorem C11_mini_chain_write_preserves : ltac:(let t := type of mchain_write_all_allsafe in exact t).
Proof. exact mchain_write_all_allsafe. Qed.
Check C11_mini_chain_write_preserves.
Print Assumptions C11_mini_chain_write_preserves.

(* for ANY table, no invariant needed *)
Theorem C11_free_chain_always_terminates : ltac:(let t := type of free_chain_total in exact t).
Proof. exact free_chain_total. Qed.
Check C11_free_chain_always_terminates.
Print Assumptions C11_free_chain_always_terminates.

(* the repaired extend_chain walk, for ANY table *)
Theorem C11_bounded_walk_always_terminates : ltac:(let t := type of find_last_total in exact t).
Proof. exact find_last_total. Qed.
Check C11_bounded_walk_always_terminates.
Print Assumptions C11_bounded_walk_always_terminates.

(* without it extend_chain can build a tail into a self-loop (witness) *)
Theorem C11_the_free_list_condition_is_needed : ltac:(let t := type of extend_chain_needs_freeinv in exact t).
Proof. exact extend_chain_needs_freeinv. Qed.
Check C11_the_free_list_condition_is_needed.
Print Assumptions C11_the_free_list_condition_is_needed.

(* for any byte string either mode accepts *)
Theorem C11_open_establishes_the_mutation_invariant : ltac:(let t := type of open_MInv in exact t).
Proof. exact open_MInv. Qed.
Check C11_open_establishes_the_mutation_invariant.
Print Assumptions C11_open_establishes_the_mutation_invariant.

(* V3 and V4 *)
Theorem C11_created_file_satisfies_the_invariant : ltac:(let t := type of create_MInv in exact t).
Proof. exact create_MInv. Qed.
Check C11_created_file_satisfies_the_invariant.
Print Assumptions C11_created_file_satisfies_the_invariant.

(* one API call of any kind: the invariant (with the forest) holds afterwards in EVERY outcome, and the result is Ok, Err or a panic at the one listed site *)
Theorem C11_every_call_is_total_and_keeps_the_invariant : ltac:(let t := type of step_total in exact t).
Proof. exact step_total. Qed.
Check C11_every_call_is_total_and_keeps_the_invariant.
Print Assumptions C11_every_call_is_total_and_keeps_the_invariant.

(* by induction over the call sequence *)
Theorem C11_every_call_sequence_is_total : ltac:(let t := type of run_total in exact t).
Proof. exact run_total. Qed.
Check C11_every_call_sequence_is_total.
Print Assumptions C11_every_call_sequence_is_total.

(* THE PROPERTY for the model: after open of any accepted byte string, every call sequence yields only Ok / Err (or the S303 site) *)
Theorem C11_mutating_any_opened_file_never_panics_or_hangs : ltac:(let t := type of mutating_total_partial in exact t).
Proof. exact mutating_total_partial. Qed.
Check C11_mutating_any_opened_file_never_panics_or_hangs.
Print Assumptions C11_mutating_any_opened_file_never_panics_or_hangs.

(* if no result is a panic at site 303, all results are Ok or Err *)
Theorem C11_and_without_the_listed_site_only_ok_or_err : ltac:(let t := type of mutating_total in exact t).
Proof. exact mutating_total. Qed.
Check C11_and_without_the_listed_site_only_ok_or_err.
Print Assumptions C11_and_without_the_listed_site_only_ok_or_err.

(* V3 and V4 *)
Theorem C11_the_same_from_a_created_file : ltac:(let t := type of mutating_total_created in exact t).
Proof. exact mutating_total_created. Qed.
Check C11_the_same_from_a_created_file.
Print Assumptions C11_the_same_from_a_created_file.

(* two handles, the other one shortens the stream: all calls return (was Panic 705 before 218a438) *)
Theorem C11_scenario_two_handles_old_route : ltac:(let t := type of Scenarios.S705 in exact t).
Proof. exact Scenarios.S705. Qed.
Check C11_scenario_two_handles_old_route.
Print Assumptions C11_scenario_two_handles_old_route.

(* a clean stale handle reads after the other one grew the stream: all calls return (was Panic 705 before 8eb23df) *)
Theorem C11_scenario_two_handles_stale_reader : ltac:(let t := type of Scenarios.S705b in exact t).
Proof. exact Scenarios.S705b. Qed.
Check C11_scenario_two_handles_stale_reader.
Print Assumptions C11_scenario_two_handles_stale_reader.

(* set_len(u64::MAX) is refused (was Panic 305 before 88cc1a1) *)
Theorem C11_scenario_set_len_max : ltac:(let t := type of Scenarios.S305 in exact t).
Proof. exact Scenarios.S305. Qed.
Check C11_scenario_set_len_max.
Print Assumptions C11_scenario_set_len_max.

(* cross-linked directory chain: the removals fail, the lookup returns (ran out of fuel before b2314e1) *)
Theorem C11_scenario_failed_removals : ltac:(let t := type of Scenarios.SREMOVE in exact t).
Proof. exact Scenarios.SREMOVE. Qed.
Check C11_scenario_failed_removals.
Print Assumptions C11_scenario_failed_removals.

(* cross-linked MiniFAT chain: error (was Panic 503 before e13b099) *)
Theorem C11_scenario_cut_minifat_chain : ltac:(let t := type of Scenarios.S503 in exact t).
Proof. exact Scenarios.S503. Qed.
Check C11_scenario_cut_minifat_chain.
Print Assumptions C11_scenario_cut_minifat_chain.

(* cross-linked directory chain: error (was Panic 403 before e13b099) *)
Theorem C11_scenario_cut_directory_chain : ltac:(let t := type of Scenarios.S403 in exact t).
Proof. exact Scenarios.S403. Qed.
Check C11_scenario_cut_directory_chain.
Print Assumptions C11_scenario_cut_directory_chain.

(* the one site still reachable in the model: 127 failed allocations, then Panic 303 *)
Theorem C11_scenario_remaining_site : ltac:(let t := type of Scenarios.S303 in exact t).
Proof. exact Scenarios.S303. Qed.
Check C11_scenario_remaining_site.
Print Assumptions C11_scenario_remaining_site.
