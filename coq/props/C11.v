(* C11 — mutating any file the library agreed to open never panics or hangs.  Statements are printed by Check below and compared with C11.expected; proofs in proofs/WalkSafe.v, proofs/WalkProofs.v, proofs/OpenTotal.v.  The invariant is NOT injectivity of the FAT (mutation of a damaged file can give a cell two predecessors) but Safe = (every walk terminates: no edge enters a cycle from outside) + (the free list has no duplicates and names only FREE cells); it holds after open of ANY accepted byte string, is preserved by EVERY allocator / chain / mini-chain operation in EVERY outcome (Ok or error half-way), and implies that every checked walk terminates without panicking.  PARTIAL: preservation through the directory-level and API-level operations that sit above (insert / remove entry, store migrations) is proved only for their chain-level parts; absence of Panic in those layers on accepted-but-inconsistent files is checked by the mutation enumeration on the real crate with the model replaying every case. *)
From Cfb.model Require Import Base Names DirEnt State Alloc Dir Mini Store Handle Open Cfb.
From Cfb.gen Require Import Consts.
From Cfb.proofs Require Import WalkProofs OpenTotal WalkSafe.
Set Printing Width 110.

(* what permissive (or strict) open establishes for any byte string it accepts *)
Theorem C11_accepted_files_are_safe : ltac:(let t := type of open_allsafe in exact t).
Proof. exact open_allsafe. Qed.
Check C11_accepted_files_are_safe.
Print Assumptions C11_accepted_files_are_safe.

(* on a safe state every chain walk from ANY start (also a corrupted start sector) ends or errors: no hang, no panic *)
Theorem C11_safe_walks_terminate : ltac:(let t := type of allsafe_walks_total in exact t).
Proof. exact allsafe_walks_total. Qed.
Check C11_safe_walks_terminate.
Print Assumptions C11_safe_walks_terminate.

(* the invariant is exactly 'no walk runs forever' *)
Theorem C11_walksafe_iff_no_hang : ltac:(let t := type of walksafe_iff_terminates in exact t).
Proof. exact walksafe_iff_terminates. Qed.
Check C11_walksafe_iff_no_hang.
Print Assumptions C11_walksafe_iff_no_hang.

(* in every outcome *)
Theorem C11_allocation_preserves : ltac:(let t := type of allocate_sector_preserves in exact t).
Proof. exact allocate_sector_preserves. Qed.
Check C11_allocation_preserves.
Print Assumptions C11_allocation_preserves.

(* in every outcome *)
Theorem C11_extension_preserves : ltac:(let t := type of extend_chain_preserves in exact t).
Proof. exact extend_chain_preserves. Qed.
Check C11_extension_preserves.
Print Assumptions C11_extension_preserves.

(* in every outcome *)
Theorem C11_freeing_preserves : ltac:(let t := type of free_chain_preserves in exact t).
Proof. exact free_chain_preserves. Qed.
Check C11_freeing_preserves.
Print Assumptions C11_freeing_preserves.

(* in every outcome *)
Theorem C11_chain_resize_preserves : ltac:(let t := type of chain_set_len_allsafe in exact t).
Proof. exact chain_set_len_allsafe. Qed.
Check C11_chain_resize_preserves.
Print Assumptions C11_chain_resize_preserves.

(* in every outcome *)
Theorem C11_chain_write_preserves : ltac:(let t := type of chain_write_all_allsafe in exact t).
Proof. exact chain_write_all_allsafe. Qed.
Check C11_chain_write_preserves.
Print Assumptions C11_chain_write_preserves.

(* in every outcome *)
Theorem C11_mini_chain_resize_preserves : ltac:(let t := type of mchain_set_len_allsafe in exact t).
Proof. exact mchain_set_len_allsafe. Qed.
Check C11_mini_chain_resize_preserves.
Print Assumptions C11_mini_chain_resize_preserves.

(* in every outcome *)
Theorem C11_mini_chain_write_preserves : ltac:(let t := type of mchain_write_all_allsafe in exact t).
Proof. exact mchain_write_all_allsafe. Qed.
Check C11_mini_chain_write_preserves.
Print Assumptions C11_mini_chain_write_preserves.

(* for ANY table, no invariant needed *)
Theorem C11_free_chain_always_terminates : ltac:(let t := type of free_chain_total in exact t).
Proof. exact free_chain_total. Qed.
Check C11_free_chain_always_terminates.
Print Assumptions C11_free_chain_always_terminates.

(* the repaired extend_chain walk, for ANY table *)
Theorem C11_bounded_walk_always_terminates : ltac:(let t := type of find_last_total in exact t).
Proof. exact find_last_total. Qed.
Check C11_bounded_walk_always_terminates.
Print Assumptions C11_bounded_walk_always_terminates.

(* without it extend_chain can build a tail into a self-loop (witness) *)
Theorem C11_the_free_list_condition_is_needed : ltac:(let t := type of extend_chain_needs_freeinv in exact t).
Proof. exact extend_chain_needs_freeinv. Qed.
Check C11_the_free_list_condition_is_needed.
Print Assumptions C11_the_free_list_condition_is_needed.
