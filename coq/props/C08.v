(* C08 — bytes gained by growing a stream read as zero, whatever was there before.  Statements are printed by Check below and compared with C08.expected.  PARTIAL (store layer now also with allocation and the migrations, proofs/StoreAlloc.v; not covered: growth of the FILE - new FAT sectors - inside those cases, the first MiniFAT of a file, failure atomicity): at the handle level set_len refines 'truncate or pad with zeros' given the store's resize contract; Store.resize itself is proved to zero every gained byte, with no hypothesis on what the sectors held before, for large streams (growth within the last sector, into reused sectors, by appending; shrink-then-grow) and for small streams that need no new mini sector; other streams are untouched.  NOT proved: growth of a small stream that allocates new mini sectors, and the mini <-> regular migrations; those, and whole histories, are checked on the real crate against a byte vector for every buffer size, and by lockstep with the model, which keeps stale sector bytes. *)
From Cfb.model Require Import Base Names DirEnt State Alloc Dir Mini Store Handle Open Cfb.
From Cfb.gen Require Import Consts.
From Cfb.spec Require Import VecSpec.
From Cfb.proofs Require Import HandleProofs ChainProofs StoreProofs StoreMiniProofs StoreAlloc.
Set Printing Width 110.

(* set_len_post: the abstract vector becomes takeN n A ++ repeatN 0 (n - lenN A), cursor clamped *)
Theorem C08_set_len_pads_with_zeros_given_store_contract : ltac:(let t := type of h_set_len_refines in exact t).
Proof. exact h_set_len_refines. Qed.
Check C08_set_len_pads_with_zeros_given_store_contract.
Print Assumptions C08_set_len_pads_with_zeros_given_store_contract.

(* zero_fill = a chain write of zeros: content becomes spliceN old off zeros regardless of old bytes *)
Theorem C08_chain_write_overwrites_exactly_the_range : ltac:(let t := type of chain_write_spec in exact t).
Proof. exact chain_write_spec. Qed.
Check C08_chain_write_overwrites_exactly_the_range.
Print Assumptions C08_chain_write_overwrites_exactly_the_range.

(* what was written is what is read; disjoint ranges unchanged *)
Theorem C08_chain_write_then_read_back : ltac:(let t := type of chain_write_then_read in exact t).
Proof. exact chain_write_then_read. Qed.
Check C08_chain_write_then_read_back.
Print Assumptions C08_chain_write_then_read_back.

(* no data of another chain is affected *)
Theorem C08_other_chains_untouched : ltac:(let t := type of chain_write_frame_other in exact t).
Proof. exact chain_write_frame_other. Qed.
Check C08_other_chains_untouched.
Print Assumptions C08_other_chains_untouched.

(* Store.resize on a large stream growing inside its last sector: content becomes V ++ zeros with NO hypothesis on the old tail bytes; other large streams untouched *)
Theorem C08_large_stream_grow_reads_zero : ltac:(let t := type of resize_big_grow_zero_within_chain in exact t).
Proof. exact resize_big_grow_zero_within_chain. Qed.
Check C08_large_stream_grow_reads_zero.
Print Assumptions C08_large_stream_grow_reads_zero.

(* growth into sectors taken from the free list: all gained bytes zero *)
Theorem C08_large_stream_grow_into_reused_sectors_reads_zero : ltac:(let t := type of resize_big_grow_zero_new_sectors in exact t).
Proof. exact resize_big_grow_zero_new_sectors. Qed.
Check C08_large_stream_grow_into_reused_sectors_reads_zero.
Print Assumptions C08_large_stream_grow_into_reused_sectors_reads_zero.

(* growth by appending sectors to the file: all gained bytes zero *)
Theorem C08_large_stream_grow_by_appending_reads_zero : ltac:(let t := type of resize_big_grow_zero_append in exact t).
Proof. exact resize_big_grow_zero_append. Qed.
Check C08_large_stream_grow_by_appending_reads_zero.
Print Assumptions C08_large_stream_grow_by_appending_reads_zero.

(* the repaired defect's scenario for large streams: shrink to m then grow back reads takeN m V ++ zeros, also when sectors are released and come back from the free stack *)
Theorem C08_large_stream_shrink_then_grow : ltac:(let t := type of shrink_then_grow_zero_general in exact t).
Proof. exact shrink_then_grow_zero_general. Qed.
Check C08_large_stream_shrink_then_grow.
Print Assumptions C08_large_stream_shrink_then_grow.

(* witness that the explicit zero fill is necessary: 5000 -> 4700 -> 5000 without it reads 300 stale bytes *)
Theorem C08_without_zero_fill_stale_bytes_show : ltac:(let t := type of StoreExamples.without_zero_fill_stale in exact t).
Proof. exact StoreExamples.without_zero_fill_stale. Qed.
Check C08_without_zero_fill_stale_bytes_show.
Print Assumptions C08_without_zero_fill_stale_bytes_show.

(* Store.resize on a small (mini-stream) stream growing inside its last mini sector: V ++ zeros with NO hypothesis on the old bytes of the mini sector *)
Theorem C08_small_stream_grow_reads_zero : ltac:(let t := type of resize_small_grow_zero_within_chain in exact t).
Proof. exact resize_small_grow_zero_within_chain. Qed.
Check C08_small_stream_grow_reads_zero.
Print Assumptions C08_small_stream_grow_reads_zero.

(* 100 -> 70 -> 100 style scenario for small streams *)
Theorem C08_small_stream_shrink_then_grow : ltac:(let t := type of small_shrink_then_grow_zero in exact t).
Proof. exact small_shrink_then_grow_zero. Qed.
Check C08_small_stream_shrink_then_grow.
Print Assumptions C08_small_stream_shrink_then_grow.

(* writes and resizes of one small stream leave every other small stream's content unchanged *)
Theorem C08_small_stream_writes_do_not_touch_other_streams : ltac:(let t := type of small_write_frame_other in exact t).
Proof. exact small_write_frame_other. Qed.
Check C08_small_stream_writes_do_not_touch_other_streams.
Print Assumptions C08_small_stream_writes_do_not_touch_other_streams.

(* reads return exactly the represented bytes *)
Theorem C08_large_stream_read_back : ltac:(let t := type of read_data_big in exact t).
Proof. exact read_data_big. Qed.
Check C08_large_stream_read_back.
Print Assumptions C08_large_stream_read_back.

(* same for small streams *)
Theorem C08_small_stream_read_back : ltac:(let t := type of read_data_small in exact t).
Proof. exact read_data_small. Qed.
Check C08_small_stream_read_back.
Print Assumptions C08_small_stream_read_back.

(* growth that needs MORE mini sectors - reused from the mini free list and / or appended within retained capacity, in any mix: content becomes V ++ zeros (stale bytes of reused mini sectors are never visible), the store invariant SWf is kept, every other stream keeps its content *)
Theorem C08_small_stream_grow_with_new_mini_sectors_reads_zero : ltac:(let t := type of resize_small_alloc in exact t).
Proof. exact resize_small_alloc. Qed.
Check C08_small_stream_grow_with_new_mini_sectors_reads_zero.
Print Assumptions C08_small_stream_grow_with_new_mini_sectors_reads_zero.

(* write-back that grows a small stream into new mini sectors: content = spliceN V off buf *)
Theorem C08_small_stream_write_with_new_mini_sectors : ltac:(let t := type of write_data_small_alloc in exact t).
Proof. exact write_data_small_alloc. Qed.
Check C08_small_stream_write_with_new_mini_sectors.
Print Assumptions C08_small_stream_write_with_new_mini_sectors.

(* read_data afterwards returns the old bytes, then zeros *)
Theorem C08_and_reads_back : ltac:(let t := type of resize_small_alloc_reads in exact t).
Proof. exact resize_small_alloc_reads. Qed.
Check C08_and_reads_back.
Print Assumptions C08_and_reads_back.

(* case 1a: a stream without a chain becomes n zero bytes in the mini stream *)
Theorem C08_first_resize_of_an_empty_stream_small : ltac:(let t := type of resize_empty_small in exact t).
Proof. exact resize_empty_small. Qed.
Check C08_first_resize_of_an_empty_stream_small.
Print Assumptions C08_first_resize_of_an_empty_stream_small.

(* case 1b: directly into regular sectors (taken from the free stack) *)
Theorem C08_first_resize_of_an_empty_stream_large : ltac:(let t := type of resize_empty_big in exact t).
Proof. exact resize_empty_big. Qed.
Check C08_first_resize_of_an_empty_stream_large.
Print Assumptions C08_first_resize_of_an_empty_stream_large.

(* migration at the 4096-byte cutoff by set_len: content V ++ zeros, the mini chain released (trailing MiniFAT trim), others kept *)
Theorem C08_small_stream_migrating_to_regular_sectors_reads_zero : ltac:(let t := type of resize_small_to_big in exact t).
Proof. exact resize_small_to_big. Qed.
Check C08_small_stream_migrating_to_regular_sectors_reads_zero.
Print Assumptions C08_small_stream_migrating_to_regular_sectors_reads_zero.

(* the same by a write-back *)
Theorem C08_small_stream_migrating_by_write : ltac:(let t := type of write_data_small_to_big in exact t).
Proof. exact write_data_small_to_big. Qed.
Check C08_small_stream_migrating_by_write.
Print Assumptions C08_small_stream_migrating_by_write.

(* a large stream shrunk below 4096 bytes moves into the mini stream with content takeN n V *)
Theorem C08_large_stream_migrating_back : ltac:(let t := type of resize_big_to_small in exact t).
Proof. exact resize_big_to_small. Qed.
Check C08_large_stream_migrating_back.
Print Assumptions C08_large_stream_migrating_back.

(* when the mini-stream container grows by a regular sector the new mini sector reads as zeros and the existing ones keep their bytes *)
Theorem C08_new_mini_sector_in_an_extended_container_reads_zero : ltac:(let t := type of allocate_mini_extends_container in exact t).
Proof. exact allocate_mini_extends_container. Qed.
Check C08_new_mini_sector_in_an_extended_container_reads_zero.
Print Assumptions C08_new_mini_sector_in_an_extended_container_reads_zero.

(* the resize clause of the store contract that the handle theorems (C06) assume, for the cases above, over content = empty / small / large *)
Theorem C08_resize_contract_in_the_allocating_cases : ltac:(let t := type of resize_contract_alloc in exact t).
Proof. exact resize_contract_alloc. Qed.
Check C08_resize_contract_in_the_allocating_cases.
Print Assumptions C08_resize_contract_in_the_allocating_cases.

(* the write clause *)
Theorem C08_write_contract_in_the_allocating_cases : ltac:(let t := type of write_data_contract_alloc in exact t).
Proof. exact write_data_contract_alloc. Qed.
Check C08_write_contract_in_the_allocating_cases.
Print Assumptions C08_write_contract_in_the_allocating_cases.

(* non-vacuity: a reused mini sector's old bytes read back as zeros on a concrete state *)
Theorem C08_stale_bytes_example : ltac:(let t := type of StoreAlloc.Examples.stale_bytes_not_visible in exact t).
Proof. exact StoreAlloc.Examples.stale_bytes_not_visible. Qed.
Check C08_stale_bytes_example.
Print Assumptions C08_stale_bytes_example.
