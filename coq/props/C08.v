(* C08 — bytes gained by growing a stream read as zero, whatever was there before.  Statements are printed by Check below and compared with C08.expected.  PARTIAL: at the handle level set_len refines 'truncate or pad with zeros' given the store's resize contract; at the chain level a zero fill overwrites exactly the requested range whatever the sectors held and leaves other chains alone.  That the store's resize (Store.v, with the repaired zero_fill for cases 1a/2b/3c) meets the contract for every history — including shrink-then-grow and reuse of freed mini sectors — is checked on the real crate against a byte vector for every buffer size, and by lockstep with the model, which keeps stale sector bytes. *)
From Cfb.model Require Import Base Names DirEnt State Alloc Dir Mini Store Handle Open Cfb.
From Cfb.gen Require Import Consts.
From Cfb.spec Require Import VecSpec.
From Cfb.proofs Require Import HandleProofs ChainProofs.
Set Printing Width 110.

(* set_len_post: the abstract vector becomes takeN n A ++ repeatN 0 (n - lenN A), cursor clamped *)
Theorem C08_set_len_pads_with_zeros_given_store_contract : ltac:(let t := type of h_set_len_refines in exact t).
Proof. exact h_set_len_refines. Qed.
Check C08_set_len_pads_with_zeros_given_store_contract.
Print Assumptions C08_set_len_pads_with_zeros_given_store_contract.

(* zero_fill = a chain write of zeros: content becomes spliceN old off zeros regardless of old bytes *)
Theorem C08_chain_write_overwrites_exactly_the_range : ltac:(let t := type of chain_write_spec in exact t).
Proof. exact chain_write_spec. Qed.
Check C08_chain_write_overwrites_exactly_the_range.
Print Assumptions C08_chain_write_overwrites_exactly_the_range.

(* what was written is what is read; disjoint ranges unchanged *)
Theorem C08_chain_write_then_read_back : ltac:(let t := type of chain_write_then_read in exact t).
Proof. exact chain_write_then_read. Qed.
Check C08_chain_write_then_read_back.
Print Assumptions C08_chain_write_then_read_back.

(* no data of another chain is affected *)
Theorem C08_other_chains_untouched : ltac:(let t := type of chain_write_frame_other in exact t).
Proof. exact chain_write_frame_other. Qed.
Check C08_other_chains_untouched.
Print Assumptions C08_other_chains_untouched.
