(* C15 — released space is reused: repeating a net-zero cycle does not grow the file.  Statements are printed by Check below and compared with C15.expected; proofs in proofs/ReuseProofs.v.  PARTIAL: the allocation-level theorems (reuse before growth, LIFO reuse of a freed chain, no MiniFAT / mini-stream chain extension while retained capacity suffices) are proved; the history-level statement netzero_stable (file size constant from the second repetition of ANY net-zero cycle) is checked by enumeration on the real crate and by evaluation of the model on the witness cycles. *)
From Cfb.model Require Import Base Names DirEnt State Alloc Dir Mini Store Handle Open Cfb.
From Cfb.gen Require Import Consts.
From Cfb.proofs Require Import ReuseProofs.
Set Printing Width 110.

(* with a free sector available, allocation takes it and the file does not grow *)
Theorem C15_allocation_reuses_before_growing : ltac:(let t := type of allocate_reuses_wf in exact t).
Proof. exact allocate_reuses_wf. Qed.
Check C15_allocation_reuses_before_growing.
Print Assumptions C15_allocation_reuses_before_growing.

(* growth happens only with an empty free list, by at most one data + one FAT + one DIFAT sector *)
Theorem C15_growth_only_when_nothing_free : ltac:(let t := type of allocate_appends_only_when_full in exact t).
Proof. exact allocate_appends_only_when_full. Qed.
Check C15_growth_only_when_nothing_free.
Print Assumptions C15_growth_only_when_nothing_free.

(* freeing a chain of k sectors and allocating k sectors returns the same sectors: file size unchanged *)
Theorem C15_freed_chain_is_reused_exactly : ltac:(let t := type of free_chain_then_alloc' in exact t).
Proof. exact free_chain_then_alloc'. Qed.
Check C15_freed_chain_is_reused_exactly.
Print Assumptions C15_freed_chain_is_reused_exactly.

(* a free mini sector is reused without allocating anything *)
Theorem C15_mini_free_list_reused : ltac:(let t := type of allocate_mini_reuses in exact t).
Proof. exact allocate_mini_reuses. Qed.
Check C15_mini_free_list_reused.
Print Assumptions C15_mini_free_list_reused.

(* while the MiniFAT chain and the mini-stream chain have room, a new mini sector allocates no sector (the repaired condition) *)
Theorem C15_retained_capacity_reused : ltac:(let t := type of allocate_mini_within_capacity in exact t).
Proof. exact allocate_mini_within_capacity. Qed.
Check C15_retained_capacity_reused.
Print Assumptions C15_retained_capacity_reused.

(* the witness cycle create / write 100 / remove evaluated on the model: sizes 1536, 2560, 2560, 2560, 2560 *)
Theorem C15_witness_cycle_stable : ltac:(let t := type of Examples.small_stream_cycle_stable in exact t).
Proof. exact Examples.small_stream_cycle_stable. Qed.
Check C15_witness_cycle_stable.
Print Assumptions C15_witness_cycle_stable.
