(* C15 — released space is reused: repeating a net-zero cycle does not grow the file.  Statements are printed by Check below and compared with C15.expected; proofs in proofs/ReuseProofs.v.  PARTIAL: the allocation-level theorems (reuse before growth, LIFO reuse of a freed chain, no MiniFAT / mini-stream chain extension while retained capacity suffices) are proved; Also proved (proofs/NetZero.v): THE PROPERTY FOR NAMESPACE CYCLES - creation takes a free directory slot when there is one and otherwise grows the file by one directory sector, removal frees exactly one slot and never changes the size; hence for EVERY balanced cycle of create_storage / create_new_stream / remove_storage / remove_stream (any interleaving) on a state reached by a namespace history, repetitions 2 and 3 have the same size as repetition 1 (file length, sector count, table length), and for net-zero cycles (the same paths created and removed) the table represents the same abstract tree after every repetition - so 'returns to the same logical state' is a conclusion, not a hypothesis.  NOT proved: cycles that write stream data (checked by enumeration on the real crate: prefix with holes + cycle in any removal order, up to 80 repetitions while the mini stream keeps growing, one case in four reopening the bytes after every repetition). *)
From Cfb.model Require Import Base Names DirEnt State Alloc Dir Mini Store Handle Open Cfb.
From Cfb.gen Require Import Consts.
From Cfb.spec Require Import Tree.
From Cfb.proofs Require Import ReuseProofs ReadonlyTotal PersistProofs HistoryRefine NetZero Progress.
Set Printing Width 110.

(* with a free sector available, allocation takes it and the file does not grow *)
Theorem C15_allocation_reuses_before_growing : ltac:(let t := type of allocate_reuses_wf in exact t).
Proof. exact allocate_reuses_wf. Qed.
Check C15_allocation_reuses_before_growing.
Print Assumptions C15_allocation_reuses_before_growing.

(* growth happens only with an empty free list, by at most one data + one FAT + one DIFAT sector *)
Theorem C15_growth_only_when_nothing_free : ltac:(let t := type of allocate_appends_only_when_full in exact t).
Proof. exact allocate_appends_only_when_full. Qed.
Check C15_growth_only_when_nothing_free.
Print Assumptions C15_growth_only_when_nothing_free.

(* freeing a chain of k sectors and allocating k sectors returns the same sectors: file size unchanged *)
Theorem C15_freed_chain_is_reused_exactly : ltac:(let t := type of free_chain_then_alloc' in exact t).
Proof. exact free_chain_then_alloc'. Qed.
Check C15_freed_chain_is_reused_exactly.
Print Assumptions C15_freed_chain_is_reused_exactly.

(* a free mini sector is reused without allocating anything *)
Theorem C15_mini_free_list_reused : ltac:(let t := type of allocate_mini_reuses in exact t).
Proof. exact allocate_mini_reuses. Qed.
Check C15_mini_free_list_reused.
Print Assumptions C15_mini_free_list_reused.

(* while the MiniFAT chain and the mini-stream chain have room, a new mini sector allocates no sector (the repaired condition) *)
Theorem C15_retained_capacity_reused : ltac:(let t := type of allocate_mini_within_capacity in exact t).
Proof. exact allocate_mini_within_capacity. Qed.
Check C15_retained_capacity_reused.
Print Assumptions C15_retained_capacity_reused.

(* the witness cycle create / write 100 / remove evaluated on the model: sizes 1536, 2560, 2560, 2560, 2560 *)
Theorem C15_witness_cycle_stable : ltac:(let t := type of Examples.small_stream_cycle_stable in exact t).
Proof. exact Examples.small_stream_cycle_stable. Qed.
Check C15_witness_cycle_stable.
Print Assumptions C15_witness_cycle_stable.

(* with a free directory slot the size is unchanged and one slot is used; without, the slot count stays 0 (one sector was added and filled) *)
Theorem C15_creation_takes_a_free_slot_or_one_sector : ltac:(let t := type of create_storage_effect in exact t).
Proof. exact create_storage_effect. Qed.
Check C15_creation_takes_a_free_slot_or_one_sector.
Print Assumptions C15_creation_takes_a_free_slot_or_one_sector.

(* same for remove_stream of an empty stream (remove_stream_effect) *)
Theorem C15_removal_frees_one_slot_and_keeps_the_size : ltac:(let t := type of remove_storage_effect in exact t).
Proof. exact remove_storage_effect. Qed.
Check C15_removal_frees_one_slot_and_keeps_the_size.
Print Assumptions C15_removal_frees_one_slot_and_keeps_the_size.

(* create / remove / create / remove of one storage: the second repetition does not grow the file *)
Theorem C15_single_entry_cycle_stable : ltac:(let t := type of storage_cycle_stable in exact t).
Proof. exact storage_cycle_stable. Qed.
Check C15_single_entry_cycle_stable.
Print Assumptions C15_single_entry_cycle_stable.

(* ANY interleaving of creations and removals with as many of each: repetitions 2 and 3 have the size of repetition 1 *)
Theorem C15_balanced_cycles_are_stable : ltac:(let t := type of balanced_cycle_stable in exact t).
Proof. exact balanced_cycle_stable. Qed.
Check C15_balanced_cycles_are_stable.
Print Assumptions C15_balanced_cycles_are_stable.

(* in the specification a cycle that creates and removes the same paths ends in the tree it started from *)
Theorem C15_net_zero_cycles_return_to_the_same_tree : ltac:(let t := type of matched_cycle_tree in exact t).
Proof. exact matched_cycle_tree. Qed.
Check C15_net_zero_cycles_return_to_the_same_tree.
Print Assumptions C15_net_zero_cycles_return_to_the_same_tree.

(* THE PROPERTY for namespace cycles: same abstract tree after every repetition and the same file size from the first repetition on *)
Theorem C15_net_zero_cycles_are_stable : ltac:(let t := type of netzero_cycle_stable in exact t).
Proof. exact netzero_cycle_stable. Qed.
Check C15_net_zero_cycles_are_stable.
Print Assumptions C15_net_zero_cycles_are_stable.

(* prefix histories: any accepted namespace history from a fresh file, then the cycle three times *)
Theorem C15_the_same_after_any_namespace_history : ltac:(let t := type of netzero_after_history in exact t).
Proof. exact netzero_after_history. Qed.
Check C15_the_same_after_any_namespace_history.
Print Assumptions C15_the_same_after_any_namespace_history.

(* the only acceptance hypothesis is that the SPECIFICATION accepts the cycle once: then the model accepts it three times, the tree is the same after each and the size is constant from the first repetition on *)
Theorem C15_net_zero_cycles_are_stable_given_only_the_specification : ltac:(let t := type of netzero_cycle_stable_total in exact t).
Proof. exact netzero_cycle_stable_total. Qed.
Check C15_net_zero_cycles_are_stable_given_only_the_specification.
Print Assumptions C15_net_zero_cycles_are_stable_given_only_the_specification.

(* after any covered history on a new file *)
Theorem C15_the_same_after_any_history_unconditionally : ltac:(let t := type of netzero_after_history_total in exact t).
Proof. exact netzero_after_history_total. Qed.
Check C15_the_same_after_any_history_unconditionally.
Print Assumptions C15_the_same_after_any_history_unconditionally.

(* non-vacuity: V3, a 3-entry cycle removed out of order: file length 3, then 4, 4, 4 sectors (the first repetition adds a directory sector) *)
Theorem C15_cycle_example : ltac:(let t := type of Example.sizes in exact t).
Proof. exact Example.sizes. Qed.
Check C15_cycle_example.
Print Assumptions C15_cycle_example.
