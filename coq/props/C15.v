(* C15 — released space is reused: repeating a net-zero cycle does not grow the file.  Statements are printed by Check below and compared with C15.expected; proofs in proofs/ReuseProofs.v.  PARTIAL: the allocation-level theorems (reuse before growth, LIFO reuse of a freed chain, no MiniFAT / mini-stream chain extension while retained capacity suffices) are proved; Also proved (proofs/NetZero.v): THE PROPERTY FOR NAMESPACE CYCLES - creation takes a free directory slot when there is one and otherwise grows the file by one directory sector, removal frees exactly one slot and never changes the size; hence for EVERY balanced cycle of create_storage / create_new_stream / remove_storage / remove_stream (any interleaving) on a state reached by a namespace history, repetitions 2 and 3 have the same size as repetition 1 (file length, sector count, table length), and for net-zero cycles (the same paths created and removed) the table represents the same abstract tree after every repetition - so 'returns to the same logical state' is a conclusion, not a hypothesis.  Also proved (proofs/DataCycle.v): THE PROPERTY FOR DATA CYCLES - grow / truncate cycles of large and of small streams at store level and through handles, overwrite cycles (create_stream on an existing path), grow / cut-back cycles, and create / grow / remove cycles: from the second repetition on the sector count is unchanged for EVERY number of repetitions, the released sectors (or mini-sector capacity) are exactly what the next repetition takes, other streams keep their content.  NOT proved: cycles through OHWrite + flush, nested paths in create / remove cycles, arbitrary interleavings of several data cycles (checked by enumeration on the real crate: prefix with holes + cycle in any removal order, up to 80 repetitions while the mini stream keeps growing, one case in four reopening the bytes after every repetition). *)
From Cfb.model Require Import Base Names DirEnt State Alloc Dir Mini Store Handle Open Cfb.
From Cfb.gen Require Import Consts.
From Cfb.spec Require Import Tree.
From Cfb.proofs Require Import ReuseProofs ReadonlyTotal PersistProofs HistoryRefine NetZero Progress DataCycle SmallShrink.
Set Printing Width 110.

(* with a free sector available, allocation takes it and the file does not grow *)
Theorem C15_allocation_reuses_before_growing : ltac:(let t := type of allocate_reuses_wf in exact t).
Proof. exact allocate_reuses_wf. Qed.
Check C15_allocation_reuses_before_growing.
Print Assumptions C15_allocation_reuses_before_growing.

(* growth happens only with an empty free list, by at most one data + one FAT + one DIFAT sector *)
Theorem C15_growth_only_when_nothing_free : ltac:(let t := type of allocate_appends_only_when_full in exact t).
Proof. exact allocate_appends_only_when_full. Qed.
Check C15_growth_only_when_nothing_free.
Print Assumptions C15_growth_only_when_nothing_free.

(* freeing a chain of k sectors and allocating k sectors returns the same sectors: file size unchanged *)
Theorem C15_freed_chain_is_reused_exactly : ltac:(let t := type of free_chain_then_alloc' in exact t).
Proof. exact free_chain_then_alloc'. Qed.
Check C15_freed_chain_is_reused_exactly.
Print Assumptions C15_freed_chain_is_reused_exactly.

(* a free mini sector is reused without allocating anything *)
Theorem C15_mini_free_list_reused : ltac:(let t := type of allocate_mini_reuses in exact t).
Proof. exact allocate_mini_reuses. Qed.
Check C15_mini_free_list_reused.
Print Assumptions C15_mini_free_list_reused.

(* while the MiniFAT chain and the mini-stream chain have room, a new mini sector allocates no sector (the repaired condition) *)
Theorem C15_retained_capacity_reused : ltac:(let t := type of allocate_mini_within_capacity in exact t).
Proof. exact allocate_mini_within_capacity. Qed.
Check C15_retained_capacity_reused.
Print Assumptions C15_retained_capacity_reused.

(* the witness cycle create / write 100 / remove evaluated on the model: sizes 1536, 2560, 2560, 2560, 2560 *)
Theorem C15_witness_cycle_stable : ltac:(let t := type of Examples.small_stream_cycle_stable in exact t).
Proof. exact Examples.small_stream_cycle_stable. Qed.
Check C15_witness_cycle_stable.
Print Assumptions C15_witness_cycle_stable.

(* with a free directory slot the size is unchanged and one slot is used; without, the slot count stays 0 (one sector was added and filled) *)
Theorem C15_creation_takes_a_free_slot_or_one_sector : ltac:(let t := type of create_storage_effect in exact t).
Proof. exact create_storage_effect. Qed.
Check C15_creation_takes_a_free_slot_or_one_sector.
Print Assumptions C15_creation_takes_a_free_slot_or_one_sector.

(* same for remove_stream of an empty stream (remove_stream_effect) *)
Theorem C15_removal_frees_one_slot_and_keeps_the_size : ltac:(let t := type of remove_storage_effect in exact t).
Proof. exact remove_storage_effect. Qed.
Check C15_removal_frees_one_slot_and_keeps_the_size.
Print Assumptions C15_removal_frees_one_slot_and_keeps_the_size.

(* create / remove / create / remove of one storage: the second repetition does not grow the file *)
Theorem C15_single_entry_cycle_stable : ltac:(let t := type of storage_cycle_stable in exact t).
Proof. exact storage_cycle_stable. Qed.
Check C15_single_entry_cycle_stable.
Print Assumptions C15_single_entry_cycle_stable.

(* ANY interleaving of creations and removals with as many of each: repetitions 2 and 3 have the size of repetition 1 *)
Theorem C15_balanced_cycles_are_stable : ltac:(let t := type of balanced_cycle_stable in exact t).
Proof. exact balanced_cycle_stable. Qed.
Check C15_balanced_cycles_are_stable.
Print Assumptions C15_balanced_cycles_are_stable.

(* in the specification a cycle that creates and removes the same paths ends in the tree it started from *)
Theorem C15_net_zero_cycles_return_to_the_same_tree : ltac:(let t := type of matched_cycle_tree in exact t).
Proof. exact matched_cycle_tree. Qed.
Check C15_net_zero_cycles_return_to_the_same_tree.
Print Assumptions C15_net_zero_cycles_return_to_the_same_tree.

(* THE PROPERTY for namespace cycles: same abstract tree after every repetition and the same file size from the first repetition on *)
Theorem C15_net_zero_cycles_are_stable : ltac:(let t := type of netzero_cycle_stable in exact t).
Proof. exact netzero_cycle_stable. Qed.
Check C15_net_zero_cycles_are_stable.
Print Assumptions C15_net_zero_cycles_are_stable.

(* prefix histories: any accepted namespace history from a fresh file, then the cycle three times *)
Theorem C15_the_same_after_any_namespace_history : ltac:(let t := type of netzero_after_history in exact t).
Proof. exact netzero_after_history. Qed.
Check C15_the_same_after_any_namespace_history.
Print Assumptions C15_the_same_after_any_namespace_history.

(* the only acceptance hypothesis is that the SPECIFICATION accepts the cycle once: then the model accepts it three times, the tree is the same after each and the size is constant from the first repetition on *)
Theorem C15_net_zero_cycles_are_stable_given_only_the_specification : ltac:(let t := type of netzero_cycle_stable_total in exact t).
Proof. exact netzero_cycle_stable_total. Qed.
Check C15_net_zero_cycles_are_stable_given_only_the_specification.
Print Assumptions C15_net_zero_cycles_are_stable_given_only_the_specification.

(* after any covered history on a new file *)
Theorem C15_the_same_after_any_history_unconditionally : ltac:(let t := type of netzero_after_history_total in exact t).
Proof. exact netzero_after_history_total. Qed.
Check C15_the_same_after_any_history_unconditionally.
Print Assumptions C15_the_same_after_any_history_unconditionally.

(* DataCycle: grow an empty stream to n >= 4096 bytes and truncate it to 0: whatever the FIRST repetition did (reuse, append or mixed), every later repetition succeeds, takes exactly the released sectors from the free stack and returns them: nsect is unchanged for all j, every other stream keeps its content, every state reopens *)
Theorem C15_large_data_cycles_are_stable : ltac:(let t := type of big_cycle_stable in exact t).
Proof. exact big_cycle_stable. Qed.
Check C15_large_data_cycles_are_stable.
Print Assumptions C15_large_data_cycles_are_stable.

(* with enough free sectors not even the first repetition grows the file *)
Theorem C15_large_data_cycles_never_grow_when_free_space_suffices : ltac:(let t := type of big_cycle_stable_reuse in exact t).
Proof. exact big_cycle_stable_reuse. Qed.
Check C15_large_data_cycles_never_grow_when_free_space_suffices.
Print Assumptions C15_large_data_cycles_never_grow_when_free_space_suffices.

(* the same for 0 < n < 4096: mini sectors come from the mini free list or the retained container capacity; the FAT, the free stack and nsect are unchanged from repetition 2 on *)
Theorem C15_small_data_cycles_are_stable : ltac:(let t := type of small_cycle_stable in exact t).
Proof. exact small_cycle_stable. Qed.
Check C15_small_data_cycles_are_stable.
Print Assumptions C15_small_data_cycles_are_stable.

(* through handles: set_len(n); set_len(0) repeated *)
Theorem C15_handle_cycles_large : ltac:(let t := type of big_hcycle_stable in exact t).
Proof. exact big_hcycle_stable. Qed.
Check C15_handle_cycles_large.
Print Assumptions C15_handle_cycles_large.

(* the same below the cutoff *)
Theorem C15_handle_cycles_small : ltac:(let t := type of small_hcycle_stable in exact t).
Proof. exact small_hcycle_stable. Qed.
Check C15_handle_cycles_small.
Print Assumptions C15_handle_cycles_small.

(* create_stream on an existing path (truncate) + set_len(n), repeated *)
Theorem C15_overwrite_cycles : ltac:(let t := type of overwrite_api_stable in exact t).
Proof. exact overwrite_api_stable. Qed.
Check C15_overwrite_cycles.
Print Assumptions C15_overwrite_cycles.

(* a large stream grown to n1 and cut back to n0, repeated *)
Theorem C15_grow_and_cut_back_cycles : ltac:(let t := type of grow_cut_iter in exact t).
Proof. exact grow_cut_iter. Qed.
Check C15_grow_and_cut_back_cycles.
Print Assumptions C15_grow_and_cut_back_cycles.

(* SmallShrink: a small stream grown from n0 to n1 and cut back to n0 (fewer, non-zero mini sectors), repeated: nsect, free stack and FAT unchanged from the second repetition on *)
Theorem C15_small_grow_and_cut_back_cycles : ltac:(let t := type of small_grow_cut_stable in exact t).
Proof. exact small_grow_cut_stable. Qed.
Check C15_small_grow_and_cut_back_cycles.
Print Assumptions C15_small_grow_and_cut_back_cycles.

(* non-vacuity: 100 -> 1000 -> 100 bytes: the first repetition grows the file 14 -> 15 sectors, stable afterwards *)
Theorem C15_small_grow_cut_example : ltac:(let t := type of SmallShrink.ExampleGrowCutSmall.grow_cut_100_1000 in exact t).
Proof. exact SmallShrink.ExampleGrowCutSmall.grow_cut_100_1000. Qed.
Check C15_small_grow_cut_example.
Print Assumptions C15_small_grow_cut_example.

(* create_new_stream into a free directory slot of a file WITH data keeps the data invariant, allocates nothing, leaves every stream as it was *)
Theorem C15_creation_in_files_with_data : ltac:(let t := type of create_new_stream_cohtree in exact t).
Proof. exact create_new_stream_cohtree. Qed.
Check C15_creation_in_files_with_data.
Print Assumptions C15_creation_in_files_with_data.

(* create_new_stream; set_len(n); drop; remove_stream - repeated: nsect unchanged after the first repetition (success of each create / remove is a premise, as AllOk is for the namespace cycles) *)
Theorem C15_create_grow_remove_cycles_large : ltac:(let t := type of crcycle_stable in exact t).
Proof. exact crcycle_stable. Qed.
Check C15_create_grow_remove_cycles_large.
Print Assumptions C15_create_grow_remove_cycles_large.

(* the same below the cutoff *)
Theorem C15_create_grow_remove_cycles_small : ltac:(let t := type of crcycle_small_stable in exact t).
Proof. exact crcycle_small_stable. Qed.
Check C15_create_grow_remove_cycles_small.
Print Assumptions C15_create_grow_remove_cycles_small.

(* non-vacuity: 5000 bytes: 15 -> 25, 25, 25 sectors *)
Theorem C15_data_cycle_example_5000 : ltac:(let t := type of DataCycle.ExampleBig.cycle_5000_evaluated in exact t).
Proof. exact DataCycle.ExampleBig.cycle_5000_evaluated. Qed.
Check C15_data_cycle_example_5000.
Print Assumptions C15_data_cycle_example_5000.

(* first repetition reuses 1 and appends 9 sectors: 24, 24, 24 *)
Theorem C15_data_cycle_example_mixed_first_repetition : ltac:(let t := type of DataCycle.ExampleBig.cycle_mixed_evaluated in exact t).
Proof. exact DataCycle.ExampleBig.cycle_mixed_evaluated. Qed.
Check C15_data_cycle_example_mixed_first_repetition.
Print Assumptions C15_data_cycle_example_mixed_first_repetition.

(* 4000 bytes in the mini stream: 23, 23, 23 *)
Theorem C15_data_cycle_example_small : ltac:(let t := type of DataCycle.ExampleSmall.cycle_4000_evaluated in exact t).
Proof. exact DataCycle.ExampleSmall.cycle_4000_evaluated. Qed.
Check C15_data_cycle_example_small.
Print Assumptions C15_data_cycle_example_small.

(* create / grow / remove three times *)
Theorem C15_data_cycle_example_create_remove : ltac:(let t := type of DataCycle.ExampleCycleRun.three_repetitions in exact t).
Proof. exact DataCycle.ExampleCycleRun.three_repetitions. Qed.
Check C15_data_cycle_example_create_remove.
Print Assumptions C15_data_cycle_example_create_remove.

(* non-vacuity: V3, a 3-entry cycle removed out of order: file length 3, then 4, 4, 4 sectors (the first repetition adds a directory sector) *)
Theorem C15_cycle_example : ltac:(let t := type of Example.sizes in exact t).
Proof. exact Example.sizes. Qed.
Check C15_cycle_example.
Print Assumptions C15_cycle_example.
