(* C07 — open handles stay bound to their stream and never touch other objects.  Statements are printed by Check below and compared with C07.expected; proofs in proofs/DirProofs.v (removal by relinking keeps every surviving entry's id and payload) and proofs/ChainProofs.v (writing one chain never changes another).  Handles hold entry ids; that handle operations go through the entry id only is the handle model of C06. *)
From Cfb.model Require Import Base Names DirEnt State Alloc Dir Mini Store Handle Open Cfb.
From Cfb.gen Require Import Consts.
From Cfb.proofs Require Import DirProofs ChainProofs.
Set Printing Width 110.

(* for EVERY table: removing an entry frees exactly its own slot; every other slot keeps name, type, start sector, length, CLSID, state bits and times (only sibling links / colour may change) *)
Theorem C07_removal_keeps_ids_and_payload : ltac:(let t := type of remove_ids_stable_raw in exact t).
Proof. exact remove_ids_stable_raw. Qed.
Check C07_removal_keeps_ids_and_payload.
Print Assumptions C07_removal_keeps_ids_and_payload.

(* on a well-formed sibling tree the result is the search tree without the removed id; the in-order sequence of the others is unchanged *)
Theorem C07_removal_is_bst_removal : ltac:(let t := type of remove_rep in exact t).
Proof. exact remove_rep. Qed.
Check C07_removal_is_bst_removal.
Print Assumptions C07_removal_is_bst_removal.

(* every other name is still found, at the same id *)
Theorem C07_removal_keeps_other_lookups : ltac:(let t := type of remove_lookup in exact t).
Proof. exact remove_lookup. Qed.
Check C07_removal_keeps_other_lookups.
Print Assumptions C07_removal_keeps_other_lookups.

(* creations (which may reuse freed slots) only add the new id; all other entries keep their payload *)
Theorem C07_insertion_keeps_ids_and_payload : ltac:(let t := type of insert_rep in exact t).
Proof. exact insert_rep. Qed.
Check C07_insertion_keeps_ids_and_payload.
Print Assumptions C07_insertion_keeps_ids_and_payload.

(* a write into one chain leaves the content of every chain that shares no sector with it unchanged *)
Theorem C07_writes_do_not_touch_other_chains : ltac:(let t := type of chain_write_frame_other in exact t).
Proof. exact chain_write_frame_other. Qed.
Check C07_writes_do_not_touch_other_chains.
Print Assumptions C07_writes_do_not_touch_other_chains.
