(* C07 — open handles stay bound to their stream and never touch other objects.  Statements are printed by Check below and compared with C07.expected; proofs in proofs/DirProofs.v (removal by relinking keeps every surviving entry's id and payload) and proofs/ChainProofs.v (writing one chain never changes another).  Handles hold entry ids.  Also proved (proofs/HandleFrame.v): every store call made by a handle operation is on the handle's own id (handle_calls_own_id, over an arbitrary store); UNCONDITIONALLY and in every outcome a handle operation leaves all other handle slots and every directory entry except its own and the root's untouched, and changes of those two only start sector and length (the root entry records the mini-stream container) - name, type, links, colour, CLSID, state bits and timestamps of every entry are unchanged; in the store cases that allocate and free nothing (overwrite, growth and shrinking inside the sectors the stream has, small and large) every OTHER stream keeps its content, the root entry is unchanged, and the global disjointness invariant AllStreamsWf is preserved, so the statement composes along a run; for FAT-changing resizes of large streams the other large streams keep their content; the table represents the abstract tree with only that leaf updated.  NOT proved: other streams through writes that allocate, mini-sector allocation / freeing, migrations across the 4096 cutoff (checked by multi-handle lockstep histories). *)
From Cfb.model Require Import Base Names DirEnt State Alloc Dir Mini Store Handle Open Cfb.
From Cfb.gen Require Import Consts.
From Cfb.spec Require Import Tree.
From Cfb.proofs Require Import DirProofs ChainProofs QueryRefine HandleFrame.
Set Printing Width 110.

(* for EVERY table: removing an entry frees exactly its own slot; every other slot keeps name, type, start sector, length, CLSID, state bits and times (only sibling links / colour may change) *)
Theorem C07_removal_keeps_ids_and_payload : ltac:(let t := type of remove_ids_stable_raw in exact t).
Proof. exact remove_ids_stable_raw. Qed.
Check C07_removal_keeps_ids_and_payload.
Print Assumptions C07_removal_keeps_ids_and_payload.

(* on a well-formed sibling tree the result is the search tree without the removed id; the in-order sequence of the others is unchanged *)
Theorem C07_removal_is_bst_removal : ltac:(let t := type of remove_rep in exact t).
Proof. exact remove_rep. Qed.
Check C07_removal_is_bst_removal.
Print Assumptions C07_removal_is_bst_removal.

(* every other name is still found, at the same id *)
Theorem C07_removal_keeps_other_lookups : ltac:(let t := type of remove_lookup in exact t).
Proof. exact remove_lookup. Qed.
Check C07_removal_keeps_other_lookups.
Print Assumptions C07_removal_keeps_other_lookups.

(* creations (which may reuse freed slots) only add the new id; all other entries keep their payload *)
Theorem C07_insertion_keeps_ids_and_payload : ltac:(let t := type of insert_rep in exact t).
Proof. exact insert_rep. Qed.
Check C07_insertion_keeps_ids_and_payload.
Print Assumptions C07_insertion_keeps_ids_and_payload.

(* a write into one chain leaves the content of every chain that shares no sector with it unchanged *)
Theorem C07_writes_do_not_touch_other_chains : ltac:(let t := type of chain_write_frame_other in exact t).
Proof. exact chain_write_frame_other. Qed.
Check C07_writes_do_not_touch_other_chains.
Print Assumptions C07_writes_do_not_touch_other_chains.

(* over an arbitrary store that logs the id of every call: each handle operation extends the log with h_id h only *)
Theorem C07_handle_ops_call_the_store_on_their_own_id_only : ltac:(let t := type of handle_calls_own_id in exact t).
Proof. exact handle_calls_own_id. Qed.
Check C07_handle_ops_call_the_store_on_their_own_id_only.
Print Assumptions C07_handle_ops_call_the_store_on_their_own_id_only.

(* UNCONDITIONAL, every outcome: slots other than the handle's own and the root are identical, those two change only in start sector and length; all other handle slots are untouched *)
Theorem C07_handle_ops_leave_the_table_alone : ltac:(let t := type of handle_op_table_frame in exact t).
Proof. exact handle_op_table_frame. Qed.
Check C07_handle_ops_leave_the_table_alone.
Print Assumptions C07_handle_ops_leave_the_table_alone.

(* entry by entry: name, type, colour, links, CLSID, state bits, timestamps unchanged everywhere *)
Theorem C07_handle_ops_keep_every_entrys_metadata : ltac:(let t := type of handle_op_entries in exact t).
Proof. exact handle_op_entries. Qed.
Check C07_handle_ops_keep_every_entrys_metadata.
Print Assumptions C07_handle_ops_keep_every_entrys_metadata.

(* write-back in the non-allocating cases: every other stream (small or large) keeps its content, the disjointness invariant is preserved *)
Theorem C07_store_writes_frame_other_streams : ltac:(let t := type of write_data_frames_others in exact t).
Proof. exact write_data_frames_others. Qed.
Check C07_store_writes_frame_other_streams.
Print Assumptions C07_store_writes_frame_other_streams.

(* same for resize *)
Theorem C07_store_resizes_frame_other_streams : ltac:(let t := type of resize_frames_others in exact t).
Proof. exact resize_frames_others. Qed.
Check C07_store_resizes_frame_other_streams.
Print Assumptions C07_store_resizes_frame_other_streams.

(* THE PROPERTY at the level of step, in the covered store cases; includes AllStreamsWf afterwards, so it composes along a run *)
Theorem C07_handle_ops_frame_other_streams : ltac:(let t := type of handle_op_frames_others in exact t).
Proof. exact handle_op_frames_others. Qed.
Check C07_handle_ops_frame_other_streams.
Print Assumptions C07_handle_ops_frame_other_streams.

(* set_len that releases, reuses or appends sectors: other large streams keep their content *)
Theorem C07_fat_changing_resizes_frame_other_large_streams : ltac:(let t := type of setlen_fat_frames_big_others in exact t).
Proof. exact setlen_fat_frames_big_others. Qed.
Check C07_fat_changing_resizes_frame_other_large_streams.
Print Assumptions C07_fat_changing_resizes_frame_other_large_streams.

(* the table represents the abstract tree with only the handle's leaf updated *)
Theorem C07_tree_after_a_handle_op : ltac:(let t := type of handle_op_tree in exact t).
Proof. exact handle_op_tree. Qed.
Check C07_tree_after_a_handle_op.
Print Assumptions C07_tree_after_a_handle_op.

(* non-vacuity: write + flush through a small stream's handle leaves a 5000-byte stream, its entry, the root entry and the other handle as they were *)
Theorem C07_frame_example_small_vs_large : ltac:(let t := type of Example.flush_a_keeps_b in exact t).
Proof. exact Example.flush_a_keeps_b. Qed.
Check C07_frame_example_small_vs_large.
Print Assumptions C07_frame_example_small_vs_large.
