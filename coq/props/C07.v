(* C07 — open handles stay bound to their stream and never touch other objects.  Statements are printed by Check below and compared with C07.expected; proofs in proofs/DirProofs.v (removal by relinking keeps every surviving entry's id and payload) and proofs/ChainProofs.v (writing one chain never changes another).  Handles hold entry ids.  Also proved (proofs/HandleFrame.v): every store call made by a handle operation is on the handle's own id (handle_calls_own_id, over an arbitrary store); UNCONDITIONALLY and in every outcome a handle operation leaves all other handle slots and every directory entry except its own and the root's untouched, and changes of those two only start sector and length (the root entry records the mini-stream container) - name, type, links, colour, CLSID, state bits and timestamps of every entry are unchanged; in the store cases that allocate and free nothing (overwrite, growth and shrinking inside the sectors the stream has, small and large) every OTHER stream keeps its content, the root entry is unchanged, and the global disjointness invariant AllStreamsWf is preserved, so the statement composes along a run; for FAT-changing resizes of large streams the other large streams keep their content; the table represents the abstract tree with only that leaf updated.  Also proved (proofs/DataFrame.v, on top of DataPersist2): the frame in ALL covered store cases - the 11 resize cases and 6 write cases with allocation, release, mini-sector allocation / freeing and both migrations across the 4096 cutoff, and removal of streams with data - every other stream keeps its content, every other entry its metadata, every other handle its slot; lifted to every history of hist_ok2: a stream no operation addresses keeps content and metadata through the whole history, reopen included.  NOT proved: cases outside hist_ok2 (growth needing a new FAT / DIFAT / container sector inside the data cases; creations inside data histories) - checked by multi-handle lockstep histories. *)
From Cfb.model Require Import Base Names DirEnt State Alloc Dir Mini Store Handle Open Cfb.
From Cfb.gen Require Import Consts.
From Cfb.spec Require Import Tree.
From Cfb.proofs Require Import DirProofs ChainProofs QueryRefine HandleFrame DataFrame SmallShrink.
Set Printing Width 110.

(* for EVERY table: removing an entry frees exactly its own slot; every other slot keeps name, type, start sector, length, CLSID, state bits and times (only sibling links / colour may change) *)
Theorem C07_removal_keeps_ids_and_payload : ltac:(let t := type of remove_ids_stable_raw in exact t).
Proof. exact remove_ids_stable_raw. Qed.
Check C07_removal_keeps_ids_and_payload.
Print Assumptions C07_removal_keeps_ids_and_payload.

(* on a well-formed sibling tree the result is the search tree without the removed id; the in-order sequence of the others is unchanged *)
Theorem C07_removal_is_bst_removal : ltac:(let t := type of remove_rep in exact t).
Proof. exact remove_rep. Qed.
Check C07_removal_is_bst_removal.
Print Assumptions C07_removal_is_bst_removal.

(* every other name is still found, at the same id *)
Theorem C07_removal_keeps_other_lookups : ltac:(let t := type of remove_lookup in exact t).
Proof. exact remove_lookup. Qed.
Check C07_removal_keeps_other_lookups.
Print Assumptions C07_removal_keeps_other_lookups.

(* creations (which may reuse freed slots) only add the new id; all other entries keep their payload *)
Theorem C07_insertion_keeps_ids_and_payload : ltac:(let t := type of insert_rep in exact t).
Proof. exact insert_rep. Qed.
Check C07_insertion_keeps_ids_and_payload.
Print Assumptions C07_insertion_keeps_ids_and_payload.

(* a write into one chain leaves the content of every chain that shares no sector with it unchanged *)
Theorem C07_writes_do_not_touch_other_chains : ltac:(let t := type of chain_write_frame_other in exact t).
Proof. exact chain_write_frame_other. Qed.
Check C07_writes_do_not_touch_other_chains.
Print Assumptions C07_writes_do_not_touch_other_chains.

(* over an arbitrary store that logs the id of every call: each handle operation extends the log with h_id h only *)
Theorem C07_handle_ops_call_the_store_on_their_own_id_only : ltac:(let t := type of handle_calls_own_id in exact t).
Proof. exact handle_calls_own_id. Qed.
Check C07_handle_ops_call_the_store_on_their_own_id_only.
Print Assumptions C07_handle_ops_call_the_store_on_their_own_id_only.

(* UNCONDITIONAL, every outcome: slots other than the handle's own and the root are identical, those two change only in start sector and length; all other handle slots are untouched *)
Theorem C07_handle_ops_leave_the_table_alone : ltac:(let t := type of handle_op_table_frame in exact t).
Proof. exact handle_op_table_frame. Qed.
Check C07_handle_ops_leave_the_table_alone.
Print Assumptions C07_handle_ops_leave_the_table_alone.

(* entry by entry: name, type, colour, links, CLSID, state bits, timestamps unchanged everywhere *)
Theorem C07_handle_ops_keep_every_entrys_metadata : ltac:(let t := type of handle_op_entries in exact t).
Proof. exact handle_op_entries. Qed.
Check C07_handle_ops_keep_every_entrys_metadata.
Print Assumptions C07_handle_ops_keep_every_entrys_metadata.

(* write-back in the non-allocating cases: every other stream (small or large) keeps its content, the disjointness invariant is preserved *)
Theorem C07_store_writes_frame_other_streams : ltac:(let t := type of write_data_frames_others in exact t).
Proof. exact write_data_frames_others. Qed.
Check C07_store_writes_frame_other_streams.
Print Assumptions C07_store_writes_frame_other_streams.

(* same for resize *)
Theorem C07_store_resizes_frame_other_streams : ltac:(let t := type of resize_frames_others in exact t).
Proof. exact resize_frames_others. Qed.
Check C07_store_resizes_frame_other_streams.
Print Assumptions C07_store_resizes_frame_other_streams.

(* THE PROPERTY at the level of step, in the covered store cases; includes AllStreamsWf afterwards, so it composes along a run *)
Theorem C07_handle_ops_frame_other_streams : ltac:(let t := type of handle_op_frames_others in exact t).
Proof. exact handle_op_frames_others. Qed.
Check C07_handle_ops_frame_other_streams.
Print Assumptions C07_handle_ops_frame_other_streams.

(* set_len that releases, reuses or appends sectors: other large streams keep their content *)
Theorem C07_fat_changing_resizes_frame_other_large_streams : ltac:(let t := type of setlen_fat_frames_big_others in exact t).
Proof. exact setlen_fat_frames_big_others. Qed.
Check C07_fat_changing_resizes_frame_other_large_streams.
Print Assumptions C07_fat_changing_resizes_frame_other_large_streams.

(* the table represents the abstract tree with only the handle's leaf updated *)
Theorem C07_tree_after_a_handle_op : ltac:(let t := type of handle_op_tree in exact t).
Proof. exact handle_op_tree. Qed.
Check C07_tree_after_a_handle_op.
Print Assumptions C07_tree_after_a_handle_op.

(* DataFrame: ALL 11 resize cases (allocation, release, truncation, first growth, both migrations): the call succeeds, every OTHER stream keeps its content, the stream itself holds resized V n *)
Theorem C07_every_resize_case_frames_other_streams : ltac:(let t := type of resize_case_frames in exact t).
Proof. exact resize_case_frames. Qed.
Check C07_every_resize_case_frames_other_streams.
Print Assumptions C07_every_resize_case_frames_other_streams.

(* ALL 6 write cases incl. mini-sector allocation and migration by write: others kept, own content = splice *)
Theorem C07_every_write_case_frames_other_streams : ltac:(let t := type of write_case_frames in exact t).
Proof. exact write_case_frames. Qed.
Check C07_every_write_case_frames_other_streams.
Print Assumptions C07_every_write_case_frames_other_streams.

(* SmallShrink: all 12 resize cases incl. the small shrink *)
Theorem C07_small_shrink_frames_other_streams : ltac:(let t := type of resize_case12_frames in exact t).
Proof. exact resize_case12_frames. Qed.
Check C07_small_shrink_frames_other_streams.
Print Assumptions C07_small_shrink_frames_other_streams.

(* OHSetLen at handle level over all 12 cases *)
Theorem C07_set_len_frames_in_all_twelve_cases : ltac:(let t := type of setlen_frames_full12 in exact t).
Proof. exact setlen_frames_full12. Qed.
Check C07_set_len_frames_in_all_twelve_cases.
Print Assumptions C07_set_len_frames_in_all_twelve_cases.

(* THE PROPERTY at the level of step over covered_op2: other entries identical, metadata of every entry unchanged, every other stream's content kept, other handle slots untouched - through allocation, mini-sector allocation / freeing and both migrations *)
Theorem C07_handle_ops_frame_other_streams_in_all_covered_cases : ltac:(let t := type of handle_op_frames_others_full in exact t).
Proof. exact handle_op_frames_others_full. Qed.
Check C07_handle_ops_frame_other_streams_in_all_covered_cases.
Print Assumptions C07_handle_ops_frame_other_streams_in_all_covered_cases.

(* the table represents the abstract tree with only the handle's leaf updated *)
Theorem C07_tree_after_a_handle_op_in_all_covered_cases : ltac:(let t := type of handle_op_tree_full in exact t).
Proof. exact handle_op_tree_full. Qed.
Check C07_tree_after_a_handle_op_in_all_covered_cases.
Print Assumptions C07_tree_after_a_handle_op_in_all_covered_cases.

(* remove_stream of a large, small or empty stream in a file with data keeps every other stream *)
Theorem C07_removal_with_data_frames_other_streams : ltac:(let t := type of remove_stream_frames_full in exact t).
Proof. exact remove_stream_frames_full. Qed.
Check C07_removal_with_data_frames_other_streams.
Print Assumptions C07_removal_with_data_frames_other_streams.

(* and the table represents remove_at t names *)
Theorem C07_removal_with_data_refines_the_specification : ltac:(let t := type of remove_stream_tree_full in exact t).
Proof. exact remove_stream_tree_full. Qed.
Check C07_removal_with_data_refines_the_specification.
Print Assumptions C07_removal_with_data_refines_the_specification.

(* a stream that no operation of the history addresses keeps its content through ANY history of hist_ok2 (allocation, release, migrations of other streams, removals, reopen) *)
Theorem C07_untouched_streams_keep_their_content_through_any_covered_history : ltac:(let t := type of data_history_frames in exact t).
Proof. exact data_history_frames. Qed.
Check C07_untouched_streams_keep_their_content_through_any_covered_history.
Print Assumptions C07_untouched_streams_keep_their_content_through_any_covered_history.

(* name, type, start, length, CLSID, state bits, timestamps *)
Theorem C07_untouched_entries_keep_their_metadata_through_any_covered_history : ltac:(let t := type of data_history_entry_frames in exact t).
Proof. exact data_history_entry_frames. Qed.
Check C07_untouched_entries_keep_their_metadata_through_any_covered_history.
Print Assumptions C07_untouched_entries_keep_their_metadata_through_any_covered_history.

(* non-vacuity: while /b migrates large-to-small, /c keeps its 70 bytes and /d stays empty *)
Theorem C07_frame_example_through_migrations : ltac:(let t := type of DataFrame.ExampleB.migration_3b_frames_others in exact t).
Proof. exact DataFrame.ExampleB.migration_3b_frames_others. Qed.
Check C07_frame_example_through_migrations.
Print Assumptions C07_frame_example_through_migrations.

(* non-vacuity: write + flush through a small stream's handle leaves a 5000-byte stream, its entry, the root entry and the other handle as they were *)
Theorem C07_frame_example_small_vs_large : ltac:(let t := type of Example.flush_a_keeps_b in exact t).
Proof. exact Example.flush_a_keeps_b. Qed.
Check C07_frame_example_small_vs_large.
Print Assumptions C07_frame_example_small_vs_large.
