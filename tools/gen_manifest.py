#!/usr/bin/env python3
"""Writes MANIFEST.json from the table below (kept in one place so that it stays consistent)."""
import json, os
ROOT = os.path.dirname(os.path.dirname(os.path.abspath(__file__)))
CLAIMS = {
 # id: (design_ref, technique, text, note)
 "C09": ("DESIGN.md 6/C09", "Coq proof over all names/paths of the name order, validation and path normalisation + exhaustively regenerated upper-casing table + lockstep correspondence against the abstract tree",
         "Theorems for all Unicode names and all path spellings: the comparison used by every tree descent is shortlex on (UTF-16 length, upper-cased UTF-16 units), a total preorder whose equivalence is equality of upper-cased units (so lookups are case-insensitive); validation accepts exactly names of at most 31 units without / \\ : !; trailing/leading slashes, '.' and resolvable '..' components do not change the addressed name chain and escaping the root is InvalidInput. The upper-casing function inside the theorems is the implementation's: its table is dumped from the running code over all 1 112 064 scalar values on every run. The use of these functions by the API (creation validates, stored verbatim, siblings coexist, listing order) is checked by running generated histories on the real crate against the extracted abstract-tree specification after every call.",
         "Trusted: Coq kernel; the table dump (cfbh uptable) and tools/gen_uptable.py; Path::components on Unix is modelled; the API-level clauses rest on differential testing against the specification (generated histories), with the children-list theorems of proofs/TreeProofs.v proved for the specification."),
 "C14": ("DESIGN.md 6/C14", "Coq proof of deadlock freedom and termination for any number of threads, any schedule and any admissible lock policy, under the hold-depth<=1 discipline that the instrumented lock observes on the real code",
         "Theorems over an unbounded small-step model of the shared RwLock: if every thread's lock usage is well bracketed and never nested, no reachable configuration is stuck and every execution terminates with all calls completed, whatever the grant policy (writer preference, reader preference, FIFO) and schedule; reads observe only states at the end of whole write sections; conversely the pinned tree's nested read acquisition reaches a deadlock under writer preference (witness schedule). The hypothesis is established for the code by the cfg(cfb_verif) lock wrapper: every public read-only method, iterator and stream operation is run and its acquisition trace must be well bracketed with depth <= 1 at every site.",
         "Partial: std::sync::RwLock is modelled by the policy class, not verified; the lock discipline of the code is observed at run time per call site (single-threaded runs suffice to observe it), plus real-thread runs under a watchdog as supporting evidence."),
 "C17": ("DESIGN.md 6/C17", "Coq proof of the FILETIME/CLSID/entry codecs for all values + lockstep correspondence with extreme values across reopen",
         "Theorems for all u64 tick counts, all (sign, secs, nanos) system times, all 128-bit CLSIDs and all valid directory entries and headers: conversion to FILETIME floors to 100 ns toward the Unix epoch, saturates at 1601 and at u64::MAX ticks, every stored value is reported as a SystemTime that converts back to it, and decode(encode e) = e in both validation modes. That setters store these values, that streams stay nil/zero and that reopening returns them is checked by lockstep histories (profile meta: extreme values, every object kind, reopen in both modes) against the abstract tree.",
         "Trusted: Coq kernel; 64-bit SystemTime (checked_add never fails for u64 ticks) is an assumption of the model; setter plumbing rests on differential testing."),
}
PENDING = ["C01","C02","C03","C04","C05","C06","C07","C08","C10","C11","C12","C13","C15","C16","C18"]
def main():
    checks = []
    for pid in sorted(CLAIMS):
        ref, tech, text, note = CLAIMS[pid]
        checks.append({
            "property_id": pid,
            "quick_cmd": "./check %s --tier quick" % pid,
            "thorough_cmd": "./check %s --tier thorough" % pid,
            "evidence_file": "evidence/%s.json" % pid,
            "replay_cmd_template": "./check %s --replay {path}" % pid,
            "engine": "coq+lockstep",
            "level_claimed": {"category": "proof", "text": text, "design_ref": ref},
            "level_note": note,
            "technique": tech,
        })
    m = {
        "version": 1,
        "setup_cmd": "./check --setup",
        "hooks": {
            "guard": "cfb_verif",
            "enable": "RUSTFLAGS=\"--cfg cfb_verif\" (set by ./check when it builds harness/ against /repo)",
            "baseline_off_cmd": "cd /repo && cargo test --workspace --no-fail-fast --offline",
            "source_commits": ["8efeb13"],
            "add_only": True,
        },
        "engines": [{"name": "coq+lockstep", "path": "check", "serves_properties": sorted(CLAIMS),
                     "kind_free_text": "Coq 8.16.1 development (coq/), extracted OCaml model + replay driver (ocaml/), Rust harness driving the real crate (harness/)"}],
        "checks": checks,
        "notes": "See DESIGN.md. Properties not yet listed under checks are under construction in this session and are listed under not_applicable only until their check lands.",
        "not_applicable": [{"property_id": p, "reason": "check under construction in this session (not a claim that the technique cannot apply)"} for p in PENDING if p not in CLAIMS],
    }
    json.dump(m, open(os.path.join(ROOT, "MANIFEST.json"), "w"), indent=1)
    print("MANIFEST.json: %d checks, %d pending" % (len(checks), len(m["not_applicable"])))
if __name__ == "__main__":
    main()
