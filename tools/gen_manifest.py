#!/usr/bin/env python3
"""Writes MANIFEST.json from the table below (kept in one place so that it stays consistent)."""
import json, os
ROOT = os.path.dirname(os.path.dirname(os.path.abspath(__file__)))
CLAIMS = {
 # id: (design_ref, technique, text, note)
 "C09": ("DESIGN.md 6/C09", "Coq proof over all names/paths of the name order, validation and path normalisation + exhaustively regenerated upper-casing table + lockstep correspondence against the abstract tree",
         "Theorems for all Unicode names and all path spellings: the comparison used by every tree descent is shortlex on (UTF-16 length, upper-cased UTF-16 units), a total preorder whose equivalence is equality of upper-cased units (so lookups are case-insensitive); validation accepts exactly names of at most 31 units without / \\ : !; trailing/leading slashes, '.' and resolvable '..' components do not change the addressed name chain and escaping the root is InvalidInput. The upper-casing function inside the theorems is the implementation's: its table is dumped from the running code over all 1 112 064 scalar values on every run. The use of these functions by the API (creation validates, stored verbatim, siblings coexist, listing order) is checked by running generated histories on the real crate against the extracted abstract-tree specification after every call.",
         "Trusted: Coq kernel; the table dump (cfbh uptable) and tools/gen_uptable.py; Path::components on Unix is modelled; the API-level clauses rest on differential testing against the specification (generated histories), with the children-list theorems of proofs/TreeProofs.v proved for the specification."),
 "C14": ("DESIGN.md 6/C14", "Coq proof of deadlock freedom and termination for any number of threads, any schedule and any admissible lock policy, under the hold-depth<=1 discipline that the instrumented lock observes on the real code",
         "Theorems over an unbounded small-step model of the shared RwLock: if every thread's lock usage is well bracketed and never nested, no reachable configuration is stuck and every execution terminates with all calls completed, whatever the grant policy (writer preference, reader preference, FIFO) and schedule; reads observe only states at the end of whole write sections; conversely the pinned tree's nested read acquisition reaches a deadlock under writer preference (witness schedule). The hypothesis is established for the code by the cfg(cfb_verif) lock wrapper: every public read-only method, iterator and stream operation is run and its acquisition trace must be well bracketed with depth <= 1 at every site.",
         "Partial: std::sync::RwLock is modelled by the policy class, not verified; the lock discipline of the code is observed at run time per call site (single-threaded runs suffice to observe it), plus real-thread runs under a watchdog as supporting evidence."),
 "C17": ("DESIGN.md 6/C17", "Coq proof of the FILETIME/CLSID/entry codecs for all values + lockstep correspondence with extreme values across reopen",
         "Theorems for all u64 tick counts, all (sign, secs, nanos) system times, all 128-bit CLSIDs and all valid directory entries and headers: conversion to FILETIME floors to 100 ns toward the Unix epoch, saturates at 1601 and at u64::MAX ticks, every stored value is reported as a SystemTime that converts back to it, and decode(encode e) = e in both validation modes. That setters store these values, that streams stay nil/zero and that reopening returns them is checked by lockstep histories (profile meta: extreme values, every object kind, reopen in both modes) against the abstract tree.",
         "Trusted: Coq kernel; 64-bit SystemTime (checked_add never fails for u64 ticks) is an assumption of the model; setter plumbing rests on differential testing."),
}

CLAIMS.update({
 "C01": ("DESIGN.md 6/C01", "Coq proofs of the directory layer as a search tree + abstract-tree specification run on the implementation's results after every call (translation validation of the refinement step)",
  "Partial proof. Theorems: table lookup / insertion / removal / listing refine a search tree over the CFB order for any tree shape; the abstract specification keeps children sorted and unique up to case, refusals change nothing, any sibling set coexists. The full refinement abs(step s op) = spec_step(abs s) op is checked per instance: every generated history (both versions, all operation kinds, colliding names, sizes around 64/4096/sector, reopen at random points) is run on the real crate; after every call the extracted specification must return the implementation's result and the abstraction of the lockstep model state must equal the specification tree.",
  "Trusted: Coq kernel, extraction, harness. The composition of the layer theorems into step_refines_spec is not proved; stream bytes through chains are tied by lockstep."),
 "C02": ("DESIGN.md 6/C02", "Coq proofs of FAT write-through and codec round trips + byte-exact lockstep of the image after every call + reopen of the unflushed bytes at every boundary",
  "Partial proof. Theorems: every FAT cell update is on disk when the call returns (reuse and growth paths), the on-disk FAT read back as open does has the cache as prefix, entry and header codecs round-trip in both modes, strict and permissive open build the identical state. The write-through claim about the code is the lockstep obligation: after every call the crate's backing bytes (snapshot, no flush) equal the model's image byte for byte; histories reopen those bytes in both modes at random boundaries and continue on the reopened object.",
  "The composition persist (open(image s) = s) is not proved; MiniFAT and directory write-through are tied by lockstep only."),
 "C03": ("DESIGN.md 6/C03", "independent Coq-extracted MS-CFB checker run on the implementation's bytes after every call + Coq proofs of parts of the well-formedness invariant",
  "Partial proof. wf_check (spec/WfImage.v) is written from MS-CFB and the property text and shares no mechanics with the model or the library; it is run on the crate's bytes after every operation of generated histories (including many-entry histories with several directory sectors). Theorems: created images of both versions are accepted, evaluated histories through every allocator path are accepted, the checker rejects broken images, FAT cache = disk with markers and header counts maintained through growth and reuse, free list names only FREE cells, removal blanks exactly one slot and keeps a red-red-free search tree.",
  "The preservation theorem W is not proved. The DIFAT-sector regime (> 109 FAT sectors) is covered by theorems (allocate_grow_coherent) but not exercised by the quick histories."),
 "C04": ("DESIGN.md 6/C04", "Coq proofs of layout independence of chain reading, tree lookup, listing and name order",
  "Partial proof. Theorems: a chain is read as the concatenation of its sectors in chain order whatever the sector numbers; lookup finds exactly the keys of any search tree over the CFB order (any balance, colours, slots); listing is the in-order sequence; the order is shortlex on upper-cased UTF-16 units (the code-point ordering defect was repaired). The corpus probe checks a tree ordered by code units as another writer would produce it.",
  "The composition open_any_layout is not proved and the independent layout synthesiser of DESIGN.md is not built yet: foreign layouts are exercised only through deviant/mutated images (C05/C11/C16 checks)."),
 "C05": ("DESIGN.md 6/C05", "Coq proof that open never panics or runs out of fuel on ANY byte string, with linear size bound + mutation enumeration replayed on the model",
  "Proof. open_total: for every byte string and both modes the model of open returns Ok or an error (every Rust panic site is a Panic result, every loop runs on fuel). open_size_bound: every table is no longer than the input. chain_ids_total: on accepted tables every chain walk from any start terminates (why the cheap first-sector loop check suffices). Read-only queries can only refuse. Tie: the repository's fuzz inputs and thousands of field-level corruptions, truncations and extensions are opened by the real crate in a watched worker and given a read-only workload; the model must agree on accept/reject, error kind and every result and must never answer Panic/OutOfFuel.",
  "Peak heap is not measured (size bound on model tables instead). Stream reads on accepted files are covered by lockstep agreement, not by a separate totality theorem."),
 "C06": ("DESIGN.md 6/C06", "Coq proof that the buffered handle refines the Read/Write/BufRead/Seek contract over a byte vector for every buffer size and every operation sequence",
  "Proof at handle level over an abstract store satisfying store_contract (discharged for a vector store and a faulty store): every history of read / fill_buf / consume / write / seek / set_len / flush / len / position refines the contract, never panics, out-of-range seeks of any magnitude are InvalidInput with no effect, looping forms are independent of the buffer size. Tie: handle histories on the real crate for max_buffer_size in {1, 1024, 1500, 4096, 1 MiB} x V3/V4 are checked against a byte vector (contract oracle) and replayed on the model in lockstep.",
  "That Store.v satisfies store_contract is proved only for large streams in part (StoreProofs, in progress); otherwise tied by lockstep."),
 "C07": ("DESIGN.md 6/C07", "Coq proof that removal by relinking keeps every surviving entry's id and payload + multi-handle lockstep histories",
  "Proof for the directory layer: for every table, remove_dir_entry frees exactly the removed slot and every other slot keeps name, type, start, length and metadata; on well-formed sibling trees the result is search-tree removal, other lookups unchanged; insertion (slot reuse) only adds the new id; a chain write leaves disjoint chains unchanged. Tie: histories with up to 4 open handles interleaved with creations, removals (two-children nodes) and overwrites of other entries, replayed on the model in lockstep with full dumps.",
  "Handle operations changing only their own stream is proved at chain level (disjoint chains) and tied above that by lockstep."),
 "C08": ("DESIGN.md 6/C08", "Coq proof of zero padding at handle and chain level + vector-contract oracle on the real crate with shrink/grow/reuse histories",
  "Partial proof. Theorems: set_len refines truncate-or-pad-with-zeros given the store contract; a chain write of zeros overwrites exactly the range whatever the sectors held; disjoint chains untouched. Tie: the vector-contract oracle (set_len must read back as zeros, also through a fresh handle) over histories with shrinks, grows and removals for all buffer sizes and both versions, plus lockstep with the model, whose sectors keep stale bytes.",
  "That Store.resize meets the contract in all migration cases is not yet a theorem."),
 "C10": ("DESIGN.md 6/C10", "Coq proof that every precondition refusal leaves the whole state unchanged + byte comparison around every refused call",
  "Proof: precheck computes the refusal of each operation from the path, directory table and handle alone; precheck_sound shows step returns the unchanged state (hence unchanged bytes, unchanged handle table, same future) for every operation including create_storage_all, remove_storage_all and seek. Tie: histories with about 45% refusals of every kind; the driver checks that the implementation's bytes are identical before and after every call that returned NotFound / AlreadyExists / InvalidInput, and lockstep continues afterwards.",
  "The converse (every error of these kinds is a precheck refusal) is proved for queries only; for mutations it holds on well-formed states and is observed on every explored history."),
 "C11": ("DESIGN.md 6/C11", "Coq proof of the mutation-safety invariant (walks terminate + sane free list) established by open and preserved by every allocator and chain operation in every outcome + mutation enumeration replayed on the model",
  "Partial proof. Safe (no edge enters a cycle from outside; free list duplicate-free and naming only FREE cells) holds after open of any accepted byte string, is preserved by allocate / extend / free / chain and mini-chain resize and write in Ok and error outcomes, and implies termination of every checked walk; free_chain and the repaired extend_chain walk terminate for any table. Tie: corruptions concentrated on fields open never follows (start sectors, sizes, links) are opened permissively and mutated (write, set_len across the cutoff, remove, overwrite, create) in a watched worker; the model replays every case byte-exactly and must never answer Panic/OutOfFuel.",
  "Directory- and API-level layers above the chains are covered by the enumeration, not by theorems. Known exclusion: use of a handle after its stream was removed (outside C07's precondition) is not generated."),
 "C12": ("DESIGN.md 6/C12", "Coq proof at handle level that a failed read changes nothing observable + exhaustive single-fault enumeration on the real crate",
  "Proof: over a store whose reads may fail arbitrarily, every handle operation returns Err or exactly the fault-free result; after Err the abstract content and cursor are unchanged and the invariant holds, so later reads return true content; never Panic. Tie: every raw read/seek call of a workload (open, walk, list, buffered reads with retry, seeks; both versions, two buffer sizes) is failed in turn, plus random pairs; every returned byte is compared with the true content.",
  "Error propagation below the store interface is covered by the enumeration only."),
 "C13": ("DESIGN.md 6/C13", "Coq proof that Ok flush implies durability across failed attempts + exhaustive single-fault enumeration of a mutating workload",
  "Proof: over a store whose write-backs may fail torn and whose resize fails atomically, flush Ok implies the store holds every accepted byte, failures are reported and leave the data pending; set_len failure leaves content and cursor unchanged. Tie: every raw write/seek/flush call of a mutating workload is failed in turn (about 59 000 runs) with retry; no panic, no hang, and after every Ok flush a fresh handle must read back all accepted bytes.",
  "Atomicity of resize on failure is an assumption checked by the enumeration. No panic below the handle after a fault is enumeration only."),
 "C15": ("DESIGN.md 6/C15", "Coq proofs of reuse-before-growth at allocator level + cycle enumeration on the real crate",
  "Partial proof. Theorems: allocation takes a free sector when one exists and the file does not grow; growth happens only with an empty free list; a freed chain is reused exactly; free mini sectors and retained MiniFAT / mini-stream capacity are reused without allocating. Tie: prefix + net-zero cycle histories (streams below and above the cutoff, storages, overwrite/truncate) repeated 5 times on the real crate: length after repetition k equals length after repetition 2 for all k >= 2.",
  "The history-level theorem netzero_stable is not proved."),
 "C16": ("DESIGN.md 6/C16", "Coq proof for every byte string that strict acceptance implies permissive acceptance with the identical state, and of the tolerated deviations at decoder level",
  "Proof: strict_implies_permissive for all byte strings (identical state, hence identical tree, metadata and contents); seven documented deviations are proved tolerated by permissive decode with the same entry/header and rejected by strict decode.",
  "Table-level deviations (zero-padded FAT/DIFAT, unmarked FAT sectors, over-long MiniFAT, counts) are covered by the model's branches agreeing with the crate on mutated images (C05/C11 enumerations), not by separate tolerated_d theorems; the deviation-injection harness of DESIGN.md is not built yet."),
 "C18": ("DESIGN.md 6/C18", "Coq proof that read_exact / write_all / copy and the sector-hopping loops are independent of short counts, Interrupted and the backend position + deterministic lockstep",
  "Partial proof. Theorems over any chunking oracle: the looping transfers move exactly the same bytes to the same offsets as the one-shot backend; every access seeks first. Determinism: the model is a function, and byte-exact lockstep shows the crate's image is that function of the history (timestamps pinned). Buffer-size and version independence of logical results come from C06 and C01.",
  "std loops are modelled from documentation; File backend and chunking backends are not yet exercised by a dedicated run."),
})
PENDING = []
def main():
    checks = []
    for pid in sorted(CLAIMS):
        ref, tech, text, note = CLAIMS[pid]
        checks.append({
            "property_id": pid,
            "quick_cmd": "./check %s --tier quick" % pid,
            "thorough_cmd": "./check %s --tier thorough" % pid,
            "evidence_file": "evidence/%s.json" % pid,
            "replay_cmd_template": "./check %s --replay {path}" % pid,
            "engine": "coq+lockstep",
            "level_claimed": {"category": "proof", "text": text, "design_ref": ref},
            "level_note": note,
            "technique": tech,
        })
    m = {
        "version": 1,
        "setup_cmd": "./check --setup",
        "hooks": {
            "guard": "cfb_verif",
            "enable": "RUSTFLAGS=\"--cfg cfb_verif\" (set by ./check when it builds harness/ against /repo)",
            "baseline_off_cmd": "cd /repo && cargo test --workspace --no-fail-fast --offline",
            "source_commits": ["8efeb13"],
            "add_only": True,
        },
        "engines": [{"name": "coq+lockstep", "path": "check", "serves_properties": sorted(CLAIMS),
                     "kind_free_text": "Coq 8.16.1 development (coq/), extracted OCaml model + replay driver (ocaml/), Rust harness driving the real crate (harness/)"}],
        "checks": checks,
        "notes": "See DESIGN.md. Every property is decided by Coq theorems about a model of the code plus a correspondence check against /repo; where the theorems cover only part of the quantifier the claim text says partial and names what rests on enumeration. Twelve defects found on the pinned tree were repaired by fix: commits (KNOWN_FINDINGS.txt).",
        "not_applicable": [{"property_id": p, "reason": "check under construction in this session (not a claim that the technique cannot apply)"} for p in PENDING if p not in CLAIMS],
    }
    json.dump(m, open(os.path.join(ROOT, "MANIFEST.json"), "w"), indent=1)
    print("MANIFEST.json: %d checks, %d pending" % (len(checks), len(m["not_applicable"])))
if __name__ == "__main__":
    main()
