#!/usr/bin/env python3
"""Confirms a seeded breaking change and runs the checks against it.

  tools/run_seeded.py <name> <worktree> <outdir> [--checks C01,C02,...|all]

<worktree> has the change applied and tests/seeded_demo.rs present; <outdir>
holds patch.diff, seeded_demo.rs, meta.json written by the seeding agent.
1. confirms in the worktree: existing suite passes with the change, the demo
   fails with it and passes without it;
2. copies the artefacts to /verif/seeded/<name>/;
3. applies patch.diff to /repo, runs the listed quick checks, reverts /repo;
4. records which checks raised a VIOLATION in seeded/<name>/meta.json.
"""
import sys, os, json, subprocess, shutil, re, time
ROOT = os.path.dirname(os.path.dirname(os.path.abspath(__file__)))
ALL = ["C%02d" % i for i in range(1, 19)]

def sh(cmd, cwd=None, timeout=3600, env=None):
    p = subprocess.run(cmd, cwd=cwd, timeout=timeout, stdout=subprocess.PIPE, stderr=subprocess.STDOUT, text=True, errors="replace", shell=isinstance(cmd, str), env=env)
    return p.returncode, p.stdout

def main():
    name, wt, outdir = sys.argv[1], sys.argv[2], sys.argv[3]
    checks = None
    if "--checks" in sys.argv:
        c = sys.argv[sys.argv.index("--checks") + 1]
        checks = ALL if c == "all" else c.split(",")
    recheck = "--recheck" in sys.argv   # the change was confirmed earlier: only run the checks again
    if recheck:
        outdir = os.path.join(ROOT, "seeded", name)
    meta = json.load(open(os.path.join(outdir, "meta.json")))
    prop = meta.get("property", name[:3])
    if checks is None:
        checks = ALL
    env = dict(os.environ, CARGO_NET_OFFLINE="true")
    env.pop("RUSTFLAGS", None)
    confirm = {}
    if recheck:
        confirm = meta.get("confirmed", {})
    if not recheck:
        # 1. confirmation in the worktree
        rc, out = sh("cargo test --offline --no-fail-fast 2>&1 | grep -E '^test result|Running|FAILED|failed'", cwd=wt, env=env)
        targets = re.findall(r"Running (?:unittests )?(\S+).*?\n(?:.*\n)*?test result: (\w+)\. (\d+) passed; (\d+) failed", out)
        lines = out.splitlines()
        cur, res = None, {}
        for l in lines:
            m = re.search(r"Running (?:unittests )?(\S+)", l)
            if m: cur = m.group(1)
            m = re.search(r"test result: (\w+)\. (\d+) passed; (\d+) failed", l)
            if m:
                res[cur or "doctest"] = (m.group(1), int(m.group(2)), int(m.group(3)))
                cur = None
        demo_fails_with = any("seeded_demo" in k and v[0] != "ok" for k, v in res.items())
        others_ok = all(v[0] == "ok" for k, v in res.items() if "seeded_demo" not in k)
        confirm["suite_passes_with_change"] = others_ok
        confirm["demo_fails_with_change"] = demo_fails_with
        # (git stash is shared between worktrees: revert and re-apply the patch instead)
        patch = os.path.abspath(os.path.join(outdir, "patch.diff"))
        rcr, o_r = sh(["git", "apply", "-R", patch], cwd=wt)
        rc, out2 = sh("cargo test --offline --test seeded_demo 2>&1 | grep -E '^test result'", cwd=wt, env=env)
        if rcr == 0:
            sh(["git", "apply", patch], cwd=wt)
        else:
            out2 = "could not revert patch: " + o_r
        confirm["demo_passes_without_change"] = bool(re.search(r"test result: ok", out2)) and "FAILED" not in out2
        confirm["targets"] = {k: list(v) for k, v in res.items()}
        ok = all(confirm[k] for k in ("suite_passes_with_change", "demo_fails_with_change", "demo_passes_without_change"))
    else:
        ok = bool(meta.get("confirmed_ok"))
    dest = os.path.join(ROOT, "seeded", name)
    os.makedirs(dest, exist_ok=True)
    for f in ("patch.diff", "seeded_demo.rs"):
        if os.path.abspath(outdir) != os.path.abspath(dest):
            shutil.copy(os.path.join(outdir, f), os.path.join(dest, f))
    meta["confirmed"] = confirm
    meta["confirmed_ok"] = ok
    detected, details = [], {}
    if ok:
        # 3. apply to /repo, run the checks, revert
        meta["repo_head_at_run"] = sh(["git", "-C", "/repo", "rev-parse", "--short", "HEAD"])[1].strip()
        rc, o = sh(["git", "-C", "/repo", "apply", os.path.join(dest, "patch.diff")])
        if rc != 0:
            # /repo has moved on since the change was written (later fix: commits): merge it
            rc, o2 = sh(["git", "-C", "/repo", "apply", "--3way", os.path.join(dest, "patch.diff")])
            sh(["git", "-C", "/repo", "reset", "-q"])
            conflict = sh("git -C /repo diff | grep -c '^[+-]<<<<<<<\\|^+=======$'")[1].strip()
            if rc != 0 or conflict not in ("0", ""):
                sh(["git", "-C", "/repo", "checkout", "--", "."])
                rc = 1
            meta["applied_with_3way"] = (rc == 0)
        if rc != 0:
            meta["apply_error"] = o[-500:]
        else:
            try:
                for c in checks:
                    t0 = time.time()
                    rc, o = sh(["./check", c, "--tier", "quick"], cwd=ROOT, timeout=1800)
                    v = [l for l in o.splitlines() if l.startswith("VIOLATION")]
                    details[c] = {"exit": rc, "violation": v[0] if v else None, "wall_s": round(time.time() - t0, 1),
                                  "first_lines": [l[:300] for l in o.splitlines() if l.startswith("  ")][:3]}
                    if rc != 0 and v:
                        detected.append(c)
                    # keep the replay of the owning property
                    if rc != 0 and c == prop:
                        rp = re.search(r"replay=(\S+)", v[0]) if v else None
                        if rp and os.path.exists(os.path.join(ROOT, rp.group(1))):
                            shutil.copy(os.path.join(ROOT, rp.group(1)), os.path.join(dest, "replay.json"))
            finally:
                sh(["git", "-C", "/repo", "checkout", "--", "."])
    if recheck:
        # keep the earlier results of the checks not run again
        old_details = meta.get("check_details", {})
        old_details.update(details)
        details = old_details
        detected = sorted(set(c for c, dd in details.items() if dd.get("exit") and dd.get("violation")))
        checks = sorted(details)
    meta["checks_run"] = checks
    meta["detected_by"] = detected
    meta["check_details"] = details
    meta["what_was_run"] = "tools/run_seeded.py: confirmation in a scratch worktree (cargo test --offline with and without the change), then git -C /repo apply patch.diff, ./check <id> --tier quick for each listed check, git -C /repo checkout -- ."
    json.dump(meta, open(os.path.join(dest, "meta.json"), "w"), indent=1)
    print("%s property=%s confirmed=%s detected_by=%s" % (name, prop, ok, ",".join(detected) or "-"))

if __name__ == "__main__":
    main()
