#!/usr/bin/env python3
"""Writes coq/props/<id>.v for theorems pinned by their printed statement:
each is restated as `Theorem Cxx_name : <type of lemma>` (computed by Coq), and
`Check` prints the statement; ./check compares the whole output of compiling the
file with coq/props/<id>.expected (committed), so a weakened or changed statement
is detected exactly like a failed proof."""
import sys, os
ROOT = os.path.dirname(os.path.dirname(os.path.abspath(__file__)))
def write(pid, header, imports, items):
    out = ["(* %s *)" % header.replace("*)", "* )"), imports, "Set Printing Width 110.", ""]
    for name, lemma, comment in items:
        out.append("(* %s *)" % comment.replace("*)", "* )"))
        out.append("Theorem %s_%s : ltac:(let t := type of %s in exact t).\nProof. exact %s. Qed." % (pid, name, lemma, lemma))
        out.append("Check %s_%s.\nPrint Assumptions %s_%s.\n" % (pid, name, pid, name))
    open(os.path.join(ROOT, "coq", "props", pid + ".v"), "w").write("\n".join(out))

IMP_ALL = """From Cfb.model Require Import Base Names DirEnt State Alloc Dir Mini Store Handle Open Cfb.
From Cfb.gen Require Import Consts."""

write("C07", "C07 — open handles stay bound to their stream and never touch other objects.  Statements are printed by Check below and compared with C07.expected; proofs in proofs/DirProofs.v (removal by relinking keeps every surviving entry's id and payload) and proofs/ChainProofs.v (writing one chain never changes another).  Handles hold entry ids; that handle operations go through the entry id only is the handle model of C06.",
  IMP_ALL + "\nFrom Cfb.proofs Require Import DirProofs ChainProofs.",
  [("removal_keeps_ids_and_payload", "remove_ids_stable_raw", "for EVERY table: removing an entry frees exactly its own slot; every other slot keeps name, type, start sector, length, CLSID, state bits and times (only sibling links / colour may change)"),
   ("removal_is_bst_removal", "remove_rep", "on a well-formed sibling tree the result is the search tree without the removed id; the in-order sequence of the others is unchanged"),
   ("removal_keeps_other_lookups", "remove_lookup", "every other name is still found, at the same id"),
   ("insertion_keeps_ids_and_payload", "insert_rep", "creations (which may reuse freed slots) only add the new id; all other entries keep their payload"),
   ("writes_do_not_touch_other_chains", "chain_write_frame_other", "a write into one chain leaves the content of every chain that shares no sector with it unchanged"),
  ])

write("C01", "C01 — namespace and content operations agree with an abstract tree model.  Statements are printed by Check below and compared with C01.expected.  PARTIAL: proved are the directory layer (lookup / insert / remove / listing on the pointer table refine a search tree over cmp_names, for any tree shape), the specification's own invariants, and the refinement of the NAMESPACE: under the representation relation TreeRep (table represents abstract tree; stream bytes abstracted by a content relation with a frame hypothesis) every query returns the specification's result and every successful namespace mutation yields a table representing the specification's new tree, with agreeing refusal kinds.  Also proved (proofs/HistoryRefine.v): the lift to WHOLE HISTORIES from a freshly created file of either version - for every list of the seven namespace mutations, nine queries, open_stream and stream creation at fresh paths, the model's results and the specification's are related call by call (equal refusal kinds, entries equal up to the root's length field) and the final table represents the final tree, up to the first LATE FAILURE (specification Ok, model Err/Panic/OutOfFuel from allocation - not excluded by these theorems) if there is one.  NOT proved: absence of late failures, truncating create_stream, the *_all operations, and the content frame for stream bytes through chains and migrations — those are checked instance by instance: on every step of every generated history the abstraction of the model state equals the specification tree and the specification's result equals the implementation's.",
  IMP_ALL + "\nFrom Cfb.spec Require Import Tree.\nFrom Cfb.proofs Require Import NamesProofs DirProofs TreeProofs QueryRefine MutRefine ReadonlyTotal HistoryRefine.",
  [("lookup_is_bst_lookup", "find_in_siblings_total", "table lookup with the model's own fuel = search-tree lookup, for ANY tree shape (balance and colour irrelevant)"),
   ("bst_lookup_finds_exactly_equivalent_name", "bst_find_iff", "the id found is the unique entry whose name is equivalent up to case"),
   ("insert_is_bst_insert", "insert_rep", "insertion links a new leaf at the search position; ids become a permutation of new :: old"),
   ("remove_is_bst_remove", "remove_rep", "removal = search-tree removal"),
   ("listing_is_inorder", "entries_nonrec_inorder", "read_storage visits exactly the in-order sequence, i.e. CFB order"),
   ("spec_keeps_children_sorted", "wf_spec_step", "every operation of the abstract specification keeps every children list strictly sorted (hence unique up to case)"),
   ("spec_siblings_coexist", "siblings_coexist", "any set of pairwise non-equivalent names inserted in any order gives the same sorted list; each stays findable under any case variant through insertions and removals"),
   ("spec_refusals_have_no_effect", "spec_refused_no_effect", "in the specification an Err result never changes the tree"),
   ("path_lookup_refines_get", "lookup_refines_get", "when the directory table represents the abstract tree t (TreeRep), path lookup on the table = get on t, and the id found represents the node found"),
   ("queries_refine_spec", "query_step_refines", "exists / is_stream / is_storage / entry / root_entry / read_storage / read_root / walk / walk_storage: the model's step returns exactly the specification's result (entries up to the root's length field), state unchanged"),
   ("open_stream_refines_spec", "open_stream_step_refines", "open_stream succeeds exactly when the specification does, same error kind otherwise; the handle is bound to the id representing that leaf"),
   ("namespace_mutations_refine_spec", "namespace_step_refines", "create_storage, remove_storage, remove_stream, set_storage_clsid, set_state_bits, set_created_time, set_modified_time: whenever the model's step succeeds, the specification succeeds and the new table represents the specification's new tree"),
   ("create_stream_refines_spec", "create_stream_step_refines", "creating a new stream: the new table represents the tree with an empty leaf inserted at the sorted position"),
   ("create_storage_refusal_kinds_agree", "create_storage_refusal", "when the specification refuses, the model refuses with the same kind and an unchanged state (same for the other seven operations: *_refusal in proofs/MutRefine.v)"),
   ("remove_stream_refusal_kinds_agree", "remove_stream_refusal", "same, for remove_stream"),
   ("one_step_agreement", "step_agreement", "on every covered call model and specification agree (results related, new table represents new tree) unless the specification succeeds and the model fails late"),
   ("fresh_file_represents_empty_tree", "fresh_sim", "the file written by create (V3 and V4) represents the empty tree"),
   ("histories_refine_spec", "fresh_history_refines", "for EVERY history of covered calls on a fresh file without late failure: all results related, final table represents the final tree"),
   ("histories_agree_until_late_failure", "fresh_history_agrees_until_late_failure", "without that hypothesis: results are related strictly up to the first late failure, which is the only way the two can part"),
   ("history_example", "Example.ex_history", "non-vacuity: an 18-call history (five of them refused) on V3 and V4 meets the hypotheses"),
  ])

write("C15", "C15 — released space is reused: repeating a net-zero cycle does not grow the file.  Statements are printed by Check below and compared with C15.expected; proofs in proofs/ReuseProofs.v.  PARTIAL: the allocation-level theorems (reuse before growth, LIFO reuse of a freed chain, no MiniFAT / mini-stream chain extension while retained capacity suffices) are proved; the history-level statement netzero_stable (file size constant from the second repetition of ANY net-zero cycle) is checked by enumeration on the real crate and by evaluation of the model on the witness cycles.",
  IMP_ALL + "\nFrom Cfb.proofs Require Import ReuseProofs.",
  [("allocation_reuses_before_growing", "allocate_reuses_wf", "with a free sector available, allocation takes it and the file does not grow"),
   ("growth_only_when_nothing_free", "allocate_appends_only_when_full", "growth happens only with an empty free list, by at most one data + one FAT + one DIFAT sector"),
   ("freed_chain_is_reused_exactly", "free_chain_then_alloc'", "freeing a chain of k sectors and allocating k sectors returns the same sectors: file size unchanged"),
   ("mini_free_list_reused", "allocate_mini_reuses", "a free mini sector is reused without allocating anything"),
   ("retained_capacity_reused", "allocate_mini_within_capacity", "while the MiniFAT chain and the mini-stream chain have room, a new mini sector allocates no sector (the repaired condition)"),
   ("witness_cycle_stable", "Examples.small_stream_cycle_stable", "the witness cycle create / write 100 / remove evaluated on the model: sizes 1536, 2560, 2560, 2560, 2560"),
  ])

write("C02", "C02 — write-through persistence: the byte image always reopens to the same state.  Statements are printed by Check below and compared with C02.expected.  PARTIAL: proved are the write-through of the FAT, of the directory (insert / remove / metadata updates / new directory sectors) and of the MiniFAT cells (every cached cell or entry equals its bytes on disk after every mutation), that the on-disk FAT and directory read back as open does return the cache (the directory followed by the blank slots of its last sector), the entry / header codec round trips in both modes, and that strict acceptance gives the same state as permissive.  Also proved (proofs/ReopenProofs.v): the REOPEN ROUND TRIP - for every state that is Coherent (header bytes = header computed from the cache, FAT / directory / MiniFAT cache = disk, tails FREE, tables valid; no DIFAT sectors, i.e. at most 109 FAT sectors) open in BOTH modes on the concatenated image succeeds and returns exactly the cached tables (directory followed by the blank slots of its last sector, free lists rebuilt in index order); Coherent holds for the fresh file of either version and, by a sound boolean checker, for reachable example states (storages, mini and regular streams, removals, second FAT sector, second directory sector, extended MiniFAT); the header field writes of allocation keep the header coherent.  Also proved (proofs/PersistProofs.v): PERSISTENCE OVER HISTORIES of the namespace - a stronger invariant PInv (Coherent + directory and MiniFAT chains disjoint + every entry well-formed and black + the table represents a tree) holds of the fresh file of either version, is preserved by create_storage, create_new_stream, remove_storage, remove_stream (of empty streams), the four metadata setters (unchanged state on their refusals), including the growth of the directory chain by a sector with a new FAT sector, and implies the round trip; hence for EVERY history of those calls and the queries (up to 6000 calls, each Ok or without effect) the bytes alone reopen in both modes to the cached state, at every prefix.  NOT proved: preservation by operations that move stream data (write, set_len, removal of non-empty streams, overwrite), and the DIFAT-sector regime; both are checked at every operation boundary of generated histories: the implementation's bytes, taken without flush, are reopened in both modes by the crate and by the model and all dumps compared.",
  IMP_ALL + "\nFrom Cfb.proofs Require Import CoherenceProofs CodecProofs StrictProofs DirCoherence ReopenProofs ReadonlyTotal PersistProofs.",
  [("set_fat_writes_through", "set_fat_existing_coherent", "every FAT cell update is on disk when the call returns"),
   ("allocation_reuse_keeps_coherence", "allocate_reuse_preserves", "allocation from the free list keeps cache = disk"),
   ("allocation_growth_keeps_coherence", "allocate_grow_coherent", "growth (new FAT / DIFAT sectors) keeps cache = disk and the DIFAT consistent"),
   ("fat_on_disk_reads_back", "fat_roundtrip_on_disk", "reading the FAT sectors as open does returns the cached FAT as a prefix"),
   ("data_writes_do_not_touch_the_fat", "sector_write_keeps_fat", "writes to non-FAT sectors never disturb it, in any outcome"),
   ("dir_entry_rewrites_write_through", "with_dir_entry_mut_coherent", "metadata / length updates of an entry are on disk when the call returns"),
   ("insertion_writes_through", "insert_dir_entry_coherent_fatinv", "after insert_dir_entry (slot reuse, append within a sector, or a new directory sector) every cached entry equals its 128 bytes on disk and the rest of the chain is blank"),
   ("removal_writes_through", "remove_dir_entry_coherent", "same after remove_dir_entry"),
   ("directory_on_disk_reads_back", "dir_loop_reads_back", "open's directory loop on the image returns the cached table followed by blank slots"),
   ("minifat_writes_through", "set_minifat_coherent", "every MiniFAT cell update is on disk when the call returns"),
   ("dirent_roundtrip", "dirent_roundtrip", "every valid directory entry decodes to itself in both modes"),
   ("header_roundtrip", "header_roundtrip", "every valid header decodes to itself in both modes"),
   ("strict_and_permissive_agree", "strict_implies_permissive", "both validation modes build the identical state"),
   ("reopen_round_trip", "reopen_both_modes", "for EVERY coherent state: open (either mode) of the bytes alone = the cached state (blank directory slots appended, free lists in index order)"),
   ("reopen_returns_the_cached_tables", "reopen_same_tables", "the same, field by field"),
   ("coherence_is_decidable_soundly", "coherent_b_sound", "a boolean checker implies Coherent (used to establish it for concrete reachable states by evaluation)"),
   ("fresh_file_is_coherent", "Examples.create_state_coherent", "the file written by create, V3 and V4"),
   ("reachable_states_are_coherent", "Examples.more_coherent", "non-vacuity: states after removals, with an extended MiniFAT, a second FAT sector, a second directory sector"),
   ("fresh_header_is_coherent", "create_state_header_coherent", "header bytes of a fresh file = header computed from the cache"),
   ("allocation_keeps_the_header_coherent", "allocate_sector_header", "reuse and growth (with or without a new FAT sector listed in the header DIFAT) leave header bytes = header of the cache"),
   ("new_fat_sector_updates_the_header", "append_fat_sector_header", "appending a FAT sector writes the DIFAT slot and the FAT-sector count through"),
   ("history_invariant_implies_round_trip", "PInv_reopens", "every state satisfying the history invariant reopens, in both modes, to its cached tables"),
   ("tables_that_represent_a_tree_validate", "tree_validates", "strict directory validation succeeds on every all-black table that represents an abstract tree"),
   ("fresh_file_satisfies_the_invariant", "create_state_pinv", "V3 and V4"),
   ("create_storage_preserves_the_invariant", "create_storage_preserves", "including directory-chain growth and a new FAT sector"),
   ("remove_storage_preserves_the_invariant", "remove_storage_preserves", "removal by relinking keeps cache = disk and the table a tree"),
   ("metadata_updates_preserve_the_invariant", "set_state_preserves", "same for set_storage_clsid, set_created_time, set_modified_time (set_*_preserves, set_*_err in proofs/PersistProofs.v)"),
   ("persistence_over_histories", "persist_history", "for EVERY history of the covered calls from a fresh file: the bytes alone reopen, in both modes, to the cached state"),
   ("persistence_at_every_prefix", "persist_every_prefix", "the same at every operation boundary of the history (a crash or drop between any two calls)"),
   ("persistence_example", "Example.hist_persists", "non-vacuity: a 17-call history (storages, an empty stream, metadata, a refused removal, slot reuse, directory growth) on V3 and V4"),
  ])

write("C04", "C04 — any valid layout written by another implementation is read correctly.  Statements are printed by Check below and compared with C04.expected.  PARTIAL: the layout-independence components are theorems — a chain is read as the concatenation of its sectors in chain order WHATEVER the sector numbers (fragmented, reversed, anywhere in the file), lookup finds exactly the keys of ANY search tree over the CFB order (balanced red-black or degenerate, any slots), listing is the in-order sequence, the order is shortlex on upper-cased UTF-16 units.  The composition open_any_layout (Represents b t -> abs (open b) = t) is not proved; it is checked on images written by an independent layout synthesiser.",
  IMP_ALL + "\nFrom Cfb.proofs Require Import NamesProofs ChainProofs DirProofs WalkProofs.",
  [("chain_read_any_sector_order", "chain_read_spec", "reading through any good chain returns the bytes of its sectors in chain order"),
   ("chain_walk_is_fat_walk", "chain_ids_of_walk", "the chain is exactly the FAT walk from its start, whatever sector numbers it visits"),
   ("lookup_any_tree_shape", "find_in_siblings_spec", "lookup = search-tree lookup for any tree shape and any slot assignment"),
   ("lookup_exact", "bst_find_iff", "found iff an entry with an equivalent name is in the tree"),
   ("listing_any_tree_shape", "entries_nonrec_inorder", "listing = in-order sequence for any tree shape"),
   ("order_is_the_spec_order", "cmp_names_key", "the descent order is shortlex on (UTF-16 length, upper-cased UTF-16 units)"),
  ])

write("C11", "C11 — mutating any file the library agreed to open never panics or hangs.  Statements are printed by Check below and compared with C11.expected; proofs in proofs/WalkSafe.v, proofs/WalkProofs.v, proofs/OpenTotal.v.  The invariant is NOT injectivity of the FAT (mutation of a damaged file can give a cell two predecessors) but Safe = (every walk terminates: no edge enters a cycle from outside) + (the free list has no duplicates and names only FREE cells); it holds after open of ANY accepted byte string, is preserved by EVERY allocator / chain / mini-chain operation in EVERY outcome (Ok or error half-way), and implies that every checked walk terminates without panicking.  PARTIAL: preservation through the directory-level and API-level operations that sit above (insert / remove entry, store migrations) is proved only for their chain-level parts; absence of Panic in those layers on accepted-but-inconsistent files is checked by the mutation enumeration on the real crate with the model replaying every case.",
  IMP_ALL + "\nFrom Cfb.proofs Require Import WalkProofs OpenTotal WalkSafe.",
  [("accepted_files_are_safe", "open_allsafe", "what permissive (or strict) open establishes for any byte string it accepts"),
   ("safe_walks_terminate", "allsafe_walks_total", "on a safe state every chain walk from ANY start (also a corrupted start sector) ends or errors: no hang, no panic"),
   ("walksafe_iff_no_hang", "walksafe_iff_terminates", "the invariant is exactly 'no walk runs forever'"),
   ("allocation_preserves", "allocate_sector_preserves", "in every outcome"),
   ("extension_preserves", "extend_chain_preserves", "in every outcome"),
   ("freeing_preserves", "free_chain_preserves", "in every outcome"),
   ("chain_resize_preserves", "chain_set_len_allsafe", "in every outcome"),
   ("chain_write_preserves", "chain_write_all_allsafe", "in every outcome"),
   ("mini_chain_resize_preserves", "mchain_set_len_allsafe", "in every outcome"),
   ("mini_chain_write_preserves", "mchain_write_all_allsafe", "in every outcome"),
   ("free_chain_always_terminates", "free_chain_total", "for ANY table, no invariant needed"),
   ("bounded_walk_always_terminates", "find_last_total", "the repaired extend_chain walk, for ANY table"),
   ("the_free_list_condition_is_needed", "extend_chain_needs_freeinv", "without it extend_chain can build a tail into a self-loop (witness)"),
  ])
write("C03", "C03 — every produced image is a well-formed MS-CFB file by an independent checker.  Statements are printed by Check below and compared with C03.expected.  PARTIAL: the checker wf_check (spec/WfImage.v, written from MS-CFB and the property text, sharing no mechanics with the model or the library) is run on the IMPLEMENTATION's bytes after every operation of every generated history — that is the property's oracle applied directly to the code.  Theorems cover the base case (the created image of both versions is accepted), evaluated instances of the inductive step, non-triviality of the checker, and the parts of the invariant W that are proved: FAT cache = FAT on disk through reuse and growth, FAT/DIFAT markers maintained (FatInv/DifatOk), free list disjoint from FAT sectors and naming only FREE cells, removal blanks exactly the removed slot and keeps the sibling tree a search tree without red-red edges.  Also proved (proofs/WfPersist.v): THE PROPERTY FOR NAMESPACE HISTORIES - the checker accepts (all 44 rules) the image of every state satisfying the history invariant of C02 (PInv) with empty streams, no orphan FAT cells, an empty mini stream and blank slots outside the tree; those conditions hold of the fresh file and are kept by create_storage, create_new_stream, remove_storage, remove_stream and the metadata setters; hence for EVERY history of those calls and the queries from a fresh file of either version (up to 6000 calls) the image is well-formed, at every prefix.  NOT proved: histories that write stream data (W for the store layer).",
  IMP_ALL + "\nFrom Cfb.spec Require Import WfImage.\nFrom Cfb.proofs Require Import WfProofs CoherenceProofs ReuseProofs DirProofs WalkSafe ReadonlyTotal PersistProofs WfPersist.",
  [("created_image_wf_v3", "created_image_wf_v3", "base case, version 3"),
   ("created_image_wf_v4", "created_image_wf_v4", "base case, version 4"),
   ("history_image_wf_v3", "history_image_wf_v3", "an evaluated history through every allocator path, version 3"),
   ("history_image_wf_v4", "history_image_wf_v4", "the same, version 4"),
   ("checker_rejects_unmarked_fat_sector", "checker_rejects_unmarked_fat_sector", "the checker is not trivially accepting"),
   ("checker_rejects_truncated", "checker_rejects_truncated", "file length must be a whole number of sectors"),
   ("checker_rejects_bad_colour", "checker_rejects_bad_colour", "directory entries are inspected"),
   ("fat_cache_is_on_disk_after_growth", "allocate_grow_coherent", "header FAT count, DIFAT and markers stay consistent when FAT / DIFAT sectors are added"),
   ("fat_cache_is_on_disk_after_reuse", "allocate_reuse_preserves", "and when free sectors are reused"),
   ("free_list_names_only_free_cells", "allocate_sector_preserves", "Safe includes: free list without duplicates, naming only FREE cells (so no sector is handed out twice)"),
   ("removal_blanks_the_slot_and_keeps_a_search_tree", "remove_rep", "unallocated entries are blank, the children stay a search tree"),
   ("removal_creates_no_red_red", "remove_no_red_red", "no two adjacent red nodes are introduced"),
   ("invariant_states_are_well_formed", "pinv_image_wf", "every state satisfying the history invariant (with empty streams, owned FAT cells, empty mini stream, blank free slots) has an image the independent checker accepts"),
   ("invariant_is_kept_by_every_covered_call", "step_xinv", "the extra conditions are preserved by every covered operation (Ok, or refused without effect)"),
   ("images_of_namespace_histories_are_well_formed", "wf_history", "for EVERY history of the covered calls from a fresh file: wf_check = 0"),
   ("well_formed_at_every_prefix", "wf_every_prefix", "the same at every operation boundary"),
   ("history_example_is_well_formed", "WfExample.hist_wf", "non-vacuity: the 17-call example history of C02, V3 and V4"),
   ("checker_rejects_a_corrupted_example_image", "WfExample.hist_image_broken_rejected", "and the checker rejects that image with one byte changed"),
  ])

write("C08", "C08 — bytes gained by growing a stream read as zero, whatever was there before.  Statements are printed by Check below and compared with C08.expected.  PARTIAL: at the handle level set_len refines 'truncate or pad with zeros' given the store's resize contract; Store.resize itself is proved to zero every gained byte, with no hypothesis on what the sectors held before, for large streams (growth within the last sector, into reused sectors, by appending; shrink-then-grow) and for small streams that need no new mini sector; other streams are untouched.  NOT proved: growth of a small stream that allocates new mini sectors, and the mini <-> regular migrations; those, and whole histories, are checked on the real crate against a byte vector for every buffer size, and by lockstep with the model, which keeps stale sector bytes.",
  IMP_ALL + "\nFrom Cfb.spec Require Import VecSpec.\nFrom Cfb.proofs Require Import HandleProofs ChainProofs StoreProofs StoreMiniProofs.",
  [("set_len_pads_with_zeros_given_store_contract", "h_set_len_refines", "set_len_post: the abstract vector becomes takeN n A ++ repeatN 0 (n - lenN A), cursor clamped"),
   ("chain_write_overwrites_exactly_the_range", "chain_write_spec", "zero_fill = a chain write of zeros: content becomes spliceN old off zeros regardless of old bytes"),
   ("chain_write_then_read_back", "chain_write_then_read", "what was written is what is read; disjoint ranges unchanged"),
   ("other_chains_untouched", "chain_write_frame_other", "no data of another chain is affected"),
   ("large_stream_grow_reads_zero", "resize_big_grow_zero_within_chain", "Store.resize on a large stream growing inside its last sector: content becomes V ++ zeros with NO hypothesis on the old tail bytes; other large streams untouched"),
   ("large_stream_grow_into_reused_sectors_reads_zero", "resize_big_grow_zero_new_sectors", "growth into sectors taken from the free list: all gained bytes zero"),
   ("large_stream_grow_by_appending_reads_zero", "resize_big_grow_zero_append", "growth by appending sectors to the file: all gained bytes zero"),
   ("large_stream_shrink_then_grow", "shrink_then_grow_zero_general", "the repaired defect's scenario for large streams: shrink to m then grow back reads takeN m V ++ zeros, also when sectors are released and come back from the free stack"),
   ("without_zero_fill_stale_bytes_show", "StoreExamples.without_zero_fill_stale", "witness that the explicit zero fill is necessary: 5000 -> 4700 -> 5000 without it reads 300 stale bytes"),
   ("small_stream_grow_reads_zero", "resize_small_grow_zero_within_chain", "Store.resize on a small (mini-stream) stream growing inside its last mini sector: V ++ zeros with NO hypothesis on the old bytes of the mini sector"),
   ("small_stream_shrink_then_grow", "small_shrink_then_grow_zero", "100 -> 70 -> 100 style scenario for small streams"),
   ("small_stream_writes_do_not_touch_other_streams", "small_write_frame_other", "writes and resizes of one small stream leave every other small stream's content unchanged"),
   ("large_stream_read_back", "read_data_big", "reads return exactly the represented bytes"),
   ("small_stream_read_back", "read_data_small", "same for small streams"),
  ])
print("props written")
