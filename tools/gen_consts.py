#!/usr/bin/env python3
"""Regenerates coq/gen/Consts.v from /repo's sources on every run, so that a
change to a constant or to a literal header offset flows into the model and its
proofs.  Fails loudly when an expected item is not found."""
import re, sys, os
REPO = os.environ.get("CFB_REPO", "/repo")
OUT = sys.argv[1] if len(sys.argv) > 1 else "/verif/coq/gen/Consts.v"
def rd(p): return open(os.path.join(REPO, p)).read()
consts = rd("src/internal/consts.rs")
def const(name, src=consts):
    m = re.search(r"pub(?:\(crate\))? const %s: \w+ =\s*([^;]+);" % name, src) or \
        re.search(r"const %s: \w+ =\s*([^;]+);" % name, src)
    if not m: sys.exit("gen_consts: constant %s not found" % name)
    return m.group(1).strip()
def num(s):
    m = re.fullmatch(r"1 << \((\w+) as usize\)", s)
    if m: return 1 << num(const(m.group(1)))
    s = s.replace("_", "")
    m = re.fullmatch(r"1 << \((\w+) as usize\)", s)
    if m: return 1 << num(const(m.group(1)))
    m = re.fullmatch(r"(\d+) \* (\d+)", s)
    if m: return int(m.group(1)) * int(m.group(2))
    return int(s, 0)
out = []
def emit(coqname, value): out.append("Definition %s : N := %d." % (coqname, value))
for rust, coq in [("HEADER_LEN","HEADER_LEN"),("DIR_ENTRY_LEN","DIR_ENTRY_LEN"),
    ("NUM_DIFAT_ENTRIES_IN_HEADER","NUM_DIFAT_HDR"),("MINOR_VERSION","MINOR_VERSION"),
    ("BYTE_ORDER_MARK","BYTE_ORDER_MARK"),("MINI_SECTOR_SHIFT","MINI_SECTOR_SHIFT"),
    ("MINI_SECTOR_LEN","MINI_SECTOR_LEN"),("MINI_STREAM_CUTOFF","MINI_STREAM_CUTOFF"),
    ("MAX_REGULAR_SECTOR","MAX_REGULAR_SECTOR"),("INVALID_SECTOR","INVALID_SECTOR"),
    ("DIFAT_SECTOR","DIFAT_SECTOR"),("FAT_SECTOR","FAT_SECTOR"),("END_OF_CHAIN","END_OF_CHAIN"),
    ("FREE_SECTOR","FREE_SECTOR"),("OBJ_TYPE_UNALLOCATED","OBJ_TYPE_UNALLOCATED"),
    ("OBJ_TYPE_STORAGE","OBJ_TYPE_STORAGE"),("OBJ_TYPE_STREAM","OBJ_TYPE_STREAM"),
    ("OBJ_TYPE_ROOT","OBJ_TYPE_ROOT"),("COLOR_RED","COLOR_RED"),("COLOR_BLACK","COLOR_BLACK"),
    ("ROOT_STREAM_ID","ROOT_STREAM_ID"),("MAX_REGULAR_STREAM_ID","MAX_REGULAR_STREAM_ID"),
    ("NO_STREAM","NO_STREAM")]:
    emit(coq, num(const(rust)))
m = re.search(r"MAGIC_NUMBER: \[u8; 8\] =\s*\[([^\]]+)\]", consts)
if not m: sys.exit("gen_consts: MAGIC_NUMBER not found")
magic = [int(x.strip(), 0) for x in m.group(1).split(",") if x.strip()]
out.append("Definition MAGIC_NUMBER : list N := [%s]." % "; ".join(map(str, magic)))
m = re.search(r'ROOT_DIR_NAME: &str = "([^"]*)"', consts)
if not m: sys.exit("gen_consts: ROOT_DIR_NAME not found")
out.append("Definition ROOT_DIR_NAME : list N := [%s]." % "; ".join(str(ord(c)) for c in m.group(1)))
# version.rs
ver = rd("src/internal/version.rs")
def arm(fn, v):
    m = re.search(r"pub fn %s\(self\) -> \w+ \{\s*match self \{(.*?)\}\s*\}" % fn, ver, re.S)
    if not m: sys.exit("gen_consts: version fn %s not found" % fn)
    mm = re.search(r"Version::%s => ([0-9a-fx_]+)" % v, m.group(1))
    if not mm: sys.exit("gen_consts: version arm %s/%s not found" % (fn, v))
    return int(mm.group(1).replace("_",""), 0)
for v in ("V3", "V4"):
    emit("%s_NUMBER" % v, arm("number", v))
    emit("%s_SECTOR_SHIFT" % v, arm("sector_shift", v))
    emit("%s_STREAM_LEN_MASK" % v, arm("stream_len_mask", v))
# stream_buffer.rs
sb = rd("src/internal/stream_buffer.rs")
emit("STREAM_BUFFER_MIN", num(const("STREAM_BUFFER_MIN", sb)))
emit("STREAM_BUFFER_GROWTH_FACTOR", num(const("STREAM_BUFFER_GROWTH_FACTOR", sb)))
emit("DEFAULT_STREAM_MAX_BUFFER_SIZE", num(const("DEFAULT_STREAM_MAX_BUFFER_SIZE", sb)))
# path.rs
pa = rd("src/internal/path.rs")
emit("MAX_NAME_LEN", num(const("MAX_NAME_LEN", pa)))
m = re.search(r"for &chr in &\[([^\]]+)\]", pa)
if not m: sys.exit("gen_consts: forbidden characters not found")
chars = re.findall(r"'(\\\\|\\'|[^'])'", m.group(1))
cps = [ord(c[-1]) for c in chars]
out.append("Definition FORBIDDEN_CHARS : list N := [%s]." % "; ".join(map(str, cps)))
# timestamp.rs
ts = rd("src/internal/timestamp.rs")
emit("UNIX_EPOCH_TIMESTAMP", num(const("UNIX_EPOCH_TIMESTAMP", ts)))
# literal header offsets, scraped from the seek_within_header call sites
def hdr_offsets(path):
    return [int(x) for x in re.findall(r"seek_within_header\((\d+)\)", rd(path))]
al = rd("src/internal/alloc.rs")
m = re.search(r"let offset = (\d+) \+ 4 \* difat_index as u64;", al)
if not m: sys.exit("gen_consts: header DIFAT array offset not found")
emit("HDR_OFF_DIFAT_ARRAY", int(m.group(1)))
offs = sorted(set(hdr_offsets("src/internal/alloc.rs")))
if not {44, 68} <= set(offs): sys.exit("gen_consts: header offsets 44/68 no longer written in alloc.rs: %r" % offs)
emit("HDR_OFF_NUM_FAT", 44); emit("HDR_OFF_FIRST_DIFAT", 68)
offs = sorted(set(hdr_offsets("src/internal/minialloc.rs")))
if not {60, 64} <= set(offs): sys.exit("gen_consts: header offsets 60/64 no longer written in minialloc.rs: %r" % offs)
emit("HDR_OFF_FIRST_MINIFAT", 60); emit("HDR_OFF_NUM_MINIFAT", 64)
offs = sorted(set(hdr_offsets("src/internal/directory.rs")))
if 40 not in offs: sys.exit("gen_consts: header offset 40 no longer written in directory.rs: %r" % offs)
emit("HDR_OFF_NUM_DIR", 40)
di = rd("src/internal/directory.rs")
offs = sorted(set(int(x) for x in re.findall(r"seek_within_dir_entry\(\s*\w+,\s*(\d+)\)", di)))
for need in (68, 72, 76):
    if need not in offs: sys.exit("gen_consts: dir entry link offset %d is no longer written by directory.rs: %r" % (need, offs))
out.append("Definition DE_FIELD_WRITE_OFFSETS : list N := [%s]." % "; ".join(str(o) for o in offs))
emit("DE_OFF_LEFT", 68); emit("DE_OFF_RIGHT", 72); emit("DE_OFF_CHILD", 76)
body = "(* GENERATED by tools/gen_consts.py from /repo/src — do not edit. *)\nFrom Coq Require Import List NArith.\nImport ListNotations.\nOpen Scope N_scope.\n\n" + "\n".join(out) + "\n"
old = open(OUT).read() if os.path.exists(OUT) else None
if old != body:
    open(OUT, "w").write(body)
print("gen_consts: %d definitions%s" % (len(out), "" if old == body else " (changed)"))
