//! C05 / C11 / C16: malformed and deviant inputs.  Field-level corruptions of
//! valid images are opened by the real crate (both modes) in a watched worker;
//! accepted ones get a read-only workload (C05) or a short mutation history
//! (C11).  Everything is also written as a trace so that the model replays it:
//! the model must agree on accept/reject and on every result, and must never
//! answer Panic / OutOfFuel.

use std::io::Write as _;
use std::sync::mpsc;
use std::time::Duration;

use cfb::Version;

use crate::extra::Report;
use crate::lockstep::Tracer;
use crate::ops::{enc_hex, kind_name, Live, Op, Whence, NHANDLES};
use crate::rng::Rng;

pub fn base_images(rng: &mut Rng) -> Vec<(Version, Vec<u8>)> {
    let mut out = Vec::new();
    for v in [Version::V3, Version::V4] {
        for variant in 0..3 {
            let mut live = Live::create(v, 4096).unwrap();
            let c = live.comp.as_mut().unwrap();
            c.create_storage("/d").unwrap();
            let sizes: &[usize] = match variant {
                0 => &[100, 5000],
                1 => &[64, 65, 700, 4096, 9000],
                _ => &[10],
            };
            for (i, &n) in sizes.iter().enumerate() {
                let p = if i % 2 == 0 { format!("/s{}", i) } else { format!("/d/t{}", i) };
                let mut s = c.create_stream(&p).unwrap();
                let data: Vec<u8> = (0..n).map(|k| (k * 3 + i) as u8 | 1).collect();
                s.write_all(&data).unwrap();
            }
            if variant == 1 {
                c.create_storage("/d/e").unwrap();
                c.remove_stream("/s0").unwrap(); // leaves free mini sectors and a free slot
                c.set_state_bits("/d", 9).unwrap();
            }
            let _ = rng.next();
            live.comp = None;
            out.push((v, live.buf.snapshot()));
        }
    }
    out
}

const VALUES: &[u32] = &[
    0, 1, 2, 3, 5, 7, 0x7FFF_FFFF, 0x8000_0000, 0xFFFF_FFFA, 0xFFFF_FFFB, 0xFFFF_FFFC,
    0xFFFF_FFFD, 0xFFFF_FFFE, 0xFFFF_FFFF,
];

/// One corruption of `img`; returns a short description.
pub fn mutate(rng: &mut Rng, v: Version, img: &mut Vec<u8>) -> String {
    let sl = v.sector_len();
    let nsect = (img.len() / sl).saturating_sub(1);
    if img.len() < 8 {
        img.extend([0u8; 8]);
    }
    match rng.below(100) {
        0..=5 => {
            // truncation
            let cut = match rng.below(4) {
                0 => rng.below(600) as usize,
                1 => sl * (1 + rng.below(nsect as u64 + 1) as usize),
                2 => (sl * (1 + rng.below(nsect as u64 + 1) as usize)).saturating_sub(1 + rng.below(100) as usize),
                _ => rng.below(img.len() as u64) as usize,
            };
            img.truncate(cut.min(img.len()));
            format!("truncate to {}", img.len())
        }
        6..=9 => {
            let extra = 1 + rng.below(3 * sl as u64) as usize;
            let fill = *rng.pick(&[0u8, 0xFF, 0xFE]);
            img.extend(std::iter::repeat(fill).take(extra));
            format!("extend by {} x {:02x}", extra, fill)
        }
        15..=39 => {
            // fields that open never follows: a directory entry's start sector / size / links / type
            let slot = rng.below(8) as usize;
            let field = *rng.pick(&[116usize, 116, 116, 120, 120, 124, 68, 72, 76, 66, 64]);
            let off = 2 * sl + 128 * slot + field;
            if off + 4 > img.len() {
                return "noop".into();
            }
            let val = match rng.below(5) {
                0 => rng.below(nsect as u64 + 2) as u32,
                1 => rng.below(40) as u32,
                2 => *rng.pick(&[63u32, 64, 65, 4095, 4096, 4097, 100_000, 0x7FFF_FFFF]),
                _ => *rng.pick(VALUES),
            };
            // the model computes positions in unbounded N; a recorded length whose high word is
            // all ones lets position + count pass 2^64, where the crate refuses the write
            // (fix 79c421d) and the model does not: that region is exercised on the crate by
            // the probe length_near_u64_max, not by the lockstep
            let val = if field == 124 && val == 0xFFFF_FFFF { 0xFFFF_FFFE } else { val };
            if field == 66 || field == 64 {
                img[off] = val as u8;
                format!("dir slot {} byte +{} := {:#x}", slot, field, val as u8)
            } else {
                img[off..off + 4].copy_from_slice(&val.to_le_bytes());
                format!("dir slot {} field +{} := {:#x}", slot, field, val)
            }
        }
        40..=44 if nsect >= 4 => {
            // a DIFAT chain laid through arbitrary sectors: every cell FREE (valid), next
            // pointers forming a proper chain, a cycle through the first sector, or a cycle
            // that does not pass through the first sector (A -> B -> B, A -> B -> C -> B)
            let a = rng.below(nsect as u64) as usize;
            let b = (a + 1 + rng.below(nsect as u64 - 1) as usize) % nsect;
            let c = (b + 1 + rng.below(nsect as u64 - 1) as usize) % nsect;
            let shape = rng.below(5);
            let fill = |img: &mut Vec<u8>, s: usize, next: u32| {
                let off = (s + 1) * sl;
                if off + sl <= img.len() {
                    for x in img[off..off + sl - 4].iter_mut() {
                        *x = 0xFF;
                    }
                    img[off + sl - 4..off + sl].copy_from_slice(&next.to_le_bytes());
                }
            };
            match shape {
                0 => { fill(img, a, b as u32); fill(img, b, 0xFFFF_FFFE); }
                1 => { fill(img, a, b as u32); fill(img, b, a as u32); }
                2 => { fill(img, a, b as u32); fill(img, b, b as u32); }
                3 => { fill(img, a, b as u32); fill(img, b, c as u32); fill(img, c, b as u32); }
                _ => { fill(img, a, a as u32); }
            }
            img[68..72].copy_from_slice(&(a as u32).to_le_bytes());
            let nd = rng.below(4) as u32;
            img[72..76].copy_from_slice(&nd.to_le_bytes());
            format!("DIFAT chain shape {} through sectors {} {} {}", shape, a, b, c)
        }
        45..=54 => chain_mutation(rng, v, img),
        55..=61 => {
            // header fields by name: counts, first sectors, DIFAT slots, version / shifts
            let (off, width): (usize, usize) = *rng.pick(&[
                (40usize, 4usize), (44, 4), (44, 4), (48, 4), (56, 4), (60, 4), (64, 4), (64, 4), (68, 4), (72, 4), (72, 4),
                (76, 4), (80, 4), (76 + 4 * 108, 4), (24, 2), (26, 2), (28, 2), (30, 2), (32, 2),
            ]);
            if off + width > img.len() {
                return "noop".into();
            }
            let val: u32 = match rng.below(6) {
                0 => rng.below(nsect as u64 + 3) as u32,
                1 => *rng.pick(&[0x100u32, 0x1000, 0x2_0000, 0x10_0000, 0x00ff_ffff, 0x0fff_ffff]),
                2 => (nsect as u32).wrapping_mul(128),
                _ => *rng.pick(VALUES),
            };
            img[off..off + width].copy_from_slice(&val.to_le_bytes()[..width]);
            format!("header field at {} ({} bytes) := {:#x}", off, width, val)
        }
        10..=14 => {
            // a single byte anywhere
            let off = rng.below(img.len() as u64) as usize;
            let b = rng.below(256) as u8;
            img[off] = b;
            format!("byte {} := {:02x}", off, b)
        }
        r => {
            // a 32-bit (or 16-bit) field in the header, FAT sector, directory or elsewhere
            let region = if r < 66 {
                (24usize.min(img.len()), (76 + 16).min(img.len()))
            } else if r < 72 {
                (sl.min(img.len()), (sl + 64).min(img.len())) // first FAT cells
            } else if r < 90 {
                ((2 * sl).min(img.len()), (2 * sl + 128 * 6).min(img.len())) // first directory entries
            } else {
                (0, img.len())
            };
            let span = region.1.saturating_sub(region.0).max(4);
            let mut off = region.0 + rng.below(span as u64) as usize;
            if rng.chance(3, 4) {
                off &= !3;
            }
            if off + 4 > img.len() {
                off = img.len().saturating_sub(4);
            }
            let val = match rng.below(6) {
                0 => (nsect as u32).wrapping_add(rng.below(3) as u32).wrapping_sub(1),
                1 => rng.below(nsect as u64 + 1) as u32,
                2 => (off.saturating_sub(sl) / 4) as u32, // self reference for FAT cells
                _ => *rng.pick(VALUES),
            };
            if rng.chance(1, 8) {
                img[off..off + 2].copy_from_slice(&(val as u16).to_le_bytes());
                format!("u16 at {} := {:#x}", off, val as u16)
            } else {
                img[off..off + 4].copy_from_slice(&val.to_le_bytes());
                format!("u32 at {} := {:#x}", off, val)
            }
        }
    }
}

fn rd32(img: &[u8], off: usize) -> Option<u32> {
    img.get(off..off + 4).map(|b| u32::from_le_bytes([b[0], b[1], b[2], b[3]]))
}

/// Rewires the chain of one stream (or of the mini stream / the directory): the
/// chain is found by following the image's own FAT or MiniFAT from the start
/// sector a directory entry names, then one cell is redirected so that the chain
/// closes on its first sector, on an inner sector or on itself, or runs into
/// another entry's chain.
fn chain_mutation(rng: &mut Rng, v: Version, img: &mut Vec<u8>) -> String {
    let sl = v.sector_len();
    let noop = || "noop".to_string();
    let fat_sector = match rd32(img, 76) { Some(x) => x as usize, None => return noop() };
    let fat_off = (fat_sector + 1) * sl;
    let cells = sl / 4;
    let fat = |img: &[u8], i: usize| -> Option<u32> { if i < cells { rd32(img, fat_off + 4 * i) } else { None } };
    let walk = |img: &[u8], start: u32, cell: &dyn Fn(&[u8], usize) -> Option<u32>| -> Vec<usize> {
        let mut out = Vec::new();
        let mut cur = start;
        while cur < 0xFFFF_FFFA && out.len() < 200 && !out.contains(&(cur as usize)) {
            out.push(cur as usize);
            cur = match cell(img, cur as usize) { Some(n) => n, None => break };
        }
        out
    };
    // directory entries, following the directory chain
    let dstart = match rd32(img, 48) { Some(x) => x, None => return noop() };
    let dchain = walk(img, dstart, &fat);
    let mut entries: Vec<(usize, u8, u32, u64)> = Vec::new(); // (offset, type, start, size)
    for &ds in dchain.iter().take(6) {
        for k in 0..sl / 128 {
            let off = (ds + 1) * sl + 128 * k;
            if off + 128 <= img.len() {
                let size = u64::from_le_bytes(img[off + 120..off + 128].try_into().unwrap());
                entries.push((off, img[off + 66], rd32(img, off + 116).unwrap(), size));
            }
        }
    }
    let mf_start = rd32(img, 60).unwrap_or(0xFFFF_FFFE);
    let mfchain = walk(img, mf_start, &fat);
    let mfat = |img: &[u8], i: usize| -> Option<u32> {
        let s = *mfchain.get(i / cells)?;
        rd32(img, (s + 1) * sl + 4 * (i % cells))
    };
    // candidates: (label, chain, in MiniFAT?)
    let mut cands: Vec<(String, Vec<usize>, bool)> = Vec::new();
    for (i, &(_, ty, start, size)) in entries.iter().enumerate() {
        if ty == 5 {
            cands.push(("mini stream container".into(), walk(img, start, &fat), false));
        } else if ty == 2 && size >= 4096 {
            cands.push((format!("entry {} ({} bytes)", i, size), walk(img, start, &fat), false));
        } else if ty == 2 && size > 0 {
            cands.push((format!("entry {} ({} bytes, mini)", i, size), walk(img, start, &mfat), true));
        }
    }
    cands.push(("directory".into(), dchain.clone(), false));
    cands.push(("MiniFAT".into(), mfchain.clone(), false));
    cands.retain(|c| !c.1.is_empty());
    if cands.is_empty() {
        return noop();
    }
    // cross-link: a stream entry names a sector of another chain (a metadata chain or another
    // stream) as its own first sector; open follows no stream chain, so it cannot notice
    let stream_offs: Vec<usize> = entries.iter().filter(|e| e.1 == 2).map(|e| e.0).collect();
    if !stream_offs.is_empty() && rng.chance(1, 3) {
        let off = stream_offs[rng.below(stream_offs.len() as u64) as usize];
        let (label, chain, _) = cands[rng.below(cands.len() as u64) as usize].clone();
        let target = if rng.chance(2, 3) { chain[0] } else { chain[rng.below(chain.len() as u64) as usize] };
        img[off + 116..off + 120].copy_from_slice(&(target as u32).to_le_bytes());
        let mut what = format!("stream entry at {} starts in the chain of {} (sector {})", off, label, target);
        if rng.chance(1, 2) {
            let n = *rng.pick(&[4096u64, 5120, 9000]);
            img[off + 120..off + 128].copy_from_slice(&n.to_le_bytes());
            what.push_str(&format!(", length {}", n));
        }
        return what;
    }
    let ci = rng.below(cands.len() as u64) as usize;
    let other = cands[rng.below(cands.len() as u64) as usize].1.clone();
    let (label, chain, mini) = cands[ci].clone();
    let last = *chain.last().unwrap();
    let mid = chain[rng.below(chain.len() as u64) as usize];
    let (cell, val, what): (usize, u32, &str) = match rng.below(6) {
        0 => (last, chain[0] as u32, "last -> first"),
        1 => (last, mid as u32, "last -> inner"),
        2 => (mid, chain[0] as u32, "inner -> first"),
        3 => (mid, mid as u32, "inner -> itself"),
        4 => (last, other[rng.below(other.len() as u64) as usize] as u32, "last -> another chain"),
        _ => (mid, 0xFFFF_FFFF, "inner -> FREE"),
    };
    let off = if mini {
        match mfchain.get(cell / cells) { Some(s) => (s + 1) * sl + 4 * (cell % cells), None => return noop() }
    } else {
        fat_off + 4 * cell
    };
    if cell >= cells * if mini { mfchain.len().max(1) } else { 1 } || off + 4 > img.len() {
        return noop();
    }
    img[off..off + 4].copy_from_slice(&val.to_le_bytes());
    format!("chain of {}: {} ({}FAT cell {} := {})", label, what, if mini { "Mini" } else { "" }, cell, val)
}

fn open_result(bytes: &[u8], strict: bool, maxbuf: usize) -> (String, Option<Live>) {
    match std::panic::catch_unwind(|| Live::open(bytes.to_vec(), strict, maxbuf)) {
        Ok(Ok(l)) => ("ok".into(), Some(l)),
        Ok(Err(e)) => (format!("err:{}", kind_name(&e)), None),
        Err(_) => ("panic".into(), None),
    }
}

fn ro_ops(live: &mut Live) -> Vec<Op> {
    let mut ops = vec![Op::Walk, Op::ReadRoot, Op::RootEntry, Op::EntryOf("/d".into()), Op::ReadStorage("/d".into())];
    let paths: Vec<(String, bool)> = match std::panic::catch_unwind(std::panic::AssertUnwindSafe(|| {
        live.comp.as_ref().unwrap().walk().take(40).map(|e| (e.path().to_str().unwrap_or("/").to_string(), e.is_stream())).collect::<Vec<_>>()
    })) {
        Ok(p) => p,
        Err(_) => vec![],
    };
    for (p, is_stream) in paths {
        ops.push(Op::EntryOf(p.clone()));
        if is_stream {
            // names looked up below a stream: its child field is never a subtree
            for leaf in ["a", "s0", "zz"] {
                let q = format!("{}/{}", p.trim_end_matches('/'), leaf);
                ops.push(Op::Exists(q.clone()));
                ops.push(Op::EntryOf(q.clone()));
                ops.push(Op::IsStream(q.clone()));
                ops.push(Op::OpenStream(0, q.clone()));
                ops.push(Op::ReadStorage(q.clone()));
                ops.push(Op::WalkStorage(q));
            }
            ops.push(Op::ReadStorage(p.clone()));
            ops.push(Op::WalkStorage(p.clone()));
            ops.push(Op::Cat(p.clone()));
            ops.push(Op::OpenStream(0, p.clone()));
            ops.push(Op::HSeek(0, Whence::End, -1));
            ops.push(Op::HRead(0, 100));
            ops.push(Op::HSeek(0, Whence::Start, 70));
            ops.push(Op::HFill(0));
            ops.push(Op::HDrop(0));
        } else {
            ops.push(Op::ReadStorage(p.clone()));
            ops.push(Op::WalkStorage(p));
        }
    }
    ops
}

fn rw_ops(rng: &mut Rng, live: &mut Live) -> Vec<Op> {
    let mut ops = Vec::new();
    let paths: Vec<(String, bool)> = match std::panic::catch_unwind(std::panic::AssertUnwindSafe(|| {
        live.comp.as_ref().unwrap().walk().take(20).map(|e| (e.path().to_str().unwrap_or("/").to_string(), e.is_stream())).collect::<Vec<_>>()
    })) {
        Ok(p) => p,
        Err(_) => vec![],
    };
    for (p, is_stream) in paths.iter() {
        if *is_stream {
            match rng.below(5) {
                0 => {
                    ops.push(Op::OpenStream(0, p.clone()));
                    ops.push(Op::HSeek(0, Whence::End, 0));
                    ops.push(Op::HWrite(0, vec![0x5A; *rng.pick(&[10usize, 200, 5000])]));
                    ops.push(Op::HFlush(0));
                    ops.push(Op::HDrop(0));
                }
                1 => {
                    ops.push(Op::OpenStream(0, p.clone()));
                    ops.push(Op::HSetLen(0, *rng.pick(&[0u64, 10, 100, 4096, 6000])));
                    ops.push(Op::HSetLen(0, *rng.pick(&[0u64, 70, 4095, 9000])));
                    ops.push(Op::HDrop(0));
                }
                2 => ops.push(Op::RemoveStream(p.clone())),
                3 => {
                    ops.push(Op::CreateStream(1, p.clone()));
                    ops.push(Op::HWrite(1, vec![0x33; 300]));
                    ops.push(Op::HDrop(1));
                }
                _ => ops.push(Op::Cat(p.clone())),
            }
        } else if rng.chance(1, 3) {
            ops.push(Op::SetState(p.clone(), 5));
        }
    }
    ops.push(Op::CreateStorage("/new".into()));
    ops.push(Op::CreateStream(2, "/new/x".into()));
    ops.push(Op::HWrite(2, vec![0x11; *rng.pick(&[50usize, 4096, 7000])]));
    ops.push(Op::HDrop(2));
    ops.push(Op::CreateStream(2, "/small".into()));
    ops.push(Op::HWrite(2, vec![0x22; 100]));
    ops.push(Op::HDrop(2));
    if rng.chance(1, 2) {
        ops.push(Op::RemoveStorageAll("/d".into()));
    }
    for (p, is_stream) in paths.iter() {
        if !*is_stream && p != "/" && rng.chance(1, 2) {
            ops.push(Op::RemoveStorage(p.clone()));
            ops.push(Op::RemoveStorage(p.clone()));
        }
    }
    ops.push(Op::Exists("/zz".into()));
    ops.push(Op::Exists("/a".into()));
    ops.push(Op::RemoveStorageAll("/".into()));
    ops.push(Op::Walk);
    ops
}

/// mode: "ro" (C05), "rw" (C11)
pub fn run(mode: &str, seed: u64, count: usize, out: &str) -> Report {
    let mut rep = Report::new();
    let mut rng = Rng::new(seed);
    let bases = base_images(&mut rng);
    let file = std::fs::File::create(out).unwrap();
    let mut w = std::io::BufWriter::new(file);
    let mut fuzz_inputs: Vec<Vec<u8>> = Vec::new();
    if mode == "ro" {
        // the repository's own malformed corpus runs first
        for dir in ["/repo/tests/panics_fuzzed", "/repo/tests/infinite_loops_fuzzed"] {
            if let Ok(rd) = std::fs::read_dir(dir) {
                let mut names: Vec<_> = rd.filter_map(|e| e.ok()).map(|e| e.path()).collect();
                names.sort();
                for p in names {
                    if let Ok(b) = std::fs::read(&p) {
                        fuzz_inputs.push(b);
                    }
                }
            }
        }
    }
    let total = count + fuzz_inputs.len();
    for i in 0..total {
        let (desc, bytes) = if i < fuzz_inputs.len() {
            (format!("repo fuzz input #{}", i), fuzz_inputs[i].clone())
        } else {
            let (v, base) = &bases[rng.below(bases.len() as u64) as usize];
            let mut img = base.clone();
            let mut d = Vec::new();
            let n = 1 + rng.below(3);
            for _ in 0..n {
                d.push(mutate(&mut rng, *v, &mut img));
            }
            if rng.chance(1, 40) {
                // pure noise behind a valid header prefix
                let keep = 8 + rng.below(80) as usize;
                for b in img.iter_mut().skip(keep) {
                    *b = rng.below(256) as u8;
                }
                d.push(format!("random bytes after offset {}", keep));
            }
            (d.join(" + "), img)
        };
        let strict = mode == "ro" && rng.chance(1, 2);
        let hseed = rng.next();
        rep.evaluations += 1;
        // if the process dies in this case (abort on a huge allocation), the caller finds it here
        let _ = std::fs::write(format!("{}.progress", out), format!("mutants {} seed={} case={} [{}] strict={}", mode, seed, i, desc, strict));
        let mem_base = crate::memtrack::mark();
        let input_len = bytes.len();
        // worker with a watchdog: a hang is a violation too
        let (tx, rx) = mpsc::channel();
        let bytes2 = bytes.clone();
        let mode2 = mode.to_string();
        let id = format!("{}-{}-{}", mode, seed, i);
        let id2 = id.clone();
        std::thread::spawn(move || {
            let mut buf: Vec<u8> = Vec::new();
            let mut bad: Vec<String> = Vec::new();
            let (res, live) = open_result(&bytes2, strict, 4096);
            writeln!(buf, "B {} 4096 {} {} {} {}", id2, NHANDLES, if strict { "s" } else { "p" }, res, enc_hex(&bytes2)).unwrap();
            if res == "panic" {
                bad.push("open panicked".into());
            }
            let accepted = live.is_some();
            if let Some(mut live) = live {
                let mut rng = Rng::new(hseed);
                let ops = if mode2 == "ro" { ro_ops(&mut live) } else { rw_ops(&mut rng, &mut live) };
                let mut tr = Tracer { out: &mut buf, last_img: bytes2.clone(), step: 0, with_images: mode2 == "rw" };
                for op in ops {
                    if let Op::OpenStream(h, _) | Op::CreateStream(h, _) = &op {
                        if live.handles[*h].is_some() {
                            tr.exec(&mut live, &Op::HDrop(*h));
                        }
                    }
                    let r = tr.exec(&mut live, &op);
                    if r == "panic" {
                        bad.push(format!("panic in [{}]", op.encode().chars().take(80).collect::<String>()));
                        break;
                    }
                }
            }
            writeln!(buf, "E").unwrap();
            let _ = tx.send((buf, bad, accepted));
        });
        match rx.recv_timeout(Duration::from_secs(20)) {
            Ok((buf, bad, accepted)) => {
                if mode == "ro" {
                    // heap growth while opening and reading: the trace buffer itself holds the input
                    // and every stream twice in hex, hence the generous factor
                    let grew = crate::memtrack::peak().saturating_sub(mem_base);
                    let allowed = 48 * input_len.max(4096) + (4 << 20);
                    rep.note("max_heap_growth_bytes", 0);
                    if grew > allowed {
                        rep.fail(format!("mutants {} seed={} case={} [{}] strict={}: reading a {} byte input made the heap grow by {} bytes", mode, seed, i, desc, strict, input_len, grew));
                    }
                }
                w.write_all(&buf).unwrap();
                if accepted {
                    rep.note("accepted", 1);
                    rep.distinct.insert(desc.clone());
                }
                for b in bad {
                    rep.fail(format!("mutants {} seed={} case={} [{}] strict={}: {}", mode, seed, i, desc, strict, b));
                }
            }
            Err(_) => {
                rep.fail(format!("mutants {} seed={} case={} [{}] strict={}: TIMEOUT (hang)", mode, seed, i, desc, strict));
                // the worker is still spinning; one hang decides the property, stop here
                if rep.samples.len() < 3 {
                    rep.samples.push(desc);
                }
                break;
            }
        }
        if rep.samples.len() < 3 {
            rep.samples.push(desc);
        }
    }
    w.flush().unwrap();
    let _ = std::fs::remove_file(format!("{}.progress", out));
    rep
}

/// Re-runs the inputs of stored traces (B histories: start bytes + the operations of the S
/// lines) on the crate as it is now and writes a fresh trace for the model.  A panic or a hang
/// is a failure.  Used for the corpus of minimised failures, which runs before the generated cases.
pub fn replay(files: &[String], out: &str) -> Report {
    let mut rep = Report::new();
    let file = std::fs::File::create(out).unwrap();
    let mut w = std::io::BufWriter::new(file);
    for f in files {
        let text = match std::fs::read_to_string(f) {
            Ok(t) => t,
            Err(e) => {
                rep.fail(format!("corpus file {} unreadable: {}", f, e));
                continue;
            }
        };
        let mut cur: Option<(String, usize, bool, Vec<u8>, Vec<Op>)> = None;
        let mut cases = Vec::new();
        for line in text.lines() {
            let t: Vec<&str> = line.split_whitespace().collect();
            match t.first().copied() {
                Some("B") if t.len() >= 7 => {
                    cur = Some((t[1].to_string(), t[2].parse().unwrap_or(4096), t[4] == "s", crate::ops::dec_hex(t[6]), Vec::new()));
                }
                Some("S") => {
                    if let Some(c) = cur.as_mut() {
                        let lhs = line.split(" => ").next().unwrap_or("");
                        let toks: Vec<&str> = lhs.split_whitespace().collect();
                        if toks.len() > 2 {
                            if let Some(op) = Op::decode(&toks[2..].join(" ")) {
                                c.4.push(op);
                            }
                        }
                    }
                }
                Some("E") => {
                    if let Some(c) = cur.take() {
                        cases.push(c);
                    }
                }
                _ => {}
            }
        }
        for (id, maxbuf, strict, bytes, ops) in cases {
            rep.evaluations += 1;
            rep.distinct.insert(id.clone());
            let (tx, rx) = mpsc::channel();
            let id2 = id.clone();
            std::thread::spawn(move || {
                let mut buf: Vec<u8> = Vec::new();
                let mut bad: Vec<String> = Vec::new();
                let (res, live) = open_result(&bytes, strict, maxbuf);
                writeln!(buf, "B {} {} {} {} {} {}", id2, maxbuf, NHANDLES, if strict { "s" } else { "p" }, res, enc_hex(&bytes)).unwrap();
                if res == "panic" {
                    bad.push("open panicked".into());
                }
                if let Some(mut live) = live {
                    let mut tr = Tracer { out: &mut buf, last_img: bytes.clone(), step: 0, with_images: true };
                    for op in ops {
                        let r = tr.exec(&mut live, &op);
                        if r == "panic" {
                            bad.push(format!("panic in [{}]", op.encode().chars().take(80).collect::<String>()));
                            break;
                        }
                    }
                }
                writeln!(buf, "E").unwrap();
                let _ = tx.send((buf, bad));
            });
            match rx.recv_timeout(Duration::from_secs(20)) {
                Ok((buf, bad)) => {
                    w.write_all(&buf).unwrap();
                    for b in bad {
                        rep.fail(format!("corpus {} history {}: {}", f, id, b));
                    }
                }
                Err(_) => {
                    rep.fail(format!("corpus {} history {}: TIMEOUT (hang)", f, id));
                    break;
                }
            }
        }
    }
    w.flush().unwrap();
    rep
}
