//! Property-specific oracles applied directly to the real crate.  Each command
//! prints one JSON object: evaluations, distinct, failures (each a replayable
//! description), samples.

use std::collections::HashSet;
use std::io::{BufRead, Read, Seek, SeekFrom, Write};
use std::panic::{catch_unwind, AssertUnwindSafe};

use cfb::{CompoundFile, Version};

use crate::backend::SharedBuf;
use crate::gen::SIZES;
use crate::rng::Rng;

pub struct Report {
    pub evaluations: u64,
    pub distinct: HashSet<String>,
    pub failures: Vec<String>,
    pub samples: Vec<String>,
    pub notes: Vec<(String, u64)>,
}

impl Report {
    pub fn new() -> Report {
        Report {
            evaluations: 0,
            distinct: HashSet::new(),
            failures: Vec::new(),
            samples: Vec::new(),
            notes: Vec::new(),
        }
    }
    pub fn fail(&mut self, s: String) {
        if self.failures.len() < 50 {
            self.failures.push(s);
        }
    }
    pub fn note(&mut self, k: &str, v: u64) {
        if let Some(e) = self.notes.iter_mut().find(|(n, _)| n == k) {
            e.1 += v;
        } else {
            self.notes.push((k.to_string(), v));
        }
    }
    pub fn print(&self) {
        fn esc(s: &str) -> String {
            let mut o = String::new();
            for c in s.chars() {
                match c {
                    '"' => o.push_str("\\\""),
                    '\\' => o.push_str("\\\\"),
                    '\n' => o.push_str("\\n"),
                    c if (c as u32) < 0x20 => o.push_str(&format!("\\u{:04x}", c as u32)),
                    c => o.push(c),
                }
            }
            o
        }
        let f: Vec<String> = self.failures.iter().map(|s| format!("\"{}\"", esc(s))).collect();
        let s: Vec<String> = self.samples.iter().take(3).map(|s| format!("\"{}\"", esc(s))).collect();
        let n: Vec<String> = self.notes.iter().map(|(k, v)| format!("\"{}\": {}", esc(k), v)).collect();
        println!(
            "{{\"evaluations\": {}, \"distinct\": {}, \"failures\": [{}], \"samples\": [{}], \"notes\": {{{}}}}}",
            self.evaluations,
            self.distinct.len(),
            f.join(", "),
            s.join(", "),
            n.join(", ")
        );
    }
}

fn fresh(v: Version, maxbuf: usize) -> (SharedBuf, CompoundFile<SharedBuf>) {
    let buf = SharedBuf::new(Vec::new());
    let c = CompoundFile::create_with_version(v, buf.clone()).unwrap();
    drop(c);
    let c = cfb::OpenOptions::new().max_buffer_size(maxbuf).open_with(buf.clone()).unwrap();
    (buf, c)
}

// ---------------------------------------------------------------------------
// C06 / C08: the Read / Write / BufRead / Seek contract against a byte vector
// ---------------------------------------------------------------------------
#[derive(Clone, Debug)]
enum HOp {
    Read(usize),
    Fill,
    Consume(usize),
    Write(Vec<u8>),
    Seek(u8, i128),
    SetLen(u64),
    Flush,
    // looping forms
    ReadExact(usize),
    WriteAll(Vec<u8>),
    ReadToEnd,
}

fn gen_hops(rng: &mut Rng, n: usize, looping_only: bool) -> Vec<HOp> {
    let mut ops = Vec::new();
    let mut tag = 0u32;
    let mut approx_len: u64 = 0;
    for _ in 0..n {
        let sz = if rng.chance(1, 5) { rng.below(7000) as usize } else { *rng.pick(SIZES) };
        let mut data = |k: usize| {
            tag += 1;
            (0..k).map(|i| ((tag * 41 + i as u32 * 3 + (i as u32 >> 7)) % 255 + 1) as u8).collect::<Vec<u8>>()
        };
        let r = rng.below(100);
        let op = if looping_only {
            match r {
                0..=34 => HOp::WriteAll(data(sz)),
                35..=54 => HOp::ReadExact(sz.min(approx_len as usize + 3)),
                55..=64 => HOp::ReadToEnd,
                65..=84 => HOp::Seek(0, rng.below(approx_len + 2) as i128),
                85..=94 => HOp::SetLen(if rng.chance(1, 2) { rng.below(approx_len + 100) } else { sz as u64 }),
                _ => HOp::Flush,
            }
        } else {
            match r {
                0..=24 => HOp::Write(data(sz)),
                25..=44 => HOp::Read(sz),
                45..=50 => HOp::Fill,
                51..=56 => HOp::Consume(rng.below(2000) as usize),
                57..=76 => {
                    let w = rng.below(3) as u8;
                    let z = match rng.below(8) {
                        0 => i64::MIN as i128,
                        1 => i64::MAX as i128,
                        2 => -1,
                        3 => 0,
                        4 => approx_len as i128 + 1,
                        5 => -(approx_len as i128) - 1,
                        _ => rng.below(2 * approx_len + 3) as i128 - approx_len as i128 - 1,
                    };
                    let z = if w == 0 { z.unsigned_abs().min(u64::MAX as u128) as i128 } else { z };
                    HOp::Seek(w, z)
                }
                77..=88 => HOp::SetLen(if rng.chance(1, 2) { rng.below(approx_len + 100) } else { sz as u64 }),
                89..=93 => HOp::Flush,
                94..=96 => HOp::ReadToEnd,
                _ => HOp::WriteAll(data(sz)),
            }
        };
        match &op {
            HOp::Write(d) | HOp::WriteAll(d) => approx_len = approx_len.max(d.len() as u64 + approx_len / 2),
            HOp::SetLen(k) => approx_len = *k,
            _ => {}
        }
        ops.push(op);
    }
    ops
}

/// Runs ops on a real handle and on (vec, cursor); returns Err(description) at
/// the first result the contract does not permit.  Also returns the outputs of
/// the looping forms (for the buffer-size comparison).
fn run_vec_contract(v: Version, maxbuf: usize, ops: &[HOp]) -> Result<Vec<String>, String> {
    let (_buf, mut comp) = fresh(v, maxbuf);
    let mut s = comp.create_stream("/s").map_err(|e| e.to_string())?;
    let mut a: Vec<u8> = Vec::new();
    let mut c: usize = 0;
    let mut outs = Vec::new();
    for (i, op) in ops.iter().enumerate() {
        let ctx = |m: &str| format!("step {} {:?}: {}", i, short(op), m);
        let r = catch_unwind(AssertUnwindSafe(|| -> Result<(), String> {
            match op {
                HOp::Read(n) => {
                    let mut b = vec![0u8; *n];
                    let k = s.read(&mut b).map_err(|e| ctx(&format!("read error {}", e)))?;
                    if k > *n || c + k > a.len() || b[..k] != a[c..c + k] {
                        return Err(ctx("read returned bytes that are not the vector's"));
                    }
                    if k == 0 && !(*n == 0 || c == a.len()) {
                        return Err(ctx("read returned 0 before the end"));
                    }
                    c += k;
                }
                HOp::Fill => {
                    let b = s.fill_buf().map_err(|e| ctx(&format!("fill_buf error {}", e)))?;
                    let k = b.len();
                    if c + k > a.len() || b != &a[c..c + k] {
                        return Err(ctx("fill_buf returned bytes that are not the vector's"));
                    }
                    if k == 0 && c != a.len() {
                        return Err(ctx("fill_buf empty before the end"));
                    }
                }
                HOp::Consume(n) => {
                    let avail = s.fill_buf().map_err(|e| ctx(&e.to_string()))?.len();
                    let k = (*n).min(avail);
                    s.consume(k);
                    c += k;
                }
                HOp::Write(d) => {
                    let k = s.write(d).map_err(|e| ctx(&format!("write error {}", e)))?;
                    if k > d.len() || (k == 0 && !d.is_empty()) {
                        return Err(ctx(&format!("write accepted {} of {}", k, d.len())));
                    }
                    if a.len() < c + k {
                        a.resize(c + k, 0);
                    }
                    a[c..c + k].copy_from_slice(&d[..k]);
                    c += k;
                }
                HOp::WriteAll(d) => {
                    s.write_all(d).map_err(|e| ctx(&format!("write_all error {}", e)))?;
                    if a.len() < c + d.len() {
                        a.resize(c + d.len(), 0);
                    }
                    a[c..c + d.len()].copy_from_slice(d);
                    c += d.len();
                }
                HOp::ReadExact(n) => {
                    let mut b = vec![0u8; *n];
                    let r = s.read_exact(&mut b);
                    if c + n <= a.len() {
                        r.map_err(|e| ctx(&format!("read_exact error {}", e)))?;
                        if b[..] != a[c..c + n] {
                            return Err(ctx("read_exact returned wrong bytes"));
                        }
                        c += n;
                        outs.push(format!("rx{}:{:x}", n, fnv(&b)));
                    } else {
                        if r.is_ok() {
                            return Err(ctx("read_exact past the end succeeded"));
                        }
                        // position after a failed read_exact is unspecified: resynchronise
                        c = s.stream_position().map_err(|e| ctx(&e.to_string()))? as usize;
                        outs.push("rx-eof".into());
                    }
                }
                HOp::ReadToEnd => {
                    let mut b = Vec::new();
                    s.read_to_end(&mut b).map_err(|e| ctx(&format!("read_to_end error {}", e)))?;
                    if b[..] != a[c..] {
                        return Err(ctx("read_to_end returned wrong bytes"));
                    }
                    c = a.len();
                    outs.push(format!("rte{}:{:x}", b.len(), fnv(&b)));
                }
                HOp::Seek(w, z) => {
                    let (sf, target): (SeekFrom, i128) = match w {
                        0 => (SeekFrom::Start(*z as u64), *z),
                        1 => (SeekFrom::End(*z as i64), a.len() as i128 + *z),
                        _ => (SeekFrom::Current(*z as i64), c as i128 + *z),
                    };
                    let r = s.seek(sf);
                    if target < 0 || target > a.len() as i128 {
                        match r {
                            Err(e) if e.kind() == std::io::ErrorKind::InvalidInput => {}
                            other => return Err(ctx(&format!("out-of-range seek gave {:?}", other))),
                        }
                    } else {
                        let p = r.map_err(|e| ctx(&format!("in-range seek failed {}", e)))?;
                        if p as i128 != target {
                            return Err(ctx("seek returned a wrong position"));
                        }
                        c = target as usize;
                    }
                    outs.push(format!("sk{}", c));
                }
                HOp::SetLen(n) => {
                    s.set_len(*n).map_err(|e| ctx(&format!("set_len error {}", e)))?;
                    a.resize(*n as usize, 0);
                    c = c.min(*n as usize);
                }
                HOp::Flush => {
                    s.flush().map_err(|e| ctx(&format!("flush error {}", e)))?;
                }
            }
            if s.len() != a.len() as u64 {
                return Err(ctx(&format!("len() = {} but the vector has {}", s.len(), a.len())));
            }
            let p = s.stream_position().map_err(|e| ctx(&e.to_string()))?;
            if p != c as u64 {
                return Err(ctx(&format!("position {} but the cursor is {}", p, c)));
            }
            Ok(())
        }));
        match r {
            Ok(Ok(())) => {}
            Ok(Err(e)) => return Err(e),
            Err(_) => return Err(ctx("PANIC")),
        }
    }
    // after flush a fresh handle reads exactly the vector, also after reopen
    s.flush().map_err(|e| e.to_string())?;
    drop(s);
    let mut b = Vec::new();
    comp.open_stream("/s").unwrap().read_to_end(&mut b).map_err(|e| e.to_string())?;
    if b != a {
        return Err(format!(
            "fresh handle after flush reads {} bytes, first difference at {:?}, vector has {}",
            b.len(),
            b.iter().zip(&a).position(|(x, y)| x != y),
            a.len()
        ));
    }
    outs.push(format!("final{}:{:x}", a.len(), fnv(&a)));
    Ok(outs)
}

fn fnv(b: &[u8]) -> u64 {
    let mut h = 0xcbf29ce484222325u64;
    for x in b {
        h ^= *x as u64;
        h = h.wrapping_mul(0x100000001b3);
    }
    h
}

fn short(op: &HOp) -> String {
    match op {
        HOp::Write(d) => format!("Write({} bytes)", d.len()),
        HOp::WriteAll(d) => format!("WriteAll({} bytes)", d.len()),
        o => format!("{:?}", o),
    }
}

pub fn vec_contract(seed: u64, count: usize) -> Report {
    let mut rep = Report::new();
    let maxbufs = [1usize, 1024, 1500, 4096, 1 << 20];
    let mut master = Rng::new(seed);
    for i in 0..count {
        let mut rng = master.fork();
        let looping = i % 3 == 0;
        let n = 10 + rng.below(50) as usize;
        let ops = gen_hops(&mut rng, n, looping);
        let sig: Vec<String> = ops.iter().map(short).collect();
        rep.distinct.insert(sig.join(","));
        if rep.samples.len() < 2 {
            rep.samples.push(sig.iter().take(10).cloned().collect::<Vec<_>>().join("; "));
        }
        let mut reference: Option<Vec<String>> = None;
        for v in [Version::V3, Version::V4] {
            for &mb in maxbufs.iter() {
                rep.evaluations += 1;
                match run_vec_contract(v, mb, &ops) {
                    Ok(outs) => {
                        if looping {
                            match &reference {
                                None => reference = Some(outs),
                                Some(r) => {
                                    if *r != outs {
                                        rep.fail(format!(
                                            "vec seed={} case={} {:?} maxbuf={}: looping forms give results that differ from another buffer size/version: ops=[{}]",
                                            seed, i, v, mb, sig.join("; ")
                                        ));
                                    }
                                }
                            }
                        }
                    }
                    Err(e) => rep.fail(format!(
                        "vec seed={} case={} {:?} maxbuf={}: {} ; ops=[{}]",
                        seed, i, v, mb, e, sig.join("; ")
                    )),
                }
            }
        }
    }
    rep
}

// ---------------------------------------------------------------------------
// C14: lock discipline observed on the real code, plus real threads
// ---------------------------------------------------------------------------
static LOCK_CUR: std::sync::Mutex<Option<(String, std::time::Instant)>> = std::sync::Mutex::new(None);

fn lock_fixture(v: Version) -> (SharedBuf, CompoundFile<SharedBuf>) {
    let (buf, mut c) = fresh(v, 1024);
    c.create_storage("/d").unwrap();
    c.create_storage("/d/e").unwrap();
    for n in ["/b", "/a", "/c", "/d/x", "/d/y", "/d/e/z"] {
        let mut s = c.create_stream(n).unwrap();
        s.write_all(&vec![7u8; 5000]).unwrap();
    }
    for n in ["/m1", "/m2"] {
        let mut s = c.create_stream(n).unwrap();
        s.write_all(&[9u8; 300]).unwrap();
    }
    (buf, c)
}

type LockCall = (&'static str, Box<dyn FnMut(&mut CompoundFile<SharedBuf>)>);

fn lock_calls() -> Vec<LockCall> {
    vec![
        ("version", Box::new(|c| { let _ = c.version(); })),
        ("root_entry", Box::new(|c| { let _ = c.root_entry(); })),
        ("entry", Box::new(|c| { let _ = c.entry("/d/x"); })),
        ("entry_missing", Box::new(|c| { let _ = c.entry("/nope"); })),
        ("exists", Box::new(|c| { let _ = c.exists("/d/e/z"); })),
        ("is_stream", Box::new(|c| { let _ = c.is_stream("/a"); })),
        ("is_storage", Box::new(|c| { let _ = c.is_storage("/d"); })),
        ("read_root_storage", Box::new(|c| { let _ = c.read_root_storage().count(); })),
        ("read_storage", Box::new(|c| { let _ = c.read_storage("/d").map(|i| i.count()); })),
        ("walk", Box::new(|c| { let _ = c.walk().count(); })),
        ("walk_storage", Box::new(|c| { let _ = c.walk_storage("/d").map(|i| i.count()); })),
        ("open_stream+read", Box::new(|c| { let Ok(mut s) = c.open_stream("/a") else { return }; let mut b = [0u8; 3000]; let _ = s.read(&mut b); let _ = s.read(&mut b); })),
        ("stream write+flush", Box::new(|c| { let Ok(mut s) = c.open_stream("/b") else { return }; let _ = s.write_all(&[1u8; 3000]); let _ = s.flush(); })),
        ("stream seek+fill_buf", Box::new(|c| { let Ok(mut s) = c.open_stream("/c") else { return }; let _ = s.seek(SeekFrom::Start(4000)); let _ = s.fill_buf(); })),
        ("stream set_len", Box::new(|c| { let Ok(mut s) = c.open_stream("/c") else { return }; let _ = s.set_len(100); let _ = s.set_len(6000); })),
        ("stream drop dirty", Box::new(|c| { let Ok(mut s) = c.open_stream("/a") else { return }; let _ = s.write(&[2u8; 10]); })),
        ("create_storage", Box::new(|c| { let _ = c.create_storage("/n1"); })),
        ("create_storage_all", Box::new(|c| { let _ = c.create_storage_all("/n2/n3"); })),
        ("create_stream", Box::new(|c| { let _ = c.create_stream("/n4"); })),
        ("create_new_stream", Box::new(|c| { let _ = c.create_new_stream("/n5"); })),
        ("set_state_bits", Box::new(|c| { let _ = c.set_state_bits("/d", 5); })),
        ("set_storage_clsid", Box::new(|c| { let _ = c.set_storage_clsid("/d", uuid::Uuid::from_u128(9)); })),
        ("set_times", Box::new(|c| { let _ = c.set_created_time("/d", web_time::SystemTime::now()); let _ = c.set_modified_time("/d", web_time::SystemTime::now()); let _ = c.touch("/d"); })),
        ("remove_stream", Box::new(|c| { let _ = c.remove_stream("/n4"); })),
        ("remove_storage", Box::new(|c| { let _ = c.remove_storage("/n1"); })),
        ("remove_storage_all", Box::new(|c| { let _ = c.remove_storage_all("/n2"); })),
        ("flush", Box::new(|c| { let _ = c.flush(); })),
        // mini-stream paths
        ("small stream write+flush", Box::new(|c| { let Ok(mut s) = c.open_stream("/m1") else { return }; let _ = s.seek(SeekFrom::End(0)); let _ = s.write_all(&[1u8; 500]); let _ = s.flush(); })),
        ("small stream set_len", Box::new(|c| { let Ok(mut s) = c.open_stream("/m2") else { return }; let _ = s.set_len(20); let _ = s.set_len(3000); let _ = s.set_len(5000); let _ = s.set_len(10); })),
        ("remove small stream", Box::new(|c| { let _ = c.remove_stream("/m1"); })),
        // REFUSED calls: every error path must release what it took and must not ask again while holding
        ("set_len beyond the format maximum", Box::new(|c| { let Ok(mut s) = c.open_stream("/c") else { return }; let _ = s.set_len(u64::MAX); let _ = s.set_len(1 << 45); let mut b = [0u8; 10]; let _ = s.read(&mut b); })),
        ("small set_len beyond the format maximum", Box::new(|c| { let Ok(mut s) = c.open_stream("/m2") else { return }; let _ = s.set_len(u64::MAX - 5); let _ = s.write(&[1]); let _ = s.flush(); })),
        ("stale handle: read/write/seek/flush/set_len/len after remove_stream", Box::new(|c| {
            let Ok(mut s) = c.create_stream("/st1") else { return };
            let _ = s.write_all(&[4u8; 5000]);
            let _ = s.flush();
            let _ = c.remove_stream("/st1");
            let mut b = [0u8; 100];
            let _ = s.seek(SeekFrom::Start(0));
            let _ = s.read(&mut b);
            let _ = s.write(&[1u8; 2000]);
            let _ = s.flush();
            let _ = s.set_len(10);
            let _ = s.set_len(9000);
            let _ = s.len();
            let _ = s.seek(SeekFrom::End(-1));
            let _ = s.fill_buf();
        })),
        ("stale handle: slot reused by a storage", Box::new(|c| {
            let Ok(mut s) = c.create_stream("/st2") else { return };
            let _ = s.write_all(&[4u8; 100]);
            let _ = s.flush();
            let _ = c.remove_stream("/st2");
            let _ = c.create_storage("/st2dir");
            let mut b = [0u8; 100];
            let _ = s.seek(SeekFrom::Start(0));
            let _ = s.read(&mut b);
            let _ = s.write(&[1u8; 20]);
            let _ = s.flush();
            let _ = s.set_len(5000);
            let _ = c.remove_storage("/st2dir");
        })),
        ("stale handle dropped dirty", Box::new(|c| {
            let Ok(mut s) = c.create_stream("/st3") else { return };
            let _ = s.write_all(&[4u8; 100]);
            let _ = c.remove_stream("/st3");
            let _ = s.write(&[5u8; 50]);
        })),
        ("seek before start / read at end", Box::new(|c| { let Ok(mut s) = c.open_stream("/a") else { return }; let _ = s.seek(SeekFrom::Current(-5)); let _ = s.seek(SeekFrom::End(10)); let _ = s.seek(SeekFrom::End(0)); let mut b = [0u8; 8]; let _ = s.read(&mut b); })),
        ("open_stream refused", Box::new(|c| { let _ = c.open_stream("/nope").map(|_| ()); let _ = c.open_stream("/d").map(|_| ()); let _ = c.open_stream("/a/b").map(|_| ()); let _ = c.open_stream("/").map(|_| ()); })),
        ("create refused", Box::new(|c| {
            let _ = c.create_storage("/d");
            let _ = c.create_storage("/a");
            let _ = c.create_storage("/nope/x");
            let _ = c.create_storage("/a/x");
            let _ = c.create_storage("/bad:name");
            let _ = c.create_storage("/");
            let _ = c.create_new_stream("/a").map(|_| ());
            let _ = c.create_new_stream("/d").map(|_| ());
            let _ = c.create_stream("/d").map(|_| ());
            let _ = c.create_stream("/nope/x").map(|_| ());
            let _ = c.create_stream("/a/x").map(|_| ());
            let _ = c.create_stream("/0123456789012345678901234567890123456789").map(|_| ());
            let _ = c.create_storage_all("/a/x/y");
            let _ = c.create_storage_all("/d/e/bad!/q");
        })),
        ("remove refused", Box::new(|c| {
            let _ = c.remove_stream("/nope");
            let _ = c.remove_stream("/d");
            let _ = c.remove_stream("/");
            let _ = c.remove_storage("/nope");
            let _ = c.remove_storage("/a");
            let _ = c.remove_storage("/d");
            let _ = c.remove_storage("/");
            let _ = c.remove_storage_all("/nope");
            let _ = c.remove_storage_all("/a");
        })),
        ("queries and setters refused", Box::new(|c| {
            let _ = c.read_storage("/a").map(|i| i.count());
            let _ = c.read_storage("/nope").map(|i| i.count());
            let _ = c.walk_storage("/a").map(|i| i.count());
            let _ = c.walk_storage("/nope").map(|i| i.count());
            let _ = c.entry("/a/../..");
            let _ = c.set_state_bits("/nope", 1);
            let _ = c.set_storage_clsid("/a", uuid::Uuid::from_u128(3));
            let _ = c.set_storage_clsid("/nope", uuid::Uuid::from_u128(3));
            let _ = c.set_created_time("/nope", web_time::SystemTime::now());
            let _ = c.set_modified_time("/a", web_time::SystemTime::now());
            let _ = c.touch("/nope");
            let _ = c.touch("/a");
        })),
        ("every path-taking call on root-resolving paths", Box::new(|c| {
            for p in ["/", "", "/d/..", "/d/e/../..", "/./"] {
                let _ = c.entry(p);
                let _ = c.exists(p);
                let _ = c.is_stream(p);
                let _ = c.is_storage(p);
                let _ = c.read_storage(p).map(|i| i.count());
                let _ = c.walk_storage(p).map(|i| i.count());
                let _ = c.set_state_bits(p, 9);
                let _ = c.set_storage_clsid(p, uuid::Uuid::from_u128(5));
                let _ = c.set_created_time(p, web_time::SystemTime::now());
                let _ = c.set_modified_time(p, web_time::SystemTime::now());
                let _ = c.touch(p);
                let _ = c.open_stream(p).map(|_| ());
                let _ = c.create_storage(p);
                let _ = c.create_stream(p).map(|_| ());
                let _ = c.create_new_stream(p).map(|_| ());
                let _ = c.create_storage_all(p);
                let _ = c.remove_stream(p);
                let _ = c.remove_storage(p);
            }
        })),
        ("remove_storage_all with content", Box::new(|c| { let _ = c.remove_storage_all("/d"); })),
    ]
}

/// Runs one call with lock events recorded and checks the discipline: no request
/// while a guard is held, balanced, nothing held on return (in EVERY outcome).
fn lock_observe(label: &str, f: &mut dyn FnMut(&mut CompoundFile<SharedBuf>), c: &mut CompoundFile<SharedBuf>,
                rep: &mut Report, sites: &mut HashSet<(String, u32)>) -> usize {
    *LOCK_CUR.lock().unwrap() = Some((label.to_string(), std::time::Instant::now()));
    cfb::verif::trace_start();
    let r = std::panic::catch_unwind(std::panic::AssertUnwindSafe(|| f(c)));
    let tr = cfb::verif::trace_take();
    *LOCK_CUR.lock().unwrap() = None;
    if r.is_err() {
        rep.fail(format!("locks: {} panicked", label));
    }
    rep.evaluations += 1;
    let mut depth: i64 = 0;
    for (_, kind, file, line, d) in tr.iter() {
        match kind {
            'q' | 'Q' => {
                sites.insert((file.to_string(), *line));
                if *d > 0 {
                    rep.fail(format!(
                        "locks: {} requests the lock at {}:{} while already holding {} guard(s) (nested section: can deadlock with a queued writer)",
                        label, file, line, d
                    ));
                }
            }
            'R' | 'W' => depth += 1,
            'r' | 'w' => depth -= 1,
            _ => {}
        }
        if depth < 0 {
            rep.fail(format!("locks: {} releases more than it acquired", label));
        }
    }
    if depth != 0 && r.is_ok() {
        rep.fail(format!("locks: {} returns while holding {} guard(s)", label, depth));
    }
    rep.distinct.insert(format!("{}:{}", label, tr.len()));
    if rep.samples.len() < 3 {
        rep.samples.push(format!(
            "{}: {}",
            label,
            tr.iter().map(|(_, k, _, l, d)| format!("{}@{}d{}", k, l, d)).collect::<Vec<_>>().join(" ")
        ));
    }
    tr.len()
}

pub fn locks(seed: u64, threads_iters: usize) -> Report {
    let mut rep = Report::new();
    // a call that never returns (a thread waiting for a lock it holds itself) is reported
    // with the call and the lock events recorded so far
    std::thread::spawn(|| loop {
        std::thread::sleep(std::time::Duration::from_millis(200));
        let cur = LOCK_CUR.lock().unwrap().clone();
        if let Some((label, since)) = cur {
            if since.elapsed().as_secs() >= 10 {
                let tr = cfb::verif::trace_take();
                let tail: Vec<String> = tr.iter().rev().take(6).rev()
                    .map(|(_, k, f, l, d)| format!("{}@{}:{} holding {}", k, f.rsplit('/').next().unwrap_or(f), l, d)).collect();
                let msg = format!("locks: the call [{}] did not return within 10 s on a single thread (it waits for a lock it holds itself); last lock events: {}", label, tail.join(", "));
                println!("{{\"evaluations\": 1, \"distinct\": 1, \"failures\": [{:?}], \"samples\": [], \"notes\": {{}}}}", msg);
                std::process::exit(0);
            }
        }
    });
    let mut sites: HashSet<(String, u32)> = HashSet::new();
    for v in [Version::V3, Version::V4] {
        let (_buf, mut c) = lock_fixture(v);
        for (name, f) in lock_calls().iter_mut() {
            lock_observe(&format!("{:?} {}", v, name), f.as_mut(), &mut c, &mut rep, &mut sites);
        }
    }
    // the same calls with one injected I/O fault at every raw call position: the error
    // paths below the API (a failed read / write / seek in the middle of a section)
    let ncalls = lock_calls().len();
    let mut faulted = 0u64;
    for idx in 0..ncalls {
        let mut k = 0u64;
        loop {
            let (buf, mut c) = lock_fixture(Version::V3);
            let mut calls = lock_calls();
            let (name, f) = &mut calls[idx];
            {
                let mut ctl = buf.ctl.lock().unwrap();
                ctl.fail_kinds = [true, true, true, true];
                ctl.seq = 0;
                ctl.fail_at = vec![k];
                ctl.injected = 0;
            }
            lock_observe(&format!("{} with raw call {} failing", name, k), f.as_mut(), &mut c, &mut rep, &mut sites);
            let injected = buf.ctl.lock().unwrap().injected;
            {
                let mut ctl = buf.ctl.lock().unwrap();
                ctl.fail_kinds = [false; 4];
                ctl.fail_at.clear();
            }
            // the object must still answer afterwards
            lock_observe(&format!("{} after a fault at raw call {}: walk", name, k), &mut |c| { let _ = c.walk().count(); let _ = c.exists("/a"); }, &mut c, &mut rep, &mut sites);
            if injected == 0 || k > 400 {
                break;
            }
            faulted += 1;
            k += 1;
        }
    }
    rep.note("fault_positions", faulted);
    rep.note("lock_sites_observed", sites.len() as u64);
    let mut site_list: Vec<String> = sites.iter().map(|(f, l)| format!("{}:{}", f.rsplit('/').next().unwrap_or(f), l)).collect();
    site_list.sort();
    rep.samples.push(format!("sites: {}", site_list.join(" ")));

    // supporting: real threads, N readers + 1 stream writer, under a watchdog
    if threads_iters > 0 {
        use std::sync::atomic::{AtomicBool, AtomicU64, Ordering};
        let (_b2, c2) = fresh(Version::V3, 1024);
        let mut c2 = c2;
        c2.create_storage("/d").unwrap();
        for n in ["/d/a", "/d/b", "/s"] {
            let mut s = c2.create_stream(n).unwrap();
            s.write_all(&[3u8; 2000]).unwrap();
        }
        let mut ws = c2.open_stream("/s").unwrap();
        let stop = AtomicBool::new(false);
        let progress = AtomicU64::new(0);
        let done = AtomicBool::new(false);
        let stalled_flag = AtomicBool::new(false);
        let comp_ref = &c2;
        std::thread::scope(|scope| {
            for t in 0..3u64 {
                let st = &stop;
                let pr = &progress;
                scope.spawn(move || {
                    let mut rng = Rng::new(seed * 31 + t);
                    while !st.load(Ordering::Relaxed) {
                        match rng.below(5) {
                            0 => { let _ = comp_ref.walk().count(); }
                            1 => { let _ = comp_ref.read_storage("/d").map(|i| i.count()); }
                            2 => { let _ = comp_ref.entry("/d/a"); }
                            3 => { let _ = comp_ref.exists("/s"); }
                            _ => { let _ = comp_ref.read_root_storage().count(); }
                        }
                        pr.fetch_add(1, Ordering::Relaxed);
                    }
                });
            }
            // watchdog: if nobody progresses for 5 s, report the deadlock and end the process
            {
                let pr = &progress;
                let dn = &done;
                let sf = &stalled_flag;
                scope.spawn(move || {
                    let mut last = 0;
                    let mut stalled = 0;
                    while !dn.load(Ordering::Relaxed) {
                        std::thread::sleep(std::time::Duration::from_millis(100));
                        let now = pr.load(Ordering::Relaxed);
                        if now == last { stalled += 1 } else { stalled = 0 }
                        last = now;
                        if stalled > 50 {
                            sf.store(true, Ordering::Relaxed);
                            println!("{{\"evaluations\": 1, \"distinct\": 1, \"failures\": [\"locks: no thread made progress for 5 s with 3 readers and 1 stream writer (deadlock)\"], \"samples\": [], \"notes\": {{}}}}");
                            std::process::exit(0);
                        }
                    }
                });
            }
            // the stream writer runs on this thread (Stream is not Send)
            for k in 0..threads_iters {
                let _ = ws.seek(SeekFrom::Start((k * 37 % 1500) as u64));
                let _ = ws.write_all(&[k as u8; 300]);
                let _ = ws.flush();
                let _ = ws.set_len(2000 + (k % 7) as u64 * 100);
                if k % 5 == 4 {
                    let _ = ws.set_len(u64::MAX - k as u64);
                    let _ = ws.seek(SeekFrom::Current(-100_000));
                }
                let mut b = [0u8; 100];
                let _ = ws.read(&mut b);
                progress.fetch_add(1, Ordering::Relaxed);
            }
            stop.store(true, Ordering::Relaxed);
            done.store(true, Ordering::Relaxed);
        });
        rep.note("thread_ops", progress.load(Ordering::Relaxed));
        rep.evaluations += 1;
    }
    rep
}

// ---------------------------------------------------------------------------
// C07 under faults: an operation that fails half-way must not let a LATER operation through
// another handle touch streams that are not its own
// ---------------------------------------------------------------------------
pub fn handle_faults() -> Report {
    let mut rep = Report::new();
    let read_all = |c: &mut CompoundFile<SharedBuf>, p: &str| -> Option<Vec<u8>> {
        let mut v = Vec::new();
        match c.open_stream(p) {
            Ok(mut s) => match s.read_to_end(&mut v) { Ok(_) => Some(v), Err(_) => None },
            Err(_) => None,
        }
    };
    let ops: [&str; 6] = ["a.set_len(0)", "a.set_len(4200)", "a.set_len(100)", "remove_stream(/c)", "create_stream(/c) (overwrite)", "a.write_all(9000 bytes) + flush"];
    for v in [Version::V3, Version::V4] {
        for (oi, opname) in ops.iter().enumerate() {
            let mut k = 0u64;
            loop {
                let (buf, mut c) = fresh(v, 4096);
                c.create_stream("/a").unwrap().write_all(&vec![0xA1u8; 6000]).unwrap();
                c.create_stream("/small").unwrap().write_all(&[0x51u8; 300]).unwrap();
                c.create_stream("/c").unwrap().write_all(&vec![0xC3u8; 9000]).unwrap();
                c.flush().unwrap();
                let mut a = c.open_stream("/a").unwrap();
                let mut b = c.create_stream("/b").unwrap();
                {
                    let mut ctl = buf.ctl.lock().unwrap();
                    ctl.fail_kinds = [false, true, true, true];
                    ctl.seq = 0;
                    ctl.fail_at = vec![k];
                    ctl.injected = 0;
                }
                let r = catch_unwind(AssertUnwindSafe(|| match oi {
                    0 => a.set_len(0).is_ok(),
                    1 => a.set_len(4200).is_ok(),
                    2 => a.set_len(100).is_ok(),
                    3 => c.remove_stream("/c").is_ok(),
                    4 => c.create_stream("/c").is_ok(),
                    _ => a.write_all(&vec![0xA2u8; 9000]).and_then(|_| a.flush()).is_ok(),
                }));
                let injected = buf.ctl.lock().unwrap().injected;
                {
                    let mut ctl = buf.ctl.lock().unwrap();
                    ctl.fail_kinds = [false; 4];
                    ctl.fail_at.clear();
                }
                rep.evaluations += 1;
                rep.distinct.insert(format!("{:?}-{}-{}", v, oi, k));
                let what = format!("{:?} {} with raw write/seek call {} failing ({})", v, opname, k, match r { Ok(true) => "Ok", Ok(false) => "Err", Err(_) => "PANIC" });
                if r.is_err() {
                    rep.fail(format!("handlefaults: {}", what));
                    std::mem::forget(a);
                    std::mem::forget(b);
                } else {
                    // what the other streams hold now (whatever the failed call left) ...
                    let before: Vec<(String, Option<Vec<u8>>)> = ["/a", "/small", "/c"].iter().map(|p| (p.to_string(), read_all(&mut c, p))).collect();
                    // ... must survive 8000 bytes written through the handle of /b
                    let data: Vec<u8> = (0..8000usize).map(|i| (i * 3 + 1) as u8 | 1).collect();
                    let wrote = catch_unwind(AssertUnwindSafe(|| b.write_all(&data).and_then(|_| b.flush()).is_ok()));
                    match wrote {
                        Err(_) => rep.fail(format!("handlefaults: {}; then writing through the handle of /b panicked", what)),
                        Ok(okb) => {
                            for (p, old) in before.iter() {
                                if let Some(old) = old {
                                    match read_all(&mut c, p) {
                                        Some(now) if now == *old => {}
                                        Some(now) => {
                                            let d = now.iter().zip(old.iter()).position(|(x, y)| x != y);
                                            rep.fail(format!("handlefaults: {}; then 8000 bytes written through the handle of /b: {} changed ({} -> {} bytes, first difference at {:?})", what, p, old.len(), now.len(), d));
                                        }
                                        None => rep.fail(format!("handlefaults: {}; then 8000 bytes written through the handle of /b: {} can no longer be read", what, p)),
                                    }
                                }
                            }
                            if okb {
                                if read_all(&mut c, "/b").as_deref() != Some(&data[..]) {
                                    rep.fail(format!("handlefaults: {}; /b does not hold what was written and flushed through its handle", what));
                                }
                            }
                        }
                    }
                    drop(a);
                    drop(b);
                }
                if injected == 0 || k > 600 {
                    break;
                }
                k += 1;
            }
        }
    }
    rep.samples.push("handlefaults: 6 operations on /a or /c with one injected write/seek fault at every raw position, then 8000 bytes through the handle of /b; every other stream must read as it did before that write".into());
    rep
}

// ---------------------------------------------------------------------------
// C15: repeating a net-zero cycle does not grow the file from repetition 2 on
// ---------------------------------------------------------------------------
pub fn cycles(seed: u64, count: usize) -> Report {
    let mut rep = Report::new();
    let mut master = Rng::new(seed);
    for i in 0..count {
        let mut rng = master.fork();
        let v = if rng.chance(2, 3) { Version::V3 } else { Version::V4 };
        let (buf, mut c) = fresh(v, 4096);
        // prefix: some persistent content, fill levels around whole-sector multiples
        // (one case in three uses mini-stream sizes only: holes below surviving small streams)
        let small_only = rng.chance(1, 3);
        let nprefix = rng.below(12) as usize;
        let mut desc = format!("{:?} prefix[", v);
        for k in 0..nprefix {
            let sz = if small_only {
                *rng.pick(&[1usize, 63, 64, 65, 200, 448, 512, 576, 1000, 2816, 3840])
            } else {
                *rng.pick(&[1usize, 63, 64, 65, 448, 512, 576, 1000, 4095, 4096, 4097, 9000])
            };
            let mut s = c.create_stream(format!("/p{}", k)).unwrap();
            s.write_all(&vec![5u8; sz]).unwrap();
            desc.push_str(&format!("{} ", sz));
        }
        // holes: some of the prefix streams are removed again, in a random order, so that
        // the free lists start out non-empty and unordered
        if nprefix > 0 && rng.chance(1, 2) {
            let mut idx: Vec<usize> = (0..nprefix).filter(|_| rng.chance(1, 2)).collect();
            for j in (1..idx.len()).rev() {
                let r = rng.below(j as u64 + 1) as usize;
                idx.swap(j, r);
            }
            desc.push_str(&format!("| removed {:?} ", idx));
            for k in idx {
                c.remove_stream(format!("/p{}", k)).unwrap();
            }
        }
        // cycle: a list of (create+write sizes) then removal of all of them
        let ncyc = 1 + rng.below(5) as usize;
        let ncyc = if small_only { ncyc.max(3) } else { ncyc };
        let sizes: Vec<usize> = (0..ncyc)
            .map(|_| if small_only { *rng.pick(&[1usize, 64, 100, 128, 512, 513, 2000]) } else { *rng.pick(&[0usize, 1, 64, 100, 512, 513, 2000, 4095, 4096, 5000, 20000]) })
            .collect();
        let use_storage = !small_only && rng.chance(1, 3);
        let overwrite = !small_only && rng.chance(1, 3);
        // removal order of the cycle's streams: fixed per case, any permutation
        let mut order: Vec<usize> = (0..ncyc).collect();
        if rng.chance(2, 3) {
            for j in (1..order.len()).rev() {
                let r = rng.below(j as u64 + 1) as usize;
                order.swap(j, r);
            }
        }
        // a persistent small stream that each repetition rewrites from offset 0 with a large
        // write through a fresh handle (mini -> regular migration) and then shrinks back
        let rewrite_persistent = !small_only && rng.chance(1, 2);
        if rewrite_persistent {
            let mut s = c.create_stream("/keep").unwrap();
            s.write_all(&vec![3u8; *rng.pick(&[100usize, 64, 700, 4000])]).unwrap();
        }
        let keep_len = if rewrite_persistent { c.entry("/keep").unwrap().len() } else { 0 };
        let big_len = *rng.pick(&[4096usize, 5000, 9000]); // fixed per case: every repetition is the same cycle
        desc.push_str(&format!("] cycle{:?} remove-order{:?} storage={} overwrite={} rewrite_persistent={}", sizes, order, use_storage, overwrite, rewrite_persistent));
        // one case in four closes the file after every repetition and opens the bytes again
        // (the in-memory tables are rebuilt from the file: trimmed tables, rebuilt free lists)
        let reopen_each = rng.chance(1, 4);
        if reopen_each {
            desc.push_str(" reopen-each-repetition");
        }
        let mut lens = Vec::new();
        let mut roots: Vec<u64> = Vec::new(); // size of the mini stream after each repetition
        for rep in 0..80 {
            // five repetitions; more (up to 80) only while the mini stream keeps growing, which
            // predicts growth of the file once a whole sector of mini sectors has leaked
            if rep >= 5 && !(roots[rep - 1] > roots[1] && lens[rep - 1] == lens[1]) {
                break;
            }
            if use_storage {
                c.create_storage("/cy").unwrap();
            }
            let base = if use_storage { "/cy" } else { "" };
            for (k, &sz) in sizes.iter().enumerate() {
                let mut s = c.create_stream(format!("{}/t{}", base, k)).unwrap();
                s.write_all(&vec![9u8; sz]).unwrap();
                if overwrite {
                    drop(s);
                    let mut s = c.create_stream(format!("{}/t{}", base, k)).unwrap();
                    s.write_all(&vec![8u8; sz / 2]).unwrap();
                    s.set_len((sz / 3) as u64).unwrap();
                }
            }
            if rewrite_persistent {
                {
                    let mut s = c.open_stream("/keep").unwrap();
                    s.write_all(&vec![6u8; big_len]).unwrap();
                }
                {
                    let mut s = c.open_stream("/keep").unwrap();
                    s.set_len(keep_len).unwrap();
                    s.seek(SeekFrom::Start(0)).unwrap();
                    s.write_all(&vec![3u8; keep_len as usize]).unwrap();
                }
                // grow by set_len across the cutoff and back
                {
                    let mut s = c.open_stream("/keep").unwrap();
                    s.set_len(6000).unwrap();
                    s.set_len(keep_len).unwrap();
                }
            }
            if use_storage {
                c.remove_storage_all("/cy").unwrap();
            } else {
                for &k in order.iter() {
                    c.remove_stream(format!("/t{}", k)).unwrap();
                }
            }
            lens.push(buf.len());
            roots.push(c.root_entry().len());
            if reopen_each {
                drop(c);
                c = cfb::OpenOptions::new().max_buffer_size(4096).open_with(buf.clone()).unwrap();
            }
        }
        if lens.len() > 5 {
            rep.note("cases_with_extra_repetitions", 1);
        }
        rep.evaluations += 1;
        rep.distinct.insert(desc.clone());
        if rep.samples.len() < 2 {
            rep.samples.push(format!("{} -> sizes {:?}", desc, lens));
        }
        if lens[1..].iter().any(|&x| x != lens[1]) {
            rep.fail(format!("cycles seed={} case={}: {} file length per repetition {:?}", seed, i, desc, lens));
        }
        if lens[0] != lens[1] {
            rep.note("grew_in_second_repetition", 1);
        }
    }
    rep
}

// ---------------------------------------------------------------------------
// C12: read/seek faults on a file that is only read
// ---------------------------------------------------------------------------
fn build_sample_image(v: Version) -> (Vec<u8>, Vec<(String, Vec<u8>)>) {
    let (buf, mut c) = fresh(v, 4096);
    c.create_storage("/d").unwrap();
    c.create_storage("/d/e").unwrap();
    let mut contents = Vec::new();
    for (i, (p, n)) in [("/small", 300usize), ("/d/big", 9000), ("/d/e/mid", 4096), ("/empty", 0), ("/d/tiny", 1)]
        .iter()
        .enumerate()
    {
        let data: Vec<u8> = (0..*n).map(|k| ((k * 7 + i * 13 + (k >> 8)) % 251 + 1) as u8).collect();
        let mut s = c.create_stream(p).unwrap();
        s.write_all(&data).unwrap();
        contents.push((p.to_string(), data));
    }
    c.set_state_bits("/d", 77).unwrap();
    drop(c);
    (buf.snapshot(), contents)
}

/// One run of the read-only workload with faults at the given raw-call indices.
/// Returns (number of raw read+seek calls, list of violations).
fn read_workload(
    image: &[u8],
    contents: &[(String, Vec<u8>)],
    maxbuf: usize,
    fail_at: &[u64],
    short_at: &[(u64, u8)],
    reference: Option<&Vec<String>>,
) -> (u64, Vec<String>, Vec<String>) {
    let b = SharedBuf::new(image.to_vec());
    {
        let mut ctl = b.ctl.lock().unwrap();
        ctl.fail_kinds = [true, false, true, false];
        ctl.seq = 0;
        ctl.fail_at = fail_at.to_vec();
        ctl.short_at = short_at.to_vec();
    }
    let mut bad = Vec::new();
    let mut log: Vec<String> = Vec::new();
    // open, retrying after an error
    let mut comp = None;
    for _ in 0..4 {
        match cfb::OpenOptions::new().max_buffer_size(maxbuf).open_with(b.clone()) {
            Ok(c) => {
                comp = Some(c);
                break;
            }
            Err(_) => log.push("open:err".into()),
        }
    }
    let mut comp = match comp {
        Some(c) => c,
        None => {
            bad.push("open kept failing after the injected faults were used up".into());
            return (b.ctl.lock().unwrap().seq, bad, log);
        }
    };
    log.push("open:ok".into());
    let walk: Vec<String> = comp.walk().map(|e| format!("{}:{}", e.path().display(), e.len())).collect();
    log.push(format!("walk:{}", walk.join(",")));
    log.push(format!("ls:{}", comp.read_storage("/d").map(|i| i.map(|e| e.name().to_string()).collect::<Vec<_>>().join(",")).unwrap_or("err".into())));
    log.push(format!("entry:{:?}", comp.entry("/d").map(|e| e.state_bits()).ok()));
    log.push(format!("exists:{}", comp.exists("/d/e/mid")));
    for (p, data) in contents {
        let mut s = match comp.open_stream(p) {
            Ok(s) => s,
            Err(e) => {
                bad.push(format!("open_stream({}) failed: {}", p, e));
                continue;
            }
        };
        if s.len() != data.len() as u64 {
            bad.push(format!("{}: len {} != {}", p, s.len(), data.len()));
        }
        let mut errs = 0;
        let mut steps = 0;
        let mut tmp = vec![0u8; 700];
        // sequential buffered reads with retry after each error
        loop {
            steps += 1;
            if steps > 200 {
                bad.push(format!("{}: read loop does not finish", p));
                break;
            }
            let pos_before = s.stream_position().unwrap_or(u64::MAX);
            match s.read(&mut tmp) {
                Ok(0) => {
                    if pos_before != data.len() as u64 {
                        bad.push(format!("{}: read returned 0 at {} before the end {}", p, pos_before, data.len()));
                    }
                    break;
                }
                Ok(k) => {
                    let st = pos_before as usize;
                    if st + k > data.len() || tmp[..k] != data[st..st + k] {
                        bad.push(format!("{}: read at {} returned {} bytes that differ from the stream's content", p, st, k));
                        break;
                    }
                }
                Err(_) => {
                    errs += 1;
                    let pos_after = s.stream_position().unwrap_or(u64::MAX);
                    if pos_after != pos_before {
                        bad.push(format!("{}: failed read moved the position {} -> {}", p, pos_before, pos_after));
                    }
                    if errs > 6 {
                        bad.push(format!("{}: read keeps failing", p));
                        break;
                    }
                    // the handle must stay usable in every direction after a failed call:
                    // step back into what was already consumed, re-read, come back
                    for back in [1500u64, 300, 1] {
                        if pos_after != u64::MAX && pos_after >= back {
                            let target = pos_after - back;
                            if s.seek(SeekFrom::Start(target)).is_ok() {
                                let mut t = vec![0u8; 700];
                                if let Ok(k) = s.read(&mut t) {
                                    let st = target as usize;
                                    if st + k > data.len() || t[..k] != data[st..st + k] {
                                        bad.push(format!("{}: after a failed read, seeking back to {} and reading returned {} bytes that differ from the stream's content", p, st, k));
                                    }
                                }
                            }
                            let mut okb = false;
                            for _ in 0..4 {
                                if s.seek(SeekFrom::Start(pos_after)).is_ok() {
                                    okb = true;
                                    break;
                                }
                            }
                            if !okb {
                                bad.push(format!("{}: cannot seek back to {} after the probe", p, pos_after));
                            }
                        }
                    }
                }
            }
        }
        // seeks and re-reads
        for &(off, n) in &[(0u64, 10usize), (4000, 200), (8990, 50), (100, 2000)] {
            if off as usize >= data.len() {
                continue;
            }
            let mut ok = false;
            for _ in 0..4 {
                match s.seek(SeekFrom::Start(off)) {
                    Ok(_) => {
                        ok = true;
                        break;
                    }
                    Err(_) => {}
                }
            }
            if !ok {
                bad.push(format!("{}: seek keeps failing", p));
                continue;
            }
            let want = n.min(data.len() - off as usize);
            let mut got = Vec::new();
            let mut tries = 0;
            while got.len() < want && tries < 20 {
                tries += 1;
                let mut t = vec![0u8; want - got.len()];
                match s.read(&mut t) {
                    Ok(0) => break,
                    Ok(k) => got.extend_from_slice(&t[..k]),
                    Err(_) => {}
                }
            }
            if got[..] != data[off as usize..off as usize + got.len()] || got.len() != want {
                bad.push(format!("{}: after seek({}) read {} bytes, wrong or short", p, off, got.len()));
            }
        }
        log.push(format!("stream:{}:{}", p, data.len()));
    }
    if let Some(r) = reference {
        // every Ok result must equal the fault-free one
        let mine: Vec<&String> = log.iter().filter(|l| !l.ends_with(":err")).collect();
        let theirs: Vec<&String> = r.iter().filter(|l| !l.ends_with(":err")).collect();
        if mine != theirs {
            bad.push(format!("results differ from the fault-free run: {:?} vs {:?}", mine, theirs));
        }
    }
    let n = b.ctl.lock().unwrap().seq;
    (n, bad, log)
}

pub fn readfaults(seed: u64, pairs: usize, shard: u64, nshards: u64) -> Report {
    let mut rep = Report::new();
    let mut rng = Rng::new(seed);
    for v in [Version::V3, Version::V4] {
        let (image, contents) = build_sample_image(v);
        for &maxbuf in &[1024usize, 4096] {
            let (n, bad0, reference) = read_workload(&image, &contents, maxbuf, &[], &[], None);
            for b in bad0 {
                rep.fail(format!("readfaults {:?} maxbuf={} fault-free: {}", v, maxbuf, b));
            }
            rep.note("raw_calls_in_workload", n);
            for k in 0..n {
                if k % nshards != shard {
                    continue;
                }
                rep.evaluations += 1;
                rep.distinct.insert(format!("{:?}-{}-{}", v, maxbuf, k));
                let r = catch_unwind(AssertUnwindSafe(|| read_workload(&image, &contents, maxbuf, &[k], &[], Some(&reference))));
                match r {
                    Ok((_, bad, _)) => {
                        for b in bad {
                            rep.fail(format!("readfaults {:?} maxbuf={} fault at raw read/seek call {}: {}", v, maxbuf, k, b));
                        }
                    }
                    Err(_) => rep.fail(format!("readfaults {:?} maxbuf={} fault at raw call {}: PANIC", v, maxbuf, k)),
                }
            }
            // a short (non-zero) count instead of an error at call k, alone and
            // followed by an error at a later call: a legal behaviour of any
            // reader, after which results must still equal the fault-free ones
            for k in 0..n {
                if k % nshards != shard {
                    continue;
                }
                for mode in 0..3u8 {
                    let later = k + 1 + rng.below(6);
                    for fa in [vec![], vec![later]] {
                        rep.evaluations += 1;
                        rep.distinct.insert(format!("{:?}-{}-short{}-{}-{:?}", v, maxbuf, k, mode, fa));
                        let r = catch_unwind(AssertUnwindSafe(|| read_workload(&image, &contents, maxbuf, &fa, &[(k, mode)], Some(&reference))));
                        match r {
                            Ok((_, bad, _)) => {
                                for b in bad {
                                    rep.fail(format!("readfaults {:?} maxbuf={} short count (mode {}) at raw read call {} then faults at {:?}: {}", v, maxbuf, mode, k, fa, b));
                                }
                            }
                            Err(_) => rep.fail(format!("readfaults {:?} maxbuf={} short count at raw call {} faults {:?}: PANIC", v, maxbuf, k, fa)),
                        }
                    }
                }
            }
            for _ in 0..pairs {
                let a = rng.below(n);
                let b2 = rng.below(n);
                rep.evaluations += 1;
                rep.distinct.insert(format!("{:?}-{}-{}-{}", v, maxbuf, a, b2));
                let r = catch_unwind(AssertUnwindSafe(|| read_workload(&image, &contents, maxbuf, &[a, b2], &[], Some(&reference))));
                match r {
                    Ok((_, bad, _)) => {
                        for b in bad {
                            rep.fail(format!("readfaults {:?} maxbuf={} faults at raw calls {} and {}: {}", v, maxbuf, a, b2, b));
                        }
                    }
                    Err(_) => rep.fail(format!("readfaults {:?} maxbuf={} faults at {} and {}: PANIC", v, maxbuf, a, b2)),
                }
            }
        }
    }
    rep.samples.push("workload: open; walk; read_storage(/d); entry(/d); exists; for each of 5 streams: sequential read(700) with retry, seek+read x4; one injected read/seek fault per run, pairs of faults, and a short non-zero count at each read call (1 byte / half / all but one) alone and followed by a fault".into());
    rep
}

// ---------------------------------------------------------------------------
// C13: write/seek/flush faults during a mutating workload
// ---------------------------------------------------------------------------
fn write_workload(v: Version, maxbuf: usize, fail_at: &[u64]) -> (u64, Vec<String>) {
    let buf = SharedBuf::new(Vec::new());
    let c = CompoundFile::create_with_version(v, buf.clone()).unwrap();
    drop(c);
    let mut comp = cfb::OpenOptions::new().max_buffer_size(maxbuf).open_with(buf.clone()).unwrap();
    {
        let mut ctl = buf.ctl.lock().unwrap();
        ctl.fail_kinds = [false, true, true, true];
        ctl.seq = 0;
        ctl.fail_at = fail_at.to_vec();
    }
    let mut bad = Vec::new();
    // a stream with tracked expected content; None = unknown after a failed set_len
    struct Tracked {
        path: String,
        exp: Option<Vec<u8>>,
        cur: usize,
    }
    let retry = |f: &mut dyn FnMut() -> std::io::Result<()>| -> bool {
        for _ in 0..3 {
            if f().is_ok() {
                return true;
            }
        }
        false
    };
    let _ = retry(&mut || comp.create_storage("/d"));
    let mut plan: Vec<(&str, Vec<(u8, usize)>)> = vec![
        // (path, [(kind, size)]) kind: 0 write_all, 1 flush, 2 set_len, 3 seek start
        ("/a", vec![(0, 100), (1, 0), (0, 3000), (1, 0), (0, 2000), (1, 0), (2, 50), (1, 0), (2, 6000), (0, 10), (1, 0)]),
        ("/d/b", vec![(0, 5000), (1, 0), (3, 100), (0, 700), (1, 0), (2, 100), (1, 0)]),
        ("/d/c", vec![(0, 64), (0, 64), (1, 0), (2, 0), (0, 4096), (1, 0)]),
        // two large streams that are released below (with retry) so that later streams reuse their sectors
        ("/rel1", vec![(0, 4096), (1, 0)]),
        ("/rel2", vec![(0, 5000), (1, 0)]),
        ("/RELEASE", vec![]),
        // enough new data to drain the whole free list (4096 + 5000 bytes were released)
        ("/n1", vec![(0, 4096), (1, 0)]),
        ("/n2", vec![(0, 4096), (1, 0)]),
        ("/n3", vec![(0, 300), (1, 0)]),
        ("/n4", vec![(0, 4096), (1, 0)]),
        ("/n5", vec![(0, 5000), (1, 0)]),
    ];
    // content each stream had when its last flush returned Ok and its handle was dropped
    let mut finals: Vec<(String, Vec<u8>)> = Vec::new();
    let mut tag = 0u8;
    for (path, steps) in plan.drain(..) {
        if path == "/RELEASE" {
            // give the space back: truncate through a handle, remove by path; a failed call is retried
            let _ = retry(&mut || comp.open_stream("/rel1").and_then(|mut h| h.set_len(0)));
            let _ = retry(&mut || comp.remove_stream("/rel2"));
            finals.retain(|(p, _)| p != "/rel1" && p != "/rel2");
            continue;
        }
        let mut stream = None;
        for _ in 0..3 {
            match comp.create_stream(path) {
                Ok(s) => {
                    stream = Some(s);
                    break;
                }
                Err(_) => {}
            }
        }
        let mut s = match stream {
            Some(s) => s,
            None => continue,
        };
        let mut t = Tracked { path: path.to_string(), exp: Some(Vec::new()), cur: 0 };
        let mut clean = false; // last step was a flush that returned Ok
        for (kind, n) in steps {
            if kind != 1 {
                clean = false;
            }
            match kind {
                0 => {
                    tag = tag.wrapping_add(1);
                    let data: Vec<u8> = (0..n).map(|i| tag.wrapping_mul(31).wrapping_add(i as u8) | 1).collect();
                    let mut off = 0;
                    let mut errs = 0;
                    while off < data.len() && errs < 4 {
                        match s.write(&data[off..]) {
                            Ok(0) => break,
                            Ok(k) => {
                                if let Some(e) = t.exp.as_mut() {
                                    if e.len() < t.cur + k {
                                        e.resize(t.cur + k, 0);
                                    }
                                    e[t.cur..t.cur + k].copy_from_slice(&data[off..off + k]);
                                }
                                t.cur += k;
                                off += k;
                            }
                            Err(_) => errs += 1,
                        }
                    }
                }
                1 => {
                    let mut okf = false;
                    for _ in 0..4 {
                        if s.flush().is_ok() {
                            okf = true;
                            break;
                        }
                    }
                    clean = okf;
                    if okf {
                        if let Some(e) = &t.exp {
                            // a fresh handle must read back every accepted byte
                            match comp.open_stream(&t.path) {
                                Ok(mut fh) => {
                                    let mut got = Vec::new();
                                    match fh.read_to_end(&mut got) {
                                        Ok(_) => {
                                            if got != *e {
                                                let d = got.iter().zip(e.iter()).position(|(x, y)| x != y);
                                                bad.push(format!(
                                                    "{}: flush returned Ok but a fresh handle reads {} bytes (expected {}), first difference at {:?}",
                                                    t.path, got.len(), e.len(), d
                                                ));
                                            }
                                        }
                                        Err(_) => {}
                                    }
                                }
                                Err(_) => {}
                            }
                        }
                    }
                }
                2 => match s.set_len(n as u64) {
                    Ok(()) => {
                        if let Some(e) = t.exp.as_mut() {
                            e.resize(n, 0);
                        }
                        t.cur = t.cur.min(n);
                    }
                    Err(_) => {
                        // partially resized: content no longer specified
                        t.exp = None;
                        t.cur = s.stream_position().unwrap_or(0) as usize;
                    }
                },
                _ => {
                    if s.seek(SeekFrom::Start(n as u64)).is_ok() {
                        t.cur = n;
                    }
                }
            }
        }
        drop(s);
        if clean {
            if let Some(e) = t.exp.take() {
                finals.push((t.path.clone(), e));
            }
        }
    }
    // durable means durable: whatever was flushed successfully is still there after everything
    // that happened to OTHER streams since (releases, retries, reuse of freed sectors)
    for (p, e) in finals.iter() {
        if let Ok(mut fh) = comp.open_stream(p) {
            let mut got = Vec::new();
            if fh.read_to_end(&mut got).is_ok() && got != *e {
                let d = got.iter().zip(e.iter()).position(|(x, y)| x != y);
                bad.push(format!(
                    "{}: flushed successfully, but at the end of the workload a fresh handle reads {} bytes (expected {}), first difference at {:?}",
                    p, got.len(), e.len(), d
                ));
            }
        }
    }
    // a sibling tree in which the removed entry has two children and its in-order predecessor
    // is not its direct left sibling (and has a left sibling itself): a removal that fails
    // half-way must leave lookups, listings and the retried removal working
    let _ = retry(&mut || comp.create_storage("/t"));
    for n in ["MM", "DD", "TT", "HH", "FF", "GG"] {
        let p = format!("/t/{}", n);
        let _ = retry(&mut || comp.create_storage(&p));
    }
    for victim in ["MM", "HH"] {
        let p = format!("/t/{}", victim);
        let _ = retry(&mut || comp.remove_storage(&p));
        let mut present = 0;
        for n in ["AA", "DD", "EE", "FF", "GG", "HH", "II", "MM", "NN", "TT", "UU"] {
            if comp.exists(format!("/t/{}", n)) {
                present += 1;
            }
        }
        let listed = comp.read_storage("/t").map(|i| i.count()).unwrap_or(0);
        if listed != present && comp.exists("/t") {
            bad.push(format!("after removing {}: read_storage(/t) lists {} entries but {} of the names are found", p, listed, present));
        }
    }
    // structural operations after the streams are closed
    let _ = comp.create_storage_all("/x/y/z");
    let _ = comp.remove_stream("/d/b");
    let _ = comp.set_state_bits("/d", 3);
    let _ = comp.remove_storage_all("/x");
    let _ = comp.flush();
    let _ = comp.walk().count();
    let n = buf.ctl.lock().unwrap().seq;
    (n, bad)
}

pub fn writefaults(seed: u64, pairs: usize, shard: u64, nshards: u64) -> Report {
    let mut rep = Report::new();
    let mut rng = Rng::new(seed);
    // every hung run leaves a spinning thread behind and costs 20 s: three are proof enough
    let hangs = std::cell::Cell::new(0u32);
    for v in [Version::V3, Version::V4] {
        for &maxbuf in &[1024usize, 4096] {
            let (n, bad0) = write_workload(v, maxbuf, &[]);
            for b in bad0 {
                rep.fail(format!("writefaults {:?} maxbuf={} fault-free: {}", v, maxbuf, b));
            }
            rep.note("raw_calls_in_workload", n);
            let mut run = |ks: Vec<u64>, rep: &mut Report| {
                rep.evaluations += 1;
                rep.distinct.insert(format!("{:?}-{}-{:?}", v, maxbuf, ks));
                let ks2 = ks.clone();
                let (tx, rx) = std::sync::mpsc::channel();
                std::thread::spawn(move || {
                    let r = catch_unwind(AssertUnwindSafe(|| write_workload(v, maxbuf, &ks2)));
                    let _ = tx.send(r.map_err(|_| ()));
                });
                match rx.recv_timeout(std::time::Duration::from_secs(20)) {
                    Ok(Ok((_, bad))) => {
                        for b in bad {
                            rep.fail(format!("writefaults {:?} maxbuf={} fault at raw write/seek/flush call(s) {:?}: {}", v, maxbuf, ks, b));
                        }
                    }
                    Ok(Err(())) => rep.fail(format!("writefaults {:?} maxbuf={} fault at raw call(s) {:?}: PANIC", v, maxbuf, ks)),
                    Err(_) => {
                        hangs.set(hangs.get() + 1);
                        rep.fail(format!("writefaults {:?} maxbuf={} fault at raw call(s) {:?}: TIMEOUT (a call of the workload did not return within 20 s: hang)", v, maxbuf, ks))
                    }
                }
            };
            for k in 0..n {
                if k % nshards == shard && hangs.get() < 3 {
                    run(vec![k], &mut rep);
                }
            }
            for _ in 0..pairs {
                let a = rng.below(n);
                let b2 = rng.below(n);
                if hangs.get() < 3 {
                    run(vec![a, b2], &mut rep);
                }
            }
        }
    }
    rep.samples.push("workload: create_storage; 3 streams with write/flush/set_len/seek sequences crossing the 4096 cutoff (retry after each error; after every Ok flush a fresh handle must read back all accepted bytes); create_storage_all, remove_stream, set_state_bits, remove_storage_all, flush, walk; one injected write/seek/flush fault per run".into());
    rep
}

pub fn writefault_one(v3: bool, maxbuf: usize, k: u64) {
    let v = if v3 { Version::V3 } else { Version::V4 };
    let r = write_workload(v, maxbuf, &[k]);
    println!("{:?}", r);
}

// ---------------------------------------------------------------------------
// C18: the same history on different backends / chunkings / buffer sizes
// ---------------------------------------------------------------------------
struct FileBackend(std::fs::File);
impl Read for FileBackend {
    fn read(&mut self, b: &mut [u8]) -> std::io::Result<usize> { self.0.read(b) }
}
impl Write for FileBackend {
    fn write(&mut self, b: &[u8]) -> std::io::Result<usize> { self.0.write(b) }
    fn flush(&mut self) -> std::io::Result<()> { self.0.flush() }
}
impl Seek for FileBackend {
    fn seek(&mut self, p: SeekFrom) -> std::io::Result<u64> { self.0.seek(p) }
}

#[derive(Clone, Debug)]
enum COp {
    Storage(String),
    Put(String, Vec<u8>),
    Append(String, Vec<u8>),
    SetLen(String, u64),
    Remove(String),
    RemoveStorage(String),
    State(String, u32),
    /// one handle, no flush in between: (kind, amount) with kind 0 = read n bytes, 1 = seek to
    /// n from the start, 2 = seek back n from the current position, 3 = write n bytes
    Edit(String, Vec<(u8, usize)>),
}

fn gen_cops(rng: &mut Rng, n: usize) -> Vec<COp> {
    let mut ops = Vec::new();
    let mut streams: Vec<String> = Vec::new();
    let mut dirs: Vec<String> = vec!["".into()];
    let mut tag = 0u32;
    for i in 0..n {
        tag += 1;
        let sz = *rng.pick(SIZES);
        let data: Vec<u8> = (0..sz).map(|k| ((tag * 29 + k as u32 * 5 + (k as u32 >> 8)) % 255 + 1) as u8).collect();
        match rng.below(10) {
            0 | 1 => {
                let d = format!("{}/d{}", rng.pick(&dirs).clone(), i);
                dirs.push(d.clone());
                ops.push(COp::Storage(d));
            }
            2 | 3 | 4 => {
                let p = format!("{}/s{}", rng.pick(&dirs).clone(), i % 7);
                if !streams.contains(&p) {
                    streams.push(p.clone());
                }
                ops.push(COp::Put(p, data));
            }
            5 if !streams.is_empty() && rng.chance(1, 2) => {
                // read / seek back / overwrite a little / keep reading: windows of the handle's
                // buffer are entered, dirtied and left in every order
                let mut script = Vec::new();
                for _ in 0..(3 + rng.below(6)) {
                    script.push(match rng.below(8) {
                        0 | 1 | 2 => (0u8, *rng.pick(&[1usize, 10, 100, 700, 1024, 1500, 3000, 5000])),
                        3 => (1u8, *rng.pick(&[0usize, 1, 64, 500, 1000, 1024, 2000, 4096])),
                        4 | 5 => (2u8, *rng.pick(&[1usize, 5, 50, 300, 1000])),
                        _ => (3u8, *rng.pick(&[1usize, 3, 20, 100, 600])),
                    });
                }
                ops.push(COp::Edit(rng.pick(&streams).clone(), script));
            }
            5 if !streams.is_empty() => ops.push(COp::Append(rng.pick(&streams).clone(), data)),
            6 if !streams.is_empty() => ops.push(COp::SetLen(rng.pick(&streams).clone(), sz as u64)),
            7 if !streams.is_empty() => {
                let k = rng.below(streams.len() as u64) as usize;
                ops.push(COp::Remove(streams.remove(k)));
            }
            8 if dirs.len() > 1 => ops.push(COp::State(rng.pick(&dirs[1..]).clone(), i as u32)),
            _ => ops.push(COp::State("/".into(), i as u32)),
        }
    }
    let _ = COp::RemoveStorage(String::new());
    ops
}

fn run_cops<F: Read + Write + Seek>(comp: &mut CompoundFile<F>, ops: &[COp]) -> Vec<String> {
    let mut log = Vec::new();
    for op in ops {
        if let COp::Edit(p, script) = op {
            // every observation through the handle goes into the log
            let mut line = String::from("edit");
            match comp.open_stream(p) {
                Err(e) => line.push_str(&format!(":err:{:?}", e.kind())),
                Ok(mut s) => {
                    for (k, (kind, n)) in script.iter().enumerate() {
                        match kind {
                            0 => {
                                // read exactly n bytes or to the end, looping over short counts
                                let mut got = Vec::new();
                                let mut tmp = vec![0u8; *n];
                                while got.len() < *n {
                                    match s.read(&mut tmp[..*n - got.len()]) {
                                        Ok(0) => break,
                                        Ok(c) => got.extend_from_slice(&tmp[..c]),
                                        Err(e) => {
                                            line.push_str(&format!(":rerr:{:?}", e.kind()));
                                            break;
                                        }
                                    }
                                }
                                line.push_str(&format!(":r{}={:x}", got.len(), fnv(&got)));
                            }
                            1 => line.push_str(&format!(":s{:?}", s.seek(SeekFrom::Start(*n as u64)).map_err(|e| e.kind()))),
                            2 => line.push_str(&format!(":b{:?}", s.seek(SeekFrom::Current(-(*n as i64))).map_err(|e| e.kind()))),
                            _ => {
                                let data: Vec<u8> = (0..*n).map(|j| (0xA0 + ((j + k) % 64)) as u8).collect();
                                line.push_str(&format!(":w{:?}", s.write_all(&data).map_err(|e| e.kind())));
                            }
                        }
                    }
                    line.push_str(&format!(":pos{:?}:len{}", s.stream_position().ok(), s.len()));
                }
            }
            log.push(line);
            continue;
        }
        let r: std::io::Result<()> = (|| match op {
            COp::Storage(p) => comp.create_storage(p),
            COp::Put(p, d) => {
                let mut s = comp.create_stream(p)?;
                s.write_all(d)?;
                s.flush()
            }
            COp::Append(p, d) => {
                let mut s = comp.open_stream(p)?;
                s.seek(SeekFrom::End(0))?;
                s.write_all(d)?;
                s.flush()
            }
            COp::SetLen(p, n) => {
                let mut s = comp.open_stream(p)?;
                s.set_len(*n)
            }
            COp::Remove(p) => comp.remove_stream(p),
            COp::RemoveStorage(p) => comp.remove_storage(p),
            COp::State(p, b) => comp.set_state_bits(p, *b),
            COp::Edit(..) => Ok(()),
        })();
        log.push(match r {
            Ok(()) => "ok".to_string(),
            Err(e) => format!("err:{:?}", e.kind()),
        });
    }
    // logical dump
    let entries: Vec<cfb::Entry> = comp.walk().collect();
    for e in entries {
        // the root entry's length is the size of the mini stream: layout, not content
        let len = if e.is_root() { 0 } else { e.len() };
        let mut line = format!("{}:{}:{}", e.path().display(), len, e.state_bits());
        if e.is_stream() {
            let mut v = Vec::new();
            if let Ok(mut s) = comp.open_stream(e.path()) {
                let _ = s.read_to_end(&mut v);
            }
            line.push_str(&format!(":{:x}", fnv(&v)));
        }
        log.push(line);
    }
    log
}

pub fn configs(seed: u64, count: usize) -> Report {
    let mut rep = Report::new();
    let mut master = Rng::new(seed);
    let dir = std::path::PathBuf::from(std::env::var("CFBH_TMP").unwrap_or_else(|_| "/verif/work/tmp".into()));
    let _ = std::fs::create_dir_all(&dir);
    for i in 0..count {
        let mut rng = master.fork();
        let nops = 12 + rng.below(20) as usize;
        let ops = gen_cops(&mut rng, nops);
        rep.distinct.insert(format!("{:?}", ops.iter().map(|o| format!("{:?}", o).chars().take(24).collect::<String>()).collect::<Vec<_>>()));
        if rep.samples.len() < 2 {
            rep.samples.push(ops.iter().take(8).map(|o| format!("{:?}", o).chars().take(40).collect::<String>()).collect::<Vec<_>>().join("; "));
        }
        let mut logical: Option<Vec<String>> = None;
        for v in [Version::V3, Version::V4] {
            cfb::verif::verif_clock_set(Some(132_000_000_000_000_000));
            let mut reference: Option<(Vec<u8>, Vec<String>)> = None;
            // configurations: (label, chunk seed, maxbuf, use a real file, repeat)
            // the first five share one buffer size: results AND bytes must be identical (repeat
            // run, chunking backends, real file); the last three vary the buffer size: the
            // logical results must be identical, the layout may differ
            let cfgs: [(&str, Option<u64>, usize, bool); 8] = [
                ("memory", None, 4096, false),
                ("memory-again", None, 4096, false),
                ("chunked-a", Some(11), 4096, false),
                ("chunked-b", Some(9999 + i as u64), 4096, false),
                ("file", None, 4096, true),
                ("memory-buf1", None, 1, false),
                ("memory-buf1500", None, 1500, false),
                ("memory-buf1M", None, 1 << 20, false),
            ];
            for (label, chunk, maxbuf, on_file) in cfgs.iter() {
                rep.evaluations += 1;
                let (bytes, log) = if *on_file {
                    let path = dir.join(format!("cfbh-c18-{}-{}-{}.cfb", std::process::id(), seed, i));
                    let f = std::fs::OpenOptions::new().read(true).write(true).create(true).truncate(true).open(&path).unwrap();
                    let c0 = CompoundFile::create_with_version(v, FileBackend(f)).unwrap();
                    drop(c0);
                    let f = std::fs::OpenOptions::new().read(true).write(true).open(&path).unwrap();
                    let mut comp = cfb::OpenOptions::new().max_buffer_size(*maxbuf).open_with(FileBackend(f)).unwrap();
                    let log = run_cops(&mut comp, &ops);
                    let _ = comp.flush();
                    drop(comp);
                    let bytes = std::fs::read(&path).unwrap();
                    let _ = std::fs::remove_file(&path);
                    (bytes, log)
                } else {
                    let buf = SharedBuf::new(Vec::new());
                    let c0 = CompoundFile::create_with_version(v, buf.clone()).unwrap();
                    drop(c0);
                    if let Some(cs) = chunk {
                        buf.ctl.lock().unwrap().chunk = Some(Rng::new(*cs));
                    }
                    let mut comp = cfb::OpenOptions::new().max_buffer_size(*maxbuf).open_with(buf.clone()).unwrap();
                    let log = run_cops(&mut comp, &ops);
                    (buf.snapshot(), log)
                };
                match &reference {
                    None => reference = Some((bytes, log.clone())),
                    Some((rb, rl)) => {
                        if *rl != log {
                            let d = rl.iter().zip(log.iter()).position(|(a, b)| a != b);
                            rep.fail(format!("configs seed={} case={} {:?} config={}: observable results differ from the in-memory run at item {:?}: {:?} vs {:?}", seed, i, v, label, d, d.map(|k| rl[k].clone()), d.map(|k| log[k].clone())));
                        } else if *maxbuf == 4096 && *rb != bytes {
                            let d = rb.iter().zip(bytes.iter()).position(|(a, b)| a != b);
                            rep.fail(format!("configs seed={} case={} {:?} config={}: file bytes differ from the in-memory run (lengths {} / {}, first difference at {:?})", seed, i, v, label, rb.len(), bytes.len(), d));
                        }
                    }
                }
                if *label == "memory" {
                    // logical outcome must not depend on the version either
                    match &logical {
                        None => logical = Some(log),
                        Some(l) => {
                            if *l != log {
                                rep.fail(format!("configs seed={} case={}: logical results differ between V3 and V4", seed, i));
                            }
                        }
                    }
                }
            }
        }
    }
    cfb::verif::verif_clock_set(None);
    rep
}

// ---------------------------------------------------------------------------
// C17: clock bracket for creation stamps and touch (clock hook off)
// ---------------------------------------------------------------------------
pub fn meta_clock(_seed: u64, count: usize) -> Report {
    let mut rep = Report::new();
    cfb::verif::verif_clock_set(None);
    for i in 0..count {
        let (_b, mut c) = fresh(if i % 2 == 0 { Version::V3 } else { Version::V4 }, 4096);
        let before = web_time::SystemTime::now();
        c.create_storage("/d").unwrap();
        let after = web_time::SystemTime::now();
        let e = c.entry("/d").unwrap();
        rep.evaluations += 1;
        rep.distinct.insert(format!("{}", i));
        // stored at 100 ns resolution rounded toward the epoch: allow that much below `before`
        let slack = std::time::Duration::from_nanos(100);
        if e.created() + slack < before || e.created() > after || e.modified() + slack < before || e.modified() > after {
            rep.fail(format!("meta: creation stamp {:?} not within [{:?}, {:?}]", e.created(), before, after));
        }
        drop(c.create_stream("/s").unwrap());
        let es = c.entry("/s").unwrap();
        if es.created() != web_time::SystemTime::UNIX_EPOCH - std::time::Duration::from_secs(11_644_473_600)
            || !es.clsid().is_nil()
        {
            rep.fail("meta: a new stream reports a CLSID or non-zero times".into());
        }
        let b2 = web_time::SystemTime::now();
        c.touch("/d").unwrap();
        let a2 = web_time::SystemTime::now();
        let m = c.entry("/d").unwrap().modified();
        if m + slack < b2 || m > a2 {
            rep.fail(format!("meta: touch stamp {:?} not within [{:?}, {:?}]", m, b2, a2));
        }
        c.touch("/s").unwrap();
        if c.entry("/s").unwrap().modified() != es.modified() {
            rep.fail("meta: touch changed a stream's modified time".into());
        }
        if c.touch("/nope").map_err(|e| e.kind()) != Err(std::io::ErrorKind::NotFound) {
            rep.fail("meta: touch on a missing path is not NotFound".into());
        }
    }
    rep.samples.push("create_storage / touch bracketed by SystemTime::now() with the clock hook off".into());
    meta_faults(&mut rep);
    rep
}

/// C17 "at any point of a history": a metadata setter whose directory-entry write fails
/// half-way, followed by successful setters.  Whatever the LAST setter that returned Ok stored
/// is what lookups report and what the reopened bytes hold.
fn meta_faults(rep: &mut Report) {
    let t0 = web_time::SystemTime::UNIX_EPOCH + std::time::Duration::from_secs(1_000_000_000);
    let t1 = web_time::SystemTime::UNIX_EPOCH + std::time::Duration::from_secs(1_500_000_000);
    let ca = uuid::Uuid::from_u128(0x1111_2222_3333_4444_5555_6666_7777_8888);
    let cb = uuid::Uuid::from_u128(0xAAAA_BBBB_CCCC_DDDD_EEEE_FFFF_0123_4567);
    // (label, path, apply(value index 0 = old / 1 = new), read back)
    type Setter = fn(&mut CompoundFile<SharedBuf>, &str, usize) -> std::io::Result<()>;
    type Getter = fn(&cfb::Entry) -> String;
    let t = (t0, t1, ca, cb);
    let _ = t;
    fn set_clsid(c: &mut CompoundFile<SharedBuf>, p: &str, i: usize) -> std::io::Result<()> {
        c.set_storage_clsid(p, uuid::Uuid::from_u128(if i == 0 { 0x1111_2222_3333_4444_5555_6666_7777_8888 } else { 0xAAAA_BBBB_CCCC_DDDD_EEEE_FFFF_0123_4567 }))
    }
    fn set_bits(c: &mut CompoundFile<SharedBuf>, p: &str, i: usize) -> std::io::Result<()> {
        c.set_state_bits(p, if i == 0 { 0x0102_0304 } else { 0xF1F2_F3F4 })
    }
    fn set_ct(c: &mut CompoundFile<SharedBuf>, p: &str, i: usize) -> std::io::Result<()> {
        c.set_created_time(p, web_time::SystemTime::UNIX_EPOCH + std::time::Duration::from_secs(if i == 0 { 1_000_000_000 } else { 1_500_000_000 }))
    }
    fn set_mt(c: &mut CompoundFile<SharedBuf>, p: &str, i: usize) -> std::io::Result<()> {
        c.set_modified_time(p, web_time::SystemTime::UNIX_EPOCH + std::time::Duration::from_secs(if i == 0 { 1_100_000_000 } else { 1_600_000_000 }))
    }
    fn get_clsid(e: &cfb::Entry) -> String { format!("{:032x}", e.clsid().as_u128()) }
    fn get_bits(e: &cfb::Entry) -> String { format!("{:08x}", e.state_bits()) }
    fn get_ct(e: &cfb::Entry) -> String { format!("{:?}", e.created()) }
    fn get_mt(e: &cfb::Entry) -> String { format!("{:?}", e.modified()) }
    let setters: Vec<(&str, &str, Setter, Getter)> = vec![
        ("set_storage_clsid on a storage", "/d", set_clsid, get_clsid),
        ("set_storage_clsid on the root", "/", set_clsid, get_clsid),
        ("set_state_bits on a storage", "/d", set_bits, get_bits),
        ("set_state_bits on a stream", "/d/s", set_bits, get_bits),
        ("set_state_bits on the root", "/", set_bits, get_bits),
        ("set_created_time on a storage", "/d", set_ct, get_ct),
        ("set_modified_time on a storage", "/d", set_mt, get_mt),
    ];
    for v in [Version::V3, Version::V4] {
        for (label, path, set, get) in setters.iter() {
            // follow-ups after the faulty call: re-set the old value, retry the new value, or both
            for follow in [&[0usize][..], &[1][..], &[0, 1][..], &[1, 0][..]] {
                let mut k = 0u64;
                loop {
                    let (buf, mut c) = fresh(v, 4096);
                    c.create_storage("/d").unwrap();
                    c.create_stream("/d/s").unwrap().write_all(&[5u8; 300]).unwrap();
                    c.create_storage("/e").unwrap();
                    set(&mut c, path, 0).unwrap();
                    c.flush().unwrap();
                    let mut expected = get(&c.entry(path).unwrap());
                    {
                        let mut ctl = buf.ctl.lock().unwrap();
                        ctl.fail_kinds = [false, true, true, true];
                        ctl.seq = 0;
                        ctl.fail_at = vec![k];
                        ctl.injected = 0;
                    }
                    let r1 = set(&mut c, path, 1);
                    let injected = buf.ctl.lock().unwrap().injected;
                    {
                        let mut ctl = buf.ctl.lock().unwrap();
                        ctl.fail_kinds = [false; 4];
                        ctl.fail_at.clear();
                    }
                    let mut history = format!("{:?} {} (new value) with raw write/seek call {} failing -> {}", v, label, k, if r1.is_ok() { "Ok" } else { "Err" });
                    let mut last_ok: Option<String> = None;
                    if r1.is_ok() {
                        last_ok = Some(get(&c.entry(path).unwrap()));
                    }
                    for &i in follow.iter() {
                        let r = set(&mut c, path, i);
                        history.push_str(&format!("; then the setter with the {} value -> {}", if i == 0 { "old" } else { "new" }, if r.is_ok() { "Ok" } else { "Err" }));
                        if r.is_ok() {
                            last_ok = Some(get(&c.entry(path).unwrap()));
                        }
                    }
                    rep.evaluations += 1;
                    rep.distinct.insert(format!("{:?}-{}-{:?}-{}", v, label, follow, k));
                    if let Some(val) = last_ok {
                        expected = val;
                        let _ = c.flush();
                        let live = get(&c.entry(path).unwrap());
                        if live != expected {
                            rep.fail(format!("metafaults: {}: the live object reports {} instead of {}", history, live, expected));
                        }
                        drop(c);
                        for strict in [true, false] {
                            let b2 = SharedBuf::new(buf.snapshot());
                            let opened = if strict { CompoundFile::open_strict(b2) } else { CompoundFile::open(b2) };
                            match opened {
                                Ok(c2) => match c2.entry(path) {
                                    Ok(e) => {
                                        let got = get(&e);
                                        if got != expected {
                                            rep.fail(format!("metafaults: {}: after reopening ({}) {} reports {} instead of {}", history, if strict { "strict" } else { "permissive" }, path, got, expected));
                                        }
                                    }
                                    Err(e) => rep.fail(format!("metafaults: {}: after reopening, entry({}) fails: {}", history, path, e)),
                                },
                                Err(e) => {
                                    if !strict {
                                        rep.fail(format!("metafaults: {}: the bytes no longer reopen: {}", history, e));
                                    }
                                }
                            }
                        }
                    }
                    if injected == 0 || k > 200 {
                        break;
                    }
                    k += 1;
                }
            }
        }
    }
    rep.samples.push("metafaults: every setter x every raw write/seek position failing once, then old / new / old+new / new+old follow-ups; the last Ok setter decides what lookups and the reopened bytes show".into());
}

// ---------------------------------------------------------------------------
// C16: documented deviations injected into valid images
// ---------------------------------------------------------------------------
struct Parsed {
    sl: usize,
    fat_secs: Vec<u32>,
    fat: Vec<u32>,
    dir_secs: Vec<u32>,
    nsect: usize,
}

fn rd32(b: &[u8], off: usize) -> u32 {
    u32::from_le_bytes([b[off], b[off + 1], b[off + 2], b[off + 3]])
}
fn wr32(b: &mut [u8], off: usize, v: u32) {
    b[off..off + 4].copy_from_slice(&v.to_le_bytes());
}

fn parse_img(b: &[u8]) -> Parsed {
    let sl = if u16::from_le_bytes([b[26], b[27]]) == 3 { 512 } else { 4096 };
    let nsect = b.len() / sl - 1;
    let mut fat_secs = Vec::new();
    for i in 0..109 {
        let v = rd32(b, 76 + 4 * i);
        if v == 0xFFFF_FFFF {
            break;
        }
        fat_secs.push(v);
    }
    let mut fat = Vec::new();
    for &f in fat_secs.iter() {
        for i in 0..sl / 4 {
            fat.push(rd32(b, (f as usize + 1) * sl + 4 * i));
        }
    }
    let mut dir_secs = Vec::new();
    let mut cur = rd32(b, 48);
    while cur < 0xFFFF_FFFA && dir_secs.len() < nsect {
        dir_secs.push(cur);
        cur = fat[cur as usize];
    }
    Parsed { sl, fat_secs, fat, dir_secs, nsect }
}

impl Parsed {
    fn entry_off(&self, id: usize) -> usize {
        let per = self.sl / 128;
        (self.dir_secs[id / per] as usize + 1) * self.sl + (id % per) * 128
    }
    fn nentries(&self) -> usize {
        self.dir_secs.len() * (self.sl / 128)
    }
    fn fat_cell_off(&self, i: usize) -> usize {
        let per = self.sl / 4;
        (self.fat_secs[i / per] as usize + 1) * self.sl + 4 * (i % per)
    }
}

fn full_dump(bytes: &[u8], strict: bool) -> Result<Vec<String>, String> {
    let b = SharedBuf::new(bytes.to_vec());
    let r = catch_unwind(AssertUnwindSafe(|| {
        let mut oo = cfb::OpenOptions::new();
        if strict {
            oo = oo.strict();
        }
        let mut comp = oo.open_with(b).map_err(|e| format!("open: {}", e))?;
        let entries: Vec<cfb::Entry> = comp.walk().collect();
        let mut out = Vec::new();
        for e in entries {
            let mut line = format!(
                "{}|{}|{}|{:032x}|{}|{:?}|{:?}|{}",
                e.name(), e.path().display(), e.is_stream(), e.clsid().as_u128(), e.state_bits(), e.created(), e.modified(),
                if e.is_root() { 0 } else { e.len() }
            );
            if e.is_stream() {
                let mut v = Vec::new();
                comp.open_stream(e.path()).map_err(|x| x.to_string())?.read_to_end(&mut v).map_err(|x| format!("read {}: {}", e.path().display(), x))?;
                line.push_str(&format!("|{:x}", fnv(&v)));
            }
            out.push(line);
        }
        Ok::<Vec<String>, String>(out)
    }));
    match r {
        Ok(x) => x,
        Err(_) => Err("PANIC".into()),
    }
}

pub fn deviations(seed: u64, count: usize) -> Report {
    let mut rep = Report::new();
    let mut master = Rng::new(seed);
    for i in 0..count {
        let mut rng = master.fork();
        let v = if rng.chance(1, 2) { Version::V3 } else { Version::V4 };
        // a valid image with storages, mini streams and regular streams
        let (buf, mut c) = fresh(v, 4096);
        c.create_storage("/d").unwrap();
        c.create_storage("/d/e").unwrap();
        let nstreams = 2 + rng.below(5) as usize;
        for k in 0..nstreams {
            let p = match k % 3 { 0 => format!("/s{}", k), 1 => format!("/d/t{}", k), _ => format!("/d/e/u{}", k) };
            let n = *rng.pick(&[1usize, 64, 100, 700, 3000, 4096, 5000, 9000]);
            let mut s = c.create_stream(&p).unwrap();
            s.write_all(&(0..n).map(|j| (j * 5 + k) as u8 | 1).collect::<Vec<u8>>()).unwrap();
        }
        c.set_storage_clsid("/d", uuid::Uuid::from_u128(0x1234)).unwrap();
        drop(c);
        let clean = buf.snapshot();
        let want = match full_dump(&clean, true) {
            Ok(d) => d,
            Err(e) => {
                rep.fail(format!("deviations seed={} case={}: strict open rejects a file the library wrote: {}", seed, i, e));
                continue;
            }
        };
        let p = parse_img(&clean);
        // entries by type
        let mut streams = Vec::new();
        let mut storages = Vec::new();
        for id in 1..p.nentries() {
            match clean[p.entry_off(id) + 66] {
                2 => streams.push(id),
                1 => storages.push(id),
                _ => {}
            }
        }
        let mut devs: Vec<(&str, Box<dyn Fn(&mut Vec<u8>, &mut Rng) -> bool>)> = Vec::new();
        let pp = &p;
        devs.push(("zero-padded FAT", Box::new(move |b, _| {
            let mut any = false;
            for idx in pp.nsect..pp.fat.len() {
                if pp.fat[idx] == 0xFFFF_FFFF {
                    wr32(b, pp.fat_cell_off(idx), 0);
                    any = true;
                }
            }
            any
        })));
        devs.push(("FAT sector not marked in the FAT", Box::new(move |b, r| {
            let f = pp.fat_secs[r.below(pp.fat_secs.len() as u64) as usize] as usize;
            wr32(b, pp.fat_cell_off(f), *r.pick(&[0xFFFF_FFFEu32, 0xFFFF_FFFF]));
            true
        })));
        devs.push(("first DIFAT sector = FREE_SECTOR", Box::new(move |b, _| {
            wr32(b, 68, 0xFFFF_FFFF);
            true
        })));
        let st = streams.clone();
        devs.push(("CLSID on a stream", Box::new(move |b, r| {
            if st.is_empty() { return false; }
            let id = st[r.below(st.len() as u64) as usize];
            b[pp.entry_off(id) + 80 + r.below(16) as usize] = 0x5A;
            true
        })));
        let st = streams.clone();
        devs.push(("timestamps on a stream", Box::new(move |b, r| {
            if st.is_empty() { return false; }
            let id = st[r.below(st.len() as u64) as usize];
            b[pp.entry_off(id) + 100 + r.below(16) as usize] = 0x77;
            true
        })));
        let st = streams.clone();
        devs.push(("both timestamps on a stream", Box::new(move |b, r| {
            if st.is_empty() { return false; }
            let id = st[r.below(st.len() as u64) as usize];
            let off = pp.entry_off(id);
            b[off + 100 + r.below(8) as usize] = 0x31;
            b[off + 108 + r.below(8) as usize] = 0x32;
            true
        })));
        let st = streams.clone();
        devs.push(("CLSID and both timestamps on every stream", Box::new(move |b, _| {
            for &id in st.iter() {
                let off = pp.entry_off(id);
                for k in 80..116 {
                    if !(96..100).contains(&k) {
                        b[off + k] = 0x40 | (k as u8 & 0x1F);
                    }
                }
            }
            !st.is_empty()
        })));
        let sg = storages.clone();
        devs.push(("start sector and size on every storage", Box::new(move |b, _| {
            for &id in sg.iter() {
                wr32(b, pp.entry_off(id) + 116, 0xFFFF_FFFE);
                wr32(b, pp.entry_off(id) + 120, 4242);
            }
            !sg.is_empty()
        })));
        let sg = storages.clone();
        devs.push(("start sector / size on a storage", Box::new(move |b, r| {
            if sg.is_empty() { return false; }
            let id = sg[r.below(sg.len() as u64) as usize];
            if r.chance(1, 2) {
                wr32(b, pp.entry_off(id) + 116, *r.pick(&[0xFFFF_FFFEu32, 0xFFFF_FFFF, 7]));
            } else {
                wr32(b, pp.entry_off(id) + 120, 99);
            }
            true
        })));
        devs.push(("wrong root name", Box::new(move |b, _| {
            let off = pp.entry_off(0);
            b[off] = b'X';
            true
        })));
        let st = streams.clone();
        devs.push(("unterminated name", Box::new(move |b, r| {
            if st.is_empty() { return false; }
            let id = st[r.below(st.len() as u64) as usize];
            let off = pp.entry_off(id);
            let nl = u16::from_le_bytes([b[off + 64], b[off + 65]]) as usize;
            if nl < 2 { return false; }
            b[off + nl - 2] = b'q';
            true
        })));
        devs.push(("wrong FAT sector count in the header", Box::new(move |b, r| {
            let cur = rd32(b, 44);
            wr32(b, 44, if r.chance(1, 2) { cur + 1 + r.below(3) as u32 } else { cur.saturating_sub(1) });
            rd32(b, 44) != cur
        })));
        devs.push(("wrong DIFAT sector count in the header", Box::new(move |b, r| {
            wr32(b, 72, 1 + r.below(3) as u32);
            true
        })));
        devs.push(("wrong MiniFAT sector count in the header", Box::new(move |b, r| {
            let cur = rd32(b, 64);
            let nv = match r.below(3) { 0 => 0, 1 => cur + 1 + r.below(3) as u32, _ => cur.saturating_sub(1) };
            wr32(b, 64, nv);
            nv != cur
        })));
        devs.push(("non-zero directory sector count in version 3", Box::new(move |b, r| {
            if pp.sl != 512 { return false; }
            wr32(b, 40, 1 + r.below(5) as u32);
            true
        })));
        let all: Vec<usize> = (1..p.nentries()).filter(|&id| matches!(clean[p.entry_off(id) + 66], 1 | 2)).collect();
        let cl = clean.clone();
        devs.push(("adjacent red nodes", Box::new(move |b, _| {
            // find a node with a sibling link to another node; colour both red
            for &id in all.iter() {
                let off = pp.entry_off(id);
                for lo in [68usize, 72] {
                    let k = rd32(&cl, off + lo);
                    if k != 0xFFFF_FFFF && (k as usize) < pp.nentries() {
                        b[off + 67] = 0;
                        b[pp.entry_off(k as usize) + 67] = 0;
                        return true;
                    }
                }
            }
            false
        })));
        // singly, then one random combination
        let mut plans: Vec<Vec<usize>> = (0..devs.len()).map(|k| vec![k]).collect();
        let a = rng.below(devs.len() as u64) as usize;
        let b2 = rng.below(devs.len() as u64) as usize;
        let c3 = rng.below(devs.len() as u64) as usize;
        // each deviation at most once: applied twice, a counter deviation can undo itself
        let mut combo = vec![a, b2, c3];
        combo.sort();
        combo.dedup();
        plans.push(combo);
        for plan in plans {
            let mut img = clean.clone();
            let mut names = Vec::new();
            for &k in plan.iter() {
                if (devs[k].1)(&mut img, &mut rng) {
                    names.push(devs[k].0);
                }
            }
            if names.is_empty() || img == clean {
                continue;
            }
            rep.evaluations += 1;
            rep.distinct.insert(format!("{:?}-{:?}-{}", v, names, nstreams));
            if rep.samples.len() < 3 {
                rep.samples.push(format!("{:?} {} streams: {}", v, nstreams, names.join(" + ")));
            }
            match full_dump(&img, false) {
                Ok(got) => {
                    if got != want {
                        let d = got.iter().zip(want.iter()).position(|(x, y)| x != y);
                        rep.fail(format!("deviations seed={} case={} {:?} [{}]: permissive open exposes different content (entry {:?}: {:?} vs {:?}; {} vs {} entries)", seed, i, v, names.join(" + "), d, d.map(|k| got[k].clone()), d.map(|k| want[k].clone()), got.len(), want.len()));
                    }
                }
                Err(e) => rep.fail(format!("deviations seed={} case={} {:?} [{}]: permissive open/read fails: {}", seed, i, v, names.join(" + "), e)),
            }
            // "first DIFAT = FREE" is read as END_OF_CHAIN in both modes; every other deviation must be rejected by strict
            let strict_must_reject = names.iter().any(|n| *n != "first DIFAT sector = FREE_SECTOR");
            match full_dump(&img, true) {
                Ok(got) => {
                    if strict_must_reject {
                        rep.fail(format!("deviations seed={} case={} {:?} [{}]: strict open accepts the deviation", seed, i, v, names.join(" + ")));
                    } else if got != want {
                        rep.fail(format!("deviations seed={} case={} {:?} [{}]: strict open exposes different content", seed, i, v, names.join(" + ")));
                    }
                }
                Err(e) => {
                    if e == "PANIC" {
                        rep.fail(format!("deviations seed={} case={} {:?} [{}]: strict open panicked", seed, i, v, names.join(" + ")));
                    }
                }
            }
        }
    }
    if count > 0 {
        deviations_difat(seed, &mut rep);
    }
    rep
}

/// C16 on files that HAVE DIFAT sectors (more than 109 FAT sectors: a version 3 file above
/// 7 MB).  The small files of `deviations` never reach the DIFAT-sector branches of open; here
/// small streams and storages are written AFTER a large stream, so that they live in the part of
/// the file described by the LAST FAT sectors (those listed in DIFAT sectors).
pub fn deviations_difat(seed: u64, rep: &mut Report) {
    let mut rng = Rng::new(seed ^ 0xD1FA7);
    let extra_fat = *rng.pick(&[1usize, 2, 8, 20, 128]);
    let big = (109 + extra_fat - 1) * 128 * 512 + 512 * (1 + rng.below(60) as usize);
    let (buf, mut c) = fresh(Version::V3, 1 << 20);
    {
        let mut s = c.create_stream("/big").unwrap();
        let chunk: Vec<u8> = (0..65536usize).map(|j| (j * 7 + 3) as u8 | 1).collect();
        let mut left = big;
        while left > 0 {
            let n = left.min(chunk.len());
            s.write_all(&chunk[..n]).unwrap();
            left -= n;
        }
    }
    c.create_storage("/late").unwrap();
    c.set_storage_clsid("/late", uuid::Uuid::from_u128(0x77)).unwrap();
    for (k, n) in [100usize, 3000, 5000, 9000].iter().enumerate() {
        let mut s = c.create_stream(format!("/late/t{}", k)).unwrap();
        s.write_all(&(0..*n).map(|j| (j * 5 + k) as u8 | 1).collect::<Vec<u8>>()).unwrap();
    }
    drop(c);
    let clean = buf.snapshot();
    let want = match full_dump(&clean, true) {
        Ok(d) => d,
        Err(e) => {
            rep.fail(format!("deviations-difat seed={}: strict open rejects a {}-byte file the library wrote: {}", seed, clean.len(), e));
            return;
        }
    };
    let sl = 512usize;
    // the DIFAT chain and the full list of FAT sectors
    let mut difat_secs: Vec<u32> = Vec::new();
    let mut fat_secs: Vec<u32> = (0..109).map(|i| rd32(&clean, 76 + 4 * i)).filter(|&v| v != 0xFFFF_FFFF).collect();
    let mut cur = rd32(&clean, 68);
    while cur < 0xFFFF_FFFA && difat_secs.len() < 1000 {
        difat_secs.push(cur);
        let off = (cur as usize + 1) * sl;
        for i in 0..127 {
            let v = rd32(&clean, off + 4 * i);
            if v != 0xFFFF_FFFF {
                fat_secs.push(v);
            }
        }
        cur = rd32(&clean, off + 508);
    }
    if difat_secs.is_empty() {
        rep.fail(format!("deviations-difat seed={}: the base file has no DIFAT sector ({} FAT sectors)", seed, fat_secs.len()));
        return;
    }
    let nfat = fat_secs.len() as u32;
    let ndifat = difat_secs.len() as u32;
    let fat_cell = |i: usize| (fat_secs[i / 128] as usize + 1) * sl + 4 * (i % 128);
    let last_difat_off = (*difat_secs.last().unwrap() as usize + 1) * sl;
    let mut plans: Vec<(String, Box<dyn Fn(&mut Vec<u8>)>, bool)> = Vec::new();
    for nv in [nfat + 1, nfat + 5, nfat - 1, nfat - 3, 109, 1, 0] {
        plans.push((format!("FAT sector count in the header {} instead of {}", nv, nfat), Box::new(move |b| wr32(b, 44, nv)), true));
    }
    for nv in [0u32, ndifat + 1, ndifat + 7] {
        plans.push((format!("DIFAT sector count in the header {} instead of {}", nv, ndifat), Box::new(move |b| wr32(b, 72, nv)), true));
    }
    plans.push(("zero-padded last DIFAT sector".to_string(), Box::new(move |b| {
        for i in 0..127 {
            if rd32(b, last_difat_off + 4 * i) == 0xFFFF_FFFF {
                wr32(b, last_difat_off + 4 * i, 0);
            }
        }
    }), true));
    plans.push(("DIFAT chain ended by FREE_SECTOR".to_string(), Box::new(move |b| wr32(b, last_difat_off + 508, 0xFFFF_FFFF)), false));
    for (k, &d) in difat_secs.iter().enumerate().take(2) {
        let off = fat_cell(d as usize);
        for mark in [0xFFFF_FFFEu32, 0xFFFF_FFFF] {
            plans.push((format!("DIFAT sector #{} marked {:#x} in the FAT", k, mark), Box::new(move |b| wr32(b, off, mark)), true));
        }
    }
    {
        let f = *fat_secs.last().unwrap() as usize;
        let off = fat_cell(f);
        plans.push(("last FAT sector (listed in a DIFAT sector) not marked in the FAT".to_string(), Box::new(move |b| wr32(b, off, 0xFFFF_FFFE)), true));
    }
    {
        let nsect = clean.len() / sl - 1;
        let total = fat_secs.len() * 128;
        let offs: Vec<usize> = (nsect..total).map(fat_cell).collect();
        if !offs.is_empty() {
            plans.push(("zero-padded FAT".to_string(), Box::new(move |b| { for &o in offs.iter() { wr32(b, o, 0); } }), true));
        }
    }
    // singly, then all header-count deviations combined with the padding
    let n = plans.len();
    let mut runs: Vec<Vec<usize>> = (0..n).map(|k| vec![k]).collect();
    runs.push(vec![2, 8, 10]);
    for plan in runs {
        let mut img = clean.clone();
        let mut names = Vec::new();
        let mut strict_must_reject = false;
        for &k in plan.iter() {
            (plans[k].1)(&mut img);
            names.push(plans[k].0.clone());
            strict_must_reject |= plans[k].2;
        }
        if img == clean {
            continue;
        }
        rep.evaluations += 1;
        rep.distinct.insert(format!("difat-{}-{:?}", nfat, names));
        match full_dump(&img, false) {
            Ok(got) => {
                if got != want {
                    let d = got.iter().zip(want.iter()).position(|(x, y)| x != y);
                    rep.fail(format!("deviations-difat seed={} [V3 file of {} bytes, {} FAT sectors, {} DIFAT sectors; {}]: permissive open exposes different content (entry {:?}: {:?} vs {:?}; {} vs {} entries)", seed, clean.len(), nfat, ndifat, names.join(" + "), d, d.map(|k| got[k].clone()), d.map(|k| want[k].clone()), got.len(), want.len()));
                }
            }
            Err(e) => rep.fail(format!("deviations-difat seed={} [V3 file of {} bytes, {} FAT sectors, {} DIFAT sectors; {}]: permissive open/read fails: {}", seed, clean.len(), nfat, ndifat, names.join(" + "), e)),
        }
        match full_dump(&img, true) {
            Ok(got) => {
                if strict_must_reject {
                    rep.fail(format!("deviations-difat seed={} [{} FAT sectors; {}]: strict open accepts the deviation", seed, nfat, names.join(" + ")));
                } else if got != want {
                    rep.fail(format!("deviations-difat seed={} [{} FAT sectors; {}]: strict open exposes different content", seed, nfat, names.join(" + ")));
                }
            }
            Err(e) => {
                if e == "PANIC" {
                    rep.fail(format!("deviations-difat seed={} [{} FAT sectors; {}]: strict open panicked", seed, nfat, names.join(" + ")));
                }
            }
        }
    }
    rep.note("difat_base_fat_sectors", nfat as u64);
}

pub fn cycle_debug() {
    let v = Version::V3;
    let (buf, mut c) = fresh(v, 4096);
    {
        let mut s = c.create_stream("/p0").unwrap();
        s.write_all(&[5u8; 1]).unwrap();
    }
    {
        let mut s = c.create_stream("/keep").unwrap();
        s.write_all(&vec![3u8; 100]).unwrap();
    }
    let keep_len = 100u64;
    for rep in 0..6 {
        {
            let mut s = c.create_stream("/t0").unwrap();
            s.write_all(&[9u8; 1]).unwrap();
        }
        {
            let mut s = c.open_stream("/keep").unwrap();
            s.write_all(&vec![6u8; 5000]).unwrap();
        }
        {
            let mut s = c.open_stream("/keep").unwrap();
            s.set_len(keep_len).unwrap();
            s.seek(SeekFrom::Start(0)).unwrap();
            s.write_all(&vec![3u8; keep_len as usize]).unwrap();
        }
        {
            let mut s = c.open_stream("/keep").unwrap();
            s.set_len(6000).unwrap();
            s.set_len(keep_len).unwrap();
        }
        c.remove_stream("/t0").unwrap();
        let b = buf.snapshot();
        let p = parse_img(&b);
        let free = p.fat.iter().take(p.nsect).filter(|&&x| x == 0xFFFF_FFFF).count();
        let root_off = p.entry_off(0);
        let root_start = rd32(&b, root_off + 116);
        let root_len = rd32(&b, root_off + 120);
        let mut ms_chain = 0;
        let mut cur = root_start;
        while cur < 0xFFFF_FFFA && ms_chain < 1000 {
            ms_chain += 1;
            cur = p.fat[cur as usize];
        }
        let mut mf_chain = 0;
        let mut cur = rd32(&b, 60);
        while cur < 0xFFFF_FFFA && mf_chain < 1000 {
            mf_chain += 1;
            cur = p.fat[cur as usize];
        }
        println!("rep {} len={} nsect={} free_fat_cells={} root_len={} mini_stream_chain={} minifat_chain={} dir_secs={}", rep, b.len(), p.nsect, free, root_len, ms_chain, mf_chain, p.dir_secs.len());
    }
}

// ---------------------------------------------------------------------------
// C13: "a successful flush means durable" — a fault inside the write-back itself
// ---------------------------------------------------------------------------
/// The file is consistent (everything before ran without faults).  One handle writes, then
/// flush() runs with a fault at its k-th raw write / seek / flush call, for every k; the fault is
/// removed and flush() is retried.  If the retry returns Ok, the bytes alone — reopened — must
/// hold the stream with exactly the accepted content.
pub fn flush_durability(shard: u64, nshards: u64) -> Report {
    let mut rep = Report::new();
    // (label, existing content, seek to end?, bytes to write)
    let scenarios: Vec<(&str, usize, bool, usize)> = vec![
        ("first write of a new small stream", 0, false, 300),
        ("first write of a new large stream", 0, false, 6000),
        ("append to a small stream", 100, true, 200),
        ("append to a large stream", 5000, true, 3000),
        ("append that migrates a small stream", 4000, true, 500),
        ("overwrite inside a large stream", 9000, false, 1000),
        ("overwrite inside a small stream", 2000, false, 500),
    ];
    let mut idx = 0u64;
    for v in [Version::V3, Version::V4] {
        for (label, existing, at_end, nwrite) in scenarios.iter() {
            for with_other in [false, true] {
                // count the raw calls of a fault-free flush first
                let run = |fail_at: Option<u64>| -> (u64, Option<String>) {
                    let buf = SharedBuf::new(Vec::new());
                    let mut c = CompoundFile::create_with_version(v, buf.clone()).unwrap();
                    if with_other {
                        // another small stream, so that the MiniFAT and the mini stream already exist
                        c.create_stream("/other").unwrap().write_all(&[8u8; 150]).unwrap();
                    }
                    let mut expected: Vec<u8> = (0..*existing).map(|i| (i % 251) as u8 | 1).collect();
                    {
                        let mut s = c.create_stream("/s").unwrap();
                        s.write_all(&expected).unwrap();
                        s.flush().unwrap();
                    }
                    let mut s = c.open_stream("/s").unwrap();
                    if *at_end {
                        s.seek(SeekFrom::End(0)).unwrap();
                    }
                    let data: Vec<u8> = (0..*nwrite).map(|i| 0x80 | (i % 120) as u8).collect();
                    let pos = s.stream_position().unwrap() as usize;
                    s.write_all(&data).unwrap();
                    if expected.len() < pos + data.len() {
                        expected.resize(pos + data.len(), 0);
                    }
                    expected[pos..pos + data.len()].copy_from_slice(&data);
                    {
                        let mut ctl = buf.ctl.lock().unwrap();
                        ctl.fail_kinds = [false, true, true, true];
                        ctl.seq = 0;
                        ctl.fail_at = fail_at.into_iter().collect();
                    }
                    let first = s.flush();
                    let n = buf.ctl.lock().unwrap().seq;
                    buf.ctl.lock().unwrap().fail_at.clear();
                    let mut ok = first.is_ok();
                    if !ok {
                        for _ in 0..3 {
                            if s.flush().is_ok() {
                                ok = true;
                                break;
                            }
                        }
                    }
                    if !ok {
                        return (n, None); // the retry is allowed to keep failing
                    }
                    let snap = buf.snapshot();
                    let problem = match CompoundFile::open(std::io::Cursor::new(snap)) {
                        Err(e) => Some(format!("the bytes no longer reopen: {}", e)),
                        Ok(mut c2) => match c2.open_stream("/s") {
                            Err(e) => Some(format!("the reopened file does not have the stream: {}", e)),
                            Ok(mut fh) => {
                                let mut got = Vec::new();
                                match fh.read_to_end(&mut got) {
                                    Err(e) => Some(format!("the reopened stream cannot be read: {}", e)),
                                    Ok(_) if got != expected => {
                                        let d = got.iter().zip(expected.iter()).position(|(a, b)| a != b);
                                        Some(format!("the reopened stream holds {} bytes (expected {}), first difference at {:?}", got.len(), expected.len(), d))
                                    }
                                    Ok(_) => None,
                                }
                            }
                        },
                    };
                    (n, problem)
                };
                let (n, p0) = run(None);
                if let Some(p) = p0 {
                    rep.fail(format!("flushdur {:?} {} other={} without faults: {}", v, label, with_other, p));
                }
                for k in 0..n {
                    idx += 1;
                    if idx % nshards != shard {
                        continue;
                    }
                    rep.evaluations += 1;
                    rep.distinct.insert(format!("{:?}-{}-{}-{}", v, label, with_other, k));
                    match catch_unwind(AssertUnwindSafe(|| run(Some(k)))) {
                        Ok((_, Some(p))) => rep.fail(format!("flushdur {:?} {} other={} fault at raw call {} of flush(), retry returned Ok: {}", v, label, with_other, k, p)),
                        Ok((_, None)) => {}
                        Err(_) => rep.fail(format!("flushdur {:?} {} other={} fault at raw call {} of flush(): PANIC", v, label, with_other, k)),
                    }
                }
            }
        }
    }
    rep.samples.push("consistent file; one handle writes; flush() with a fault at each of its raw write/seek/flush calls; retry; if Ok the reopened bytes must hold the content".into());
    rep
}
