//! Property-specific oracles applied directly to the real crate.  Each command
//! prints one JSON object: evaluations, distinct, failures (each a replayable
//! description), samples.

use std::collections::HashSet;
use std::io::{BufRead, Read, Seek, SeekFrom, Write};
use std::panic::{catch_unwind, AssertUnwindSafe};

use cfb::{CompoundFile, Version};

use crate::backend::SharedBuf;
use crate::gen::SIZES;
use crate::rng::Rng;

pub struct Report {
    pub evaluations: u64,
    pub distinct: HashSet<String>,
    pub failures: Vec<String>,
    pub samples: Vec<String>,
    pub notes: Vec<(String, u64)>,
}

impl Report {
    pub fn new() -> Report {
        Report {
            evaluations: 0,
            distinct: HashSet::new(),
            failures: Vec::new(),
            samples: Vec::new(),
            notes: Vec::new(),
        }
    }
    pub fn fail(&mut self, s: String) {
        if self.failures.len() < 50 {
            self.failures.push(s);
        }
    }
    pub fn note(&mut self, k: &str, v: u64) {
        if let Some(e) = self.notes.iter_mut().find(|(n, _)| n == k) {
            e.1 += v;
        } else {
            self.notes.push((k.to_string(), v));
        }
    }
    pub fn print(&self) {
        fn esc(s: &str) -> String {
            let mut o = String::new();
            for c in s.chars() {
                match c {
                    '"' => o.push_str("\\\""),
                    '\\' => o.push_str("\\\\"),
                    '\n' => o.push_str("\\n"),
                    c if (c as u32) < 0x20 => o.push_str(&format!("\\u{:04x}", c as u32)),
                    c => o.push(c),
                }
            }
            o
        }
        let f: Vec<String> = self.failures.iter().map(|s| format!("\"{}\"", esc(s))).collect();
        let s: Vec<String> = self.samples.iter().take(3).map(|s| format!("\"{}\"", esc(s))).collect();
        let n: Vec<String> = self.notes.iter().map(|(k, v)| format!("\"{}\": {}", esc(k), v)).collect();
        println!(
            "{{\"evaluations\": {}, \"distinct\": {}, \"failures\": [{}], \"samples\": [{}], \"notes\": {{{}}}}}",
            self.evaluations,
            self.distinct.len(),
            f.join(", "),
            s.join(", "),
            n.join(", ")
        );
    }
}

fn fresh(v: Version, maxbuf: usize) -> (SharedBuf, CompoundFile<SharedBuf>) {
    let buf = SharedBuf::new(Vec::new());
    let c = CompoundFile::create_with_version(v, buf.clone()).unwrap();
    drop(c);
    let c = cfb::OpenOptions::new().max_buffer_size(maxbuf).open_with(buf.clone()).unwrap();
    (buf, c)
}

// ---------------------------------------------------------------------------
// C06 / C08: the Read / Write / BufRead / Seek contract against a byte vector
// ---------------------------------------------------------------------------
#[derive(Clone, Debug)]
enum HOp {
    Read(usize),
    Fill,
    Consume(usize),
    Write(Vec<u8>),
    Seek(u8, i128),
    SetLen(u64),
    Flush,
    // looping forms
    ReadExact(usize),
    WriteAll(Vec<u8>),
    ReadToEnd,
}

fn gen_hops(rng: &mut Rng, n: usize, looping_only: bool) -> Vec<HOp> {
    let mut ops = Vec::new();
    let mut tag = 0u32;
    let mut approx_len: u64 = 0;
    for _ in 0..n {
        let sz = if rng.chance(1, 5) { rng.below(7000) as usize } else { *rng.pick(SIZES) };
        let mut data = |k: usize| {
            tag += 1;
            (0..k).map(|i| ((tag * 41 + i as u32 * 3 + (i as u32 >> 7)) % 255 + 1) as u8).collect::<Vec<u8>>()
        };
        let r = rng.below(100);
        let op = if looping_only {
            match r {
                0..=34 => HOp::WriteAll(data(sz)),
                35..=54 => HOp::ReadExact(sz.min(approx_len as usize + 3)),
                55..=64 => HOp::ReadToEnd,
                65..=84 => HOp::Seek(0, rng.below(approx_len + 2) as i128),
                85..=94 => HOp::SetLen(if rng.chance(1, 2) { rng.below(approx_len + 100) } else { sz as u64 }),
                _ => HOp::Flush,
            }
        } else {
            match r {
                0..=24 => HOp::Write(data(sz)),
                25..=44 => HOp::Read(sz),
                45..=50 => HOp::Fill,
                51..=56 => HOp::Consume(rng.below(2000) as usize),
                57..=76 => {
                    let w = rng.below(3) as u8;
                    let z = match rng.below(8) {
                        0 => i64::MIN as i128,
                        1 => i64::MAX as i128,
                        2 => -1,
                        3 => 0,
                        4 => approx_len as i128 + 1,
                        5 => -(approx_len as i128) - 1,
                        _ => rng.below(2 * approx_len + 3) as i128 - approx_len as i128 - 1,
                    };
                    let z = if w == 0 { z.unsigned_abs().min(u64::MAX as u128) as i128 } else { z };
                    HOp::Seek(w, z)
                }
                77..=88 => HOp::SetLen(if rng.chance(1, 2) { rng.below(approx_len + 100) } else { sz as u64 }),
                89..=93 => HOp::Flush,
                94..=96 => HOp::ReadToEnd,
                _ => HOp::WriteAll(data(sz)),
            }
        };
        match &op {
            HOp::Write(d) | HOp::WriteAll(d) => approx_len = approx_len.max(d.len() as u64 + approx_len / 2),
            HOp::SetLen(k) => approx_len = *k,
            _ => {}
        }
        ops.push(op);
    }
    ops
}

/// Runs ops on a real handle and on (vec, cursor); returns Err(description) at
/// the first result the contract does not permit.  Also returns the outputs of
/// the looping forms (for the buffer-size comparison).
fn run_vec_contract(v: Version, maxbuf: usize, ops: &[HOp]) -> Result<Vec<String>, String> {
    let (_buf, mut comp) = fresh(v, maxbuf);
    let mut s = comp.create_stream("/s").map_err(|e| e.to_string())?;
    let mut a: Vec<u8> = Vec::new();
    let mut c: usize = 0;
    let mut outs = Vec::new();
    for (i, op) in ops.iter().enumerate() {
        let ctx = |m: &str| format!("step {} {:?}: {}", i, short(op), m);
        let r = catch_unwind(AssertUnwindSafe(|| -> Result<(), String> {
            match op {
                HOp::Read(n) => {
                    let mut b = vec![0u8; *n];
                    let k = s.read(&mut b).map_err(|e| ctx(&format!("read error {}", e)))?;
                    if k > *n || c + k > a.len() || b[..k] != a[c..c + k] {
                        return Err(ctx("read returned bytes that are not the vector's"));
                    }
                    if k == 0 && !(*n == 0 || c == a.len()) {
                        return Err(ctx("read returned 0 before the end"));
                    }
                    c += k;
                }
                HOp::Fill => {
                    let b = s.fill_buf().map_err(|e| ctx(&format!("fill_buf error {}", e)))?;
                    let k = b.len();
                    if c + k > a.len() || b != &a[c..c + k] {
                        return Err(ctx("fill_buf returned bytes that are not the vector's"));
                    }
                    if k == 0 && c != a.len() {
                        return Err(ctx("fill_buf empty before the end"));
                    }
                }
                HOp::Consume(n) => {
                    let avail = s.fill_buf().map_err(|e| ctx(&e.to_string()))?.len();
                    let k = (*n).min(avail);
                    s.consume(k);
                    c += k;
                }
                HOp::Write(d) => {
                    let k = s.write(d).map_err(|e| ctx(&format!("write error {}", e)))?;
                    if k > d.len() || (k == 0 && !d.is_empty()) {
                        return Err(ctx(&format!("write accepted {} of {}", k, d.len())));
                    }
                    if a.len() < c + k {
                        a.resize(c + k, 0);
                    }
                    a[c..c + k].copy_from_slice(&d[..k]);
                    c += k;
                }
                HOp::WriteAll(d) => {
                    s.write_all(d).map_err(|e| ctx(&format!("write_all error {}", e)))?;
                    if a.len() < c + d.len() {
                        a.resize(c + d.len(), 0);
                    }
                    a[c..c + d.len()].copy_from_slice(d);
                    c += d.len();
                }
                HOp::ReadExact(n) => {
                    let mut b = vec![0u8; *n];
                    let r = s.read_exact(&mut b);
                    if c + n <= a.len() {
                        r.map_err(|e| ctx(&format!("read_exact error {}", e)))?;
                        if b[..] != a[c..c + n] {
                            return Err(ctx("read_exact returned wrong bytes"));
                        }
                        c += n;
                        outs.push(format!("rx{}:{:x}", n, fnv(&b)));
                    } else {
                        if r.is_ok() {
                            return Err(ctx("read_exact past the end succeeded"));
                        }
                        // position after a failed read_exact is unspecified: resynchronise
                        c = s.stream_position().map_err(|e| ctx(&e.to_string()))? as usize;
                        outs.push("rx-eof".into());
                    }
                }
                HOp::ReadToEnd => {
                    let mut b = Vec::new();
                    s.read_to_end(&mut b).map_err(|e| ctx(&format!("read_to_end error {}", e)))?;
                    if b[..] != a[c..] {
                        return Err(ctx("read_to_end returned wrong bytes"));
                    }
                    c = a.len();
                    outs.push(format!("rte{}:{:x}", b.len(), fnv(&b)));
                }
                HOp::Seek(w, z) => {
                    let (sf, target): (SeekFrom, i128) = match w {
                        0 => (SeekFrom::Start(*z as u64), *z),
                        1 => (SeekFrom::End(*z as i64), a.len() as i128 + *z),
                        _ => (SeekFrom::Current(*z as i64), c as i128 + *z),
                    };
                    let r = s.seek(sf);
                    if target < 0 || target > a.len() as i128 {
                        match r {
                            Err(e) if e.kind() == std::io::ErrorKind::InvalidInput => {}
                            other => return Err(ctx(&format!("out-of-range seek gave {:?}", other))),
                        }
                    } else {
                        let p = r.map_err(|e| ctx(&format!("in-range seek failed {}", e)))?;
                        if p as i128 != target {
                            return Err(ctx("seek returned a wrong position"));
                        }
                        c = target as usize;
                    }
                    outs.push(format!("sk{}", c));
                }
                HOp::SetLen(n) => {
                    s.set_len(*n).map_err(|e| ctx(&format!("set_len error {}", e)))?;
                    a.resize(*n as usize, 0);
                    c = c.min(*n as usize);
                }
                HOp::Flush => {
                    s.flush().map_err(|e| ctx(&format!("flush error {}", e)))?;
                }
            }
            if s.len() != a.len() as u64 {
                return Err(ctx(&format!("len() = {} but the vector has {}", s.len(), a.len())));
            }
            let p = s.stream_position().map_err(|e| ctx(&e.to_string()))?;
            if p != c as u64 {
                return Err(ctx(&format!("position {} but the cursor is {}", p, c)));
            }
            Ok(())
        }));
        match r {
            Ok(Ok(())) => {}
            Ok(Err(e)) => return Err(e),
            Err(_) => return Err(ctx("PANIC")),
        }
    }
    // after flush a fresh handle reads exactly the vector, also after reopen
    s.flush().map_err(|e| e.to_string())?;
    drop(s);
    let mut b = Vec::new();
    comp.open_stream("/s").unwrap().read_to_end(&mut b).map_err(|e| e.to_string())?;
    if b != a {
        return Err(format!(
            "fresh handle after flush reads {} bytes, first difference at {:?}, vector has {}",
            b.len(),
            b.iter().zip(&a).position(|(x, y)| x != y),
            a.len()
        ));
    }
    outs.push(format!("final{}:{:x}", a.len(), fnv(&a)));
    Ok(outs)
}

fn fnv(b: &[u8]) -> u64 {
    let mut h = 0xcbf29ce484222325u64;
    for x in b {
        h ^= *x as u64;
        h = h.wrapping_mul(0x100000001b3);
    }
    h
}

fn short(op: &HOp) -> String {
    match op {
        HOp::Write(d) => format!("Write({} bytes)", d.len()),
        HOp::WriteAll(d) => format!("WriteAll({} bytes)", d.len()),
        o => format!("{:?}", o),
    }
}

pub fn vec_contract(seed: u64, count: usize) -> Report {
    let mut rep = Report::new();
    let maxbufs = [1usize, 1024, 1500, 4096, 1 << 20];
    let mut master = Rng::new(seed);
    for i in 0..count {
        let mut rng = master.fork();
        let looping = i % 3 == 0;
        let n = 10 + rng.below(50) as usize;
        let ops = gen_hops(&mut rng, n, looping);
        let sig: Vec<String> = ops.iter().map(short).collect();
        rep.distinct.insert(sig.join(","));
        if rep.samples.len() < 2 {
            rep.samples.push(sig.iter().take(10).cloned().collect::<Vec<_>>().join("; "));
        }
        let mut reference: Option<Vec<String>> = None;
        for v in [Version::V3, Version::V4] {
            for &mb in maxbufs.iter() {
                rep.evaluations += 1;
                match run_vec_contract(v, mb, &ops) {
                    Ok(outs) => {
                        if looping {
                            match &reference {
                                None => reference = Some(outs),
                                Some(r) => {
                                    if *r != outs {
                                        rep.fail(format!(
                                            "vec seed={} case={} {:?} maxbuf={}: looping forms give results that differ from another buffer size/version: ops=[{}]",
                                            seed, i, v, mb, sig.join("; ")
                                        ));
                                    }
                                }
                            }
                        }
                    }
                    Err(e) => rep.fail(format!(
                        "vec seed={} case={} {:?} maxbuf={}: {} ; ops=[{}]",
                        seed, i, v, mb, e, sig.join("; ")
                    )),
                }
            }
        }
    }
    rep
}

// ---------------------------------------------------------------------------
// C14: lock discipline observed on the real code, plus real threads
// ---------------------------------------------------------------------------
pub fn locks(seed: u64, threads_iters: usize) -> Report {
    let mut rep = Report::new();
    let (_buf, mut c) = fresh(Version::V3, 1024);
    c.create_storage("/d").unwrap();
    c.create_storage("/d/e").unwrap();
    for n in ["/b", "/a", "/c", "/d/x", "/d/y", "/d/e/z"] {
        let mut s = c.create_stream(n).unwrap();
        s.write_all(&vec![7u8; 5000]).unwrap();
    }
    let mut calls: Vec<(&str, Box<dyn FnMut(&mut CompoundFile<SharedBuf>)>)> = vec![
        ("version", Box::new(|c| { let _ = c.version(); })),
        ("root_entry", Box::new(|c| { let _ = c.root_entry(); })),
        ("entry", Box::new(|c| { let _ = c.entry("/d/x"); })),
        ("entry_missing", Box::new(|c| { let _ = c.entry("/nope"); })),
        ("exists", Box::new(|c| { let _ = c.exists("/d/e/z"); })),
        ("is_stream", Box::new(|c| { let _ = c.is_stream("/a"); })),
        ("is_storage", Box::new(|c| { let _ = c.is_storage("/d"); })),
        ("read_root_storage", Box::new(|c| { let _ = c.read_root_storage().count(); })),
        ("read_storage", Box::new(|c| { let _ = c.read_storage("/d").unwrap().count(); })),
        ("walk", Box::new(|c| { let _ = c.walk().count(); })),
        ("walk_storage", Box::new(|c| { let _ = c.walk_storage("/d").unwrap().count(); })),
        ("open_stream+read", Box::new(|c| { let mut s = c.open_stream("/a").unwrap(); let mut b = [0u8; 3000]; let _ = s.read(&mut b); let _ = s.read(&mut b); })),
        ("stream write+flush", Box::new(|c| { let mut s = c.open_stream("/b").unwrap(); let _ = s.write_all(&[1u8; 3000]); let _ = s.flush(); })),
        ("stream seek+fill_buf", Box::new(|c| { let mut s = c.open_stream("/c").unwrap(); let _ = s.seek(SeekFrom::Start(4000)); let _ = s.fill_buf(); })),
        ("stream set_len", Box::new(|c| { let mut s = c.open_stream("/c").unwrap(); let _ = s.set_len(100); let _ = s.set_len(6000); })),
        ("stream drop dirty", Box::new(|c| { let mut s = c.open_stream("/a").unwrap(); let _ = s.write(&[2u8; 10]); })),
        ("create_storage", Box::new(|c| { let _ = c.create_storage("/n1"); })),
        ("create_storage_all", Box::new(|c| { let _ = c.create_storage_all("/n2/n3"); })),
        ("create_stream", Box::new(|c| { let _ = c.create_stream("/n4"); })),
        ("create_new_stream", Box::new(|c| { let _ = c.create_new_stream("/n5"); })),
        ("set_state_bits", Box::new(|c| { let _ = c.set_state_bits("/d", 5); })),
        ("set_storage_clsid", Box::new(|c| { let _ = c.set_storage_clsid("/d", uuid::Uuid::from_u128(9)); })),
        ("set_times", Box::new(|c| { let _ = c.set_created_time("/d", web_time::SystemTime::now()); let _ = c.set_modified_time("/d", web_time::SystemTime::now()); let _ = c.touch("/d"); })),
        ("remove_stream", Box::new(|c| { let _ = c.remove_stream("/n4"); })),
        ("remove_storage", Box::new(|c| { let _ = c.remove_storage("/n1"); })),
        ("remove_storage_all", Box::new(|c| { let _ = c.remove_storage_all("/n2"); })),
        ("flush", Box::new(|c| { let _ = c.flush(); })),
    ];
    let mut sites: HashSet<(String, u32)> = HashSet::new();
    for (name, f) in calls.iter_mut() {
        cfb::verif::trace_start();
        f(&mut c);
        let tr = cfb::verif::trace_take();
        rep.evaluations += 1;
        let mut depth: i64 = 0;
        let mut max_depth = 0;
        for (_, kind, file, line, d) in tr.iter() {
            match kind {
                'q' | 'Q' => {
                    sites.insert((file.to_string(), *line));
                    if *d > 0 {
                        rep.fail(format!(
                            "locks: {} requests the lock at {}:{} while already holding {} guard(s) (nested section: can deadlock with a queued writer)",
                            name, file, line, d
                        ));
                    }
                }
                'R' | 'W' => {
                    depth += 1;
                    max_depth = max_depth.max(depth);
                }
                'r' | 'w' => depth -= 1,
                _ => {}
            }
            if depth < 0 {
                rep.fail(format!("locks: {} releases more than it acquired", name));
            }
        }
        if depth != 0 {
            rep.fail(format!("locks: {} returns while holding {} guard(s)", name, depth));
        }
        rep.distinct.insert(format!("{}:{}", name, tr.len()));
        if rep.samples.len() < 3 {
            rep.samples.push(format!(
                "{}: {}",
                name,
                tr.iter().map(|(_, k, _, l, d)| format!("{}@{}d{}", k, l, d)).collect::<Vec<_>>().join(" ")
            ));
        }
    }
    rep.note("lock_sites_observed", sites.len() as u64);
    let mut site_list: Vec<String> = sites.iter().map(|(f, l)| format!("{}:{}", f.rsplit('/').next().unwrap_or(f), l)).collect();
    site_list.sort();
    rep.samples.push(format!("sites: {}", site_list.join(" ")));

    // supporting: real threads, N readers + 1 stream writer, under a watchdog
    if threads_iters > 0 {
        use std::sync::atomic::{AtomicBool, AtomicU64, Ordering};
        let (_b2, c2) = fresh(Version::V3, 1024);
        let mut c2 = c2;
        c2.create_storage("/d").unwrap();
        for n in ["/d/a", "/d/b", "/s"] {
            let mut s = c2.create_stream(n).unwrap();
            s.write_all(&[3u8; 2000]).unwrap();
        }
        let mut ws = c2.open_stream("/s").unwrap();
        let stop = AtomicBool::new(false);
        let progress = AtomicU64::new(0);
        let done = AtomicBool::new(false);
        let stalled_flag = AtomicBool::new(false);
        let comp_ref = &c2;
        std::thread::scope(|scope| {
            for t in 0..3u64 {
                let st = &stop;
                let pr = &progress;
                scope.spawn(move || {
                    let mut rng = Rng::new(seed * 31 + t);
                    while !st.load(Ordering::Relaxed) {
                        match rng.below(5) {
                            0 => { let _ = comp_ref.walk().count(); }
                            1 => { let _ = comp_ref.read_storage("/d").map(|i| i.count()); }
                            2 => { let _ = comp_ref.entry("/d/a"); }
                            3 => { let _ = comp_ref.exists("/s"); }
                            _ => { let _ = comp_ref.read_root_storage().count(); }
                        }
                        pr.fetch_add(1, Ordering::Relaxed);
                    }
                });
            }
            // watchdog: if nobody progresses for 5 s, report the deadlock and end the process
            {
                let pr = &progress;
                let dn = &done;
                let sf = &stalled_flag;
                scope.spawn(move || {
                    let mut last = 0;
                    let mut stalled = 0;
                    while !dn.load(Ordering::Relaxed) {
                        std::thread::sleep(std::time::Duration::from_millis(100));
                        let now = pr.load(Ordering::Relaxed);
                        if now == last { stalled += 1 } else { stalled = 0 }
                        last = now;
                        if stalled > 50 {
                            sf.store(true, Ordering::Relaxed);
                            println!("{{\"evaluations\": 1, \"distinct\": 1, \"failures\": [\"locks: no thread made progress for 5 s with 3 readers and 1 stream writer (deadlock)\"], \"samples\": [], \"notes\": {{}}}}");
                            std::process::exit(0);
                        }
                    }
                });
            }
            // the stream writer runs on this thread (Stream is not Send)
            for k in 0..threads_iters {
                let _ = ws.seek(SeekFrom::Start((k * 37 % 1500) as u64));
                let _ = ws.write_all(&[k as u8; 300]);
                let _ = ws.flush();
                let _ = ws.set_len(2000 + (k % 7) as u64 * 100);
                let mut b = [0u8; 100];
                let _ = ws.read(&mut b);
                progress.fetch_add(1, Ordering::Relaxed);
            }
            stop.store(true, Ordering::Relaxed);
            done.store(true, Ordering::Relaxed);
        });
        rep.note("thread_ops", progress.load(Ordering::Relaxed));
        rep.evaluations += 1;
    }
    rep
}

// ---------------------------------------------------------------------------
// C15: repeating a net-zero cycle does not grow the file from repetition 2 on
// ---------------------------------------------------------------------------
pub fn cycles(seed: u64, count: usize) -> Report {
    let mut rep = Report::new();
    let mut master = Rng::new(seed);
    for i in 0..count {
        let mut rng = master.fork();
        let v = if rng.chance(2, 3) { Version::V3 } else { Version::V4 };
        let (buf, mut c) = fresh(v, 4096);
        // prefix: some persistent content, fill levels around whole-sector multiples
        let nprefix = rng.below(12) as usize;
        let mut desc = format!("{:?} prefix[", v);
        for k in 0..nprefix {
            let sz = *rng.pick(&[1usize, 63, 64, 65, 448, 512, 576, 1000, 4095, 4096, 4097, 9000]);
            let mut s = c.create_stream(format!("/p{}", k)).unwrap();
            s.write_all(&vec![5u8; sz]).unwrap();
            desc.push_str(&format!("{} ", sz));
        }
        // cycle: a list of (create+write sizes) then removal of all of them
        let ncyc = 1 + rng.below(4) as usize;
        let sizes: Vec<usize> = (0..ncyc)
            .map(|_| *rng.pick(&[0usize, 1, 64, 100, 512, 513, 2000, 4095, 4096, 5000, 20000]))
            .collect();
        let use_storage = rng.chance(1, 3);
        let overwrite = rng.chance(1, 3);
        desc.push_str(&format!("] cycle{:?} storage={} overwrite={}", sizes, use_storage, overwrite));
        let mut lens = Vec::new();
        for _rep in 0..5 {
            if use_storage {
                c.create_storage("/cy").unwrap();
            }
            let base = if use_storage { "/cy" } else { "" };
            for (k, &sz) in sizes.iter().enumerate() {
                let mut s = c.create_stream(format!("{}/t{}", base, k)).unwrap();
                s.write_all(&vec![9u8; sz]).unwrap();
                if overwrite {
                    drop(s);
                    let mut s = c.create_stream(format!("{}/t{}", base, k)).unwrap();
                    s.write_all(&vec![8u8; sz / 2]).unwrap();
                    s.set_len((sz / 3) as u64).unwrap();
                }
            }
            if use_storage {
                c.remove_storage_all("/cy").unwrap();
            } else {
                for k in 0..sizes.len() {
                    c.remove_stream(format!("/t{}", k)).unwrap();
                }
            }
            lens.push(buf.len());
        }
        rep.evaluations += 1;
        rep.distinct.insert(desc.clone());
        if rep.samples.len() < 2 {
            rep.samples.push(format!("{} -> sizes {:?}", desc, lens));
        }
        if lens[1..].iter().any(|&x| x != lens[1]) {
            rep.fail(format!("cycles seed={} case={}: {} file length per repetition {:?}", seed, i, desc, lens));
        }
        if lens[0] != lens[1] {
            rep.note("grew_in_second_repetition", 1);
        }
    }
    rep
}

// ---------------------------------------------------------------------------
// C12: read/seek faults on a file that is only read
// ---------------------------------------------------------------------------
fn build_sample_image(v: Version) -> (Vec<u8>, Vec<(String, Vec<u8>)>) {
    let (buf, mut c) = fresh(v, 4096);
    c.create_storage("/d").unwrap();
    c.create_storage("/d/e").unwrap();
    let mut contents = Vec::new();
    for (i, (p, n)) in [("/small", 300usize), ("/d/big", 9000), ("/d/e/mid", 4096), ("/empty", 0), ("/d/tiny", 1)]
        .iter()
        .enumerate()
    {
        let data: Vec<u8> = (0..*n).map(|k| ((k * 7 + i * 13 + (k >> 8)) % 251 + 1) as u8).collect();
        let mut s = c.create_stream(p).unwrap();
        s.write_all(&data).unwrap();
        contents.push((p.to_string(), data));
    }
    c.set_state_bits("/d", 77).unwrap();
    drop(c);
    (buf.snapshot(), contents)
}

/// One run of the read-only workload with faults at the given raw-call indices.
/// Returns (number of raw read+seek calls, list of violations).
fn read_workload(
    image: &[u8],
    contents: &[(String, Vec<u8>)],
    maxbuf: usize,
    fail_at: &[u64],
    reference: Option<&Vec<String>>,
) -> (u64, Vec<String>, Vec<String>) {
    let b = SharedBuf::new(image.to_vec());
    {
        let mut ctl = b.ctl.lock().unwrap();
        ctl.fail_kinds = [true, false, true, false];
        ctl.seq = 0;
        ctl.fail_at = fail_at.to_vec();
    }
    let mut bad = Vec::new();
    let mut log: Vec<String> = Vec::new();
    // open, retrying after an error
    let mut comp = None;
    for _ in 0..4 {
        match cfb::OpenOptions::new().max_buffer_size(maxbuf).open_with(b.clone()) {
            Ok(c) => {
                comp = Some(c);
                break;
            }
            Err(_) => log.push("open:err".into()),
        }
    }
    let mut comp = match comp {
        Some(c) => c,
        None => {
            bad.push("open kept failing after the injected faults were used up".into());
            return (b.ctl.lock().unwrap().seq, bad, log);
        }
    };
    log.push("open:ok".into());
    let walk: Vec<String> = comp.walk().map(|e| format!("{}:{}", e.path().display(), e.len())).collect();
    log.push(format!("walk:{}", walk.join(",")));
    log.push(format!("ls:{}", comp.read_storage("/d").map(|i| i.map(|e| e.name().to_string()).collect::<Vec<_>>().join(",")).unwrap_or("err".into())));
    log.push(format!("entry:{:?}", comp.entry("/d").map(|e| e.state_bits()).ok()));
    log.push(format!("exists:{}", comp.exists("/d/e/mid")));
    for (p, data) in contents {
        let mut s = match comp.open_stream(p) {
            Ok(s) => s,
            Err(e) => {
                bad.push(format!("open_stream({}) failed: {}", p, e));
                continue;
            }
        };
        if s.len() != data.len() as u64 {
            bad.push(format!("{}: len {} != {}", p, s.len(), data.len()));
        }
        let mut errs = 0;
        let mut steps = 0;
        let mut tmp = vec![0u8; 700];
        // sequential buffered reads with retry after each error
        loop {
            steps += 1;
            if steps > 200 {
                bad.push(format!("{}: read loop does not finish", p));
                break;
            }
            let pos_before = s.stream_position().unwrap_or(u64::MAX);
            match s.read(&mut tmp) {
                Ok(0) => {
                    if pos_before != data.len() as u64 {
                        bad.push(format!("{}: read returned 0 at {} before the end {}", p, pos_before, data.len()));
                    }
                    break;
                }
                Ok(k) => {
                    let st = pos_before as usize;
                    if st + k > data.len() || tmp[..k] != data[st..st + k] {
                        bad.push(format!("{}: read at {} returned {} bytes that differ from the stream's content", p, st, k));
                        break;
                    }
                }
                Err(_) => {
                    errs += 1;
                    let pos_after = s.stream_position().unwrap_or(u64::MAX);
                    if pos_after != pos_before {
                        bad.push(format!("{}: failed read moved the position {} -> {}", p, pos_before, pos_after));
                    }
                    if errs > 6 {
                        bad.push(format!("{}: read keeps failing", p));
                        break;
                    }
                }
            }
        }
        // seeks and re-reads
        for &(off, n) in &[(0u64, 10usize), (4000, 200), (8990, 50), (100, 2000)] {
            if off as usize >= data.len() {
                continue;
            }
            let mut ok = false;
            for _ in 0..4 {
                match s.seek(SeekFrom::Start(off)) {
                    Ok(_) => {
                        ok = true;
                        break;
                    }
                    Err(_) => {}
                }
            }
            if !ok {
                bad.push(format!("{}: seek keeps failing", p));
                continue;
            }
            let want = n.min(data.len() - off as usize);
            let mut got = Vec::new();
            let mut tries = 0;
            while got.len() < want && tries < 20 {
                tries += 1;
                let mut t = vec![0u8; want - got.len()];
                match s.read(&mut t) {
                    Ok(0) => break,
                    Ok(k) => got.extend_from_slice(&t[..k]),
                    Err(_) => {}
                }
            }
            if got[..] != data[off as usize..off as usize + got.len()] || got.len() != want {
                bad.push(format!("{}: after seek({}) read {} bytes, wrong or short", p, off, got.len()));
            }
        }
        log.push(format!("stream:{}:{}", p, data.len()));
    }
    if let Some(r) = reference {
        // every Ok result must equal the fault-free one
        let mine: Vec<&String> = log.iter().filter(|l| !l.ends_with(":err")).collect();
        let theirs: Vec<&String> = r.iter().filter(|l| !l.ends_with(":err")).collect();
        if mine != theirs {
            bad.push(format!("results differ from the fault-free run: {:?} vs {:?}", mine, theirs));
        }
    }
    let n = b.ctl.lock().unwrap().seq;
    (n, bad, log)
}

pub fn readfaults(seed: u64, pairs: usize, shard: u64, nshards: u64) -> Report {
    let mut rep = Report::new();
    let mut rng = Rng::new(seed);
    for v in [Version::V3, Version::V4] {
        let (image, contents) = build_sample_image(v);
        for &maxbuf in &[1024usize, 4096] {
            let (n, bad0, reference) = read_workload(&image, &contents, maxbuf, &[], None);
            for b in bad0 {
                rep.fail(format!("readfaults {:?} maxbuf={} fault-free: {}", v, maxbuf, b));
            }
            rep.note("raw_calls_in_workload", n);
            for k in 0..n {
                if k % nshards != shard {
                    continue;
                }
                rep.evaluations += 1;
                rep.distinct.insert(format!("{:?}-{}-{}", v, maxbuf, k));
                let r = catch_unwind(AssertUnwindSafe(|| read_workload(&image, &contents, maxbuf, &[k], Some(&reference))));
                match r {
                    Ok((_, bad, _)) => {
                        for b in bad {
                            rep.fail(format!("readfaults {:?} maxbuf={} fault at raw read/seek call {}: {}", v, maxbuf, k, b));
                        }
                    }
                    Err(_) => rep.fail(format!("readfaults {:?} maxbuf={} fault at raw call {}: PANIC", v, maxbuf, k)),
                }
            }
            for _ in 0..pairs {
                let a = rng.below(n);
                let b2 = rng.below(n);
                rep.evaluations += 1;
                rep.distinct.insert(format!("{:?}-{}-{}-{}", v, maxbuf, a, b2));
                let r = catch_unwind(AssertUnwindSafe(|| read_workload(&image, &contents, maxbuf, &[a, b2], Some(&reference))));
                match r {
                    Ok((_, bad, _)) => {
                        for b in bad {
                            rep.fail(format!("readfaults {:?} maxbuf={} faults at raw calls {} and {}: {}", v, maxbuf, a, b2, b));
                        }
                    }
                    Err(_) => rep.fail(format!("readfaults {:?} maxbuf={} faults at {} and {}: PANIC", v, maxbuf, a, b2)),
                }
            }
        }
    }
    rep.samples.push("workload: open; walk; read_storage(/d); entry(/d); exists; for each of 5 streams: sequential read(700) with retry, seek+read x4; one injected read/seek fault per run".into());
    rep
}

// ---------------------------------------------------------------------------
// C13: write/seek/flush faults during a mutating workload
// ---------------------------------------------------------------------------
fn write_workload(v: Version, maxbuf: usize, fail_at: &[u64]) -> (u64, Vec<String>) {
    let buf = SharedBuf::new(Vec::new());
    let c = CompoundFile::create_with_version(v, buf.clone()).unwrap();
    drop(c);
    let mut comp = cfb::OpenOptions::new().max_buffer_size(maxbuf).open_with(buf.clone()).unwrap();
    {
        let mut ctl = buf.ctl.lock().unwrap();
        ctl.fail_kinds = [false, true, true, true];
        ctl.seq = 0;
        ctl.fail_at = fail_at.to_vec();
    }
    let mut bad = Vec::new();
    // a stream with tracked expected content; None = unknown after a failed set_len
    struct Tracked {
        path: String,
        exp: Option<Vec<u8>>,
        cur: usize,
    }
    let retry = |f: &mut dyn FnMut() -> std::io::Result<()>| -> bool {
        for _ in 0..3 {
            if f().is_ok() {
                return true;
            }
        }
        false
    };
    let _ = retry(&mut || comp.create_storage("/d"));
    let mut plan: Vec<(&str, Vec<(u8, usize)>)> = vec![
        // (path, [(kind, size)]) kind: 0 write_all, 1 flush, 2 set_len, 3 seek start
        ("/a", vec![(0, 100), (1, 0), (0, 3000), (1, 0), (0, 2000), (1, 0), (2, 50), (1, 0), (2, 6000), (0, 10), (1, 0)]),
        ("/d/b", vec![(0, 5000), (1, 0), (3, 100), (0, 700), (1, 0), (2, 100), (1, 0)]),
        ("/d/c", vec![(0, 64), (0, 64), (1, 0), (2, 0), (0, 4096), (1, 0)]),
    ];
    let mut tag = 0u8;
    for (path, steps) in plan.drain(..) {
        let mut stream = None;
        for _ in 0..3 {
            match comp.create_stream(path) {
                Ok(s) => {
                    stream = Some(s);
                    break;
                }
                Err(_) => {}
            }
        }
        let mut s = match stream {
            Some(s) => s,
            None => continue,
        };
        let mut t = Tracked { path: path.to_string(), exp: Some(Vec::new()), cur: 0 };
        for (kind, n) in steps {
            match kind {
                0 => {
                    tag = tag.wrapping_add(1);
                    let data: Vec<u8> = (0..n).map(|i| tag.wrapping_mul(31).wrapping_add(i as u8) | 1).collect();
                    let mut off = 0;
                    let mut errs = 0;
                    while off < data.len() && errs < 4 {
                        match s.write(&data[off..]) {
                            Ok(0) => break,
                            Ok(k) => {
                                if let Some(e) = t.exp.as_mut() {
                                    if e.len() < t.cur + k {
                                        e.resize(t.cur + k, 0);
                                    }
                                    e[t.cur..t.cur + k].copy_from_slice(&data[off..off + k]);
                                }
                                t.cur += k;
                                off += k;
                            }
                            Err(_) => errs += 1,
                        }
                    }
                }
                1 => {
                    let mut okf = false;
                    for _ in 0..4 {
                        if s.flush().is_ok() {
                            okf = true;
                            break;
                        }
                    }
                    if okf {
                        if let Some(e) = &t.exp {
                            // a fresh handle must read back every accepted byte
                            match comp.open_stream(&t.path) {
                                Ok(mut fh) => {
                                    let mut got = Vec::new();
                                    match fh.read_to_end(&mut got) {
                                        Ok(_) => {
                                            if got != *e {
                                                let d = got.iter().zip(e.iter()).position(|(x, y)| x != y);
                                                bad.push(format!(
                                                    "{}: flush returned Ok but a fresh handle reads {} bytes (expected {}), first difference at {:?}",
                                                    t.path, got.len(), e.len(), d
                                                ));
                                            }
                                        }
                                        Err(_) => {}
                                    }
                                }
                                Err(_) => {}
                            }
                        }
                    }
                }
                2 => match s.set_len(n as u64) {
                    Ok(()) => {
                        if let Some(e) = t.exp.as_mut() {
                            e.resize(n, 0);
                        }
                        t.cur = t.cur.min(n);
                    }
                    Err(_) => {
                        // partially resized: content no longer specified
                        t.exp = None;
                        t.cur = s.stream_position().unwrap_or(0) as usize;
                    }
                },
                _ => {
                    if s.seek(SeekFrom::Start(n as u64)).is_ok() {
                        t.cur = n;
                    }
                }
            }
        }
    }
    // structural operations after the streams are closed
    let _ = comp.create_storage_all("/x/y/z");
    let _ = comp.remove_stream("/d/b");
    let _ = comp.set_state_bits("/d", 3);
    let _ = comp.remove_storage_all("/x");
    let _ = comp.flush();
    let _ = comp.walk().count();
    let n = buf.ctl.lock().unwrap().seq;
    (n, bad)
}

pub fn writefaults(seed: u64, pairs: usize, shard: u64, nshards: u64) -> Report {
    let mut rep = Report::new();
    let mut rng = Rng::new(seed);
    for v in [Version::V3, Version::V4] {
        for &maxbuf in &[1024usize, 4096] {
            let (n, bad0) = write_workload(v, maxbuf, &[]);
            for b in bad0 {
                rep.fail(format!("writefaults {:?} maxbuf={} fault-free: {}", v, maxbuf, b));
            }
            rep.note("raw_calls_in_workload", n);
            let mut run = |ks: Vec<u64>, rep: &mut Report| {
                rep.evaluations += 1;
                rep.distinct.insert(format!("{:?}-{}-{:?}", v, maxbuf, ks));
                let ks2 = ks.clone();
                let (tx, rx) = std::sync::mpsc::channel();
                std::thread::spawn(move || {
                    let r = catch_unwind(AssertUnwindSafe(|| write_workload(v, maxbuf, &ks2)));
                    let _ = tx.send(r.map_err(|_| ()));
                });
                match rx.recv_timeout(std::time::Duration::from_secs(20)) {
                    Ok(Ok((_, bad))) => {
                        for b in bad {
                            rep.fail(format!("writefaults {:?} maxbuf={} fault at raw write/seek/flush call(s) {:?}: {}", v, maxbuf, ks, b));
                        }
                    }
                    Ok(Err(())) => rep.fail(format!("writefaults {:?} maxbuf={} fault at raw call(s) {:?}: PANIC", v, maxbuf, ks)),
                    Err(_) => rep.fail(format!("writefaults {:?} maxbuf={} fault at raw call(s) {:?}: TIMEOUT (hang)", v, maxbuf, ks)),
                }
            };
            for k in 0..n {
                if k % nshards == shard {
                    run(vec![k], &mut rep);
                }
            }
            for _ in 0..pairs {
                let a = rng.below(n);
                let b2 = rng.below(n);
                run(vec![a, b2], &mut rep);
            }
        }
    }
    rep.samples.push("workload: create_storage; 3 streams with write/flush/set_len/seek sequences crossing the 4096 cutoff (retry after each error; after every Ok flush a fresh handle must read back all accepted bytes); create_storage_all, remove_stream, set_state_bits, remove_storage_all, flush, walk; one injected write/seek/flush fault per run".into());
    rep
}

pub fn writefault_one(v3: bool, maxbuf: usize, k: u64) {
    let v = if v3 { Version::V3 } else { Version::V4 };
    let r = write_workload(v, maxbuf, &[k]);
    println!("{:?}", r);
}
