//! Operations on the real crate, their textual encoding, and an executor that
//! records each result in the canonical form the model driver compares with.

use std::io::{self, BufRead, Read, Seek, SeekFrom, Write};
use std::panic::{catch_unwind, AssertUnwindSafe};
use std::path::PathBuf;
use std::time::Duration;

use cfb::{CompoundFile, Entry, Stream, Version};
use web_time::{SystemTime, UNIX_EPOCH};

use crate::backend::SharedBuf;

pub type Path = String;

#[derive(Clone, Debug, PartialEq)]
pub enum Whence {
    Start,
    End,
    Cur,
}

#[derive(Clone, Debug, PartialEq)]
pub enum Op {
    CreateStorage(Path),
    CreateStorageAll(Path),
    RemoveStorage(Path),
    RemoveStorageAll(Path),
    CreateStream(usize, Path),
    CreateNewStream(usize, Path),
    OpenStream(usize, Path),
    RemoveStream(Path),
    SetClsid(Path, u128),
    SetState(Path, u32),
    SetCreated(Path, bool, u64, u32),
    SetModified(Path, bool, u64, u32),
    Touch(Path),
    Exists(Path),
    IsStream(Path),
    IsStorage(Path),
    EntryOf(Path),
    RootEntry,
    ReadStorage(Path),
    ReadRoot,
    Walk,
    WalkStorage(Path),
    FlushFile,
    GetVersion,
    HRead(usize, usize),
    HFill(usize),
    HConsume(usize, usize),
    HWrite(usize, Vec<u8>),
    HSeek(usize, Whence, i128),
    HSetLen(usize, u64),
    HFlush(usize),
    HLen(usize),
    HPos(usize),
    HDrop(usize),
    /// read_to_end through a fresh handle (dropped afterwards)
    Cat(Path),
    /// snapshot the bytes (no flush) and reopen them; true = strict
    Reopen(bool),
}

pub fn enc_path(p: &str) -> String {
    if p.is_empty() {
        return "-".to_string();
    }
    p.chars().map(|c| format!("{:x}", c as u32)).collect::<Vec<_>>().join(".")
}

pub fn dec_path(s: &str) -> String {
    if s == "-" {
        return String::new();
    }
    s.split('.')
        .map(|h| char::from_u32(u32::from_str_radix(h, 16).unwrap()).unwrap())
        .collect()
}

pub fn enc_hex(b: &[u8]) -> String {
    if b.is_empty() {
        return "-".to_string();
    }
    let mut s = String::with_capacity(b.len() * 2);
    for x in b {
        s.push_str(&format!("{:02x}", x));
    }
    s
}

pub fn dec_hex(s: &str) -> Vec<u8> {
    if s == "-" {
        return vec![];
    }
    (0..s.len() / 2)
        .map(|i| u8::from_str_radix(&s[2 * i..2 * i + 2], 16).unwrap())
        .collect()
}

impl Op {
    pub fn encode(&self) -> String {
        use Op::*;
        match self {
            CreateStorage(p) => format!("cs {}", enc_path(p)),
            CreateStorageAll(p) => format!("csa {}", enc_path(p)),
            RemoveStorage(p) => format!("rs {}", enc_path(p)),
            RemoveStorageAll(p) => format!("rsa {}", enc_path(p)),
            CreateStream(h, p) => format!("cst {} {}", h, enc_path(p)),
            CreateNewStream(h, p) => format!("cns {} {}", h, enc_path(p)),
            OpenStream(h, p) => format!("os {} {}", h, enc_path(p)),
            RemoveStream(p) => format!("rst {}", enc_path(p)),
            SetClsid(p, g) => format!("clsid {} {:032x}", enc_path(p), g),
            SetState(p, n) => format!("state {} {}", enc_path(p), n),
            SetCreated(p, neg, s, n) => format!(
                "ctime {} {} {} {}",
                enc_path(p),
                if *neg { "-" } else { "+" },
                s,
                n
            ),
            SetModified(p, neg, s, n) => format!(
                "mtime {} {} {} {}",
                enc_path(p),
                if *neg { "-" } else { "+" },
                s,
                n
            ),
            Touch(p) => format!("touch {}", enc_path(p)),
            Exists(p) => format!("ex {}", enc_path(p)),
            IsStream(p) => format!("ist {}", enc_path(p)),
            IsStorage(p) => format!("isg {}", enc_path(p)),
            EntryOf(p) => format!("ent {}", enc_path(p)),
            RootEntry => "rent".to_string(),
            ReadStorage(p) => format!("ls {}", enc_path(p)),
            ReadRoot => "lsr".to_string(),
            Walk => "walk".to_string(),
            WalkStorage(p) => format!("walks {}", enc_path(p)),
            FlushFile => "fl".to_string(),
            GetVersion => "ver".to_string(),
            HRead(h, n) => format!("hr {} {}", h, n),
            HFill(h) => format!("hf {}", h),
            HConsume(h, k) => format!("hc {} {}", h, k),
            HWrite(h, b) => format!("hw {} {}", h, enc_hex(b)),
            HSeek(h, w, z) => format!(
                "hsk {} {} {}",
                h,
                match w {
                    Whence::Start => "s",
                    Whence::End => "e",
                    Whence::Cur => "c",
                },
                z
            ),
            HSetLen(h, n) => format!("hsl {} {}", h, n),
            HFlush(h) => format!("hfl {}", h),
            HLen(h) => format!("hlen {}", h),
            HPos(h) => format!("hpos {}", h),
            HDrop(h) => format!("hd {}", h),
            Cat(p) => format!("cat {}", enc_path(p)),
            Reopen(strict) => {
                format!("reopen {}", if *strict { "s" } else { "p" })
            }
        }
    }

    pub fn decode(line: &str) -> Option<Op> {
        use Op::*;
        let t: Vec<&str> = line.split_whitespace().collect();
        let p = |i: usize| dec_path(t[i]);
        let u = |i: usize| t[i].parse::<usize>().unwrap();
        Some(match *t.first()? {
            "cs" => CreateStorage(p(1)),
            "csa" => CreateStorageAll(p(1)),
            "rs" => RemoveStorage(p(1)),
            "rsa" => RemoveStorageAll(p(1)),
            "cst" => CreateStream(u(1), p(2)),
            "cns" => CreateNewStream(u(1), p(2)),
            "os" => OpenStream(u(1), p(2)),
            "rst" => RemoveStream(p(1)),
            "clsid" => SetClsid(p(1), u128::from_str_radix(t[2], 16).unwrap()),
            "state" => SetState(p(1), t[2].parse().unwrap()),
            "ctime" => SetCreated(
                p(1),
                t[2] == "-",
                t[3].parse().unwrap(),
                t[4].parse().unwrap(),
            ),
            "mtime" => SetModified(
                p(1),
                t[2] == "-",
                t[3].parse().unwrap(),
                t[4].parse().unwrap(),
            ),
            "touch" => Touch(p(1)),
            "ex" => Exists(p(1)),
            "ist" => IsStream(p(1)),
            "isg" => IsStorage(p(1)),
            "ent" => EntryOf(p(1)),
            "rent" => RootEntry,
            "ls" => ReadStorage(p(1)),
            "lsr" => ReadRoot,
            "walk" => Walk,
            "walks" => WalkStorage(p(1)),
            "fl" => FlushFile,
            "ver" => GetVersion,
            "hr" => HRead(u(1), u(2)),
            "hf" => HFill(u(1)),
            "hc" => HConsume(u(1), u(2)),
            "hw" => HWrite(u(1), dec_hex(t[2])),
            "hsk" => HSeek(
                u(1),
                match t[2] {
                    "s" => Whence::Start,
                    "e" => Whence::End,
                    _ => Whence::Cur,
                },
                t[3].parse().unwrap(),
            ),
            "hsl" => HSetLen(u(1), t[2].parse().unwrap()),
            "hfl" => HFlush(u(1)),
            "hlen" => HLen(u(1)),
            "hpos" => HPos(u(1)),
            "hd" => HDrop(u(1)),
            "cat" => Cat(p(1)),
            "reopen" => Reopen(t[1] == "s"),
            _ => return None,
        })
    }

    pub fn is_mutating_name(&self) -> bool {
        use Op::*;
        matches!(
            self,
            CreateStorage(_)
                | CreateStorageAll(_)
                | RemoveStorage(_)
                | RemoveStorageAll(_)
                | CreateStream(..)
                | CreateNewStream(..)
                | RemoveStream(_)
        )
    }
}

pub fn kind_name(e: &io::Error) -> &'static str {
    match e.kind() {
        io::ErrorKind::NotFound => "NotFound",
        io::ErrorKind::AlreadyExists => "AlreadyExists",
        io::ErrorKind::InvalidInput => "InvalidInput",
        io::ErrorKind::InvalidData => "InvalidData",
        io::ErrorKind::UnexpectedEof => "UnexpectedEof",
        io::ErrorKind::WriteZero => "WriteZero",
        io::ErrorKind::Interrupted => "Interrupted",
        _ => "Other",
    }
}

fn enc_time(t: SystemTime) -> String {
    match t.duration_since(UNIX_EPOCH) {
        Ok(d) => format!("+{}.{}", d.as_secs(), d.subsec_nanos()),
        Err(e) => {
            let d = e.duration();
            format!("-{}.{}", d.as_secs(), d.subsec_nanos())
        }
    }
}

pub fn enc_entry(e: &Entry) -> String {
    let ty = if e.is_root() {
        "R"
    } else if e.is_stream() {
        "F"
    } else {
        "D"
    };
    format!(
        "{},{},{},{:032x},{},{},{},{}",
        enc_path(e.name()),
        enc_path(e.path().to_str().unwrap_or("?")),
        ty,
        e.clsid().as_u128(),
        e.state_bits(),
        enc_time(e.created()),
        enc_time(e.modified()),
        e.len()
    )
}

fn enc_entries<I: Iterator<Item = Entry>>(it: I) -> String {
    let v: Vec<String> = it.map(|e| enc_entry(&e)).collect();
    if v.is_empty() {
        "l:-".to_string()
    } else {
        format!("l:{}", v.join(";"))
    }
}

fn unit(r: io::Result<()>) -> String {
    match r {
        Ok(()) => "ok".to_string(),
        Err(e) => format!("err:{}", kind_name(&e)),
    }
}

fn mk_time(neg: bool, s: u64, n: u32) -> Option<SystemTime> {
    let d = Duration::new(s, n);
    if neg {
        UNIX_EPOCH.checked_sub(d)
    } else {
        UNIX_EPOCH.checked_add(d)
    }
}

pub struct Live {
    pub buf: SharedBuf,
    pub comp: Option<CompoundFile<SharedBuf>>,
    pub handles: Vec<Option<Stream<SharedBuf>>>,
    pub maxbuf: usize,
    pub dead: bool,
}

pub const NHANDLES: usize = 4;

impl Live {
    pub fn create(version: Version, maxbuf: usize) -> io::Result<Live> {
        let buf = SharedBuf::new(Vec::new());
        Live::create_on(buf, version, maxbuf)
    }

    pub fn create_on(
        buf: SharedBuf,
        version: Version,
        maxbuf: usize,
    ) -> io::Result<Live> {
        // OpenOptions::create_with always makes V4; go through the public
        // constructor for the version and re-open to apply max_buffer_size
        // only when needed.  create_with_version uses the default buffer size.
        let comp = if version == Version::V4 {
            cfb::OpenOptions::new()
                .max_buffer_size(maxbuf)
                .create_with(buf.clone())?
        } else {
            let c = CompoundFile::create_with_version(version, buf.clone())?;
            drop(c);
            let mut b2 = buf.clone();
            b2.seek(SeekFrom::Start(0))?;
            cfb::OpenOptions::new().max_buffer_size(maxbuf).open_with(b2)?
        };
        Ok(Live {
            buf,
            comp: Some(comp),
            handles: (0..NHANDLES).map(|_| None).collect(),
            maxbuf,
            dead: false,
        })
    }

    pub fn open(bytes: Vec<u8>, strict: bool, maxbuf: usize) -> io::Result<Live> {
        let buf = SharedBuf::new(bytes);
        Live::open_on(buf, strict, maxbuf)
    }

    pub fn open_on(
        buf: SharedBuf,
        strict: bool,
        maxbuf: usize,
    ) -> io::Result<Live> {
        let mut oo = cfb::OpenOptions::new().max_buffer_size(maxbuf);
        if strict {
            oo = oo.strict();
        }
        let comp = oo.open_with(buf.clone())?;
        Ok(Live {
            buf,
            comp: Some(comp),
            handles: (0..NHANDLES).map(|_| None).collect(),
            maxbuf,
            dead: false,
        })
    }

    /// Executes one operation, catching panics; returns the canonical result.
    pub fn exec(&mut self, op: &Op) -> String {
        if self.dead {
            return "dead".to_string();
        }
        let r = catch_unwind(AssertUnwindSafe(|| self.exec_inner(op)));
        match r {
            Ok(s) => s,
            Err(_) => {
                self.dead = true;
                "panic".to_string()
            }
        }
    }

    fn with_handle<T>(
        &mut self,
        h: usize,
        f: impl FnOnce(&mut Stream<SharedBuf>) -> String,
        _t: Option<T>,
    ) -> String {
        match self.handles.get_mut(h).and_then(|x| x.as_mut()) {
            Some(s) => f(s),
            None => "nohandle".to_string(),
        }
    }

    fn exec_inner(&mut self, op: &Op) -> String {
        use Op::*;
        let comp = self.comp.as_mut().unwrap();
        match op {
            CreateStorage(p) => unit(comp.create_storage(p)),
            CreateStorageAll(p) => unit(comp.create_storage_all(p)),
            RemoveStorage(p) => unit(comp.remove_storage(p)),
            RemoveStorageAll(p) => unit(comp.remove_storage_all(p)),
            CreateStream(h, p) => match comp.create_stream(p) {
                Ok(s) => {
                    self.handles[*h] = Some(s);
                    "ok".to_string()
                }
                Err(e) => format!("err:{}", kind_name(&e)),
            },
            CreateNewStream(h, p) => match comp.create_new_stream(p) {
                Ok(s) => {
                    self.handles[*h] = Some(s);
                    "ok".to_string()
                }
                Err(e) => format!("err:{}", kind_name(&e)),
            },
            OpenStream(h, p) => match comp.open_stream(p) {
                Ok(s) => {
                    self.handles[*h] = Some(s);
                    "ok".to_string()
                }
                Err(e) => format!("err:{}", kind_name(&e)),
            },
            RemoveStream(p) => unit(comp.remove_stream(p)),
            SetClsid(p, g) => {
                unit(comp.set_storage_clsid(p, uuid::Uuid::from_u128(*g)))
            }
            SetState(p, n) => unit(comp.set_state_bits(p, *n)),
            SetCreated(p, neg, s, n) => match mk_time(*neg, *s, *n) {
                Some(t) => unit(comp.set_created_time(p, t)),
                None => "skip".to_string(),
            },
            SetModified(p, neg, s, n) => match mk_time(*neg, *s, *n) {
                Some(t) => unit(comp.set_modified_time(p, t)),
                None => "skip".to_string(),
            },
            Touch(p) => unit(comp.touch(p)),
            Exists(p) => format!("b{}", comp.exists(p) as u8),
            IsStream(p) => format!("b{}", comp.is_stream(p) as u8),
            IsStorage(p) => format!("b{}", comp.is_storage(p) as u8),
            EntryOf(p) => match comp.entry(p) {
                Ok(e) => format!("e:{}", enc_entry(&e)),
                Err(e) => format!("err:{}", kind_name(&e)),
            },
            RootEntry => format!("e:{}", enc_entry(&comp.root_entry())),
            ReadStorage(p) => match comp.read_storage(p) {
                Ok(it) => enc_entries(it),
                Err(e) => format!("err:{}", kind_name(&e)),
            },
            ReadRoot => enc_entries(comp.read_root_storage()),
            Walk => enc_entries(comp.walk()),
            WalkStorage(p) => match comp.walk_storage(p) {
                Ok(it) => enc_entries(it),
                Err(e) => format!("err:{}", kind_name(&e)),
            },
            FlushFile => unit(comp.flush()),
            GetVersion => match comp.version() {
                Version::V3 => "v3".to_string(),
                Version::V4 => "v4".to_string(),
            },
            HRead(h, n) => {
                let n = *n;
                self.with_handle(
                    *h,
                    |s| {
                        let mut b = vec![0u8; n];
                        match s.read(&mut b) {
                            Ok(k) => format!("x:{}", enc_hex(&b[..k])),
                            Err(e) => format!("err:{}", kind_name(&e)),
                        }
                    },
                    None::<()>,
                )
            }
            HFill(h) => self.with_handle(
                *h,
                |s| match s.fill_buf() {
                    Ok(b) => format!("x:{}", enc_hex(b)),
                    Err(e) => format!("err:{}", kind_name(&e)),
                },
                None::<()>,
            ),
            HConsume(h, k) => {
                let k = *k;
                self.with_handle(
                    *h,
                    |s| {
                        s.consume(k);
                        "ok".to_string()
                    },
                    None::<()>,
                )
            }
            HWrite(h, b) => self.with_handle(
                *h,
                |s| match s.write(b) {
                    Ok(k) => format!("n:{}", k),
                    Err(e) => format!("err:{}", kind_name(&e)),
                },
                None::<()>,
            ),
            HSeek(h, w, z) => {
                let sf = match w {
                    Whence::Start => SeekFrom::Start(*z as u64),
                    Whence::End => SeekFrom::End(*z as i64),
                    Whence::Cur => SeekFrom::Current(*z as i64),
                };
                self.with_handle(
                    *h,
                    |s| match s.seek(sf) {
                        Ok(k) => format!("n:{}", k),
                        Err(e) => format!("err:{}", kind_name(&e)),
                    },
                    None::<()>,
                )
            }
            HSetLen(h, n) => {
                let n = *n;
                self.with_handle(*h, |s| unit(s.set_len(n)), None::<()>)
            }
            HFlush(h) => self.with_handle(*h, |s| unit(s.flush()), None::<()>),
            HLen(h) => {
                self.with_handle(*h, |s| format!("n:{}", s.len()), None::<()>)
            }
            HPos(h) => self.with_handle(
                *h,
                |s| match s.stream_position() {
                    Ok(k) => format!("n:{}", k),
                    Err(e) => format!("err:{}", kind_name(&e)),
                },
                None::<()>,
            ),
            HDrop(h) => {
                self.handles[*h] = None;
                "ok".to_string()
            }
            Cat(p) => match comp.open_stream(p) {
                Ok(mut s) => {
                    let mut v = Vec::new();
                    match s.read_to_end(&mut v) {
                        Ok(_) => format!("x:{}", enc_hex(&v)),
                        Err(e) => format!("err:{}", kind_name(&e)),
                    }
                }
                Err(e) => format!("err:{}", kind_name(&e)),
            },
            Reopen(strict) => {
                for h in self.handles.iter_mut() {
                    *h = None;
                }
                let bytes = self.buf.snapshot();
                match Live::open(bytes, *strict, self.maxbuf) {
                    Ok(l) => {
                        self.comp = None;
                        *self = l;
                        "ok".to_string()
                    }
                    Err(e) => format!("err:{}", kind_name(&e)),
                }
            }
        }
    }

    /// Canonical dump of the whole logical content through the public API.
    pub fn dump(&mut self) -> String {
        let comp = self.comp.as_mut().unwrap();
        let entries: Vec<Entry> = comp.walk().collect();
        let mut out = Vec::new();
        for e in entries {
            let mut line = enc_entry(&e);
            if e.is_stream() {
                match comp.open_stream(e.path()) {
                    Ok(mut s) => {
                        let mut v = Vec::new();
                        match s.read_to_end(&mut v) {
                            Ok(_) => line.push_str(&format!("={}", enc_hex(&v))),
                            Err(er) => {
                                line.push_str(&format!("=err:{}", kind_name(&er)))
                            }
                        }
                    }
                    Err(er) => line.push_str(&format!("=err:{}", kind_name(&er))),
                }
            }
            out.push(line);
        }
        out.join(";")
    }
}

pub fn pathbuf(p: &str) -> PathBuf {
    PathBuf::from(p)
}
