#![allow(dead_code)]
//! C02 slow probe (thorough tier): does the length of the mini stream always fit the root
//! directory entry?  (The defect was found by the proof DataPersist2 - hypothesis RootFits -
//! and repaired in /repo by b10c443; this probe replays the experiment on the real crate.)
//!
//! In a version 3 compound file a directory entry's stream length is written
//! as 64 bits but read back masked to 32 bits.  The root entry's length is the
//! length of the mini stream (the container of every stream shorter than 4096
//! bytes).  This test finds out what happens when the mini stream of a
//! version 3 file is grown from 2^32 - 64 bytes (the largest length that a
//! version 3 root entry can record) by one more 64-byte mini sector.
//!
//! Creating the ~one million small streams that fill 4 GiB of mini stream
//! through the API is far too slow, so the file is synthesised directly as
//! bytes on a sparse in-memory backend.  The synthesised file is fully
//! regular: 2^20 + 2 small streams in a balanced red-black tree, every mini
//! sector owned by exactly one stream, no free MiniFAT entry - the state that
//! a program reaches by calling `create_stream` + `write` a million times.
//! The unchanged crate opens it in strict mode.
//!
//! Correct behaviour, asserted here: whatever the calls on the live object
//! returned, the bytes in the backend reopen (strict and permissive) to the
//! state that the live object reported before it was dropped; and if every
//! call returned Ok, that state contains "/new" with its 10 bytes.

use std::cell::RefCell;
use std::convert::TryInto;
use std::io::{self, Read, Seek, SeekFrom, Write};
use std::rc::Rc;
use std::time::Instant;

use cfb::CompoundFile;

macro_rules! qprintln {
    ($($t:tt)*) => { if std::env::var("CFBH_VERBOSE").is_ok() { println!($($t)*); } };
}

//===========================================================================//
// Sparse in-memory backend

const PAGE: usize = 1 << 16;

struct Store {
    pages: Vec<Option<Box<[u8]>>>,
    len: u64,
}

impl Store {
    fn resident_bytes(&self) -> u64 {
        self.pages.iter().filter(|p| p.is_some()).count() as u64 * PAGE as u64
    }
}

/// A handle (with its own position) on shared sparse storage.  Pages that
/// were never written (or only written with zeros) read as zeros and take no
/// memory.
struct Sparse {
    store: Rc<RefCell<Store>>,
    pos: u64,
}

impl Sparse {
    fn new() -> Sparse {
        let store = Store { pages: Vec::new(), len: 0 };
        Sparse { store: Rc::new(RefCell::new(store)), pos: 0 }
    }

    /// Another handle on the same bytes, positioned at the start.
    fn handle(&self) -> Sparse {
        Sparse { store: self.store.clone(), pos: 0 }
    }

    fn len(&self) -> u64 {
        self.store.borrow().len
    }

    fn resident_bytes(&self) -> u64 {
        self.store.borrow().resident_bytes()
    }

    fn set_len(&self, len: u64) {
        let mut store = self.store.borrow_mut();
        assert!(len >= store.len);
        store.len = len;
    }

    fn write_at(&self, offset: u64, data: &[u8]) {
        let mut handle = self.handle();
        handle.seek(SeekFrom::Start(offset)).unwrap();
        handle.write_all(data).unwrap();
    }

    fn read_at(&self, offset: u64, len: usize) -> Vec<u8> {
        let mut handle = self.handle();
        handle.seek(SeekFrom::Start(offset)).unwrap();
        let mut data = vec![0u8; len];
        handle.read_exact(&mut data).unwrap();
        data
    }
}

impl Read for Sparse {
    fn read(&mut self, buf: &mut [u8]) -> io::Result<usize> {
        let store = self.store.borrow();
        if self.pos >= store.len || buf.is_empty() {
            return Ok(0);
        }
        let page = (self.pos / PAGE as u64) as usize;
        let offset = (self.pos % PAGE as u64) as usize;
        let len = buf
            .len()
            .min(PAGE - offset)
            .min((store.len - self.pos).min(PAGE as u64) as usize);
        match store.pages.get(page).and_then(|p| p.as_ref()) {
            Some(data) => {
                buf[..len].copy_from_slice(&data[offset..offset + len])
            }
            None => buf[..len].fill(0),
        }
        self.pos += len as u64;
        Ok(len)
    }
}

impl Write for Sparse {
    fn write(&mut self, buf: &[u8]) -> io::Result<usize> {
        let mut store = self.store.borrow_mut();
        let mut done = 0;
        while done < buf.len() {
            let page = (self.pos / PAGE as u64) as usize;
            let offset = (self.pos % PAGE as u64) as usize;
            let len = (buf.len() - done).min(PAGE - offset);
            let chunk = &buf[done..done + len];
            if page >= store.pages.len() {
                store.pages.resize_with(page + 1, || None);
            }
            if store.pages[page].is_none() && chunk.iter().any(|&b| b != 0) {
                store.pages[page] = Some(vec![0u8; PAGE].into_boxed_slice());
            }
            if let Some(data) = store.pages[page].as_mut() {
                data[offset..offset + len].copy_from_slice(chunk);
            }
            self.pos += len as u64;
            done += len;
        }
        if self.pos > store.len {
            store.len = self.pos;
        }
        Ok(buf.len())
    }

    fn flush(&mut self) -> io::Result<()> {
        Ok(())
    }
}

impl Seek for Sparse {
    fn seek(&mut self, pos: SeekFrom) -> io::Result<u64> {
        let new_pos = match pos {
            SeekFrom::Start(delta) => delta as i128,
            SeekFrom::End(delta) => self.len() as i128 + delta as i128,
            SeekFrom::Current(delta) => self.pos as i128 + delta as i128,
        };
        if new_pos < 0 || new_pos > u64::MAX as i128 {
            return Err(io::Error::new(
                io::ErrorKind::InvalidInput,
                "seek out of range",
            ));
        }
        self.pos = new_pos as u64;
        Ok(self.pos)
    }
}

//===========================================================================//
// Synthesising a compound file

const END_OF_CHAIN: u32 = 0xffff_fffe;
const FREE_SECTOR: u32 = 0xffff_ffff;
const FAT_SECTOR: u32 = 0xffff_fffd;
const DIFAT_SECTOR: u32 = 0xffff_fffc;
const NO_STREAM: u32 = 0xffff_ffff;
const MINI: u64 = 64;

/// Number of mini sectors of stream "s" (which starts at mini sector 0).
const S_MINI: u64 = 3;
const S_LEN: u64 = 150;
const T_DATA: &[u8; 10] = b"TAIL-DATA!";
const NEW_DATA: &[u8; 10] = b"new-bytes!";

fn s_data() -> Vec<u8> {
    (0..S_LEN).map(|i| (i * 7 + 1) as u8).collect()
}

/// Who owns the mini sectors between stream "s" (mini sectors 0..3) and stream
/// "t" (the last mini sector).
#[derive(Clone, Copy, Debug, PartialEq)]
pub enum Fill {
    /// One long mini chain that no directory entry refers to.  (Cheap; the
    /// crate does not look for unreferenced chains, even in strict mode.)
    Orphan,
    /// Streams "m000000", "m000001", ... of 64 mini sectors (4095 bytes)
    /// each; the last one takes what is left.
    Streams,
}

#[derive(Debug)]
struct Layout {
    major: u16,
    sector: u64,
    n_mini: u64,
    fill: Fill,
    /// Number of stream entries (not counting the root entry).
    n_streams: u64,
    // First sector and number of sectors of each region.
    dir: (u64, u64),
    minifat: (u64, u64),
    mini_stream: (u64, u64),
    fat: (u64, u64),
    difat: (u64, u64),
    total_sectors: u64,
}

struct StreamSpec {
    name: String,
    start: u32,
    len: u64,
}

impl Layout {
    fn new(major: u16, n_mini: u64, fill: Fill) -> Layout {
        assert!(n_mini >= S_MINI + 2);
        let sector: u64 = if major == 3 { 512 } else { 4096 };
        let n_middle = n_mini - S_MINI - 1;
        let n_streams = match fill {
            Fill::Orphan => 2,
            Fill::Streams => 2 + n_middle.div_ceil(64),
        };
        let dir_n = (1 + n_streams).div_ceil(sector / 128);
        let minifat_n = n_mini.div_ceil(sector / 4);
        let mini_stream_n = (n_mini * MINI).div_ceil(sector);
        let base = dir_n + minifat_n + mini_stream_n;
        let (mut fat_n, mut difat_n) = (0u64, 0u64);
        loop {
            let total = base + fat_n + difat_n;
            let fat_n2 = total.div_ceil(sector / 4);
            let difat_n2 = fat_n2.saturating_sub(109).div_ceil(sector / 4 - 1);
            if (fat_n2, difat_n2) == (fat_n, difat_n) {
                break;
            }
            fat_n = fat_n2;
            difat_n = difat_n2;
        }
        let dir = (0, dir_n);
        let minifat = (dir.0 + dir.1, minifat_n);
        let mini_stream = (minifat.0 + minifat.1, mini_stream_n);
        let fat = (mini_stream.0 + mini_stream.1, fat_n);
        let difat = (fat.0 + fat.1, difat_n);
        let total_sectors = difat.0 + difat.1;
        assert!(total_sectors <= 0xffff_fffa);
        Layout {
            major,
            sector,
            n_mini,
            fill,
            n_streams,
            dir,
            minifat,
            mini_stream,
            fat,
            difat,
            total_sectors,
        }
    }

    fn mini_stream_len(&self) -> u64 {
        self.n_mini * MINI
    }

    fn sector_offset(&self, sector_id: u64) -> u64 {
        (sector_id + 1) * self.sector
    }

    /// Byte offset in the file of a mini sector (the mini stream's chain is
    /// laid out in consecutive sectors).
    fn mini_sector_offset(&self, mini_sector: u64) -> u64 {
        self.sector_offset(self.mini_stream.0) + mini_sector * MINI
    }

    /// Byte offset in the file of the root entry's stream length field.
    fn root_len_offset(&self) -> u64 {
        self.sector_offset(self.dir.0) + 120
    }

    /// The stream at the given position in name order ("s" < "t" < "m......"
    /// because shorter names sort first).
    fn stream_spec(&self, position: u64) -> StreamSpec {
        match position {
            0 => StreamSpec { name: "s".to_string(), start: 0, len: S_LEN },
            1 => StreamSpec {
                name: "t".to_string(),
                start: (self.n_mini - 1) as u32,
                len: T_DATA.len() as u64,
            },
            _ => {
                assert_eq!(self.fill, Fill::Streams);
                let index = position - 2;
                let start = S_MINI + 64 * index;
                let count = (self.n_mini - 1 - start).min(64);
                assert!(count > 0);
                let len = if count == 64 { 4095 } else { count * MINI };
                StreamSpec {
                    name: format!("m{:06x}", index),
                    start: start as u32,
                    len,
                }
            }
        }
    }

    fn minifat_entry(&self, index: u64) -> u32 {
        let last = self.n_mini - 1;
        if index < S_MINI {
            if index == S_MINI - 1 {
                END_OF_CHAIN
            } else {
                (index + 1) as u32
            }
        } else if index == last {
            END_OF_CHAIN
        } else if index < last {
            let ends = match self.fill {
                Fill::Orphan => index == last - 1,
                Fill::Streams => {
                    (index - S_MINI) % 64 == 63 || index == last - 1
                }
            };
            if ends {
                END_OF_CHAIN
            } else {
                (index + 1) as u32
            }
        } else {
            FREE_SECTOR
        }
    }

    fn fat_entry(&self, index: u64) -> u32 {
        for &(first, count) in
            [self.dir, self.minifat, self.mini_stream].iter()
        {
            if index >= first && index < first + count {
                return if index == first + count - 1 {
                    END_OF_CHAIN
                } else {
                    (index + 1) as u32
                };
            }
        }
        if index >= self.fat.0 && index < self.fat.0 + self.fat.1 {
            FAT_SECTOR
        } else if index >= self.difat.0 && index < self.difat.0 + self.difat.1
        {
            DIFAT_SECTOR
        } else {
            FREE_SECTOR
        }
    }
}

fn dir_entry_bytes(
    name: &str,
    obj_type: u8,
    color: u8,
    links: (u32, u32, u32),
    start: u32,
    len: u64,
) -> [u8; 128] {
    let mut entry = [0u8; 128];
    let units: Vec<u16> = name.encode_utf16().collect();
    assert!(units.len() < 32);
    for (i, unit) in units.iter().enumerate() {
        entry[2 * i..2 * i + 2].copy_from_slice(&unit.to_le_bytes());
    }
    let name_len = if obj_type == 0 { 0 } else { (units.len() as u16 + 1) * 2 };
    entry[64..66].copy_from_slice(&name_len.to_le_bytes());
    entry[66] = obj_type;
    entry[67] = color;
    entry[68..72].copy_from_slice(&links.0.to_le_bytes());
    entry[72..76].copy_from_slice(&links.1.to_le_bytes());
    entry[76..80].copy_from_slice(&links.2.to_le_bytes());
    // CLSID (80..96), state bits (96..100), created (100..108) and modified
    // (108..116) stay zero.
    entry[116..120].copy_from_slice(&start.to_le_bytes());
    entry[120..128].copy_from_slice(&len.to_le_bytes());
    entry
}

/// Links positions `lo..hi` (in name order) into a balanced binary search
/// tree; returns the stream id of its root.  Stream ids are position + 1.
fn build_tree(
    lo: usize,
    hi: usize,
    depth: u8,
    left: &mut [u32],
    right: &mut [u32],
    depths: &mut [u8],
) -> u32 {
    if lo >= hi {
        return NO_STREAM;
    }
    let mid = lo + (hi - lo) / 2;
    depths[mid] = depth;
    left[mid] = build_tree(lo, mid, depth + 1, left, right, depths);
    right[mid] = build_tree(mid + 1, hi, depth + 1, left, right, depths);
    (mid + 1) as u32
}

/// Writes `count` little-endian u32 values, produced by `value`, at `offset`.
fn write_u32_table(
    backend: &Sparse,
    offset: u64,
    count: u64,
    value: impl Fn(u64) -> u32,
) {
    let mut handle = backend.handle();
    handle.seek(SeekFrom::Start(offset)).unwrap();
    let mut chunk = Vec::with_capacity(PAGE);
    for index in 0..count {
        chunk.extend_from_slice(&value(index).to_le_bytes());
        if chunk.len() == PAGE {
            handle.write_all(&chunk).unwrap();
            chunk.clear();
        }
    }
    handle.write_all(&chunk).unwrap();
}

fn synthesise(layout: &Layout) -> Sparse {
    let backend = Sparse::new();
    let sector = layout.sector;
    let u32s_per_sector = sector / 4;

    // Header.
    let mut header = vec![0u8; 512];
    header[0..8]
        .copy_from_slice(&[0xd0, 0xcf, 0x11, 0xe0, 0xa1, 0xb1, 0x1a, 0xe1]);
    header[24..26].copy_from_slice(&0x3eu16.to_le_bytes());
    header[26..28].copy_from_slice(&layout.major.to_le_bytes());
    header[28..30].copy_from_slice(&0xfffeu16.to_le_bytes());
    let sector_shift: u16 = if layout.major == 3 { 9 } else { 12 };
    header[30..32].copy_from_slice(&sector_shift.to_le_bytes());
    header[32..34].copy_from_slice(&6u16.to_le_bytes());
    let num_dir_sectors = if layout.major == 3 { 0 } else { layout.dir.1 };
    let fields: [u64; 9] = [
        num_dir_sectors,
        layout.fat.1,
        layout.dir.0,
        0, // transaction signature
        4096,
        layout.minifat.0,
        layout.minifat.1,
        if layout.difat.1 == 0 { END_OF_CHAIN as u64 } else { layout.difat.0 },
        layout.difat.1,
    ];
    for (i, &field) in fields.iter().enumerate() {
        let at = 40 + 4 * i;
        header[at..at + 4].copy_from_slice(&(field as u32).to_le_bytes());
    }
    for i in 0..109u64 {
        let entry = if i < layout.fat.1 {
            (layout.fat.0 + i) as u32
        } else {
            FREE_SECTOR
        };
        let at = 76 + 4 * i as usize;
        header[at..at + 4].copy_from_slice(&entry.to_le_bytes());
    }
    backend.write_at(0, &header);

    // DIFAT sectors: the FAT sectors beyond the first 109, then a pointer to
    // the next DIFAT sector.
    let per_difat = u32s_per_sector - 1;
    write_u32_table(
        &backend,
        layout.sector_offset(layout.difat.0),
        layout.difat.1 * u32s_per_sector,
        |index| {
            let difat_sector = index / u32s_per_sector;
            let slot = index % u32s_per_sector;
            if slot == per_difat {
                if difat_sector + 1 == layout.difat.1 {
                    END_OF_CHAIN
                } else {
                    (layout.difat.0 + difat_sector + 1) as u32
                }
            } else {
                let fat_index = 109 + difat_sector * per_difat + slot;
                if fat_index < layout.fat.1 {
                    (layout.fat.0 + fat_index) as u32
                } else {
                    FREE_SECTOR
                }
            }
        },
    );

    // FAT.
    write_u32_table(
        &backend,
        layout.sector_offset(layout.fat.0),
        layout.fat.1 * u32s_per_sector,
        |index| layout.fat_entry(index),
    );

    // MiniFAT.
    write_u32_table(
        &backend,
        layout.sector_offset(layout.minifat.0),
        layout.minifat.1 * u32s_per_sector,
        |index| layout.minifat_entry(index),
    );

    // Directory.
    let n = layout.n_streams as usize;
    let mut left = vec![NO_STREAM; n];
    let mut right = vec![NO_STREAM; n];
    let mut depths = vec![0u8; n];
    let tree_root = build_tree(0, n, 0, &mut left, &mut right, &mut depths);
    let max_depth = *depths.iter().max().unwrap();
    // Every level but the deepest is full; unless the deepest is full too,
    // its nodes are red, which makes all black heights equal.
    let perfect = n as u64 == (1u64 << (max_depth as u32 + 1)) - 1;
    {
        let mut handle = backend.handle();
        handle
            .seek(SeekFrom::Start(layout.sector_offset(layout.dir.0)))
            .unwrap();
        let mut chunk = Vec::with_capacity(PAGE);
        let n_slots = layout.dir.1 * (sector / 128);
        for id in 0..n_slots {
            let entry = if id == 0 {
                dir_entry_bytes(
                    "Root Entry",
                    5,
                    1,
                    (NO_STREAM, NO_STREAM, tree_root),
                    layout.mini_stream.0 as u32,
                    layout.mini_stream_len(),
                )
            } else if id <= layout.n_streams {
                let position = (id - 1) as usize;
                let spec = layout.stream_spec(position as u64);
                let red = !perfect && depths[position] == max_depth;
                dir_entry_bytes(
                    &spec.name,
                    2,
                    if red { 0 } else { 1 },
                    (left[position], right[position], NO_STREAM),
                    spec.start,
                    spec.len,
                )
            } else {
                dir_entry_bytes("", 0, 0, (NO_STREAM, NO_STREAM, NO_STREAM), 0, 0)
            };
            chunk.extend_from_slice(&entry);
            if chunk.len() == PAGE {
                handle.write_all(&chunk).unwrap();
                chunk.clear();
            }
        }
        handle.write_all(&chunk).unwrap();
    }

    // Mini stream: all zeros (never written) except the data of "s" and "t".
    backend.write_at(layout.mini_sector_offset(0), &s_data());
    backend.write_at(layout.mini_sector_offset(layout.n_mini - 1), T_DATA);
    backend.set_len(layout.sector_offset(layout.total_sectors));
    backend
}

//===========================================================================//
// The experiment

type Content = Result<Vec<u8>, String>;

/// What a CompoundFile object reports about the file.
#[derive(Debug, PartialEq)]
struct View {
    root_len: u64,
    num_root_children: usize,
    streams: Vec<(String, Content)>,
}

fn describe(content: &Content) -> String {
    match content {
        Ok(data) if data.len() <= 16 => {
            format!("Ok({:?})", String::from_utf8_lossy(data))
        }
        Ok(data) => format!(
            "Ok({} bytes, first 8 = {:02x?}, {} non-zero)",
            data.len(),
            &data[..8],
            data.iter().filter(|&&b| b != 0).count()
        ),
        Err(error) => format!("Err({})", error),
    }
}

fn read_stream(cfb: &mut CompoundFile<Sparse>, path: &str) -> Content {
    let mut stream = cfb.open_stream(path).map_err(|e| e.to_string())?;
    let mut data = Vec::new();
    stream.read_to_end(&mut data).map_err(|e| e.to_string())?;
    Ok(data)
}

fn view(cfb: &mut CompoundFile<Sparse>, paths: &[String]) -> View {
    let root_len = cfb.root_entry().len();
    let num_root_children = cfb.read_root_storage().count();
    let streams =
        paths.iter().map(|p| (p.clone(), read_stream(cfb, p))).collect();
    View { root_len, num_root_children, streams }
}

fn print_view(label: &str, view: &View) {
    qprintln!(
        "  {}: root_entry().len() = {} (0x{:x}), {} entries in the root storage",
        label, view.root_len, view.root_len, view.num_root_children
    );
    for (path, content) in view.streams.iter() {
        qprintln!("    {:<10} {}", path, describe(content));
    }
}

fn open(backend: &Sparse, strict: bool) -> io::Result<CompoundFile<Sparse>> {
    if strict {
        CompoundFile::open_strict(backend.handle())
    } else {
        CompoundFile::open(backend.handle())
    }
}

pub fn run(major: u16, n_mini: u64, fill: Fill) -> Result<String, String> {
    let t0 = Instant::now();
    let layout = Layout::new(major, n_mini, fill);
    qprintln!(
        "=== version {}, mini stream of {} mini sectors = {} bytes (0x{:x}), \
         fill {:?} ===",
        major,
        n_mini,
        layout.mini_stream_len(),
        layout.mini_stream_len(),
        fill
    );
    qprintln!("  {:?}", layout);
    let backend = synthesise(&layout);
    qprintln!(
        "  synthesised: {} bytes logical, {} bytes resident, {:.1}s",
        backend.len(),
        backend.resident_bytes(),
        t0.elapsed().as_secs_f64()
    );

    let mut paths: Vec<String> =
        vec!["/s".to_string(), "/t".to_string(), "/new".to_string()];
    if fill == Fill::Streams {
        paths.push(format!("/{}", layout.stream_spec(2).name));
        paths
            .push(format!("/{}", layout.stream_spec(layout.n_streams - 1).name));
    }
    let mut failures: Vec<String> = Vec::new();

    // 1. The unchanged crate must accept the synthesised file in strict mode
    //    and see what was put there.
    let t1 = Instant::now();
    let mut cfb = open(&backend, true).expect("strict open of synthesised file");
    qprintln!("  strict open took {:.1}s", t1.elapsed().as_secs_f64());
    assert_eq!(cfb.version().number(), major);
    let before = view(&mut cfb, &paths);
    print_view("synthesised file", &before);
    assert_eq!(before.root_len, layout.mini_stream_len());
    assert_eq!(before.num_root_children as u64, layout.n_streams);
    assert_eq!(before.streams[0].1, Ok(s_data()));
    assert_eq!(before.streams[1].1, Ok(T_DATA.to_vec()));
    assert!(before.streams[2].1.is_err());
    if fill == Fill::Streams {
        assert_eq!(before.streams[3].1, Ok(vec![0u8; 4095]));
        let last_len = layout.stream_spec(layout.n_streams - 1).len as usize;
        assert_eq!(before.streams[4].1, Ok(vec![0u8; last_len]));
    }

    // 2. Create one more small stream: needs one more mini sector.
    let t2 = Instant::now();
    let mut results: Vec<(&str, Result<(), String>)> = Vec::new();
    match cfb.create_stream("/new") {
        Ok(mut stream) => {
            results.push(("create_stream(\"/new\")", Ok(())));
            results.push((
                "stream.write_all(10 bytes)",
                stream.write_all(NEW_DATA).map_err(|e| e.to_string()),
            ));
            results.push((
                "stream.flush()",
                stream.flush().map_err(|e| e.to_string()),
            ));
        }
        Err(error) => {
            results.push(("create_stream(\"/new\")", Err(error.to_string())))
        }
    }
    results.push(("cfb.flush()", cfb.flush().map_err(|e| e.to_string())));
    for (call, result) in results.iter() {
        qprintln!("  {} -> {:?}", call, result);
    }
    let all_ok = results.iter().all(|(_, r)| r.is_ok());
    let live = view(&mut cfb, &paths);
    print_view("live object before drop", &live);
    drop(cfb);
    qprintln!("  calls + live view took {:.1}s", t2.elapsed().as_secs_f64());
    let raw = backend.read_at(layout.root_len_offset(), 8);
    qprintln!(
        "  raw bytes of the root entry's length field in the backend: \
         {:02x?} (= {} as u64, {} after the 32-bit mask)",
        raw,
        u64::from_le_bytes(raw.clone().try_into().unwrap()),
        u32::from_le_bytes(raw[..4].try_into().unwrap()),
    );
    if all_ok {
        if live.streams[2].1 != Ok(NEW_DATA.to_vec()) {
            failures.push(format!(
                "every call returned Ok but the live object reports /new as {}",
                describe(&live.streams[2].1)
            ));
        }
    }
    if live.streams[0].1 != Ok(s_data())
        || live.streams[1].1 != Ok(T_DATA.to_vec())
    {
        failures.push("the live object no longer reports s and t".to_string());
    }

    // 3. The bytes in the backend must reopen to what the live object
    //    reported, in both modes.
    for &strict in [true, false].iter() {
        let mode = if strict { "open_strict" } else { "open" };
        let t3 = Instant::now();
        match open(&backend, strict) {
            Ok(mut cfb) => {
                let reopened = view(&mut cfb, &paths);
                print_view(&format!("reopened with {}", mode), &reopened);
                if reopened != live {
                    failures.push(format!(
                        "reopened with {}: differs from what the live object \
                         reported (root length {} vs {}; {})",
                        mode,
                        reopened.root_len,
                        live.root_len,
                        reopened
                            .streams
                            .iter()
                            .zip(live.streams.iter())
                            .filter(|(a, b)| a != b)
                            .map(|(a, b)| format!(
                                "{}: {} vs {}",
                                a.0,
                                describe(&a.1),
                                describe(&b.1)
                            ))
                            .collect::<Vec<_>>()
                            .join("; ")
                    ));
                }
            }
            Err(error) => {
                qprintln!("  reopened with {}: Err({})", mode, error);
                failures.push(format!("{} fails: {}", mode, error));
            }
        }
        qprintln!("  ({} + view took {:.1}s)", mode, t3.elapsed().as_secs_f64());
    }
    qprintln!(
        "  backend now {} bytes logical, {} bytes resident; total {:.1}s",
        backend.len(),
        backend.resident_bytes(),
        t0.elapsed().as_secs_f64()
    );
    qprintln!(
        "  VERDICT (version {}, {} mini sectors): calls {}; {}",
        major,
        n_mini,
        if all_ok { "all returned Ok" } else { "reported an error" },
        if failures.is_empty() {
            "file reopens to the state the live object reported".to_string()
        } else {
            format!("INCOHERENT: {}", failures.join(" | "))
        }
    );
    if failures.is_empty() {
        Ok(format!("calls {}", if all_ok { "all returned Ok" } else { "were refused" }))
    } else {
        Err(format!(
            "version {} file whose mini stream has {} mini sectors ({} bytes), then create_stream + write 10 bytes + flush ({}): {}",
            major, n_mini, n_mini * 64,
            if all_ok { "every call returned Ok" } else { "a call reported an error" },
            failures.join(" | ")
        ))
    }
}

/// Number of mini sectors in a mini stream of 2^32 - 64 bytes, the largest length that a
/// version 3 root entry can record.
pub const V3_MAX_MINI: u64 = (1 << 32) / 64 - 1;


