//! Fixed witness scenarios for the defects found on the pinned tree.  Each
//! returns Ok(()) when the property holds on this scenario.  They run first in
//! the checks of the property they belong to (corpus), and were used to confirm
//! each defect before its `fix:` commit.

use std::io::{Read, Seek, SeekFrom, Write};
use std::panic::{catch_unwind, AssertUnwindSafe};

use cfb::{CompoundFile, Version};

use crate::backend::SharedBuf;

type R = Result<(), String>;

fn fresh(v: Version) -> (SharedBuf, CompoundFile<SharedBuf>) {
    let buf = SharedBuf::new(Vec::new());
    let comp = CompoundFile::create_with_version(v, buf.clone()).unwrap();
    (buf, comp)
}

fn no_panic<T>(what: &str, f: impl FnOnce() -> T) -> Result<T, String> {
    catch_unwind(AssertUnwindSafe(f)).map_err(|_| format!("panic in {}", what))
}

pub fn c01_create_under_stream() -> R {
    for v in [Version::V3, Version::V4] {
        let (_b, mut c) = fresh(v);
        drop(c.create_stream("/s").unwrap());
        if c.create_storage("/s/x").is_ok() {
            return Err("create_storage(/s/x) succeeded under stream /s".into());
        }
        if c.create_stream("/s/y").is_ok() {
            return Err("create_stream(/s/y) succeeded under stream /s".into());
        }
        if c.create_new_stream("/s/z").is_ok() {
            return Err("create_new_stream(/s/z) succeeded under stream /s".into());
        }
        if c.create_storage_all("/s/p/q").is_ok() {
            return Err("create_storage_all(/s/p/q) succeeded under stream /s".into());
        }
        if c.walk().count() != 2 {
            return Err("tree changed by refused creations".into());
        }
    }
    Ok(())
}

pub fn c06_seek_min() -> R {
    let (_b, mut c) = fresh(Version::V3);
    let mut s = c.create_stream("/a").unwrap();
    s.write_all(&[1, 2, 3]).unwrap();
    for sf in [
        SeekFrom::End(i64::MIN),
        SeekFrom::Current(i64::MIN),
        SeekFrom::End(i64::MIN + 1),
        SeekFrom::Current(i64::MAX),
        SeekFrom::Start(u64::MAX),
    ] {
        let r = no_panic("seek", || s.seek(sf))?;
        match r {
            Err(e) if e.kind() == std::io::ErrorKind::InvalidInput => {}
            other => return Err(format!("seek({:?}) -> {:?}", sf, other)),
        }
        if s.stream_position().unwrap() != 3 {
            return Err("position changed by refused seek".into());
        }
    }
    Ok(())
}

pub fn c07_handle_after_two_child_removal() -> R {
    let (_b, mut c) = fresh(Version::V3);
    // b is the root of the sibling tree, a its left child, c its right child
    for n in ["/b", "/a", "/c"] {
        let mut s = c.create_stream(n).unwrap();
        s.write_all(n.as_bytes()).unwrap();
    }
    let mut ha = c.open_stream("/a").unwrap();
    c.remove_stream("/b").map_err(|e| e.to_string())?;
    let mut s = c.create_stream("/d").unwrap();
    s.write_all(b"dddd").unwrap();
    drop(s);
    ha.seek(SeekFrom::Start(0)).unwrap();
    ha.write_all(b"AAAAAA").map_err(|e| e.to_string())?;
    ha.flush().map_err(|e| e.to_string())?;
    drop(ha);
    let rd = |c: &mut CompoundFile<SharedBuf>, p: &str| {
        let mut v = Vec::new();
        c.open_stream(p).unwrap().read_to_end(&mut v).unwrap();
        v
    };
    let a = rd(&mut c, "/a");
    let d = rd(&mut c, "/d");
    if a != b"AAAAAA" || d != b"dddd" {
        return Err(format!(
            "write through handle on /a landed elsewhere: /a={:?} /d={:?}",
            String::from_utf8_lossy(&a),
            String::from_utf8_lossy(&d)
        ));
    }
    Ok(())
}

pub fn c08_shrink_grow() -> R {
    for v in [Version::V3, Version::V4] {
        for (a, b) in [(100u64, 10u64), (5000, 4200), (9000, 8200), (700, 100)] {
            let (buf, mut c) = fresh(v);
            let mut s = c.create_stream("/s").unwrap();
            s.write_all(&vec![0xAB; a as usize]).unwrap();
            s.set_len(b).unwrap();
            s.set_len(a).unwrap();
            s.seek(SeekFrom::Start(0)).unwrap();
            let mut got = Vec::new();
            s.read_to_end(&mut got).unwrap();
            drop(s);
            let mut exp = vec![0xAB; b as usize];
            exp.resize(a as usize, 0);
            if got != exp {
                let bad = got.iter().zip(&exp).filter(|(x, y)| x != y).count();
                return Err(format!(
                    "{:?} {}->{}->{}: {} stale bytes",
                    v, a, b, a, bad
                ));
            }
            let mut c2 = CompoundFile::open(SharedBuf::new(buf.snapshot())).unwrap();
            let mut got2 = Vec::new();
            c2.open_stream("/s").unwrap().read_to_end(&mut got2).unwrap();
            if got2 != exp {
                return Err("stale bytes after reopen".into());
            }
        }
        // reuse of freed mini sectors by a new stream's set_len
        let (_buf, mut c) = fresh(v);
        let mut s = c.create_stream("/old").unwrap();
        s.write_all(&[0xCD; 640]).unwrap();
        drop(s);
        c.remove_stream("/old").unwrap();
        let mut s = c.create_stream("/new").unwrap();
        s.set_len(640).unwrap();
        let mut got = Vec::new();
        s.read_to_end(&mut got).unwrap();
        let bad = got.iter().filter(|&&x| x != 0).count();
        if got.len() != 640 || bad != 0 {
            return Err(format!("{:?} new stream set_len(640): {} stale bytes", v, bad));
        }
    }
    Ok(())
}

pub fn c09_invalid_names() -> R {
    let long: String = "x".repeat(32);
    // refused while the directory has spare slots, and while it is exactly full (a refusal must
    // not have allocated a directory sector first)
    for (v, prefill) in [(Version::V3, 0usize), (Version::V3, 3), (Version::V3, 7), (Version::V4, 31)] {
    for name in ["a:b", "a!b", "a\\b", long.as_str()] {
        let (buf, mut c) = fresh(v);
        for i in 0..prefill {
            if i % 2 == 0 { c.create_storage(format!("/p{:02}", i)).unwrap(); } else { drop(c.create_stream(format!("/p{:02}", i)).unwrap()); }
        }
        c.flush().unwrap();
        let before = buf.snapshot();
        let p = format!("/{}", name);
        let r = no_panic("create_storage", || c.create_storage(&p))?;
        match r {
            Err(e) if e.kind() == std::io::ErrorKind::InvalidInput => {}
            other => return Err(format!("create_storage({:?}) -> {:?}", p, other)),
        }
        let r = no_panic("create_stream", || c.create_stream(&p).map(|_| ()))?;
        match r {
            Err(e) if e.kind() == std::io::ErrorKind::InvalidInput => {}
            other => return Err(format!("create_stream({:?}) -> {:?}", p, other)),
        }
        let r = no_panic("create_storage_all", || {
            c.create_storage_all(format!("/new/{}", name))
        })?;
        match r {
            Err(e) if e.kind() == std::io::ErrorKind::InvalidInput => {}
            other => return Err(format!("create_storage_all -> {:?}", other)),
        }
        let r = no_panic("create_new_stream", || c.create_new_stream(&p).map(|_| ()))?;
        match r {
            Err(e) if e.kind() == std::io::ErrorKind::InvalidInput => {}
            other => return Err(format!("create_new_stream({:?}) -> {:?}", p, other)),
        }
        if buf.snapshot() != before {
            return Err(format!("{:?} with {} objects in the root: refused creation of {:?} changed the bytes ({} -> {} bytes)", v, prefill, name, before.len(), buf.snapshot().len()));
        }
    }
    }
    Ok(())
}

pub fn c09_order_code_units() -> R {
    let (buf, mut c) = fresh(Version::V3);
    // as UTF-16: "\u{10000}" = D800 DC00, "\u{E000}a" = E000 0061 (both 2 units)
    c.create_storage("/\u{10000}").unwrap();
    c.create_storage("/\u{E000}a").unwrap();
    let names: Vec<String> =
        c.read_root_storage().map(|e| e.name().to_string()).collect();
    if names != vec!["\u{10000}".to_string(), "\u{E000}a".to_string()] {
        return Err(format!("listing order by code point, not code unit: {:?}", names));
    }
    let _ = buf;
    Ok(())
}

pub fn c11_corrupt_mini_start() -> R {
    for v in [Version::V3, Version::V4] {
        let (buf, mut c) = fresh(v);
        let mut s = c.create_stream("/s").unwrap();
        s.write_all(&[7u8; 100]).unwrap();
        drop(s);
        drop(c);
        let mut bytes = buf.snapshot();
        // directory entry 1 of the first directory sector (sector 1)
        let sl = v.sector_len();
        let off = 2 * sl + 128 + 116;
        for bad in [0xFFFF_FFFDu32, 5, 0x7FFF_FFFF, 0xFFFF_FFFF] {
            bytes[off..off + 4].copy_from_slice(&bad.to_le_bytes());
            let b = SharedBuf::new(bytes.clone());
            let mut c = match CompoundFile::open(b) {
                Ok(c) => c,
                Err(_) => continue,
            };
            no_panic("remove_stream", || {
                let _ = c.remove_stream("/s");
            })?;
            let b = SharedBuf::new(bytes.clone());
            let mut c = CompoundFile::open(b).unwrap();
            no_panic("set_len", || {
                if let Ok(mut s) = c.open_stream("/s") {
                    let _ = s.set_len(10);
                    let _ = s.set_len(5000);
                }
            })?;
            let b = SharedBuf::new(bytes.clone());
            let mut c = CompoundFile::open(b).unwrap();
            no_panic("write", || {
                if let Ok(mut s) = c.open_stream("/s") {
                    let _ = s.seek(SeekFrom::End(0));
                    let _ = s.write_all(&[1u8; 200]);
                    let _ = s.flush();
                }
            })?;
        }
    }
    Ok(())
}

pub fn c11_sectors_beyond_fat() -> R {
    // a file with more sectors than its FAT sectors can describe: the loader
    // pads the FAT with free entries that no FAT sector backs
    let (buf, c) = fresh(Version::V3);
    drop(c);
    let mut bytes = buf.snapshot();
    bytes.resize(bytes.len() + 200 * 512, 0);
    let b = SharedBuf::new(bytes);
    let mut c = match CompoundFile::open(b) {
        Ok(c) => c,
        Err(_) => return Ok(()),
    };
    no_panic("create+write", || {
        if let Ok(mut s) = c.create_stream("/big") {
            let _ = s.write_all(&[3u8; 9000]);
            let _ = s.flush();
        }
    })?;
    Ok(())
}

pub fn c11_length_without_sectors() -> R {
    // directory entries that claim a length but name no first sector (start = END_OF_CHAIN):
    // permissive open accepts them; growing, shrinking, appending and allocating must not panic
    for v in [Version::V3, Version::V4] {
        let sl = v.sector_len();
        let (buf, mut c) = fresh(v);
        c.create_stream("/a").unwrap().write_all(&[1u8; 100]).unwrap();
        c.create_stream("/b").unwrap().write_all(&[2u8; 5000]).unwrap();
        drop(c);
        let base = buf.snapshot();
        let dir_sector = u32::from_le_bytes(base[48..52].try_into().unwrap()) as usize;
        let ent = |slot: usize| (dir_sector + 1) * sl + 128 * slot;
        // (slot, field offset, value): slot 0 = root, 1 = /a, 2 = /b
        let cases: Vec<(&str, Vec<(usize, usize, u64, usize)>)> = vec![
            ("small stream without sectors", vec![(1, 116, 0xFFFF_FFFE, 4)]),
            ("large stream without sectors", vec![(2, 116, 0xFFFF_FFFE, 4)]),
            ("mini stream container without sectors", vec![(0, 116, 0xFFFF_FFFE, 4)]),
            ("mini stream length not a multiple of 64", vec![(0, 120, 100, 8)]),
            ("mini stream length shorter than the MiniFAT", vec![(0, 120, 64, 8)]),
        ];
        for (what, patches) in cases {
            let mut bytes = base.clone();
            for (slot, off, val, width) in patches {
                let o = ent(slot) + off;
                bytes[o..o + width].copy_from_slice(&val.to_le_bytes()[..width]);
            }
            for step in 0..6 {
                let b = SharedBuf::new(bytes.clone());
                let mut c = match CompoundFile::open(b) {
                    Ok(c) => c,
                    Err(_) => break,
                };
                no_panic(&format!("{:?} {} step {}", v, what, step), || {
                    for p in ["/a", "/b"] {
                        match step {
                            0 => {
                                if let Ok(mut s) = c.open_stream(p) {
                                    let _ = s.seek(SeekFrom::End(0));
                                    let _ = s.write_all(&[9u8; 10]);
                                    let _ = s.flush();
                                }
                            }
                            1 => {
                                if let Ok(mut s) = c.open_stream(p) {
                                    let _ = s.set_len(0);
                                    let _ = s.set_len(10);
                                }
                            }
                            2 => {
                                if let Ok(mut s) = c.open_stream(p) {
                                    let _ = s.set_len(6000);
                                }
                            }
                            3 => {
                                let _ = c.create_stream(p).map(|mut s| s.write_all(&[7u8; 300]));
                            }
                            4 => {
                                let _ = c.remove_stream(p);
                            }
                            _ => {
                                if let Ok(mut s) = c.open_stream(p) {
                                    let mut v = Vec::new();
                                    let _ = s.read_to_end(&mut v);
                                }
                            }
                        }
                    }
                    let _ = c.create_stream("/fresh").map(|mut s| s.write_all(&[5u8; 200]));
                    let _ = c.remove_stream("/fresh");
                })?;
            }
        }
    }
    Ok(())
}

pub fn c12_failed_refill() -> R {
    let (buf, mut c) = fresh(Version::V3);
    let content: Vec<u8> = (0..6000u32).map(|i| (i * 7 + i / 256) as u8).collect();
    let mut s = c.create_stream("/s").unwrap();
    s.write_all(&content).unwrap();
    drop(s);
    drop(c);
    let bytes = buf.snapshot();
    // count the raw reads of the workload, then fail each in turn
    let run = |fail_at: Option<u64>| -> Result<(u64, Option<String>), String> {
        let b = SharedBuf::new(bytes.clone());
        let c = cfb::OpenOptions::new().max_buffer_size(1024).open_with(b.clone());
        let mut c = c.map_err(|e| e.to_string())?;
        let mut s = c.open_stream("/s").map_err(|e| e.to_string())?;
        {
            let mut ctl = b.ctl.lock().unwrap();
            ctl.fail_kinds = [true, false, true, false];
            ctl.seq = 0;
            if let Some(k) = fail_at {
                ctl.fail_at = vec![k];
            }
        }
        let mut pos = 0usize;
        let mut bad = None;
        let mut tmp = [0u8; 700];
        let mut errors = 0;
        loop {
            match s.read(&mut tmp) {
                Ok(0) => break,
                Ok(k) => {
                    let here = s.stream_position().unwrap() as usize;
                    let start = here - k;
                    if start + k > content.len()
                        || tmp[..k] != content[start..start + k]
                    {
                        bad = Some(format!(
                            "read after fault returned wrong bytes at {}..{}",
                            start,
                            start + k
                        ));
                        break;
                    }
                    pos = here;
                }
                Err(_) => {
                    errors += 1;
                    if errors > 3 {
                        break;
                    }
                }
            }
        }
        let _ = pos;
        let n = b.ctl.lock().unwrap().seq;
        Ok((n, bad))
    };
    let (n, _) = run(None)?;
    for k in 0..n {
        let r = no_panic("faulted read workload", || run(Some(k)))??;
        if let (_, Some(msg)) = r {
            return Err(format!("fault at raw call {}: {}", k, msg));
        }
    }
    Ok(())
}

pub fn c13_flush_retry() -> R {
    let (buf, mut c) = fresh(Version::V3);
    let mut s = c.create_stream("/s").unwrap();
    s.write_all(b"hello world").unwrap();
    {
        let mut ctl = buf.ctl.lock().unwrap();
        ctl.fail_kinds = [false, true, false, false];
        ctl.seq = 0;
        ctl.fail_at = vec![0];
    }
    let r1 = s.flush();
    if r1.is_ok() {
        return Err("first flush unexpectedly Ok".into());
    }
    let r2 = no_panic("flush", || s.flush())?;
    if r2.is_ok() {
        drop(s);
        let mut v = Vec::new();
        c.open_stream("/s").unwrap().read_to_end(&mut v).unwrap();
        if v != b"hello world" {
            return Err(format!(
                "flush returned Ok after a failed attempt but the stream holds {:?}",
                String::from_utf8_lossy(&v)
            ));
        }
    }
    Ok(())
}

pub fn c13_failed_set_len() -> R {
    // set_len fails after the entry was updated; a later write + flush must not panic
    let (buf, mut c) = fresh(Version::V3);
    let mut s = c.create_stream("/a").unwrap();
    s.write_all(&[1u8; 50]).unwrap();
    s.flush().unwrap();
    let count = |b: &SharedBuf| b.ctl.lock().unwrap().seq;
    {
        let mut ctl = buf.ctl.lock().unwrap();
        ctl.fail_kinds = [false, true, true, true];
        ctl.seq = 0;
    }
    // find how many raw calls a set_len(6000) makes on a copy, then fail each in turn
    let snapshot = buf.snapshot();
    drop(s);
    drop(c);
    let run = |k: Option<u64>| -> Result<u64, String> {
        let b = SharedBuf::new(snapshot.clone());
        let mut c = CompoundFile::open(b.clone()).map_err(|e| e.to_string())?;
        let mut s = c.open_stream("/a").map_err(|e| e.to_string())?;
        {
            let mut ctl = b.ctl.lock().unwrap();
            ctl.fail_kinds = [false, true, true, true];
            ctl.seq = 0;
            if let Some(k) = k {
                ctl.fail_at = vec![k];
            }
        }
        let _ = s.set_len(6000);
        no_panic("write+flush after failed set_len", || {
            let _ = s.write(&[2u8; 10]);
            let _ = s.flush();
            let _ = s.len();
        })?;
        Ok(count(&b))
    };
    let n = run(None)?;
    for k in 0..n {
        run(Some(k)).map_err(|e| format!("fault at raw call {} of set_len(6000): {}", k, e))?;
    }
    Ok(())
}

pub fn c14_lock_depth() -> R {
    let (_b, mut c) = fresh(Version::V3);
    c.create_storage("/d").unwrap();
    drop(c.create_stream("/d/x").unwrap());
    drop(c.create_stream("/a").unwrap());
    cfb::verif::trace_start();
    let _ = c.walk().count();
    let _ = c.read_root_storage().count();
    let _ = c.read_storage("/d").unwrap().count();
    let _ = c.entry("/d/x");
    let tr = cfb::verif::trace_take();
    for (_, kind, file, line, depth) in tr {
        if (kind == 'q' || kind == 'Q') && depth > 0 {
            return Err(format!(
                "lock requested at {}:{} while the thread already holds {} guard(s)",
                file, line, depth
            ));
        }
    }
    Ok(())
}

pub fn c15_small_cycle() -> R {
    for v in [Version::V3, Version::V4] {
        let (buf, mut c) = fresh(v);
        let mut sizes = Vec::new();
        for _ in 0..5 {
            let mut s = c.create_stream("/t").unwrap();
            s.write_all(&[1u8; 100]).unwrap();
            drop(s);
            c.remove_stream("/t").unwrap();
            sizes.push(buf.len());
        }
        if sizes[1..].iter().any(|&x| x != sizes[1]) {
            return Err(format!("{:?}: file size per repetition {:?}", v, sizes));
        }
    }
    Ok(())
}

pub fn all() -> Vec<(&'static str, &'static str, fn() -> R)> {
    vec![
        ("C01", "create_under_stream", c01_create_under_stream),
        ("C06", "seek_min", c06_seek_min),
        ("C07", "handle_after_two_child_removal", c07_handle_after_two_child_removal),
        ("C08", "shrink_grow", c08_shrink_grow),
        ("C09", "invalid_names", c09_invalid_names),
        ("C09", "order_code_units", c09_order_code_units),
        ("C11", "corrupt_mini_start", c11_corrupt_mini_start),
        ("C11", "sectors_beyond_fat", c11_sectors_beyond_fat),
        ("C11", "length_without_sectors", c11_length_without_sectors),
        ("C11", "stale_handles", c11_stale_handles),
        ("C11", "set_len_huge", c11_set_len_huge),
        ("C11", "crosslinked", c11_crosslinked),
        ("C11", "stale_clean_reader", c11_stale_clean_reader),
        ("C09", "length_units", c09_length_units),
        ("C03", "mini_stream_drift", c03_mini_stream_drift),
        ("C12", "failed_refill", c12_failed_refill),
        ("C13", "flush_retry", c13_flush_retry),
        ("C13", "failed_set_len", c13_failed_set_len),
        ("C14", "lock_depth", c14_lock_depth),
        ("C15", "small_cycle", c15_small_cycle),
        ("C11", "length_near_u64_max", c11_length_near_u64_max),
        ("C11", "failed_removal_rollback", c11_failed_removal_rollback),
        ("C11", "type_flips", c11_type_flips),
        ("C05", "readonly_on_absurd_lengths", c05_readonly_on_absurd_lengths),
        ("C06", "foreign_overlong_chain", c06_foreign_overlong_chain),
        ("C08", "foreign_free_garbage", c08_foreign_free_garbage),
        ("C10", "refusals_on_deviating_files", c10_refusals_on_deviating_files),
        ("C02", "mini_stream_small", c02_mini_stream_small),
        ("C02", "mini_stream_limit", c02_mini_stream_limit),
    ]
}

/// Handles whose stream was removed, overwritten, resized or whose slot was reused behind
/// their back: every call must return Ok or an error (C11 quantifies over every call sequence).
pub fn c11_stale_handles() -> R {
    type CF = CompoundFile<SharedBuf>;
    fn base(v: Version) -> CF {
        let (_, mut c) = fresh(v);
        c.create_stream("/a").unwrap().write_all(&[1u8; 100]).unwrap();
        c.create_stream("/big").unwrap().write_all(&[2u8; 5000]).unwrap();
        c.create_storage("/d").unwrap();
        c
    }
    for v in [Version::V3, Version::V4] {
        for victim in ["/a", "/big"] {
            // behind-the-back change x what the stale handle then does
            for change in 0..6 {
                for action in 0..6 {
                    let mut c = base(v);
                    let mut h = c.open_stream(victim).unwrap();
                    let what = format!("{:?} {} change {} action {}", v, victim, change, action);
                    no_panic(&what, || {
                        if action == 5 {
                            let _ = h.write_all(&[9u8; 10]); // dirty buffer before the change
                        }
                        match change {
                            0 => {
                                let _ = c.remove_stream(victim);
                            }
                            1 => {
                                let _ = c.remove_stream(victim);
                                let _ = c.create_storage("/zz"); // reuses the slot
                            }
                            2 => {
                                let _ = c.remove_stream(victim);
                                let _ = c.create_stream("/b").map(|mut s| s.write_all(&[7u8; 20]));
                            }
                            3 => {
                                drop(c.create_stream(victim)); // overwrite: length 0
                            }
                            4 => {
                                if let Ok(mut h2) = c.open_stream(victim) {
                                    let _ = h2.set_len(10);
                                }
                            }
                            _ => {
                                if let Ok(mut h2) = c.open_stream(victim) {
                                    let _ = h2.seek(SeekFrom::End(0));
                                    let _ = h2.write_all(&[5u8; 4000]);
                                }
                            }
                        }
                        match action {
                            0 => {
                                let _ = h.seek(SeekFrom::End(0));
                                let _ = h.write_all(&[3u8; 10]);
                                let _ = h.flush();
                            }
                            1 => {
                                let mut v = Vec::new();
                                let _ = h.read_to_end(&mut v);
                            }
                            2 => {
                                let _ = h.set_len(10);
                                let _ = h.set_len(6000);
                            }
                            3 => {
                                let _ = h.seek(SeekFrom::Start(50));
                                let _ = h.write_all(&[3u8; 5000]);
                                let _ = h.flush();
                                let _ = h.seek(SeekFrom::Current(-10));
                                let mut b = [0u8; 30];
                                let _ = h.read(&mut b);
                            }
                            4 => {
                                let _ = h.write_all(&[3u8; 10]);
                                let _ = h.flush();
                                let _ = h.seek(SeekFrom::End(0));
                                let _ = h.write_all(&[3u8; 10]);
                            }
                            _ => {}
                        }
                        drop(h);
                        let _ = c.flush();
                    })?;
                }
            }
        }
    }
    Ok(())
}

/// The length limit counts UTF-16 units (31), not bytes or characters: every name of at most
/// 31 units is created, found again under any case, and removable; 32 units are refused.
pub fn c09_length_units() -> R {
    for v in [Version::V3, Version::V4] {
        for (ch, units_per) in [("\u{4e2d}", 1usize), ("\u{1e01}", 1), ("\u{e9}", 1), ("x", 1), ("\u{10428}", 2), ("\u{20ac}", 1)] {
            for units in [1usize, 15, 20, 21, 22, 30, 31, 32] {
                if units % units_per != 0 {
                    continue;
                }
                let name: String = ch.repeat(units / units_per);
                let (_, mut c) = fresh(v);
                let p = format!("/{}", name);
                let what = format!("{:?} name of {} units ({} bytes)", v, units, name.len());
                let r = no_panic(&what, || c.create_stream(&p).map(|mut s| s.write_all(b"abc")))?;
                if units > 31 {
                    if r.is_ok() {
                        return Err(format!("{}: accepted", what));
                    }
                    continue;
                }
                if let Err(e) = r {
                    return Err(format!("{}: create refused: {}", what, e));
                }
                let upper: String = name.chars().map(cfb::verif::verif_uppercase).collect();
                for q in [p.clone(), format!("/{}", upper)] {
                    if !c.exists(&q) || !c.is_stream(&q) {
                        return Err(format!("{}: not found after create (as {:?})", what, q));
                    }
                    if c.entry(&q).map(|e| e.len()).unwrap_or(0) != 3 {
                        return Err(format!("{}: entry() wrong", what));
                    }
                }
                // a second creation must replace, create_new must refuse, never panic
                let again = no_panic(&what, || c.create_new_stream(&p).map(|_| ()))?;
                if again.is_ok() {
                    return Err(format!("{}: create_new_stream succeeded twice", what));
                }
                if no_panic(&what, || c.remove_stream(&p))?.is_err() {
                    return Err(format!("{}: cannot be removed", what));
                }
                if c.exists(&p) {
                    return Err(format!("{}: still there after removal", what));
                }
            }
        }
    }
    Ok(())
}

/// set_len with lengths no file can hold: refused (or at least no panic), nothing changed.
pub fn c11_set_len_huge() -> R {
    for v in [Version::V3, Version::V4] {
        for base in [0usize, 100, 5000] {
            for n in [u64::MAX, u64::MAX - 1, u64::MAX - 511, u64::MAX - 4095, 1u64 << 63, (1u64 << 63) - 1, 1u64 << 48] {
                let (buf, mut c) = fresh(v);
                let mut s = c.create_stream("/a").unwrap();
                s.write_all(&vec![7u8; base]).unwrap();
                s.flush().unwrap();
                let before = buf.snapshot();
                let what = format!("{:?} set_len({}) on a {}-byte stream", v, n, base);
                let r = no_panic(&what, || s.set_len(n))?;
                match r {
                    Ok(()) => return Err(format!("{}: accepted", what)),
                    Err(e) if e.kind() == std::io::ErrorKind::InvalidInput => {}
                    Err(e) => return Err(format!("{}: {:?}", what, e.kind())),
                }
                if buf.snapshot() != before {
                    return Err(format!("{}: refused but the bytes changed", what));
                }
                if s.len() != base as u64 {
                    return Err(format!("{}: handle length now {}", what, s.len()));
                }
            }
        }
    }
    Ok(())
}

/// A stream entry whose start sector is the first sector of a metadata chain (directory,
/// MiniFAT, mini-stream container): accepted by open in both modes.  Resizing or removing
/// the stream then frees or truncates that chain; no later call may panic or hang.
pub fn c11_crosslinked() -> R {
    use std::sync::mpsc;
    let mut failures: Vec<String> = Vec::new();
    for v in [Version::V3, Version::V4] {
        let sl = v.sector_len();
        for target in 0..3 {
            for script in 0..6 {
                let what = format!("{:?} stream start := {} script {}", v, ["first directory sector", "first MiniFAT sector", "first mini-stream sector"][target], script);
                let (tx, rx) = mpsc::channel();
                let what2 = what.clone();
                std::thread::spawn(move || {
                    let r = catch_unwind(AssertUnwindSafe(|| {
                        let (buf, mut c) = fresh(v);
                        for n in ["/b", "/a", "/c"] {
                            c.create_storage(n).unwrap();
                        }
                        if script != 4 {
                            c.create_stream("/m").unwrap().write_all(&[1u8; 300]).unwrap();
                        }
                        // enough storages for several directory sectors
                        for i in 0..(if script >= 4 { 0 } else { 40 }) {
                            c.create_storage(format!("/q{:02}", i)).unwrap();
                        }
                        if script == 5 {
                            // more mini sectors than one MiniFAT sector describes
                            for i in 0..17 {
                                c.create_stream(format!("/s{}", (b'A' + i as u8) as char)).unwrap().write_all(&[7u8; 4000]).unwrap();
                            }
                        }
                        c.create_stream("/z").unwrap().write_all(&[2u8; 5120]).unwrap();
                        drop(c);
                        let mut bytes = buf.snapshot();
                        let dir_start = u32::from_le_bytes(bytes[48..52].try_into().unwrap());
                        let mf_start = u32::from_le_bytes(bytes[60..64].try_into().unwrap());
                        // find /z's entry and the root entry by scanning the directory chain for the names
                        let mut z_off = None;
                        let mut k = 0;
                        while (k + 1) * 128 <= bytes.len() {
                            let o = k * 128;
                            if o >= sl && bytes[o] == b'z' && bytes[o + 1] == 0 && bytes[o + 2] == 0 && bytes[o + 64] == 4 && bytes[o + 66] == 2 {
                                z_off = Some(o);
                            }
                            k += 1;
                        }
                        let z_off = z_off.expect("entry of /z");
                        let root_off = (dir_start as usize + 1) * sl;
                        let ms_start = u32::from_le_bytes(bytes[root_off + 116..root_off + 120].try_into().unwrap());
                        let val = [dir_start, mf_start, ms_start][target];
                        bytes[z_off + 116..z_off + 120].copy_from_slice(&val.to_le_bytes());
                        let b = SharedBuf::new(bytes);
                        let mut c = match CompoundFile::open(b) {
                            Ok(c) => c,
                            Err(_) => return,
                        };
                        match script {
                            0 => {
                                let _ = c.remove_stream("/z");
                                let _ = c.remove_storage("/b");
                                let _ = c.remove_storage("/b");
                                let _ = c.exists("/d");
                                let _ = c.exists("/q39");
                            }
                            1 => {
                                if let Ok(mut s) = c.open_stream("/z") {
                                    let _ = s.set_len(4096);
                                }
                                let _ = c.remove_storage("/q39");
                                let _ = c.remove_storage("/q20");
                                let _ = c.create_storage("/new");
                            }
                            2 => {
                                if let Ok(mut s) = c.open_stream("/z") {
                                    let _ = s.set_len(0);
                                    let _ = s.write_all(&[9u8; 100]);
                                    let _ = s.flush();
                                }
                                let _ = c.remove_stream("/m");
                                let _ = c.create_stream("/n").map(|mut s| s.write_all(&[3u8; 200]));
                                let _ = c.remove_storage("/a");
                            }
                            4 => {
                                let _ = c.remove_stream("/z");
                                let _ = c.remove_storage("/b");
                                let _ = c.remove_storage("/b");
                                let _ = c.exists("/d");
                            }
                            5 => {
                                if let Ok(mut s) = c.open_stream("/z") {
                                    let _ = s.set_len(4096);
                                }
                                let _ = c.remove_stream("/sQ");
                                let _ = c.remove_stream("/sP");
                                let _ = c.create_stream("/n").map(|mut s| s.write_all(&[3u8; 200]));
                            }
                            _ => {
                                let _ = c.create_stream("/z").map(|mut s| s.write_all(&[4u8; 9000]));
                                let _ = c.remove_storage("/c");
                                let _ = c.remove_stream("/m");
                                let _ = c.walk().count();
                            }
                        }
                        let _ = c.walk().count();
                    }));
                    let _ = tx.send(r.map_err(|_| format!("panic in {}", what2)));
                });
                match rx.recv_timeout(std::time::Duration::from_secs(10)) {
                    Ok(Ok(())) => {}
                    Ok(Err(e)) => failures.push(e),
                    Err(_) => failures.push(format!("hang in {}", what)),
                }
            }
        }
    }
    if failures.is_empty() {
        Ok(())
    } else {
        Err(failures.join("; "))
    }
}

/// Two handles on one stream; the second one is clean and its cached length is stale after the
/// first one grew the stream (model scenario S705b, found by proof).
pub fn c11_stale_clean_reader() -> R {
    for v in [Version::V3, Version::V4] {
        for (first, more, rd) in [(10usize, 100usize, 50usize), (100, 5000, 3000), (4096, 4096, 5000), (1, 1, 2)] {
            let (_, mut c) = fresh(v);
            let mut h0 = c.create_stream("/s").unwrap();
            h0.write_all(&vec![1u8; first]).unwrap();
            h0.flush().unwrap();
            let mut h1 = c.open_stream("/s").unwrap();
            h0.write_all(&vec![2u8; more]).unwrap();
            h0.flush().unwrap();
            let what = format!("{:?} first {} more {} read {}", v, first, more, rd);
            no_panic(&what, || {
                let mut buf = vec![0u8; rd];
                let n = h1.read(&mut buf).unwrap_or(0);
                let pos = h1.stream_position().unwrap_or(0);
                let len = h1.len();
                let _ = h1.seek(SeekFrom::Current(0));
                let _ = h1.seek(SeekFrom::End(0));
                let _ = h1.read(&mut buf);
                let _ = h1.write_all(&[9u8; 3]);
                let _ = h1.flush();
                (n, pos, len)
            })?;
        }
    }
    Ok(())
}

/// A file whose mini stream ends in free mini sectors (legal; other writers leave them): the
/// loader trims the trailing FREE entries of the MiniFAT but keeps the root entry's length.
/// Allocating mini sectors afterwards must not let the mini stream outgrow what the MiniFAT
/// describes (every mini sector needs a MiniFAT cell), nor grow it when it already has room.
pub fn c03_mini_stream_drift() -> R {
    for v in [Version::V3, Version::V4] {
        let sl = v.sector_len();
        let per = sl / 4; // MiniFAT entries per sector
        let (buf, mut c) = fresh(v);
        c.create_stream("/a").unwrap().write_all(&[1u8; 100]).unwrap(); // 2 mini sectors
        drop(c);
        let mut bytes = buf.snapshot();
        let dir_start = u32::from_le_bytes(bytes[48..52].try_into().unwrap()) as usize;
        let root = (dir_start + 1) * sl;
        // three more (free) mini sectors at the end of the mini stream: its one container sector
        // has room for them and their MiniFAT cells are FREE already
        let extra = 3u64;
        let len0 = u64::from_le_bytes(bytes[root + 120..root + 128].try_into().unwrap());
        bytes[root + 120..root + 128].copy_from_slice(&(len0 + 64 * extra).to_le_bytes());
        let b = SharedBuf::new(bytes);
        let mut c = CompoundFile::open_strict(b.clone()).map_err(|e| format!("{:?}: strict open rejects trailing free mini sectors: {}", v, e))?;
        let before = c.root_entry().len();
        // one more small stream of one mini sector: the mini stream has room for it
        c.create_stream("/b").unwrap().write_all(&[2u8; 10]).unwrap();
        let after = c.root_entry().len();
        if after > before {
            return Err(format!("{:?}: the mini stream had {} free mini sectors at its end, yet allocating one mini sector grew it from {} to {} bytes", v, extra, before, after));
        }
        // fill up to the capacity of the one MiniFAT sector
        let mut k = 0;
        loop {
            let snap = b.snapshot();
            let nmf = u32::from_le_bytes(snap[64..68].try_into().unwrap()) as u64;
            let dir_start = u32::from_le_bytes(snap[48..52].try_into().unwrap()) as usize;
            let root = (dir_start + 1) * sl;
            let rlen = u64::from_le_bytes(snap[root + 120..root + 128].try_into().unwrap());
            if rlen / 64 > nmf * per as u64 {
                return Err(format!("{:?}: the mini stream has {} mini sectors but the {} MiniFAT sector(s) describe only {}", v, rlen / 64, nmf, nmf * per as u64));
            }
            if nmf > 1 || k > 2 * per {
                break;
            }
            k += 1;
            c.create_stream(format!("/s{}", k)).unwrap().write_all(&[3u8; 64]).unwrap();
        }
    }
    Ok(())
}


/// Synthesised files whose mini stream is completely used (every mini sector owned, no free
/// MiniFAT entry): one more small stream must leave bytes that reopen to what the live object
/// reported.  Small sizes: the synthesis and the oracle themselves.
pub fn c02_mini_stream_small() -> R {
    use crate::rootfits::{run, Fill};
    for (major, n, fill) in [(3u16, 15_999u64, Fill::Orphan), (3, 15_999, Fill::Streams), (4, 31_999, Fill::Streams)] {
        match std::panic::catch_unwind(|| run(major, n, fill)) {
            Ok(Ok(_)) => {}
            Ok(Err(e)) => return Err(e),
            Err(_) => return Err(format!("panic: version {} file with {} mini sectors ({:?})", major, n, fill)),
        }
    }
    Ok(())
}

/// The same at the limit of a version 3 root entry: a mini stream of 2^32 - 64 bytes (one
/// million small streams, synthesised on a sparse backend) plus one more mini sector; one mini
/// sector below the limit as the control.  Slow (thorough tier only).
pub fn c02_mini_stream_limit() -> R {
    use crate::rootfits::{run, Fill, V3_MAX_MINI};
    for n in [V3_MAX_MINI - 1, V3_MAX_MINI] {
        match std::panic::catch_unwind(|| run(3, n, Fill::Streams)) {
            Ok(Ok(_)) => {}
            Ok(Err(e)) => return Err(e),
            Err(_) => return Err(format!("panic: version 3 file with {} mini sectors", n)),
        }
    }
    Ok(())
}


/// Stream entries whose recorded length is absurd (close to u64::MAX, 2^63, 2^32 ...): open
/// accepts such files; positions and lengths computed from them must not overflow (no panic
/// in a debug build, no wrap-around in a release build) in any handle operation or on drop.
pub fn c11_length_near_u64_max() -> R {
    for v in [Version::V3, Version::V4] {
        let sl = v.sector_len();
        let (buf, mut c) = fresh(v);
        c.create_stream("/a").unwrap().write_all(&[1u8; 100]).unwrap();
        c.create_stream("/b").unwrap().write_all(&[2u8; 5000]).unwrap();
        drop(c);
        let base = buf.snapshot();
        let dir_sector = u32::from_le_bytes(base[48..52].try_into().unwrap()) as usize;
        let ent = |slot: usize| (dir_sector + 1) * sl + 128 * slot;
        let lens = [u64::MAX, u64::MAX - 5, u64::MAX - 4095, u64::MAX - (1 << 20), 1u64 << 63, (1u64 << 63) - 1, (1u64 << 32) + 5, u32::MAX as u64, (u32::MAX - 5) as u64];
        for slot in [1usize, 2] {
            for &len in lens.iter() {
                for strict in [false, true] {
                    for script in 0..7 {
                        let mut bytes = base.clone();
                        let o = ent(slot) + 120;
                        bytes[o..o + 8].copy_from_slice(&len.to_le_bytes());
                        let what = format!("{:?} entry {} length := {} ({}) script {}", v, slot, len, if strict { "strict" } else { "permissive" }, script);
                        let b = SharedBuf::new(bytes);
                        let opened = no_panic(&format!("open {}", what), || {
                            if strict { CompoundFile::open_strict(b) } else { CompoundFile::open(b) }
                        })?;
                        let mut c = match opened {
                            Ok(c) => c,
                            Err(_) => continue,
                        };
                        let p = if slot == 1 { "/a" } else { "/b" };
                        // the handle is created, used and dropped in separate guarded steps so
                        // that a panic during drop is reported, not turned into an abort
                        let s = no_panic(&format!("open_stream {}", what), || c.open_stream(p))?;
                        let mut s = match s {
                            Ok(s) => s,
                            Err(_) => continue,
                        };
                        let r = catch_unwind(AssertUnwindSafe(|| {
                            let mut b10 = [0u8; 10];
                            match script {
                                0 => {
                                    let _ = s.seek(SeekFrom::End(0));
                                    let _ = s.write(&[9u8; 10]);
                                    let _ = s.flush();
                                }
                                1 => {
                                    let _ = s.seek(SeekFrom::End(-3));
                                    let _ = s.write_all(&[9u8; 10]);
                                }
                                2 => {
                                    let _ = s.seek(SeekFrom::End(0));
                                    let _ = s.read(&mut b10);
                                    let _ = s.seek(SeekFrom::Current(1));
                                    let _ = s.seek(SeekFrom::Current(i64::MAX));
                                    let _ = s.stream_position();
                                }
                                3 => {
                                    let _ = s.seek(SeekFrom::Start(len.saturating_sub(4)));
                                    let _ = s.read(&mut b10);
                                    let _ = std::io::BufRead::fill_buf(&mut s).map(|b| b.len());
                                    let _ = s.write(&[1u8; 4096]);
                                    let _ = s.write(&[1u8; 4096]);
                                }
                                4 => {
                                    // lengths a version 4 file can really hold (4 GiB ...) would be
                                    // allocated for real: only the unrepresentable ones are asked for
                                    if len > (1u64 << 45) {
                                        let _ = s.set_len(len);
                                        let _ = s.set_len(len.wrapping_add(1));
                                    }
                                    let _ = s.set_len(10);
                                }
                                5 => {
                                    let mut v = Vec::new();
                                    let _ = (&mut s).take(20_000).read_to_end(&mut v);
                                    let _ = s.seek(SeekFrom::End(0));
                                    let _ = s.write(&[7u8; 3]);
                                    let _ = s.seek(SeekFrom::Start(0));
                                    let _ = s.read(&mut b10);
                                }
                                _ => {
                                    let _ = s.seek(SeekFrom::End(0));
                                    let _ = s.write(&[9u8; 10]);
                                    // dropped dirty below
                                }
                            }
                        }));
                        if r.is_err() {
                            // a handle that panicked must not be dropped here: its drop flushes again
                            std::mem::forget(s);
                            return Err(format!("panic in {}", what));
                        }
                        no_panic(&format!("drop of the handle, {}", what), move || drop(s))?;
                        no_panic(&format!("calls after {}", what), || {
                            let _ = c.walk().count();
                            let _ = c.remove_stream(p);
                            let _ = c.flush();
                        })?;
                    }
                }
            }
        }
    }
    Ok(())
}


/// A stream whose start sector is redirected into the directory chain (second or first
/// directory sector): accepted by permissive open.  Removing it frees a sector the directory
/// still uses, so later directory writes fail half-way; every removal that then fails must
/// leave the in-memory sibling tree usable: lookups of present, absent and in-between names,
/// listings and further removals return (Ok or Err) - no panic, no hang.
pub fn c11_failed_removal_rollback() -> R {
    use std::sync::mpsc;
    let mut failures: Vec<String> = Vec::new();
    let orders: [&[&str]; 4] = [&["m", "d", "t", "h"], &["e", "b", "g", "d", "c"], &["m", "d", "t", "h", "f"], &["h", "d", "m", "b", "f", "e"]];
    for (oi, order) in orders.iter().enumerate() {
        for which_dir_sector in 0..2usize {
            for victim in order.iter() {
                let what = format!("V3 names {:?}, stream zz redirected to directory sector #{}, remove zz then {}", order, which_dir_sector, victim);
                let (tx, rx) = mpsc::channel();
                let what2 = what.clone();
                let order2: Vec<String> = order.iter().map(|s| s.to_string()).collect();
                let victim2 = victim.to_string();
                std::thread::spawn(move || {
                    let r = catch_unwind(AssertUnwindSafe(|| {
                        let (buf, mut c) = fresh(Version::V3);
                        for n in order2.iter() {
                            c.create_stream(format!("/{}", n)).unwrap();
                        }
                        c.create_stream("/zz").unwrap().write_all(&[0x5a; 5000]).unwrap();
                        drop(c);
                        let mut bytes = buf.snapshot();
                        let sl = 512usize;
                        let so = |id: u32| (id as usize + 1) * sl;
                        let d0 = u32::from_le_bytes(bytes[48..52].try_into().unwrap());
                        let f0 = u32::from_le_bytes(bytes[76..80].try_into().unwrap());
                        let d1 = u32::from_le_bytes(bytes[so(f0) + 4 * d0 as usize..so(f0) + 4 * d0 as usize + 4].try_into().unwrap());
                        if d1 >= 128 {
                            return;
                        }
                        let target = if which_dir_sector == 0 { d0 } else { d1 };
                        // find zz's entry in the two directory sectors
                        let mut z = None;
                        for base in [so(d0), so(d1)] {
                            for k in 0..4 {
                                let o = base + 128 * k;
                                if bytes[o..o + 6] == [b'z', 0, b'z', 0, 0, 0] && bytes[o + 66] == 2 {
                                    z = Some(o);
                                }
                            }
                        }
                        let z = match z { Some(z) => z, None => return };
                        bytes[z + 116..z + 120].copy_from_slice(&target.to_le_bytes());
                        let mut c = match CompoundFile::open(SharedBuf::new(bytes)) {
                            Ok(c) => c,
                            Err(_) => return,
                        };
                        let _ = c.remove_stream("/zz");
                        let _ = c.remove_stream(format!("/{}", victim2));
                        for n in ["a", "b", "c", "d", "e", "f", "g", "h", "i", "m", "n", "t", "u", "zz"] {
                            let _ = c.exists(format!("/{}", n));
                            let _ = c.is_stream(format!("/{}", n));
                        }
                        let _ = c.read_root_storage().count();
                        let _ = c.walk().count();
                        for n in order2.iter() {
                            let _ = c.remove_stream(format!("/{}", n));
                            let _ = c.exists("/f");
                            let _ = c.exists("/e");
                        }
                        let _ = c.create_stream("/k").map(|_| ());
                        let _ = c.walk().count();
                    }));
                    let _ = tx.send(r.map_err(|_| format!("panic in {}", what2)));
                });
                match rx.recv_timeout(std::time::Duration::from_secs(10)) {
                    Ok(Ok(())) => {}
                    Ok(Err(e)) => failures.push(e),
                    Err(_) => failures.push(format!("hang (a call did not return within 10 s) in {} [case {}]", what, oi)),
                }
                if failures.len() >= 3 {
                    return Err(failures.join("; "));
                }
            }
        }
    }
    if failures.is_empty() { Ok(()) } else { Err(failures.join("; ")) }
}


/// Locates the directory entry (byte offset) of the root-level object `name` (ASCII) by
/// scanning the directory chain of a crate-written file.
fn find_entry(bytes: &[u8], sl: usize, name: &str) -> Option<usize> {
    let units: Vec<u8> = name.bytes().flat_map(|b| [b, 0]).collect();
    let mut k = sl / 128;
    while (k + 1) * 128 <= bytes.len() {
        let o = k * 128;
        let nl = u16::from_le_bytes([bytes[o + 64], bytes[o + 65]]) as usize;
        if nl == units.len() + 2 && bytes[o..o + units.len()] == units[..] && (bytes[o + 66] == 1 || bytes[o + 66] == 2) {
            return Some(o);
        }
        k += 1;
    }
    None
}

/// C05: read-only handle operations on files whose entries record absurd lengths (both modes
/// accept them): every seek / read / fill_buf / position / len returns Ok or Err.
pub fn c05_readonly_on_absurd_lengths() -> R {
    for v in [Version::V3, Version::V4] {
        let sl = v.sector_len();
        let (buf, mut c) = fresh(v);
        c.create_stream("/a").unwrap().write_all(&[1u8; 100]).unwrap();
        c.create_stream("/big").unwrap().write_all(&[2u8; 5000]).unwrap();
        drop(c);
        let base = buf.snapshot();
        let lens = [u64::MAX, u64::MAX - 5, 0xC000_0000_0000_0000, 1u64 << 63, (1u64 << 63) - 1, (1u64 << 32) + 5, u32::MAX as u64];
        for name in ["a", "big"] {
            let o = find_entry(&base, sl, name).ok_or("entry not found")?;
            for &len in lens.iter() {
                for strict in [false, true] {
                    let mut bytes = base.clone();
                    bytes[o + 120..o + 128].copy_from_slice(&len.to_le_bytes());
                    let what = format!("{:?} /{} length := {:#x} ({})", v, name, len, if strict { "strict" } else { "permissive" });
                    let b = SharedBuf::new(bytes);
                    let opened = no_panic(&format!("open {}", what), || if strict { CompoundFile::open_strict(b) } else { CompoundFile::open(b) })?;
                    let mut c = match opened { Ok(c) => c, Err(_) => continue };
                    no_panic(&format!("walk / entry, {}", what), || {
                        let _ = c.walk().map(|e| e.len()).count();
                        let _ = c.entry(format!("/{}", name)).map(|e| e.len());
                    })?;
                    let s = no_panic(&format!("open_stream {}", what), || c.open_stream(format!("/{}", name)))?;
                    let mut s = match s { Ok(s) => s, Err(_) => continue };
                    let r = catch_unwind(AssertUnwindSafe(|| {
                        let mut b10 = [0u8; 10];
                        let eff = s.len();
                        for p in [0u64, 1, 99, 4999, eff / 2, eff.saturating_sub(1), eff, (1u64 << 63) + 5, u64::MAX] {
                            let _ = s.seek(SeekFrom::Start(p));
                            for d in [0i64, 1, -1, 4096, i64::MAX, i64::MIN, i64::MAX / 2] {
                                let _ = s.seek(SeekFrom::Current(d));
                                let _ = s.stream_position();
                            }
                            let _ = s.read(&mut b10);
                            let _ = std::io::BufRead::fill_buf(&mut s).map(|b| b.len());
                            std::io::BufRead::consume(&mut s, 0);
                        }
                        for d in [0i64, -1, 1, i64::MIN, i64::MAX, -4096] {
                            let _ = s.seek(SeekFrom::End(d));
                            let _ = s.seek(SeekFrom::Current(i64::MAX));
                            let _ = s.seek(SeekFrom::Current(1));
                            let _ = s.read(&mut b10);
                        }
                        let _ = s.len();
                        let _ = s.is_empty();
                    }));
                    if r.is_err() {
                        std::mem::forget(s);
                        return Err(format!("panic in a read-only handle operation: {}", what));
                    }
                    no_panic(&format!("drop of a clean handle, {}", what), move || drop(s))?;
                }
            }
        }
    }
    Ok(())
}

/// C06 / C08 on a file from another writer: a stream whose chain has MORE sectors than its
/// recorded length needs (open accepts that in both modes), the surplus holding old bytes.
/// Growing the stream - by set_len and by writing past the end - must behave like a byte
/// vector: the gained bytes are zero, through the same handle, a fresh handle and after reopen.
pub fn c06_foreign_overlong_chain() -> R {
    for v in [Version::V3, Version::V4] {
        let sl = v.sector_len();
        for &(written, recorded) in &[(16 * 512usize, 4200usize), (16 * 512, 4096), (3 * 4096, 4097), (5 * 4096, 2 * 4096)] {
            for script in 0..4 {
                let (buf, mut c) = fresh(v);
                c.create_stream("/x").unwrap().write_all(&[0xA1u8; 700]).unwrap();
                c.create_stream("/big").unwrap().write_all(&vec![0xA1u8; written]).unwrap();
                drop(c);
                let mut bytes = buf.snapshot();
                let o = find_entry(&bytes, sl, "big").ok_or("entry not found")?;
                bytes[o + 120..o + 128].copy_from_slice(&(recorded as u64).to_le_bytes());
                let what = format!("{:?} stream of {} bytes recorded as {} bytes (surplus sectors hold 0xA1), script {}", v, written, recorded, script);
                let b = SharedBuf::new(bytes);
                let mut c = match CompoundFile::open_strict(b.clone()) { Ok(c) => c, Err(_) => match CompoundFile::open(b.clone()) { Ok(c) => c, Err(_) => continue } };
                let mut model: Vec<u8> = vec![0xA1; recorded];
                let r = no_panic(&what, || -> Result<(), String> {
                    let mut s = c.open_stream("/big").map_err(|e| e.to_string())?;
                    match script {
                        0 => {
                            let n = recorded + sl + 300;
                            s.set_len(n as u64).map_err(|e| e.to_string())?;
                            model.resize(n, 0);
                        }
                        1 => {
                            let n = written + 777;
                            s.set_len(n as u64).map_err(|e| e.to_string())?;
                            model.resize(n, 0);
                        }
                        2 => {
                            // set_len, then a write in the middle of the gained region
                            let n = recorded + 2 * sl;
                            s.set_len(n as u64).map_err(|e| e.to_string())?;
                            model.resize(n, 0);
                            s.seek(SeekFrom::Start((recorded + sl) as u64)).map_err(|e| e.to_string())?;
                            s.write_all(&[0x5A; 10]).map_err(|e| e.to_string())?;
                            model[recorded + sl..recorded + sl + 10].copy_from_slice(&[0x5A; 10]);
                        }
                        _ => {
                            // shrink inside the recorded length, then grow again
                            s.set_len(4096).map_err(|e| e.to_string())?;
                            model.truncate(4096);
                            let n = recorded + 3 * sl + 1;
                            s.set_len(n as u64).map_err(|e| e.to_string())?;
                            model.resize(n, 0);
                        }
                    }
                    s.flush().map_err(|e| e.to_string())?;
                    let mut got = Vec::new();
                    s.seek(SeekFrom::Start(0)).map_err(|e| e.to_string())?;
                    s.read_to_end(&mut got).map_err(|e| e.to_string())?;
                    if got != model {
                        let d = got.iter().zip(model.iter()).position(|(x, y)| x != y);
                        return Err(format!("the same handle reads {} bytes (expected {}), first difference at {:?}: {:#x?}", got.len(), model.len(), d, d.map(|k| got[k])));
                    }
                    Ok(())
                })?;
                r.map_err(|e| format!("{}: {}", what, e))?;
                drop(c);
                let mut c2 = CompoundFile::open(SharedBuf::new(b.snapshot())).map_err(|e| format!("{}: reopen: {}", what, e))?;
                let mut got = Vec::new();
                c2.open_stream("/big").and_then(|mut s| s.read_to_end(&mut got)).map_err(|e| format!("{}: read after reopen: {}", what, e))?;
                if got != model {
                    let d = got.iter().zip(model.iter()).position(|(x, y)| x != y);
                    return Err(format!("{}: after reopen the stream has {} bytes (expected {}), first difference at {:?}: {:#x?} instead of zero", what, got.len(), model.len(), d, d.map(|k| got[k])));
                }
            }
        }
    }
    Ok(())
}

/// C08 on a file that was OPENED (not created in this session) and whose free sectors and free
/// mini sectors hold old data (the usual state after another writer removed streams): every
/// kind of growth must read zeros in the gained range.
pub fn c08_foreign_free_garbage() -> R {
    for v in [Version::V3, Version::V4] {
        let sl = v.sector_len();
        let (buf, mut c) = fresh(v);
        c.create_stream("/big").unwrap().write_all(&vec![0x11u8; 5000]).unwrap();
        c.create_stream("/junk").unwrap().write_all(&vec![0xCCu8; 12 * sl]).unwrap();
        c.create_stream("/small").unwrap().write_all(&[0x22u8; 300]).unwrap();
        c.create_stream("/sjunk").unwrap().write_all(&[0xCCu8; 3000]).unwrap();
        c.create_stream("/empty").unwrap();
        c.remove_stream("/junk").unwrap();
        c.remove_stream("/sjunk").unwrap();
        drop(c);
        let mut bytes = buf.snapshot();
        // fill every FAT-free sector with 0xCC
        let nsect = bytes.len() / sl - 1;
        let fat0 = u32::from_le_bytes(bytes[76..80].try_into().unwrap()) as usize;
        let mut filled = 0;
        for i in 0..nsect.min(sl / 4) {
            let cell = u32::from_le_bytes(bytes[(fat0 + 1) * sl + 4 * i..(fat0 + 1) * sl + 4 * i + 4].try_into().unwrap());
            if cell == 0xFFFF_FFFF {
                for x in bytes[(i + 1) * sl..(i + 2) * sl].iter_mut() { *x = 0xCC; }
                filled += 1;
            }
        }
        if filled == 0 {
            return Err(format!("{:?}: no free sector to fill (the fixture changed)", v));
        }
        let cases: [(&str, u64, u64); 6] = [("/big", 5000, 8000), ("/big", 5000, 5000 + 6 * sl as u64), ("/empty", 0, 4096), ("/empty", 0, 9000), ("/small", 300, 4096), ("/small", 300, 6000)];
        for (path, old, new) in cases.iter() {
            for via_write in [false, true] {
                let b = SharedBuf::new(bytes.clone());
                let what = format!("{:?} opened file with 0xCC in {} free sectors: {} {} -> {} by {}", v, filled, path, old, new, if via_write { "seek + write of the last byte" } else { "set_len" });
                let mut c = CompoundFile::open_strict(b.clone()).map_err(|e| format!("{}: strict open: {}", what, e))?;
                let r = no_panic(&what, || -> Result<(), String> {
                    let mut s = c.open_stream(path).map_err(|e| e.to_string())?;
                    if via_write {
                        // a byte vector cannot seek past its end: grow with set_len to new-1, then append one byte
                        s.set_len(*new - 1).map_err(|e| e.to_string())?;
                        s.seek(SeekFrom::End(0)).map_err(|e| e.to_string())?;
                        s.write_all(&[0x7E]).map_err(|e| e.to_string())?;
                    } else {
                        s.set_len(*new).map_err(|e| e.to_string())?;
                    }
                    s.flush().map_err(|e| e.to_string())?;
                    Ok(())
                })?;
                r.map_err(|e| format!("{}: {}", what, e))?;
                drop(c);
                for strict in [true, false] {
                    let b2 = SharedBuf::new(b.snapshot());
                    let mut c2 = if strict { CompoundFile::open_strict(b2) } else { CompoundFile::open(b2) }.map_err(|e| format!("{}: reopen: {}", what, e))?;
                    let mut got = Vec::new();
                    c2.open_stream(path).and_then(|mut s| s.read_to_end(&mut got)).map_err(|e| format!("{}: read: {}", what, e))?;
                    let end = if via_write { *new - 1 } else { *new } as usize;
                    if got.len() != *new as usize {
                        return Err(format!("{}: length {} after reopen", what, got.len()));
                    }
                    if let Some(k) = got[*old as usize..end].iter().position(|&x| x != 0) {
                        return Err(format!("{}: byte {} of the gained range [{}, {}) reads {:#x}, not zero", what, *old as usize + k, old, end, got[*old as usize + k]));
                    }
                }
            }
        }
    }
    Ok(())
}

/// C10 on files with tolerated deviations (another writer's non-canonical but accepted
/// encodings: CLSID / timestamps on a stream, bytes after the name terminator, high length
/// bits in version 3): every refused call leaves the bytes exactly as they were.
pub fn c10_refusals_on_deviating_files() -> R {
    for v in [Version::V3, Version::V4] {
        let sl = v.sector_len();
        let (buf, mut c) = fresh(v);
        c.create_storage("/d").unwrap();
        c.create_stream("/data").unwrap().write_all(&[3u8; 5000]).unwrap();
        c.create_stream("/d/s").unwrap().write_all(&[4u8; 100]).unwrap();
        drop(c);
        let mut bytes = buf.snapshot();
        let o = find_entry(&bytes, sl, "data").ok_or("entry not found")?;
        for k in 80..96 { bytes[o + k] = 0x40 + k as u8; }          // CLSID on a stream
        for k in 100..116 { bytes[o + k] = 0x50 + k as u8; }        // timestamps on a stream
        for k in 12..40 { bytes[o + k] = 0x77; }                    // bytes after the name terminator
        if v == Version::V3 { bytes[o + 124] = 0x5A; }              // high length bits
        let od = find_entry(&bytes, sl, "d").ok_or("entry not found")?;
        bytes[od + 116..od + 120].copy_from_slice(&7u32.to_le_bytes()); // start sector on a storage
        bytes[od + 120..od + 124].copy_from_slice(&99u32.to_le_bytes()); // size on a storage
        let b = SharedBuf::new(bytes);
        let mut c = match CompoundFile::open(b.clone()) { Ok(c) => c, Err(e) => return Err(format!("{:?}: permissive open refuses the tolerated deviations: {}", v, e)) };
        let uuid = uuid::Uuid::from_u128(0x1234);
        let now = web_time::SystemTime::now();
        let mut calls: Vec<(&str, Box<dyn FnMut(&mut CompoundFile<SharedBuf>) -> bool>)> = vec![
            ("set_storage_clsid on a stream", Box::new(move |c| c.set_storage_clsid("/data", uuid).is_err())),
            ("set_storage_clsid on a nested stream", Box::new(move |c| c.set_storage_clsid("/d/s", uuid).is_err())),
            ("set_storage_clsid on a missing path", Box::new(move |c| c.set_storage_clsid("/nope", uuid).is_err())),
            ("set_state_bits on a missing path", Box::new(|c| c.set_state_bits("/data/x", 1).is_err())),
            ("set_created_time on a missing path", Box::new(move |c| c.set_created_time("/nope", now).is_err())),
            ("set_modified_time on a missing path", Box::new(move |c| c.set_modified_time("/d/nope", now).is_err())),
            ("touch on a missing path", Box::new(|c| c.touch("/nope").is_err())),
            ("create_storage where a stream exists", Box::new(|c| c.create_storage("/data").is_err())),
            ("create_storage under a stream", Box::new(|c| c.create_storage("/data/x").is_err())),
            ("create_new_stream where a stream exists", Box::new(|c| c.create_new_stream("/data").is_err())),
            ("create_stream where a storage exists", Box::new(|c| c.create_stream("/d").is_err())),
            ("create_stream with an invalid name", Box::new(|c| c.create_stream("/a:b").is_err())),
            ("open_stream on a storage", Box::new(|c| c.open_stream("/d").is_err())),
            ("open_stream on a missing path", Box::new(|c| c.open_stream("/data/x").is_err())),
            ("remove_stream on a storage", Box::new(|c| c.remove_stream("/d").is_err())),
            ("remove_storage on a stream", Box::new(|c| c.remove_storage("/data").is_err())),
            ("remove_storage on a non-empty storage", Box::new(|c| c.remove_storage("/d").is_err())),
            ("remove_storage_all on a stream", Box::new(|c| c.remove_storage_all("/data").is_err())),
            ("read_storage on a stream", Box::new(|c| c.read_storage("/data").is_err())),
            ("seek before the start of a stream", Box::new(|c| c.open_stream("/data").map(|mut s| s.seek(SeekFrom::Current(-1)).is_err()).unwrap_or(false))),
            ("set_len beyond the format maximum", Box::new(|c| c.open_stream("/data").map(|mut s| s.set_len(u64::MAX).is_err()).unwrap_or(false))),
        ];
        for (label, f) in calls.iter_mut() {
            let before = b.snapshot();
            let refused = no_panic(label, || f(&mut c))?;
            if !refused {
                continue; // not refused on this file: nothing to check here
            }
            let after = b.snapshot();
            if after != before {
                let d = after.iter().zip(before.iter()).position(|(x, y)| x != y);
                return Err(format!("{:?} file with tolerated deviations on /data and /d: the refused call [{}] changed the bytes (first difference at offset {:?}, length {} -> {})", v, label, d, before.len(), after.len()));
            }
        }
    }
    Ok(())
}


/// The object-type byte of an entry flipped (a non-empty storage marked as a stream, a stream
/// marked as a storage, either marked as root / unallocated / garbage): whatever open accepts,
/// every mutation addressed at that entry or at its former children returns Ok or Err.
pub fn c11_type_flips() -> R {
    for v in [Version::V3, Version::V4] {
        let sl = v.sector_len();
        let (buf, mut c) = fresh(v);
        c.create_storage("/d").unwrap();
        c.create_stream("/d/x").unwrap().write_all(&[1u8; 300]).unwrap();
        c.create_storage("/d/e").unwrap();
        c.create_stream("/s").unwrap().write_all(&[2u8; 5000]).unwrap();
        c.create_stream("/m").unwrap().write_all(&[3u8; 100]).unwrap();
        c.create_storage("/empty").unwrap();
        drop(c);
        let base = buf.snapshot();
        for name in ["d", "s", "m", "empty"] {
            let o = find_entry(&base, sl, name).ok_or("entry not found")?;
            for ty in [0u8, 1, 2, 5, 3, 0xFF] {
                if base[o + 66] == ty { continue; }
                for strict in [false, true] {
                    for script in 0..5 {
                        let mut bytes = base.clone();
                        bytes[o + 66] = ty;
                        let what = format!("{:?} /{} type byte := {} ({}) script {}", v, name, ty, if strict { "strict" } else { "permissive" }, script);
                        let b = SharedBuf::new(bytes);
                        let opened = no_panic(&format!("open {}", what), || if strict { CompoundFile::open_strict(b) } else { CompoundFile::open(b) })?;
                        let mut c = match opened { Ok(c) => c, Err(_) => continue };
                        let p = format!("/{}", name);
                        no_panic(&what, || {
                            match script {
                                0 => { let _ = c.remove_stream(&p); let _ = c.remove_storage(&p); let _ = c.remove_storage_all(&p); }
                                1 => {
                                    if let Ok(mut s) = c.open_stream(&p) {
                                        let mut v = Vec::new();
                                        let _ = (&mut s).take(10_000).read_to_end(&mut v);
                                        let _ = s.set_len(10);
                                        let _ = s.set_len(6000);
                                        let _ = s.write_all(&[9u8; 100]);
                                        let _ = s.flush();
                                    }
                                    let _ = c.remove_stream(&p);
                                }
                                2 => {
                                    let _ = c.create_stream(format!("{}/new", p)).map(|_| ());
                                    let _ = c.create_storage(format!("{}/dir", p));
                                    let _ = c.remove_stream("/d/x");
                                    let _ = c.remove_storage("/d/e");
                                    let _ = c.remove_storage(&p);
                                }
                                3 => {
                                    let _ = c.create_stream(&p).map(|mut s| s.write_all(&[7u8; 4500]));
                                    let _ = c.create_storage(&p);
                                    let _ = c.set_state_bits(&p, 1);
                                    let _ = c.set_storage_clsid(&p, uuid::Uuid::from_u128(1));
                                    let _ = c.touch(&p);
                                }
                                _ => {
                                    let _ = c.remove_storage_all("/d");
                                    let _ = c.remove_stream("/s");
                                    let _ = c.remove_stream("/m");
                                    let _ = c.remove_storage("/empty");
                                }
                            }
                            let _ = c.walk().count();
                            let _ = c.read_storage("/d").map(|i| i.count());
                            let _ = c.flush();
                        })?;
                    }
                }
            }
        }
    }
    Ok(())
}
