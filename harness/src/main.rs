mod backend;
mod ops;
mod probe;
mod rng;

use std::env;

fn main() {
    // panics are caught and reported as results; keep stderr quiet
    std::panic::set_hook(Box::new(|_| {}));
    let args: Vec<String> = env::args().collect();
    let cmd = args.get(1).map(|s| s.as_str()).unwrap_or("");
    match cmd {
        "probe" => {
            let want = args.get(2).cloned();
            let mut fails = 0;
            for (prop, name, f) in probe::all() {
                if let Some(w) = &want {
                    if w != prop && w != name {
                        continue;
                    }
                }
                match f() {
                    Ok(()) => println!("PROBE {} {} pass", prop, name),
                    Err(e) => {
                        fails += 1;
                        println!("PROBE {} {} FAIL {}", prop, name, e)
                    }
                }
            }
            std::process::exit(if fails > 0 { 1 } else { 0 });
        }
        _ => {
            eprintln!("usage: cfbh <probe|...>");
            std::process::exit(2);
        }
    }
}
