mod backend;
mod extra;
mod gen;
mod lockstep;
mod mutants;
mod ops;
mod probe;
mod rng;
mod rootfits;
mod synth;

use std::env;

/// Counts live and peak heap bytes of the whole process (C05: memory proportional to the input).
pub mod memtrack {
    use std::alloc::{GlobalAlloc, Layout, System};
    use std::sync::atomic::{AtomicUsize, Ordering};
    pub static CUR: AtomicUsize = AtomicUsize::new(0);
    pub static PEAK: AtomicUsize = AtomicUsize::new(0);
    pub struct Counting;
    unsafe impl GlobalAlloc for Counting {
        unsafe fn alloc(&self, l: Layout) -> *mut u8 {
            let p = System.alloc(l);
            if !p.is_null() {
                let c = CUR.fetch_add(l.size(), Ordering::Relaxed) + l.size();
                PEAK.fetch_max(c, Ordering::Relaxed);
            }
            p
        }
        unsafe fn dealloc(&self, p: *mut u8, l: Layout) {
            System.dealloc(p, l);
            CUR.fetch_sub(l.size(), Ordering::Relaxed);
        }
        unsafe fn realloc(&self, p: *mut u8, l: Layout, new_size: usize) -> *mut u8 {
            let q = System.realloc(p, l, new_size);
            if !q.is_null() {
                if new_size >= l.size() {
                    let c = CUR.fetch_add(new_size - l.size(), Ordering::Relaxed) + (new_size - l.size());
                    PEAK.fetch_max(c, Ordering::Relaxed);
                } else {
                    CUR.fetch_sub(l.size() - new_size, Ordering::Relaxed);
                }
            }
            q
        }
    }
    /// live bytes now; also resets the peak to that value
    pub fn mark() -> usize {
        let c = CUR.load(Ordering::Relaxed);
        PEAK.store(c, Ordering::Relaxed);
        c
    }
    pub fn peak() -> usize {
        PEAK.load(Ordering::Relaxed)
    }
}
#[global_allocator]
static ALLOC: memtrack::Counting = memtrack::Counting;

fn main() {
    // panics are caught and reported as results; keep stderr quiet
    if env::var("CFBH_SHOW_PANICS").is_err() {
        std::panic::set_hook(Box::new(|_| {}));
    }
    let args: Vec<String> = env::args().collect();
    let cmd = args.get(1).map(|s| s.as_str()).unwrap_or("");
    match cmd {
        "probe" => {
            let want = args.get(2).cloned();
            let mut fails = 0;
            for (prop, name, f) in probe::all() {
                if let Some(w) = &want {
                    if w != prop && w != name {
                        continue;
                    }
                }
                match f() {
                    Ok(()) => println!("PROBE {} {} pass", prop, name),
                    Err(e) => {
                        fails += 1;
                        println!("PROBE {} {} FAIL {}", prop, name, e)
                    }
                }
            }
            std::process::exit(if fails > 0 { 1 } else { 0 });
        }
        "lockstep" => {
            // cfbh lockstep <profile> <seed> <count> <outfile>
            let prof = gen::profile(&args[2]);
            let seed: u64 = args[3].parse().unwrap();
            let count: usize = args[4].parse().unwrap();
            let (n, failures) = lockstep::run(prof, seed, count, &args[5]);
            eprintln!("lockstep: wrote {} histories", n);
            let mut rep = extra::Report::new();
            rep.evaluations = n as u64;
            for f in failures {
                rep.fail(f);
            }
            rep.print();
        }
        "vec" => {
            let seed: u64 = args[2].parse().unwrap();
            let count: usize = args[3].parse().unwrap();
            extra::vec_contract(seed, count).print();
        }
        "locks" => {
            let seed: u64 = args[2].parse().unwrap();
            let iters: usize = args[3].parse().unwrap();
            extra::locks(seed, iters).print();
        }
        "readfaults" => {
            let seed: u64 = args[2].parse().unwrap();
            let pairs: usize = args[3].parse().unwrap();
            extra::readfaults(seed, pairs, args[4].parse().unwrap(), args[5].parse().unwrap()).print();
        }
        "writefaults" => {
            let seed: u64 = args[2].parse().unwrap();
            let pairs: usize = args[3].parse().unwrap();
            extra::writefaults(seed, pairs, args[4].parse().unwrap(), args[5].parse().unwrap()).print();
        }
        "flushdur" => {
            extra::flush_durability(args[2].parse().unwrap(), args[3].parse().unwrap()).print();
        }
        "writefault1" => {
            extra::writefault_one(args[2] == "3", args[3].parse().unwrap(), args[4].parse().unwrap());
        }
        "mutants" => {
            // cfbh mutants <ro|rw> <seed> <count> <outfile>
            let seed: u64 = args[3].parse().unwrap();
            let count: usize = args[4].parse().unwrap();
            mutants::run(&args[2], seed, count, &args[5]).print();
        }
        "replay" => {
            // cfbh replay <outfile> <trace>...
            mutants::replay(&args[3..].to_vec(), &args[2]).print();
        }
        "layouts" => {
            // cfbh layouts <seed> <count> <outfile>
            let seed: u64 = args[2].parse().unwrap();
            let count: usize = args[3].parse().unwrap();
            synth::run(seed, count, &args[4]).print();
        }
        "dotnames" => synth::dotnames_run().print(),
        "openmsg" => {
            // cfbh openmsg <file>: the crate's verdict on a byte string, both modes (for debugging)
            let bytes = std::fs::read(&args[2]).unwrap();
            for strict in [false, true] {
                let mut oo = cfb::OpenOptions::new();
                if strict {
                    oo = oo.strict();
                }
                match oo.open_with(std::io::Cursor::new(bytes.clone())) {
                    Ok(_) => println!("strict={} ok", strict),
                    Err(e) => println!("strict={} {:?}: {}", strict, e.kind(), e),
                }
            }
        }
        "difat" => {
            // cfbh difat <seed> <count> <outfile>
            let seed: u64 = args[2].parse().unwrap();
            let count: usize = args[3].parse().unwrap();
            synth::difat_run(seed, count, &args[4]).print();
        }
        "deviations" => {
            let seed: u64 = args[2].parse().unwrap();
            let count: usize = args[3].parse().unwrap();
            extra::deviations(seed, count).print();
        }
        "cycledebug" => extra::cycle_debug(),
        "configs" => {
            let seed: u64 = args[2].parse().unwrap();
            let count: usize = args[3].parse().unwrap();
            extra::configs(seed, count).print();
        }
        "handlefaults" => {
            extra::handle_faults().print();
        }
        "metaclock" => {
            let seed: u64 = args[2].parse().unwrap();
            let count: usize = args[3].parse().unwrap();
            extra::meta_clock(seed, count).print();
        }
        "cycles" => {
            let seed: u64 = args[2].parse().unwrap();
            let count: usize = args[3].parse().unwrap();
            extra::cycles(seed, count).print();
        }
        "resizesweep" => {
            // cfbh resizesweep <outfile> <shard> <nshards>
            let n = lockstep::resize_sweep(&args[2], args[3].parse().unwrap(), args[4].parse().unwrap());
            println!("{{\"evaluations\": {}, \"distinct\": {}, \"failures\": [], \"samples\": [\"create /s with a bytes; set_len(b); cat; entry; remove; for every (a, b) in the boundary set squared, V3 and V4\"], \"notes\": {{}}}}", n, n);
        }
        "uptable" => {
            // every scalar value whose CFB upper-casing is not the identity
            let mut n = 0u32;
            for cp in 0u32..=0x10FFFF {
                if let Some(c) = char::from_u32(cp) {
                    let u = cfb::verif::verif_uppercase(c);
                    if u != c {
                        println!("{} {}", cp, u as u32);
                        n += 1;
                    }
                }
            }
            eprintln!("uptable: {} non-identity entries", n);
        }
        _ => {
            eprintln!("usage: cfbh <probe|...>");
            std::process::exit(2);
        }
    }
}
