//! History generation: structured, mostly-valid operation sequences on a small
//! pool of names built to collide in CFB order, with sizes drawn from the
//! boundary sets, plus a tunable share of calls aimed at refusals.

use cfb::Entry;

use crate::ops::{Live, Op, Whence, NHANDLES};
use crate::rng::Rng;

pub const ASCII_NAMES: &[&str] = &[
    "a", "A", "b", "B", "c", "ab", "AB", "aB", "ba", "abc", "ABD", "Foo", "foo",
    "FOO", "bar", "Baz", "z", "Z9", "_x", "x y", "a.b", "...", "data.bin",
    "d", "e", "f", "g", "h", "k", "m", "p", "q", "t", "x", "y", "n", "r", "u", "w",
    "0123456789012345678901234567890",
];
pub const UNI_NAMES: &[&str] = &[
    "\u{e9}", "\u{c9}", "\u{df}", "\u{1c5}", "\u{1c4}", "\u{1c6}", "\u{131}", "\u{17f}",
    "I", "i", "S", "s", "\u{3c9}", "\u{3a9}", "\u{10000}", "\u{e000}a", "\u{10428}",
    "\u{10400}", "\u{ff41}", "\u{ff21}", "\u{430}\u{431}", "\u{410}\u{411}", "\u{4e2d}\u{6587}",
    "\u{1f600}", "k\u{212a}", "\u{e000}", "\u{ffff}", "a\u{300}",
    // long names whose UTF-8, UTF-16 and character counts all differ (63-93 bytes, 20-31 units),
    // with case variants
    "\u{4e2d}\u{4e2d}\u{4e2d}\u{4e2d}\u{4e2d}\u{4e2d}\u{4e2d}\u{4e2d}\u{4e2d}\u{4e2d}\u{4e2d}\u{4e2d}\u{4e2d}\u{4e2d}\u{4e2d}\u{4e2d}\u{4e2d}\u{4e2d}\u{4e2d}\u{4e2d}", "\u{4e2d}\u{4e2d}\u{4e2d}\u{4e2d}\u{4e2d}\u{4e2d}\u{4e2d}\u{4e2d}\u{4e2d}\u{4e2d}\u{4e2d}\u{4e2d}\u{4e2d}\u{4e2d}\u{4e2d}\u{4e2d}\u{4e2d}\u{4e2d}\u{4e2d}\u{4e2d}\u{4e2d}", "\u{4e2d}\u{4e2d}\u{4e2d}\u{4e2d}\u{4e2d}\u{4e2d}\u{4e2d}\u{4e2d}\u{4e2d}\u{4e2d}\u{4e2d}\u{4e2d}\u{4e2d}\u{4e2d}\u{4e2d}\u{4e2d}\u{4e2d}\u{4e2d}\u{4e2d}\u{4e2d}\u{4e2d}\u{4e2d}", "\u{4e2d}\u{4e2d}\u{4e2d}\u{4e2d}\u{4e2d}\u{4e2d}\u{4e2d}\u{4e2d}\u{4e2d}\u{4e2d}\u{4e2d}\u{4e2d}\u{4e2d}\u{4e2d}\u{4e2d}\u{4e2d}\u{4e2d}\u{4e2d}\u{4e2d}\u{4e2d}\u{4e2d}\u{4e2d}\u{4e2d}\u{4e2d}\u{4e2d}\u{4e2d}\u{4e2d}\u{4e2d}\u{4e2d}\u{4e2d}\u{4e2d}", "\u{1e01}\u{1e01}\u{1e01}\u{1e01}\u{1e01}\u{1e01}\u{1e01}\u{1e01}\u{1e01}\u{1e01}\u{1e01}\u{1e01}\u{1e01}\u{1e01}\u{1e01}\u{1e01}\u{1e01}\u{1e01}\u{1e01}\u{1e01}\u{1e01}\u{1e01}\u{1e01}\u{1e01}\u{1e01}", "\u{1e00}\u{1e00}\u{1e00}\u{1e00}\u{1e00}\u{1e00}\u{1e00}\u{1e00}\u{1e00}\u{1e00}\u{1e00}\u{1e00}\u{1e00}\u{1e00}\u{1e00}\u{1e00}\u{1e00}\u{1e00}\u{1e00}\u{1e00}\u{1e00}\u{1e00}\u{1e00}\u{1e00}\u{1e00}", "\u{20ac}\u{20ac}\u{20ac}\u{20ac}\u{20ac}\u{20ac}\u{20ac}\u{20ac}\u{20ac}\u{20ac}\u{20ac}\u{20ac}\u{20ac}\u{20ac}\u{20ac}\u{20ac}\u{20ac}\u{20ac}\u{20ac}\u{20ac}\u{20ac}\u{20ac}\u{20ac}\u{20ac}\u{20ac}\u{20ac}\u{20ac}\u{20ac}\u{20ac}\u{20ac}", "\u{10400}\u{10400}\u{10400}\u{10400}\u{10400}\u{10400}\u{10400}\u{10400}\u{10400}\u{10400}\u{10400}\u{10400}\u{10400}\u{10400}\u{10400}", "\u{10428}\u{10428}\u{10428}\u{10428}\u{10428}\u{10428}\u{10428}\u{10428}\u{10428}\u{10428}\u{10428}\u{10428}\u{10428}\u{10428}\u{10428}",
];
pub const BAD_NAMES: &[&str] = &[
    "a:b", "x!", "a\\b", ":", "01234567890123456789012345678901",
    "\u{10000}\u{10000}\u{10000}\u{10000}\u{10000}\u{10000}\u{10000}\u{10000}\u{10000}\u{10000}\u{10000}\u{10000}\u{10000}\u{10000}\u{10000}\u{10000}",
];

pub const SIZES: &[usize] = &[
    0, 1, 2, 63, 64, 65, 100, 127, 128, 129, 500, 511, 512, 513, 1000, 1023, 1024, 1025,
    1500, 2047, 2048, 2049, 4000, 4095, 4096, 4097, 5000, 8191, 8192, 8193, 9000, 12289,
];

#[derive(Clone, Debug)]
pub struct Profile {
    pub name: &'static str,
    pub steps: (usize, usize),
    pub w_create_storage: u64,
    pub w_create_stream: u64,
    pub w_remove: u64,
    pub w_remove_all: u64,
    pub w_meta: u64,
    pub w_query: u64,
    pub w_handle_open: u64,
    pub w_handle_io: u64,
    pub w_cat: u64,
    pub w_reopen: u64,
    pub w_refuse: u64,
    pub unicode: u64,  // percent of names from the non-ASCII pool
    pub bad_names: u64, // percent of created names that are invalid
    pub small_bias: bool, // keep sizes small (many streams)
    pub tree: bool,       // only operations expressible on the abstract tree; streams written whole
    pub flat: bool,       // most objects are created directly under the root, from a larger name pool
    pub hygiene: bool,    // drop a handle before its stream is removed / opened again (C06-C08 assume it; C11 does not)
    pub maxbufs: &'static [usize],
}

pub fn profile(name: &str) -> Profile {
    let base = Profile {
        name: "mixed",
        steps: (10, 40),
        w_create_storage: 10,
        w_create_stream: 14,
        w_remove: 10,
        w_remove_all: 2,
        w_meta: 6,
        w_query: 14,
        w_handle_open: 6,
        w_handle_io: 24,
        w_cat: 4,
        w_reopen: 3,
        w_refuse: 7,
        unicode: 20,
        bad_names: 4,
        small_bias: false,
        tree: false,
        flat: false,
        hygiene: true,
        maxbufs: &[1, 1024, 1500, 4096, 1 << 20],
    };
    match name {
        "mixed" => base,
        "handles" => Profile {
            name: "handles",
            steps: (20, 60),
            w_create_storage: 1,
            w_create_stream: 4,
            w_remove: 1,
            w_remove_all: 0,
            w_meta: 0,
            w_query: 2,
            w_handle_open: 8,
            w_handle_io: 70,
            w_cat: 6,
            w_reopen: 1,
            w_refuse: 7,
            unicode: 0,
            bad_names: 0,
            ..base
        },
        "multi" => Profile {
            name: "multi",
            steps: (20, 50),
            w_create_storage: 6,
            w_create_stream: 14,
            w_remove: 18,
            w_remove_all: 1,
            w_meta: 3,
            w_query: 6,
            w_handle_open: 14,
            w_handle_io: 30,
            w_cat: 6,
            w_reopen: 0,
            w_refuse: 2,
            unicode: 5,
            bad_names: 0,
            small_bias: true,
            ..base
        },
        "names" => Profile {
            name: "names",
            steps: (15, 40),
            w_create_storage: 18,
            w_create_stream: 12,
            w_remove: 14,
            w_remove_all: 1,
            w_meta: 2,
            w_query: 30,
            w_handle_open: 0,
            w_handle_io: 0,
            w_cat: 2,
            w_reopen: 3,
            w_refuse: 6,
            unicode: 60,
            bad_names: 15,
            small_bias: true,
            tree: true,
            ..base
        },
        "refuse" => Profile {
            name: "refuse",
            w_refuse: 45,
            bad_names: 12,
            ..base
        },
        "meta" => Profile {
            name: "meta",
            w_meta: 40,
            w_query: 20,
            w_reopen: 8,
            w_handle_io: 0,
            w_handle_open: 0,
            tree: true,
            ..base
        },
        "persist" => Profile { name: "persist", w_reopen: 12, ..base },
        "tree" => Profile {
            name: "tree",
            steps: (15, 45),
            w_create_storage: 14,
            w_create_stream: 18,
            w_remove: 14,
            w_remove_all: 2,
            w_meta: 8,
            w_query: 22,
            w_handle_open: 0,
            w_handle_io: 0,
            w_cat: 10,
            w_reopen: 4,
            w_refuse: 8,
            unicode: 25,
            bad_names: 5,
            tree: true,
            ..base
        },
        "siblings" => Profile {
            name: "siblings",
            steps: (50, 110),
            w_create_storage: 14,
            w_create_stream: 26,
            w_remove: 30,
            w_remove_all: 0,
            w_meta: 1,
            w_query: 8,
            w_handle_open: 0,
            w_handle_io: 0,
            w_cat: 4,
            w_reopen: 1,
            w_refuse: 1,
            unicode: 15,
            bad_names: 0,
            tree: true,
            flat: true,
            small_bias: true,
            ..base
        },
        "multisib" => Profile {
            name: "multisib",
            steps: (50, 100),
            w_create_storage: 8,
            w_create_stream: 22,
            w_remove: 26,
            w_remove_all: 0,
            w_meta: 1,
            w_query: 4,
            w_handle_open: 14,
            w_handle_io: 20,
            w_cat: 5,
            w_reopen: 0,
            w_refuse: 0,
            unicode: 5,
            bad_names: 0,
            small_bias: true,
            flat: true,
            ..base
        },
        // several handles on the same stream, handles kept across removal, overwrite and
        // slot reuse: nothing may panic (C11 quantifies over every call sequence)
        "shared" => Profile {
            name: "shared",
            steps: (25, 60),
            w_create_storage: 3,
            w_create_stream: 16,
            w_remove: 14,
            w_remove_all: 1,
            w_meta: 1,
            w_query: 2,
            w_handle_open: 22,
            w_handle_io: 40,
            w_cat: 4,
            w_reopen: 0,
            w_refuse: 0,
            unicode: 0,
            bad_names: 0,
            small_bias: true,
            hygiene: false,
            ..base
        },
        // C07: handles kept across the removal of their stream while the freed slot is reused by
        // storages and streams; other streams are read back often
        "stale" => Profile {
            name: "stale",
            steps: (30, 70),
            w_create_storage: 12,
            w_create_stream: 12,
            w_remove: 18,
            w_remove_all: 0,
            w_meta: 1,
            w_query: 3,
            w_handle_open: 18,
            w_handle_io: 34,
            w_cat: 10,
            w_reopen: 0,
            w_refuse: 0,
            unicode: 0,
            bad_names: 0,
            small_bias: true,
            flat: true,
            hygiene: false,
            ..base
        },
        "treebig" => Profile {
            name: "treebig",
            steps: (60, 120),
            w_create_storage: 16,
            w_create_stream: 22,
            w_remove: 14,
            w_remove_all: 1,
            w_meta: 4,
            w_query: 10,
            w_handle_open: 0,
            w_handle_io: 0,
            w_cat: 6,
            w_reopen: 2,
            w_refuse: 4,
            unicode: 15,
            bad_names: 2,
            tree: true,
            small_bias: true,
            ..base
        },
        _ => panic!("unknown profile {}", name),
    }
}

pub struct Gen {
    pub rng: Rng,
    pub prof: Profile,
    pub pool: Vec<String>,
    pub occupied: [bool; NHANDLES],
    pub wcount: u32,
    /// operations queued to follow the one just returned (two-step moves)
    pub pending: Vec<Op>,
}

fn flip_case(rng: &mut Rng, s: &str) -> String {
    s.chars()
        .map(|c| {
            if rng.chance(1, 2) {
                if c.is_lowercase() {
                    c.to_uppercase().next().unwrap_or(c)
                } else {
                    c.to_lowercase().next().unwrap_or(c)
                }
            } else {
                c
            }
        })
        .collect()
}

impl Gen {
    pub fn new(seed: u64, prof: Profile) -> Gen {
        let mut rng = Rng::new(seed);
        let n = if prof.flat { 12 + rng.below(8) as usize } else { 5 + rng.below(6) as usize };
        let mut pool = Vec::new();
        for _ in 0..n {
            let s = if rng.below(100) < prof.unicode {
                *rng.pick(UNI_NAMES)
            } else {
                *rng.pick(ASCII_NAMES)
            };
            pool.push(s.to_string());
        }
        Gen { rng, prof, pool, occupied: [false; NHANDLES], wcount: 0, pending: Vec::new() }
    }

    fn name(&mut self) -> String {
        let i = self.rng.below(self.pool.len() as u64) as usize;
        let n = self.pool[i].clone();
        if self.rng.chance(1, 4) {
            flip_case(&mut self.rng, &n)
        } else {
            n
        }
    }

    /// Re-spells a canonical absolute path: case flips, ".", "x/..", slashes.
    fn respell(&mut self, p: &str) -> String {
        let mut parts: Vec<String> =
            p.split('/').filter(|s| !s.is_empty()).map(|s| s.to_string()).collect();
        if self.rng.chance(1, 5) {
            for s in parts.iter_mut() {
                *s = flip_case(&mut self.rng, s);
            }
        }
        let mut out: Vec<String> = Vec::new();
        for s in parts {
            if self.rng.chance(1, 12) {
                out.push(".".into());
            }
            if self.rng.chance(1, 14) {
                out.push("zz".into());
                out.push("..".into());
            }
            out.push(s);
        }
        let mut r = out.join("/");
        if !self.rng.chance(1, 6) {
            r.insert(0, '/');
        }
        if self.rng.chance(1, 8) {
            r.push('/');
        }
        if r.is_empty() {
            r = if self.rng.chance(1, 2) { "/".into() } else { "".into() };
        }
        r
    }

    pub fn size(&mut self) -> usize {
        if self.prof.small_bias && self.rng.chance(3, 4) {
            *self.rng.pick(&[0usize, 1, 10, 63, 64, 65, 100, 200, 500])
        } else if self.rng.chance(1, 6) {
            self.rng.below(6000) as usize
        } else {
            *self.rng.pick(SIZES)
        }
    }

    pub fn data(&mut self, n: usize) -> Vec<u8> {
        self.wcount += 1;
        let tag = self.wcount;
        (0..n).map(|i| (((tag * 37 + i as u32 * 7 + (i as u32 >> 8)) % 255) + 1) as u8).collect()
    }

    fn pick_entry<'a>(&mut self, es: &'a [Entry], f: impl Fn(&Entry) -> bool) -> Option<&'a Entry> {
        let c: Vec<&Entry> = es.iter().filter(|e| f(e)).collect();
        if c.is_empty() {
            None
        } else {
            Some(c[self.rng.below(c.len() as u64) as usize])
        }
    }

    fn path_of(e: &Entry) -> String {
        e.path().to_str().unwrap().to_string()
    }

    fn join(parent: &str, name: &str) -> String {
        if parent.ends_with('/') {
            format!("{}{}", parent, name)
        } else {
            format!("{}/{}", parent, name)
        }
    }

    fn free_slot(&mut self) -> Option<usize> {
        let free: Vec<usize> = (0..NHANDLES).filter(|&i| !self.occupied[i]).collect();
        if free.is_empty() {
            None
        } else {
            Some(free[self.rng.below(free.len() as u64) as usize])
        }
    }

    fn used_slot(&mut self) -> Option<usize> {
        let used: Vec<usize> = (0..NHANDLES).filter(|&i| self.occupied[i]).collect();
        if used.is_empty() {
            None
        } else {
            Some(used[self.rng.below(used.len() as u64) as usize])
        }
    }

    fn handle_io(&mut self, h: usize, live: &mut Live) -> Op {
        let len = live.handles[h].as_ref().map(|s| s.len()).unwrap_or(0);
        let r = self.rng.below(100);
        if r < 5 {
            // top up: append exactly as many bytes as bring the stream to a boundary
            // (mini sector, sector, the 4096-byte cutoff and one byte either side of it)
            let targets = [64u64, 128, 512, 1024, 4095, 4096, 4097, 8192];
            let bigger: Vec<u64> = targets.iter().copied().filter(|&t| t > len).collect();
            if !bigger.is_empty() {
                let t = *self.rng.pick(&bigger);
                let n = (t - len) as usize;
                let data = self.data(n);
                self.pending.push(Op::HWrite(h, data));
                if self.rng.chance(1, 2) {
                    self.pending.insert(0, Op::HFlush(h));
                }
                return Op::HSeek(h, Whence::End, 0);
            }
        }
        if r < 28 {
            let n = self.size();
            Op::HWrite(h, self.data(n))
        } else if r < 50 {
            Op::HRead(h, self.size())
        } else if r < 56 {
            Op::HFill(h)
        } else if r < 74 {
            // seeks: mostly in range, sometimes just outside, sometimes extreme
            let k = self.rng.below(12);
            match k {
                0 => Op::HSeek(h, Whence::Start, 0),
                1 => Op::HSeek(h, Whence::End, 0),
                2 => Op::HSeek(h, Whence::Start, len as i128 + 1),
                3 => Op::HSeek(h, Whence::End, 1),
                4 => Op::HSeek(h, Whence::End, -(len as i128) - 1),
                5 => {
                    let ext = *self.rng.pick(&[
                        i64::MIN as i128,
                        i64::MIN as i128 + 1,
                        i64::MAX as i128,
                        -1,
                        1 << 40,
                    ]);
                    let w = if self.rng.chance(1, 2) { Whence::End } else { Whence::Cur };
                    Op::HSeek(h, w, ext)
                }
                6 => Op::HSeek(h, Whence::Start, u64::MAX as i128),
                7 | 8 => Op::HSeek(h, Whence::Start, self.rng.below(len + 1) as i128),
                9 => Op::HSeek(h, Whence::End, -(self.rng.below(len + 1) as i128)),
                _ => {
                    let d = self.rng.below(2 * len + 3) as i128 - len as i128 - 1;
                    Op::HSeek(h, Whence::Cur, d)
                }
            }
        } else if r < 84 {
            let n = match self.rng.below(if self.prof.w_refuse > 0 { 40 } else { 4 }) {
                // lengths no file can hold: refused before anything changes
                4 => *self.rng.pick(&[u64::MAX, u64::MAX - 1, u64::MAX - 511, u64::MAX - 4095, 1u64 << 63, (1u64 << 63) - 1, 1u64 << 48, 0xffff_fffa * 4096 + 1]),
                0 => self.rng.below(len + 2),
                // exact multiples of the (mini) sector sizes at or below the current length
                1 => {
                    let unit = *self.rng.pick(&[64u64, 512, 4096]);
                    (self.rng.below(len / unit + 2)) * unit
                }
                _ => self.size() as u64,
            };
            Op::HSetLen(h, n)
        } else if r < 90 {
            Op::HFlush(h)
        } else if r < 94 {
            Op::HLen(h)
        } else if r < 97 {
            Op::HPos(h)
        } else {
            self.occupied[h] = false;
            Op::HDrop(h)
        }
    }

    /// Chooses the next operation, looking at the live object only to find
    /// existing paths (never to decide what the right result is).
    pub fn next_op(&mut self, live: &mut Live) -> Op {
        if let Some(op) = self.pending.pop() {
            // only while the handle it was planned for is still open
            let alive = match &op {
                Op::HWrite(h, _) | Op::HFlush(h) => live.handles[*h].is_some(),
                _ => true,
            };
            if alive {
                return op;
            }
            self.pending.clear();
        }
        let es: Vec<Entry> = live.comp.as_ref().unwrap().walk().collect();
        let p = self.prof.clone();
        let total = p.w_create_storage
            + p.w_create_stream
            + p.w_remove
            + p.w_remove_all
            + p.w_meta
            + p.w_query
            + p.w_handle_open
            + p.w_handle_io
            + p.w_cat
            + p.w_reopen
            + p.w_refuse;
        let mut r = self.rng.below(total);
        macro_rules! take {
            ($w:expr) => {{
                if r < $w {
                    true
                } else {
                    r -= $w;
                    false
                }
            }};
        }
        let storage = |e: &Entry| e.is_storage();
        let stream = |e: &Entry| e.is_stream();
        if take!(p.w_create_storage) {
            let flat = p.flat && self.rng.chance(4, 5);
            let parent = if flat { "/".to_string() } else { self.pick_entry(&es, storage).map(Self::path_of).unwrap_or("/".into()) };
            let nm = if self.rng.below(100) < p.bad_names {
                rng_pick_str(&mut self.rng, BAD_NAMES)
            } else {
                self.name()
            };
            let path = Self::join(&parent, &nm);
            let path = self.respell(&path);
            if self.rng.chance(1, 5) {
                let extra = self.name();
                return Op::CreateStorageAll(Self::join(&path, &extra));
            }
            return Op::CreateStorage(path);
        }
        if take!(p.w_create_stream) {
            let flat = p.flat && self.rng.chance(4, 5);
            let parent = if flat { "/".to_string() } else { self.pick_entry(&es, storage).map(Self::path_of).unwrap_or("/".into()) };
            let nm = if self.rng.below(100) < p.bad_names {
                rng_pick_str(&mut self.rng, BAD_NAMES)
            } else {
                self.name()
            };
            let path = Self::join(&parent, &nm);
            let path = self.respell(&path);
            if let Some(h) = self.free_slot() {
                self.occupied[h] = true; // corrected by the caller when the call fails
                return if self.rng.chance(1, 4) {
                    Op::CreateNewStream(h, path)
                } else {
                    Op::CreateStream(h, path)
                };
            } else {
                let h = self.used_slot().unwrap();
                self.occupied[h] = false;
                return Op::HDrop(h);
            }
        }
        if take!(p.w_remove) {
            if let Some(e) = self.pick_entry(&es, |e| !e.is_root()) {
                let path = Self::path_of(e);
                let is_stream = e.is_stream();
                let path = self.respell(&path);
                return if is_stream { Op::RemoveStream(path) } else { Op::RemoveStorage(path) };
            }
            return Op::Walk;
        }
        if take!(p.w_remove_all) {
            if let Some(e) = self.pick_entry(&es, |_| true) {
                let path = Self::path_of(e);
                return Op::RemoveStorageAll(self.respell(&path));
            }
            return Op::Walk;
        }
        if take!(p.w_meta) {
            let e = self.pick_entry(&es, |_| true).unwrap();
            let path = Self::path_of(e);
            let path = self.respell(&path);
            let k = self.rng.below(4);
            return match k {
                0 => {
                    let g = match self.rng.below(4) {
                        0 => 0u128,
                        1 => u128::MAX,
                        _ => ((self.rng.next() as u128) << 64) | self.rng.next() as u128,
                    };
                    Op::SetClsid(path, g)
                }
                1 => Op::SetState(
                    path,
                    *self.rng.pick(&[0u32, 1, 0xFFFF_FFFF, 0x8000_0000, 0x1234_5678]),
                ),
                _ => {
                    let (neg, s, n) = self.time();
                    if k == 2 {
                        Op::SetCreated(path, neg, s, n)
                    } else {
                        Op::SetModified(path, neg, s, n)
                    }
                }
            };
        }
        if take!(p.w_query) {
            let path = if self.rng.chance(1, 5) {
                let parent = self.pick_entry(&es, |_| true).map(Self::path_of).unwrap_or("/".into());
                let nm = self.name();
                Self::join(&parent, &nm)
            } else {
                Self::path_of(self.pick_entry(&es, |_| true).unwrap())
            };
            let path = self.respell(&path);
            return match self.rng.below(10) {
                0 => Op::Exists(path),
                1 => Op::IsStream(path),
                2 => Op::IsStorage(path),
                3 | 4 => Op::EntryOf(path),
                5 | 6 => Op::ReadStorage(path),
                7 => Op::WalkStorage(path),
                8 => Op::Walk,
                _ => match self.rng.below(4) {
                    0 => Op::ReadRoot,
                    1 => Op::RootEntry,
                    2 => Op::GetVersion,
                    _ => Op::FlushFile,
                },
            };
        }
        if take!(p.w_handle_open) {
            if let (Some(h), Some(e)) = (self.free_slot(), self.pick_entry(&es, stream)) {
                let path = Self::path_of(e);
                self.occupied[h] = true;
                return Op::OpenStream(h, self.respell(&path));
            }
            if let Some(h) = self.used_slot() {
                if self.free_slot().is_none() {
                    self.occupied[h] = false;
                    return Op::HDrop(h);
                }
            }
            return Op::Walk;
        }
        if take!(p.w_handle_io) {
            if let Some(h) = self.used_slot() {
                return self.handle_io(h, live);
            }
            return Op::ReadRoot;
        }
        if take!(p.w_cat) {
            if let Some(e) = self.pick_entry(&es, stream) {
                let path = Self::path_of(e);
                return Op::Cat(self.respell(&path));
            }
            return Op::Walk;
        }
        if take!(p.w_reopen) {
            for o in self.occupied.iter_mut() {
                *o = false;
            }
            return Op::Reopen(self.rng.chance(1, 2));
        }
        // refusals of every kind
        self.refusal(&es)
    }

    fn time(&mut self) -> (bool, u64, u32) {
        match self.rng.below(10) {
            0 => (false, 0, 0),
            1 => (true, 11_644_473_600, 0),           // 1601-01-01
            2 => (true, 11_644_473_601, 5),           // before 1601
            3 => (true, 1, 999_999_999),
            4 => (false, 1_700_000_000, 123_456_789), // sub-100ns fraction
            5 => (false, 1_833_029_933_770, 955_161_500), // the largest FILETIME
            6 => (false, 1_833_029_933_771, 0),       // beyond it
            7 => (true, 200_000_000_000, 17),
            8 => (false, self.rng.below(4_000_000_000), self.rng.below(1_000_000_000) as u32),
            _ => (true, self.rng.below(12_000_000_000), self.rng.below(1_000_000_000) as u32),
        }
    }

    fn refusal(&mut self, es: &[Entry]) -> Op {
        let storage = |e: &Entry| e.is_storage() && !e.is_root();
        let stream = |e: &Entry| e.is_stream();
        let missing = {
            let nm = self.name();
            format!("/nope{}/{}", self.rng.below(3), nm)
        };
        let k = self.rng.below(16);
        match k {
            0 => Op::CreateStorage(missing),
            1 => {
                if let Some(h) = self.free_slot() {
                    self.occupied[h] = true;
                    Op::CreateStream(h, missing)
                } else {
                    Op::EntryOf(missing)
                }
            }
            2 => Op::RemoveStorage("/".into()),
            3 => Op::CreateStorage("/".into()),
            4 => Op::CreateStorage("../x".into()),
            5 => Op::EntryOf("/a/../../b".into()),
            6 => match self.pick_entry(es, stream) {
                Some(e) => Op::RemoveStorage(Self::path_of(e)),
                None => Op::RemoveStorage(missing),
            },
            7 => match self.pick_entry(es, storage) {
                Some(e) => Op::RemoveStream(Self::path_of(e)),
                None => Op::RemoveStream(missing),
            },
            8 => match self.pick_entry(es, stream) {
                Some(e) => Op::ReadStorage(Self::path_of(e)),
                None => Op::ReadStorage(missing),
            },
            9 => match self.pick_entry(es, stream) {
                Some(e) => Op::SetClsid(Self::path_of(e), 7),
                None => Op::SetClsid(missing, 7),
            },
            10 => match self.pick_entry(es, |e| !e.is_root()) {
                Some(e) => Op::CreateStorage(Self::path_of(e)),
                None => Op::SetState(missing, 1),
            },
            11 => match (self.free_slot(), self.pick_entry(es, |e| !e.is_root())) {
                (Some(h), Some(e)) => {
                    self.occupied[h] = true;
                    Op::CreateNewStream(h, Self::path_of(e))
                }
                _ => Op::SetModified(missing, false, 5, 5),
            },
            12 => match (self.free_slot(), self.pick_entry(es, storage)) {
                (Some(h), Some(e)) => {
                    self.occupied[h] = true;
                    Op::OpenStream(h, Self::path_of(e))
                }
                _ => Op::WalkStorage(missing),
            },
            13 => match self.pick_entry(es, stream) {
                // child of a stream
                Some(e) => {
                    let nm = self.name();
                    let p = Self::join(&Self::path_of(e), &nm);
                    if self.rng.chance(1, 2) {
                        Op::CreateStorage(p)
                    } else {
                        Op::CreateStorageAll(Self::join(&p, "q"))
                    }
                }
                None => Op::RemoveStorageAll(missing),
            },
            14 => {
                // non-empty storage
                let parent = es.iter().find(|e| {
                    e.is_storage()
                        && !e.is_root()
                        && es.iter().any(|c| c.path().parent() == Some(e.path()))
                });
                match parent {
                    Some(e) => Op::RemoveStorage(Self::path_of(e)),
                    None => Op::RemoveStorage(missing),
                }
            }
            _ => {
                let bad = rng_pick_str(&mut self.rng, BAD_NAMES);
                if self.rng.chance(1, 2) {
                    Op::CreateStorageAll(format!("/fresh{}/{}", self.rng.below(3), bad))
                } else {
                    Op::CreateStorage(format!("/{}", bad))
                }
            }
        }
    }
}

fn rng_pick_str(rng: &mut Rng, xs: &[&str]) -> String {
    xs[rng.below(xs.len() as u64) as usize].to_string()
}
