//! Backends for the real crate: a shared in-memory buffer that can be
//! snapshotted at any time without `flush`/`into_inner`, with optional fault
//! injection (fail the k-th raw call) and chunking (short counts, Interrupted).

use std::io::{self, Read, Seek, SeekFrom, Write};
use std::sync::{Arc, Mutex};

use crate::rng::Rng;

#[derive(Clone, Copy, PartialEq, Eq, Debug)]
pub enum CallKind {
    Read,
    Write,
    Seek,
    Flush,
}

#[derive(Default)]
pub struct Ctl {
    /// total raw calls seen, per kind: read, write, seek, flush
    pub calls: [u64; 4],
    /// sequence number (over the selected kinds) of calls so far
    pub seq: u64,
    /// which kinds count toward `seq` / are eligible to fail
    pub fail_kinds: [bool; 4],
    /// fail the calls whose sequence numbers are listed here (one shot each)
    pub fail_at: Vec<u64>,
    /// number of injected failures so far
    pub injected: u64,
    /// deliver a short (non-zero) count at the reads with these sequence
    /// numbers: (seq, mode) with mode 0 = 1 byte, 1 = half, 2 = all but one
    pub short_at: Vec<(u64, u8)>,
    /// set by `gate` when the current call was selected for a short count
    pub short_now: Option<u8>,
    /// chunking: when Some, split transfers and inject Interrupted
    pub chunk: Option<Rng>,
    /// log of raw calls (kind, offset, len) when enabled
    pub log: Option<Vec<(CallKind, u64, usize)>>,
}

fn kidx(k: CallKind) -> usize {
    match k {
        CallKind::Read => 0,
        CallKind::Write => 1,
        CallKind::Seek => 2,
        CallKind::Flush => 3,
    }
}

#[derive(Clone)]
pub struct SharedBuf {
    pub data: Arc<Mutex<Vec<u8>>>,
    pub ctl: Arc<Mutex<Ctl>>,
    pos: u64,
}

impl SharedBuf {
    pub fn new(bytes: Vec<u8>) -> SharedBuf {
        SharedBuf {
            data: Arc::new(Mutex::new(bytes)),
            ctl: Arc::new(Mutex::new(Ctl::default())),
            pos: 0,
        }
    }
    pub fn snapshot(&self) -> Vec<u8> {
        self.data.lock().unwrap().clone()
    }
    pub fn len(&self) -> usize {
        self.data.lock().unwrap().len()
    }
    /// Returns Err if this call is selected to fail.
    fn gate(&self, kind: CallKind, off: u64, len: usize) -> io::Result<()> {
        let mut ctl = self.ctl.lock().unwrap();
        ctl.calls[kidx(kind)] += 1;
        if let Some(log) = ctl.log.as_mut() {
            log.push((kind, off, len));
        }
        if ctl.fail_kinds[kidx(kind)] {
            let s = ctl.seq;
            ctl.seq += 1;
            if let Some(i) = ctl.short_at.iter().position(|&(k, _)| k == s) {
                let (_, m) = ctl.short_at.remove(i);
                if kind == CallKind::Read {
                    ctl.short_now = Some(m);
                    ctl.injected += 1;
                }
            }
            if let Some(i) = ctl.fail_at.iter().position(|&k| k == s) {
                ctl.fail_at.remove(i);
                ctl.injected += 1;
                return Err(io::Error::other("injected fault"));
            }
        }
        Ok(())
    }
    /// With chunking on: Ok(Some(n)) = transfer only n bytes, Err = Interrupted.
    fn chunk(&self, want: usize) -> io::Result<usize> {
        let mut ctl = self.ctl.lock().unwrap();
        if let Some(rng) = ctl.chunk.as_mut() {
            if want == 0 {
                return Ok(0);
            }
            let r = rng.below(10);
            if r == 0 {
                return Err(io::Error::new(
                    io::ErrorKind::Interrupted,
                    "spurious interrupt",
                ));
            }
            if r < 6 {
                return Ok(1 + rng.below(want as u64) as usize);
            }
        }
        Ok(want)
    }
}

impl Read for SharedBuf {
    fn read(&mut self, buf: &mut [u8]) -> io::Result<usize> {
        self.gate(CallKind::Read, self.pos, buf.len())?;
        let data = self.data.lock().unwrap();
        let start = (self.pos as usize).min(data.len());
        let avail = data.len() - start;
        let want = buf.len().min(avail);
        drop(data);
        let mut n = self.chunk(want)?;
        if let Some(m) = self.ctl.lock().unwrap().short_now.take() {
            if n > 1 {
                n = match m {
                    0 => 1,
                    1 => n / 2,
                    _ => n - 1,
                };
            }
        }
        let data = self.data.lock().unwrap();
        buf[..n].copy_from_slice(&data[start..start + n]);
        self.pos += n as u64;
        Ok(n)
    }
}

impl Write for SharedBuf {
    fn write(&mut self, buf: &[u8]) -> io::Result<usize> {
        self.gate(CallKind::Write, self.pos, buf.len())?;
        let n = self.chunk(buf.len())?;
        let mut data = self.data.lock().unwrap();
        let start = self.pos as usize;
        if n == 0 {
            return Ok(0);
        }
        if data.len() < start {
            data.resize(start, 0);
        }
        let end = start + n;
        if data.len() < end {
            data.resize(end, 0);
        }
        data[start..end].copy_from_slice(&buf[..n]);
        self.pos = end as u64;
        Ok(n)
    }
    fn flush(&mut self) -> io::Result<()> {
        self.gate(CallKind::Flush, self.pos, 0)
    }
}

impl Seek for SharedBuf {
    fn seek(&mut self, pos: SeekFrom) -> io::Result<u64> {
        self.gate(CallKind::Seek, self.pos, 0)?;
        let len = self.data.lock().unwrap().len() as i128;
        let np: i128 = match pos {
            SeekFrom::Start(d) => d as i128,
            SeekFrom::End(d) => len + d as i128,
            SeekFrom::Current(d) => self.pos as i128 + d as i128,
        };
        if np < 0 || np > u64::MAX as i128 {
            return Err(io::Error::new(
                io::ErrorKind::InvalidInput,
                "invalid seek to a negative or overflowing position",
            ));
        }
        self.pos = np as u64;
        Ok(self.pos)
    }
}
